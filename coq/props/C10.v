(* C10 -- bounding boxes contain the geometry and are tight.  Theorems only. *)
From LBG Require Import Base QGeom G0_vec G1_shapes G2_inter G3_poly G4_face G5_bound C10_bounds.
Open Scope Q_scope.

(* the min/max scan of every vertex-list class (Base2DIn2D._calculate_min_max, with its if/elif) *)
Theorem C10_polygon_min_max_is_scan : forall p v r, pg_vertices p = v :: r ->
  Base2DIn2D_min p = fst (box_of (v :: r)) /\ Base2DIn2D_max p = snd (box_of (v :: r)).
Proof. exact polygon_min_max_is_box. Qed.
Print Assumptions C10_polygon_min_max_is_scan.

(* min <= max, every vertex inside, every side of the box touched: any number of vertices *)
Theorem C10_box_contains_and_tight : forall l, l <> [] ->
  let '(mn, mx) := box_of l in
  v2x mn <= v2x mx /\ v2y mn <= v2y mx /\
  (forall p, In p l -> v2x mn <= v2x p <= v2x mx /\ v2y mn <= v2y p <= v2y mx) /\
  (exists p, In p l /\ v2x p = v2x mn) /\ (exists p, In p l /\ v2x p = v2x mx) /\
  (exists p, In p l /\ v2y p = v2y mn) /\ (exists p, In p l /\ v2y p = v2y mx).
Proof. exact box_contains_and_tight. Qed.
Print Assumptions C10_box_contains_and_tight.

Theorem C10_center_is_midpoint : forall p,
  Base2DIn2D_center p =2= mkV2 ((v2x (Base2DIn2D_min p) + v2x (Base2DIn2D_max p)) / 2)
                               ((v2y (Base2DIn2D_min p) + v2y (Base2DIn2D_max p)) / 2).
Proof. exact polygon_center_mid. Qed.
Print Assumptions C10_center_is_midpoint.

Theorem C10_segment_box_contains : forall l t, 0 <= t -> t <= 1 ->
  v2x (Base1DIn2D_min l) <= v2x (lr2p l) + t * v2x (lr2v l) <= v2x (Base1DIn2D_max l) /\
  v2y (Base1DIn2D_min l) <= v2y (lr2p l) + t * v2y (lr2v l) <= v2y (Base1DIn2D_max l).
Proof. exact segment_box_contains. Qed.
Print Assumptions C10_segment_box_contains.

Theorem C10_overlap_is_exact_gap_test : forall a b dist,
  overlapping_bounding_rect a b dist = true <->
  gap1 (v2x (Base2DIn2D_min a)) (v2x (Base2DIn2D_max a)) (v2x (Base2DIn2D_min b)) (v2x (Base2DIn2D_max b)) <= dist /\
  gap1 (v2y (Base2DIn2D_min a)) (v2y (Base2DIn2D_max a)) (v2y (Base2DIn2D_min b)) (v2y (Base2DIn2D_max b)) <= dist.
Proof. exact overlap_is_gap_test. Qed.
Print Assumptions C10_overlap_is_exact_gap_test.

Theorem C10_overlap_symmetric : forall a b dist, overlapping_bounding_rect a b dist = overlapping_bounding_rect b a dist.
Proof. exact overlap_symmetric. Qed.
Print Assumptions C10_overlap_symmetric.

(* collections: the x / y domain of a list of polygons is the hull of the members' boxes (contains each, both ends attained) *)
Theorem C10_bounding_domain_x_is_the_hull : forall g r,
  let res := bounding_domain_x (g :: r) in
  (forall h, In h (g :: r) -> fst res <= v2x (Base2DIn2D_min h) /\ v2x (Base2DIn2D_max h) <= snd res) /\
  (exists h, In h (g :: r) /\ fst res = v2x (Base2DIn2D_min h)) /\ (exists h, In h (g :: r) /\ snd res = v2x (Base2DIn2D_max h)).
Proof. exact bounding_domain_x_is_hull. Qed.
Print Assumptions C10_bounding_domain_x_is_the_hull.

Theorem C10_bounding_domain_y_is_the_hull : forall g r,
  let res := bounding_domain_y (g :: r) in
  (forall h, In h (g :: r) -> fst res <= v2y (Base2DIn2D_min h) /\ v2y (Base2DIn2D_max h) <= snd res) /\
  (exists h, In h (g :: r) /\ fst res = v2y (Base2DIn2D_min h)) /\ (exists h, In h (g :: r) /\ snd res = v2y (Base2DIn2D_max h)).
Proof. exact bounding_domain_y_is_hull. Qed.
Print Assumptions C10_bounding_domain_y_is_the_hull.

Theorem C10_segment3_box_contains : forall l t, 0 <= t -> t <= 1 ->
  v3x (Base1DIn3D_min l) <= v3x (lr3p l) + t * v3x (lr3v l) <= v3x (Base1DIn3D_max l) /\
  v3y (Base1DIn3D_min l) <= v3y (lr3p l) + t * v3y (lr3v l) <= v3y (Base1DIn3D_max l) /\
  v3z (Base1DIn3D_min l) <= v3z (lr3p l) + t * v3z (lr3v l) <= v3z (Base1DIn3D_max l).
Proof. exact segment3_box_contains. Qed.
Print Assumptions C10_segment3_box_contains.

Theorem C10_segment3_center_is_midpoint : forall l,
  Base1DIn3D_center l =3= mkV3 (v3x (lr3p l) + (1 # 2) * v3x (lr3v l)) (v3y (lr3p l) + (1 # 2) * v3y (lr3v l)) (v3z (lr3p l) + (1 # 2) * v3z (lr3v l)).
Proof. exact segment3_center_is_midpoint. Qed.
Print Assumptions C10_segment3_center_is_midpoint.

Theorem C10_sphere_box_contains_the_ball : forall s q, 0 <= sp_r s -> sqd3 q (sp_c s) <= sp_r s * sp_r s ->
  v3x (Sphere_min s) <= v3x q <= v3x (Sphere_max s) /\ v3y (Sphere_min s) <= v3y q <= v3y (Sphere_max s) /\
  v3z (Sphere_min s) <= v3z q <= v3z (Sphere_max s).
Proof. exact sphere_box_contains. Qed.
Print Assumptions C10_sphere_box_contains_the_ball.

Example C10_nonvacuous :
  Base2DIn2D_min (mkPolygon2 [mkV2 3 1; mkV2 0 2; mkV2 5 (-1); mkV2 2 7]) = mkV2 0 (-1) /\
  Base2DIn2D_max (mkPolygon2 [mkV2 3 1; mkV2 0 2; mkV2 5 (-1); mkV2 2 7]) = mkV2 5 7.
Proof. split; vm_compute; reflexivity. Qed.

(* oriented bounds (axis_angle <> 0) first turn every member about the vertical: direction vectors (segments, rays, cone / cylinder axes,
   plane normals) go through the generated Vector3D.rotate_xy, which keeps the vertical component and the length *)
From LBG Require Import C10_rotxy.
Theorem C10_turning_about_the_vertical_keeps_height_and_length : forall qcos qsin v a,
  v3z (Vector3D_rotate_xy qcos qsin v a) = v3z v /\
  ((qcos a * qcos a + qsin a * qsin a == 1)%Q ->
   (dot3 (Vector3D_rotate_xy qcos qsin v a) (Vector3D_rotate_xy qcos qsin v a) == dot3 v v)%Q).
Proof. intros. split; [apply rotate_xy_keeps_the_vertical_component | apply rotate_xy_keeps_the_length]. Qed.
Print Assumptions C10_turning_about_the_vertical_keeps_height_and_length.
