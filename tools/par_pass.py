#!/venv/bin/python
"""par_pass.py [--tier quick|thorough] [--seeds 0,1] [--jobs N]  -- run every registered check on the UNCHANGED tree, several at a
time, each in its own scratch copy of /verif under /tmp (so builds do not collide); prints one line per (property, seed) and every
VIOLATION / KNOWN-FINDING line.  Convenience only: nothing here is registered in MANIFEST.json."""
import os, subprocess, sys, time
from concurrent.futures import ThreadPoolExecutor
ROOT = os.path.dirname(os.path.dirname(os.path.abspath(__file__)))


def sh(cmd, cwd=None, env=None):
    p = subprocess.run(cmd, shell=True, cwd=cwd, env=env, stdout=subprocess.PIPE, stderr=subprocess.STDOUT, text=True)
    return p.returncode, p.stdout


def worker(j, items, tier):
    vr = '/tmp/vp%d' % j
    sh('rm -rf %s; rsync -a --exclude .git --exclude replays --exclude work %s/ %s/' % (vr, ROOT, vr))
    out = []
    for pid, seed in items:
        t0 = time.time()
        rc, o = sh('./check %s --tier %s' % (pid, tier), cwd=vr, env=dict(os.environ, VERIF_SEED=str(seed)))
        lines = [l for l in o.splitlines() if l.startswith(('VIOLATION', 'KNOWN-FINDING', '    '))]
        print('%s seed=%s exit=%d (%.0fs) %s' % (pid, seed, rc, time.time() - t0, o.splitlines()[-1] if o.splitlines() else ''), flush=True)
        for l in lines:
            if not l.startswith('KNOWN-FINDING') or rc != 0:
                print('   ', l[:220], flush=True)
        out.append((pid, seed, rc))
    sh('rm -rf %s' % vr)
    return out


if __name__ == '__main__':
    a = sys.argv[1:]
    tier = a[a.index('--tier') + 1] if '--tier' in a else 'quick'
    seeds = [int(x) for x in a[a.index('--seeds') + 1].split(',')] if '--seeds' in a else [0]
    jobs = int(a[a.index('--jobs') + 1]) if '--jobs' in a else 4
    items = [('C%02d' % i, s) for s in seeds for i in range(1, 21)]
    # longest first (rough): C05, C19, C09, C06 ...
    order = {'C05': 0, 'C19': 1, 'C09': 2, 'C06': 3, 'C04': 4}
    items.sort(key=lambda t: order.get(t[0], 9))
    parts = [items[i::jobs] for i in range(jobs)]
    with ThreadPoolExecutor(jobs) as ex:
        res = [r for part in ex.map(lambda t: worker(t[0], t[1], tier), enumerate(parts)) for r in part]
    bad = [r for r in res if r[2] != 0]
    print('DONE: %d runs, %d non-zero exits %s' % (len(res), len(bad), bad))
