(* C03 -- memoised values are never stale, for all histories.  Theorems only. *)
From Coq Require Import String List ZArith Bool.
From LBG Require Import Base QGeom ListCyc G0_vec G1_shapes G2_inter G3_poly C02_kernels C01_area Cache X_xfer C03_laws C03_polygon A_audit C14_pure.
Import ListNotations.

(* generic: with sound steps, after ANY history (any length) the observed value is the fresh value *)
Theorem C03_no_history_makes_a_memo_stale : forall (D V : Type) (fresh : D -> V) (veq : V -> V -> Prop),
  (forall v, veq v v) -> forall h : list (step D V), Forall (sound D V fresh veq) h ->
  forall d, veq (observe D V fresh (run D V h (d, None))) (fresh (fst (run D V h (d, None)))).
Proof. exact observed_value_is_fresh. Qed.
Print Assumptions C03_no_history_makes_a_memo_stale.

(* finite and exhaustive over the tables regenerated from the source: every transferred slot of every
   copying/transforming operation of the 7 classes changes as its fresh value does *)
Theorem C03_all_transfers_respect_laws : forallb row_ok xfer_table = true.
Proof. exact all_transfers_respect_laws. Qed.
Print Assumptions C03_all_transfers_respect_laws.

Theorem C03_table_nontrivial : (20 <=? length (filter (fun r => negb (Nat.eqb (length (snd r)) 0)) xfer_table))%nat = true.
Proof. exact xfer_table_nontrivial. Qed.
Print Assumptions C03_table_nontrivial.

(* the laws used for Polygon2D's signed area are theorems about the generated geometry *)
Theorem C03_polygon_area_never_stale : forall h : list (step Polygon2R Q), Forall poly_step h ->
  forall p, (observe Polygon2R Q fresh_area (run Polygon2R Q h (p, None))
            == fresh_area (fst (run Polygon2R Q h (p, None))))%Q.
Proof. exact polygon_area_never_stale. Qed.
Print Assumptions C03_polygon_area_never_stale.

(* the repaired defect, as a theorem: copying the signed area across reverse is unsound *)
Theorem C03_reverse_must_negate : forall p, ~ (shoelace2 (pg_vertices p) == 0)%Q ->
  ~ sound Polygon2R Q fresh_area Qeq {| sf := Polygon2D_reverse; sg := fun o => o |}.
Proof. exact reverse_copy_unsound. Qed.
Print Assumptions C03_reverse_must_negate.

(* a memo slot of the receiver is only ever filled by a member without parameters (properties and their private helpers): what it holds
   is a function of the defining data alone, never of the arguments of some earlier call (generated audit, see gen/A_audit.v) *)
Theorem C03_memo_slots_are_filled_only_by_parameter_free_members : receiver_writes_in_parameterised_members = [].
Proof. exact no_parameterised_member_stores_on_its_receiver. Qed.
Print Assumptions C03_memo_slots_are_filled_only_by_parameter_free_members.

From LBG Require Import Base QGeom G0_vec G1_shapes.
From Coq Require Import QArith Morphisms.

(* Face3D.move hands the cached polygon2d / mesh2d to the moved face: the moved plane (generated Plane.move) keeps its axes, so a 2D point cached in the plane frame maps through the MOVED plane onto the
   moved 3D point, and a moved point keeps its 2D coordinates *)
From LBG Require Import C06_plane C02_planes C03_planemove.
Theorem C03_cached_plane_coordinates_survive_a_move : forall qsqrt (sqrt_proper : Proper (Qeq ==> Qeq) qsqrt) (sqrt_one : (qsqrt 1 == 1)%Q) p m,
  frame_ok p ->
  (forall q, Plane_xy_to_xyz (Plane_move qsqrt p m) q =3= Point3D_move (Plane_xy_to_xyz p q) m) /\
  (forall r, Plane_xyz_to_xy (Plane_move qsqrt p m) (Point3D_move r m) =2= Plane_xyz_to_xy p r).
Proof.
  intros qsqrt sp so p m F. split; [intros q; apply cached_2d_point_maps_to_the_moved_point; assumption | intros r; apply moved_point_keeps_its_2d_coordinates; assumption].
Qed.
Print Assumptions C03_cached_plane_coordinates_survive_a_move.
