"""C13  serialisation round trips and equality / hash are value-consistent."""
import json, math, struct
from fractions import Fraction
from .. import core, gens as G, exact as X, build as Bd
from ..build import P2, V2, P3, V3
from ladybug_geometry.dictutil import geometry_dict_to_object
from ladybug_geometry.geometry2d import Vector2D, Point2D, Polygon2D, LineSegment2D, Ray2D, Mesh2D, Polyline2D, Arc2D
from ladybug_geometry.geometry3d import (Vector3D, Point3D, Plane, Face3D, Polyface3D, Mesh3D, LineSegment3D, Ray3D, Arc3D,
                                         Polyline3D, Sphere, Cone, Cylinder)

RULE = ('all 21 dispatcher types x random instances with full-precision doubles (not short decimals), optional fields present and '
        'absent (plane, holes, interpolated, colors, edge_information), nested planes in arbitrary orientation; distinct by '
        '(type, optional-field pattern, route: dict / json / dispatcher / array / duplicate)')
ASSUMPTIONS = ['mesh colours are not exercised (ladybug.color is not installed here)', 'unit-vector fields may differ by <= 2 ulp after a round trip (they are re-normalised on construction)']
TRUSTED = ['CPython float repr round-trips doubles through JSON text exactly']


def fp(x):
    """make a full-precision double out of a dyadic one"""
    return x * (1 + 2.0 ** -30) + 1e-7 / 3


def full(t):
    return tuple(fp(c) for c in t)


def make_full(rng, cls):
    """random instance with full-precision coordinates and optional fields toggled"""
    if cls == 'Vector2D': return Vector2D(*full(G.rvec2(rng)))
    if cls == 'Point2D': return Point2D(*full(G.rpt2(rng)))
    if cls == 'Vector3D': return Vector3D(*full(G.rvec3(rng)))
    if cls == 'Point3D': return Point3D(*full(G.rpt3(rng)))
    if cls == 'Ray2D': return Ray2D(Point2D(*full(G.rpt2(rng))), Vector2D(*full(G.rvec2(rng))))
    if cls == 'LineSegment2D': return LineSegment2D(Point2D(*full(G.rpt2(rng))), Vector2D(*full(G.rvec2(rng))))
    if cls == 'Ray3D': return Ray3D(Point3D(*full(G.rpt3(rng))), Vector3D(*full(G.rvec3(rng))))
    if cls == 'LineSegment3D': return LineSegment3D(Point3D(*full(G.rpt3(rng))), Vector3D(*full(G.rvec3(rng))))
    if cls == 'Plane':
        n = Vector3D(*full(G.rvec3(rng)))
        if rng.random() < 0.5:
            return Plane(n, Point3D(*full(G.rpt3(rng))))
        x = Vector3D(*full(G.rvec3(rng))).cross(n)
        return Plane(n, Point3D(*full(G.rpt3(rng))), x)
    if cls == 'Arc2D':
        a1, a2 = Bd.arc_angles(rng)
        return Arc2D(Point2D(*full(G.rpt2(rng))), fp(rng.uniform(0.5, 20)), a1, a2)
    if cls == 'Arc3D':
        a1, a2 = Bd.arc_angles(rng)
        return Arc3D(make_full(rng, 'Plane'), fp(rng.uniform(0.5, 20)), a1, a2)
    if cls == 'Polyline2D':
        return Polyline2D([Point2D(*full(G.rpt2(rng))) for _ in range(rng.randint(3, 7))], rng.random() < 0.5)
    if cls == 'Polyline3D':
        return Polyline3D([Point3D(*full(G.rpt3(rng))) for _ in range(rng.randint(3, 7))], rng.random() < 0.5)
    if cls == 'Polygon2D':
        return Polygon2D([Point2D(*full(p)) for p in G.star_polygon(rng)])
    if cls in ('Mesh2D', 'Mesh3D'):
        v, f = Bd.tri_quad_mesh2d(rng)
        cols = None     # colours are ladybug.color.Color objects: the ladybug core package is not installed in this sandbox
        if cls == 'Mesh2D':
            return Mesh2D([Point2D(*full(p)) for p in v], f, cols)
        return Mesh3D([Point3D(*full((p[0], p[1], p[0] * 0.3 - p[1] * 0.1))) for p in v], f, cols)
    if cls == 'Face3D':
        nh = rng.choice([0, 0, 1, 2])
        face = Bd.face3d(rng, nholes=nh)
        mv = Vector3D(*full((0.1, 0.2, 0.3)))
        face = face.move(mv)
        if rng.random() < 0.3:
            # a small face (a few centimetres across, edges of millimetres) somewhere in the model
            face = face.scale(rng.choice([0.002, 0.0005]), face.center)
        if rng.random() < 0.5:
            return Face3D(face.boundary, face.plane, face.holes)
        return face
    if cls == 'Polyface3D':
        pf = Bd.make(rng, 'Polyface3D').move(Vector3D(*full((0.1, 0.2, 0.3))))
        return pf
    if cls == 'Sphere': return Sphere(Point3D(*full(G.rpt3(rng))), fp(rng.uniform(0.5, 20)))
    if cls == 'Cone': return Cone(Point3D(*full(G.rpt3(rng))), Vector3D(*full(G.rvec3(rng))), fp(rng.uniform(0.1, 1.4)))
    if cls == 'Cylinder': return Cylinder(Point3D(*full(G.rpt3(rng))), Vector3D(*full(G.rvec3(rng))), fp(rng.uniform(0.5, 20)))
    raise KeyError(cls)


UNIT_KEYS = {'n', 'x'}          # plane normal / x axis: unit vectors re-normalised on construction


def ulps(a, b):
    if a == b:
        return 0
    ia = struct.unpack('<q', struct.pack('<d', a))[0]
    ib = struct.unpack('<q', struct.pack('<d', b))[0]
    if (ia < 0) != (ib < 0):
        return 10 ** 9
    return abs(ia - ib)


def cmp_dict(a, b, path='', unit=False):
    """first difference between two to_dict() structures, or None.  floats bitwise, unit-vector fields within 2 ulp"""
    if isinstance(a, dict) and isinstance(b, dict):
        if set(a) != set(b):
            return '%s: keys %s vs %s' % (path, sorted(a), sorted(b))
        for k in a:
            r = cmp_dict(a[k], b[k], path + '.' + k, unit or k in UNIT_KEYS)
            if r: return r
        return None
    if isinstance(a, (list, tuple)) and isinstance(b, (list, tuple)):
        if len(a) != len(b):
            return '%s: length %d vs %d' % (path, len(a), len(b))
        for i, (x, y) in enumerate(zip(a, b)):
            r = cmp_dict(x, y, '%s[%d]' % (path, i), unit)
            if r: return r
        return None
    if isinstance(a, float) or isinstance(b, float):
        if isinstance(a, bool) or isinstance(b, bool) or a is None or b is None:
            return '%s: %r vs %r' % (path, a, b)
        u = ulps(float(a), float(b))
        if u > (2 if unit else 0):
            return '%s: %r vs %r (%d ulp)' % (path, a, b, u)
        return None
    if a != b:
        return '%s: %r vs %r' % (path, a, b)
    return None


def fam_small_faces(ctx, rng):
    """faces a few centimetres or millimetres across (edges >= 1e-3), facing up and down, with and without holes, through every route"""
    face = Bd.face3d(rng, nholes=rng.choice([0, 0, 1]), n=rng.choice([3, 4, 5, 6]))
    face = face.scale(rng.choice([0.002, 0.001, 0.0005]), face.center)
    if rng.random() < 0.5:
        face = face.flip()
    if rng.random() < 0.5:
        face = Face3D(face.boundary, None, face.holes)
    fam_roundtrip(ctx, rng, force=face)


def fam_roundtrip(ctx, rng, special=None, force=None):
    cls = rng.choice(Bd.ALL_CLASSES) if force is None else type(force).__name__
    o = make_full(rng, cls) if force is None else force
    if special:
        # arcs whose start / end angle is exactly 0.0 (the end of the documented range 0 <= a <= 2 pi)
        cls, which = special
        r_ = fp(rng.uniform(0.5, 20)); other = rng.uniform(0.5, 5.5)
        a1, a2 = {'a2': (other, 0.0), 'a1': (0.0, other), 'a2=2pi': (other, 2 * math.pi), 'a1=2pi': (2 * math.pi, other)}[which]
        o = Arc2D(Point2D(*full(G.rpt2(rng))), r_, a1, a2) if cls == 'Arc2D' else Arc3D(make_full(rng, 'Plane'), r_, a1, a2)
    d = o.to_dict()
    opt = tuple(sorted(k for k in d if k in ('plane', 'holes', 'interpolated', 'colors', 'edge_information', 'x')))
    desc = {'class': cls, 'dict': d}
    ctx.count('roundtrip.' + cls, key=opt, sample={'class': cls, 'optional': opt})
    routes = {}
    try:
        routes['dict'] = type(o).from_dict(d)
        routes['json'] = type(o).from_dict(json.loads(json.dumps(d)))
        routes['dispatcher'] = geometry_dict_to_object(json.loads(json.dumps(d)))
        if hasattr(o, 'to_array') and hasattr(type(o), 'from_array') and cls not in ('Mesh2D', 'Mesh3D', 'Polyface3D'):
            routes['array'] = type(o).from_array(o.to_array())
    except Exception as e:
        ctx.violation('roundtrip:%s:raises' % cls, '%r' % (e,), desc); return
    if cls == 'Face3D':
        # the description WITHOUT the optional plane entry: boundary, holes and the facing direction still come back
        try:
            dn = o.to_dict(include_plane=False)
            for route, mk in (('dict_no_plane', Face3D.from_dict), ('dispatcher_no_plane', geometry_dict_to_object)):
                rn = mk(json.loads(json.dumps(dn)))
                diff = cmp_dict(json.loads(json.dumps(dn)), json.loads(json.dumps(rn.to_dict(include_plane=False))), cls)
                if diff is None and rn.normal.dot(o.normal) < 1 - 1e-9:
                    diff = 'normal %r, the described face has %r' % (rn.normal, o.normal)
                if diff:
                    ctx.violation('roundtrip:Face3D:%s:data' % route, 'without the plane entry: %s' % diff, desc); break
        except Exception as e:
            ctx.violation('roundtrip:Face3D:no_plane:raises', '%r' % (e,), desc)
    for route, r in routes.items():
        if type(r) is not type(o):
            ctx.violation('roundtrip:%s:%s:type' % (cls, route), 'got a %s' % type(r).__name__, desc); continue
        if route == 'array':
            # arrays carry only coordinates: compare the array forms
            diff = cmp_dict(list(map(list_, [o.to_array()])), list(map(list_, [r.to_array()])), cls, unit=(cls == 'Plane'))
        else:
            diff = cmp_dict(d, r.to_dict(), cls)
        if diff:
            ctx.violation('roundtrip:%s:%s:data' % (cls, route), 'defining data changed: %s' % diff, desc)
    # reading some OTHER, nearly identical description first must not influence what this one is rebuilt as (one differing
    # coordinate; the same plane turned about its own normal; the optional plane x axis left out)
    sibs = []
    for delta in (1.0, 2.0 ** -20):
        d2 = json.loads(json.dumps(d))
        if nudge(d2, rng, delta):
            sibs.append(('coordinate', d2))
    pd = d if cls == 'Plane' else d.get('plane')
    if isinstance(pd, dict) and pd.get('x') is not None:
        n_, x_ = pd['n'], pd['x']
        y_ = (n_[1] * x_[2] - n_[2] * x_[1], n_[2] * x_[0] - n_[0] * x_[2], n_[0] * x_[1] - n_[1] * x_[0])
        ang = rng.uniform(0.3, 2.8); c_, s_ = math.cos(ang), math.sin(ang)
        d2 = json.loads(json.dumps(d)); (d2 if cls == 'Plane' else d2['plane'])['x'] = [c_ * x_[i] + s_ * y_[i] for i in range(3)]
        sibs.append(('plane_turned', d2))
        d3 = json.loads(json.dumps(d)); (d3 if cls == 'Plane' else d3['plane']).pop('x')
        sibs.append(('plane_x_left_out', d3))
    unrelated = make_full(rng, cls).to_dict() if sibs else None
    for what, sib in sibs:
        for route in ('dict', 'dispatcher'):
            try:
                if rng.random() < 0.7:      # something unrelated was read before the pair
                    (type(o).from_dict if route == 'dict' else geometry_dict_to_object)(json.loads(json.dumps(unrelated)))
                (type(o).from_dict if route == 'dict' else geometry_dict_to_object)(json.loads(json.dumps(sib)))
            except Exception:
                continue
            try:
                r = (type(o).from_dict if route == 'dict' else geometry_dict_to_object)(json.loads(json.dumps(d)))
            except Exception as e:
                ctx.violation('roundtrip:%s:after_sibling:raises' % cls, '%r' % (e,), desc); return
            diff = cmp_dict(json.loads(json.dumps(d)), json.loads(json.dumps(r.to_dict())), cls)
            if diff:
                ctx.violation('roundtrip:%s:after_sibling:%s' % (cls, what), 'rebuilt right after a description that differs only in %s, the defining data '
                              'changed: %s' % (what, diff), dict(desc, sibling=sib)); return


def list_(x):
    if isinstance(x, (tuple, list)):
        return [list_(y) for y in x]
    return x


def fam_equality(ctx, rng):
    cls = rng.choice(Bd.ALL_CLASSES)
    o = make_full(rng, cls)
    desc = {'class': cls, 'dict': o.to_dict()}
    ctx.count('equality.' + cls, key=cls)
    dup = o.duplicate()
    try:
        hash(o); hash(dup); o == dup
    except Exception as e:
        ctx.violation('eq:%s:hash_raises' % cls, 'hash() / == of a valid object raised %r' % (e,), desc); return
    if not (o == o):
        ctx.violation('eq:%s:reflexive' % cls, 'x != x', desc); return
    if not (dup == o) or not (o == dup):
        ctx.violation('eq:%s:duplicate' % cls, 'duplicate() != x', desc); return
    if hash(dup) != hash(o):
        ctx.violation('eq:%s:duplicate_hash' % cls, 'hash(duplicate()) != hash(x)', desc); return
    # a rebuilt equal object has an equal hash
    r = type(o).from_dict(o.to_dict())
    if r == o and hash(r) != hash(o):
        ctx.violation('eq:%s:hash' % cls, 'equal objects with different hashes', desc); return
    # != is the negation of == (same object, duplicate, rebuilt)
    for b_, what in ((o, 'itself'), (dup, 'duplicate'), (r, 'rebuilt')):
        if (o != b_) == (o == b_) or (b_ != o) == (b_ == o):
            ctx.violation('eq:%s:ne_inconsistent' % cls, '== and != agree on the object and its %s' % what, desc); return
    # the sibling class with the very same vertices, and the same polyline with the other `interpolated` flag, are different objects
    sib = None
    if cls == 'Polygon2D': sib = Polyline2D(o.vertices)
    elif cls == 'Polyline2D': sib = rng.choice([Polygon2D(o.vertices), Polyline2D(o.vertices, not o.interpolated)])
    elif cls == 'Polyline3D': sib = Polyline3D(o.vertices, not o.interpolated)
    elif cls == 'LineSegment2D': sib = Ray2D(o.p, o.v)
    elif cls == 'LineSegment3D': sib = Ray3D(o.p, o.v)
    elif cls == 'Ray2D': sib = LineSegment2D(o.p, o.v)
    elif cls == 'Ray3D': sib = LineSegment3D(o.p, o.v)
    elif cls == 'Cone': sib = Cylinder(o.vertex, o.axis, o.angle)
    elif cls == 'Cylinder': sib = Cone(o.center, o.axis, min(1.5, o.radius))
    if sib is not None:
        if (o == sib) or (sib == o) or not (o != sib) or not (sib != o):
            ctx.violation('eq:%s:same_data_sibling' % cls, 'a %s with the same defining values: == gives %r / %r, != gives %r / %r' % (
                type(sib).__name__ + ('' if type(sib) is not type(o) else ' with the other flag'), o == sib, sib == o, o != sib, sib != o), desc); return
    # another shape class compares unequal
    other = make_full(rng, rng.choice([c for c in Bd.ALL_CLASSES if c != cls]))
    pv = {('Point2D', 'Vector2D'), ('Vector2D', 'Point2D'), ('Point3D', 'Vector3D'), ('Vector3D', 'Point3D')}
    if (o == other) and (cls, type(other).__name__) not in pv:
        ctx.violation('eq:%s:other_class' % cls, 'equal to a %s' % type(other).__name__, desc); return
    if (o != other) == (o == other):
        ctx.violation('eq:%s:ne_inconsistent' % cls, '== and != agree against a %s' % type(other).__name__, desc); return
    # any differing coordinate makes it unequal: nudge one defining coordinate by one ulp-ish amount and by an integer
    d = o.to_dict()
    if cls == 'Face3D' and d.get('holes'):
        return      # a single nudged coordinate leaves the plane; faces with holes are stored projected into their plane
    for delta in (1.0, 2.0 ** -20):
        d2 = json.loads(json.dumps(d))
        if not nudge(d2, rng, delta):
            continue
        try:
            m = type(o).from_dict(d2)
        except Exception:
            continue
        if cmp_dict(d, m.to_dict(), cls) is None:
            continue
        if m == o:
            ctx.violation('eq:%s:differing_coordinate' % cls, 'objects with a differing coordinate compare equal (changed by %r)' % delta,
                          dict(desc, other=d2)); return
        if (m == o) != (o == m):
            ctx.violation('eq:%s:symmetric' % cls, 'a == b differs from b == a', desc); return
        if (m != o) == (m == o) or (o != m) == (o == m):
            ctx.violation('eq:%s:ne_inconsistent' % cls, '== and != agree on objects with a differing coordinate', desc); return
    if cls in ('Point2D', 'Point3D'):
        v = (Vector2D if cls == 'Point2D' else Vector3D)(*tuple(o))
        if not (o == v and v == o and hash(o) == hash(v)):
            ctx.violation('eq:%s:point_vector' % cls, 'a point and the vector with equal coordinates are not equal / hash differently', desc)


def nudge(d, rng, delta):
    """change one float coordinate somewhere in the dict (not inside unit vectors / angles)"""
    paths = []
    def walk(x, path):
        if isinstance(x, dict):
            for k, v in x.items():
                if k in ('type', 'n', 'x', 'a1', 'a2', 'angle', 'colors', 'face_indices', 'faces', 'edge_information', 'interpolated', 'axis'):
                    continue
                walk(v, path + [k])
        elif isinstance(x, list):
            for i, v in enumerate(x):
                walk(v, path + [i])
        elif isinstance(x, float):
            paths.append(path)
    walk(d, [])
    if not paths:
        return False
    p = rng.choice(paths)
    cur = d
    for k in p[:-1]:
        cur = cur[k]
    cur[p[-1]] = cur[p[-1]] + delta
    return True


def fam_integer_coordinates(ctx, rng, cls=None):
    """hash(-1.0) == hash(-2.0) in CPython: objects keyed by hashes of coordinates must still be told apart"""
    cls = cls or rng.choice(['Polygon2D', 'Polyline2D', 'Polyline3D', 'LineSegment2D', 'LineSegment3D', 'Ray2D', 'Ray3D', 'Mesh2D', 'Mesh3D',
                      'Polyface3D', 'Face3D', 'Arc3D'])
    def build(c):
        if cls == 'Polygon2D': return Polygon2D([Point2D(0, 0), Point2D(4, 0), Point2D(4, c)])
        if cls == 'Polyline2D': return Polyline2D([Point2D(0, 0), Point2D(4, 0), Point2D(4, c)])
        if cls == 'Polyline3D': return Polyline3D([Point3D(0, 0, 0), Point3D(4, 0, 0), Point3D(4, c, 0)])
        if cls == 'LineSegment2D': return LineSegment2D(Point2D(0, c), Vector2D(1, 1))
        if cls == 'LineSegment3D': return LineSegment3D(Point3D(0, c, 0), Vector3D(1, 1, 0))
        if cls == 'Ray2D': return Ray2D(Point2D(0, c), Vector2D(1, 1))
        if cls == 'Ray3D': return Ray3D(Point3D(0, c, 0), Vector3D(1, 1, 0))
        if cls == 'Mesh2D': return Mesh2D([Point2D(0, 0), Point2D(4, 0), Point2D(4, c)], [(0, 1, 2)])
        if cls == 'Mesh3D': return Mesh3D([Point3D(0, 0, 0), Point3D(4, 0, 0), Point3D(4, c, 0)], [(0, 1, 2)])
        if cls == 'Face3D': return Face3D([Point3D(0, 0, 0), Point3D(4, 0, 0), Point3D(4, c, 0)])
        if cls == 'Arc3D': return Arc3D(Plane(Vector3D(0, 0, 1), Point3D(0, c, 0)), 1.0, 0.0, 1.0)
        return Polyface3D([Point3D(0, 0, 0), Point3D(4, 0, 0), Point3D(4, c, 0)], [[(0, 1, 2)]])
    a, b = build(-1.0), build(-2.0)
    ctx.count('equality.hash_collision', key=cls, sample={'class': cls})
    if a == b:
        ctx.violation('eq:%s:hash_keyed' % cls, 'objects differing in a coordinate -1.0 vs -2.0 compare equal (key built from hash() of coordinates)',
                      {'class': cls, 'a': a.to_dict(), 'b': b.to_dict()})


ZERO_CLASSES = ['Vector2D', 'Point2D', 'Vector3D', 'Point3D', 'Polygon2D', 'Polyline2D', 'Polyline3D', 'LineSegment2D', 'LineSegment3D', 'Ray2D',
                'Ray3D', 'Mesh2D', 'Mesh3D', 'Polyface3D', 'Face3D', 'Arc3D', 'Plane', 'Sphere', 'Cylinder', 'Cone']


def fam_signed_zero(ctx, rng, cls=None):
    """0.0 == -0.0: two objects that differ only in the sign of a zero coordinate (as results of reverse / flip / reflect do) compare
    equal, so they must hash equal"""
    cls = cls or rng.choice(ZERO_CLASSES)
    def build(c):
        if cls == 'Vector2D': return Vector2D(3.0, c)
        if cls == 'Point2D': return Point2D(c, 3.0)
        if cls == 'Vector3D': return Vector3D(3.0, c, 1.0)
        if cls == 'Point3D': return Point3D(3.0, 1.0, c)
        if cls == 'Polygon2D': return Polygon2D([Point2D(c, 0), Point2D(4, c), Point2D(4, 3)])
        if cls == 'Polyline2D': return Polyline2D([Point2D(c, 0), Point2D(4, c), Point2D(4, 3)])
        if cls == 'Polyline3D': return Polyline3D([Point3D(0, 0, c), Point3D(4, c, 0), Point3D(4, 3, 0)])
        if cls == 'LineSegment2D': return LineSegment2D(Point2D(c, 1), Vector2D(1, c))
        if cls == 'LineSegment3D': return LineSegment3D(Point3D(c, 1, 0), Vector3D(1, 1, c))
        if cls == 'Ray2D': return Ray2D(Point2D(c, 1), Vector2D(1, c))
        if cls == 'Ray3D': return Ray3D(Point3D(c, 1, 0), Vector3D(1, 1, c))
        if cls == 'Mesh2D': return Mesh2D([Point2D(c, 0), Point2D(4, c), Point2D(4, 3)], [(0, 1, 2)])
        if cls == 'Mesh3D': return Mesh3D([Point3D(0, 0, c), Point3D(4, 0, c), Point3D(4, 3, 0)], [(0, 1, 2)])
        if cls == 'Face3D': return Face3D([Point3D(0, 0, c), Point3D(4, 0, c), Point3D(4, 3, c)])
        if cls == 'Arc3D': return Arc3D(Plane(Vector3D(0, 0, 1), Point3D(c, 1, c)), 1.0, 0.0, 1.0)
        if cls == 'Plane': return Plane(Vector3D(c, 0, 1), Point3D(1, c, 2))
        if cls == 'Sphere': return Sphere(Point3D(c, 1, 2), 2.0)
        if cls == 'Cylinder': return Cylinder(Point3D(c, 1, 2), Vector3D(0, c, 2), 1.5)
        if cls == 'Cone': return Cone(Point3D(c, 1, 2), Vector3D(0, c, 2), 0.5)
        return Polyface3D([Point3D(0, 0, c), Point3D(4, 0, c), Point3D(4, 3, 0)], [[(0, 1, 2)]])
    a, b = build(0.0), build(-0.0)
    ctx.count('equality.signed_zero', key=cls, sample={'class': cls})
    if (a == b) != (b == a):
        ctx.violation('eq:%s:signed_zero:symmetric' % cls, 'a == b differs from b == a for objects differing in the sign of a zero', {'class': cls}); return
    if a == b and hash(a) != hash(b):
        ctx.violation('eq:%s:signed_zero:hash' % cls, 'objects that differ only in the sign of a zero coordinate compare equal but hash differently',
                      {'class': cls, 'a': a.to_dict(), 'b': b.to_dict()}); return
    # the same through operations that produce -0.0
    if cls == 'Vector3D':
        r, d = Vector3D(3.0, 0.0, 1.0).reverse(), Vector3D(-3.0, 0.0, -1.0)
        if r == d and hash(r) != hash(d):
            ctx.violation('eq:Vector3D:signed_zero:reverse', 'reverse() of a vector with a zero component equals the directly built vector but hashes differently', {'class': cls})
    if cls == 'Plane':
        r, d = Plane(Vector3D(0, 0, 1), Point3D(1, 2, 3)).flip(), Plane(Vector3D(0, 0, -1), Point3D(1, 2, 3), Vector3D(1, 0, 0))
        if r == d and hash(r) != hash(d):
            ctx.violation('eq:Plane:signed_zero:flip', 'flip() of a horizontal plane equals the directly built plane but hashes differently', {'class': cls})


FAMILIES = [(fam_roundtrip, 130), (fam_small_faces, 40), (fam_equality, 130), (fam_integer_coordinates, 22), (fam_signed_zero, 20)]


def explore(ctx):
    for cls in ('Polygon2D', 'Polyline2D', 'Polyline3D', 'LineSegment2D', 'LineSegment3D', 'Ray2D', 'Ray3D', 'Mesh2D', 'Mesh3D', 'Polyface3D',
                'Face3D', 'Arc3D'):
        fam_integer_coordinates(ctx, ctx.rng, cls)       # the hash-collision probe, every class on every run
    for cls in ZERO_CLASSES:
        fam_signed_zero(ctx, ctx.rng, cls)               # the signed-zero probe, every class on every run
    # factory-built polyfaces (their connectivity is handed over as tuples of lists / lists of tuples): hashable, == duplicate, == JSON round trip
    for mk, nm in ((lambda: Polyface3D.from_box(2.0, 3.0, 4.0), 'from_box'),
                   (lambda: Polyface3D.from_offset_face(Face3D([Point3D(0, 0, 0), Point3D(4, 0, 0), Point3D(4, 3, 0), Point3D(0, 3, 0)]), 2.0), 'from_offset_face'),
                   (lambda: Polyface3D([Point3D(0, 0, 0), Point3D(4, 0, 0), Point3D(4, 3, 0)], ([[0, 1, 2]],)), 'tuple_of_lists')):
        try:
            pf = mk()
            ctx.count('equality.polyface_factory', key=nm, sample={'factory': nm})
            back = Polyface3D.from_dict(json.loads(json.dumps(pf.to_dict())))
            if hash(pf) != hash(pf.duplicate()) or not (pf == pf.duplicate()) or not (back == pf) or hash(back) != hash(pf):
                ctx.violation('eq:Polyface3D:%s' % nm, 'a %s polyface is not equal (or hashes differently) to its duplicate / JSON round trip' % nm, {'factory': nm})
        except Exception as e:
            ctx.violation('eq:Polyface3D:%s:raises' % nm, 'hash / == / round trip of a %s polyface raised %r' % (nm, e), {'factory': nm})
    for sp in (('Arc2D', 'a1'), ('Arc2D', 'a2'), ('Arc3D', 'a1'), ('Arc3D', 'a2'), ('Arc2D', 'a2=2pi'), ('Arc3D', 'a2=2pi'), ('Arc2D', 'a1=2pi'),
               ('Arc3D', 'a1=2pi')):
        fam_roundtrip(ctx, ctx.rng, sp)                  # arcs starting / ending exactly at angle 0, every run
    for fn, n in FAMILIES:
        for _ in range(ctx.n(n, n * 10)):
            fn(ctx, ctx.rng)


def replay(ctx, data):
    kind = data.get('kind', '')
    c2 = core.Ctx(ctx.pid, 'quick', 41)
    if kind.endswith(':hash_keyed'):
        fam_integer_coordinates(c2, c2.rng, kind.split(':')[1])
        return any(v.kind == kind for v in c2.violations)
    for fn, _ in FAMILIES:
        for _ in range(1500):
            fn(c2, c2.rng)
            if any(v.kind == kind for v in c2.violations):
                return True
    return False


def correspond(ctx):
    pass
