"""C10  bounding boxes contain the geometry and are tight."""
import math
from fractions import Fraction
from .. import core, gens as G, exact as X, build as Bd
from ..core import q, v2, v3, F
from ..build import P2, V2, P3, V3
from ladybug_geometry.geometry2d import Polygon2D, Arc2D, Polyline2D, LineSegment2D
from ladybug_geometry.geometry3d import Arc3D, Plane, Face3D, Polyface3D
from ladybug_geometry import bounding as Bn

RULE = ('every class with min/max in random placements (arcs: every start/end pair incl. end<start and circles, also on the '
        '1/64-turn grid); collections of 1..8 objects with axis_angle in [0,2pi); non-trivial = non-degenerate extent; distinct by '
        '(class, quadrant pair / size)')
ASSUMPTIONS = ['rays are taken as the segment p..p+v (library definition); vectors and planes are excluded']
TRUSTED = []

CLASSES = ['Point2D', 'Ray2D', 'LineSegment2D', 'Arc2D', 'Polyline2D', 'Polygon2D', 'Mesh2D', 'Point3D', 'Ray3D',
           'LineSegment3D', 'Arc3D', 'Polyline3D', 'Mesh3D', 'Polyface3D', 'Face3D', 'Sphere', 'Cone', 'Cylinder']


def sample_points(o):
    """points of the geometry (vertices + dense curve samples)"""
    n = type(o).__name__
    if n in ('Point2D', 'Point3D'):
        return [o]
    if n in ('Ray2D', 'Ray3D', 'LineSegment2D', 'LineSegment3D'):
        return [o.p + o.v * (i / 16.0) for i in range(17)]
    if n in ('Arc2D', 'Arc3D'):
        return [o.point_at(i / 720.0) for i in range(721)]
    if n in ('Polyline2D', 'Polyline3D', 'Polygon2D', 'Mesh2D', 'Mesh3D', 'Polyface3D'):
        return list(o.vertices)
    if n == 'Face3D':
        return list(o.vertices) + [p for h in (o.holes or ()) for p in h]
    return None


def exact_extent(o):
    """(min, max) tuples for the solids from their closed forms; None otherwise"""
    n = type(o).__name__
    if n == 'Sphere':
        c, r = tuple(o.center), o.radius
        return tuple(x - r for x in c), tuple(x + r for x in c)
    if n in ('Cone', 'Cylinder'):
        # extent of a disk of radius R with unit normal a along axis i: R*sqrt(1-a_i^2)
        ax = tuple(o.axis); L = math.sqrt(sum(x * x for x in ax)); a = tuple(x / L for x in ax)
        if n == 'Cylinder':
            c0 = tuple(o.center); c1 = tuple(c0[i] + ax[i] for i in range(3)); R = o.radius
            lo = tuple(min(c0[i], c1[i]) - R * math.sqrt(max(0.0, 1 - a[i] ** 2)) for i in range(3))
            hi = tuple(max(c0[i], c1[i]) + R * math.sqrt(max(0.0, 1 - a[i] ** 2)) for i in range(3))
            return lo, hi
        v = tuple(o.vertex); b = tuple(v[i] + ax[i] for i in range(3)); R = o.radius
        lo = tuple(min(v[i], b[i] - R * math.sqrt(max(0.0, 1 - a[i] ** 2))) for i in range(3))
        hi = tuple(max(v[i], b[i] + R * math.sqrt(max(0.0, 1 - a[i] ** 2))) for i in range(3))
        return lo, hi
    return None


def quad_key(o):
    if type(o).__name__ in ('Arc2D', 'Arc3D'):
        return (int(o.a1 // (math.pi / 2)) % 4, int(o.a2 // (math.pi / 2)) % 4, o.a2 < o.a1, o.is_circle)
    return None


def fam_boxes(ctx, rng):
    cls = rng.choice(CLASSES + ['Arc2D', 'Arc2D', 'Arc3D'])
    o = Bd.make(rng, cls)
    check_box(ctx, o)


def fam_derived_mesh(ctx, rng):
    """a Mesh3D made from a Mesh2D that has already answered its own min / max / center, placed in a random (tilted, spun) plane;
    and meshes obtained by moving / rotating / scaling a mesh whose box was read"""
    from ladybug_geometry.geometry2d import Mesh2D
    from ladybug_geometry.geometry3d import Mesh3D
    m2 = Bd.make(rng, 'Mesh2D')
    if rng.random() < 0.7:
        m2.min, m2.max, m2.center
    pl = Bd.plane(rng, special=rng.random() < 0.3)
    m3 = Mesh3D.from_mesh2d(m2, pl if rng.random() < 0.85 else None)
    check_box(ctx, m3)
    which = rng.choice(['move', 'rotate', 'rotate_xy', 'scale', 'reflect'])
    m3.min, m3.max
    if which == 'move': o = m3.move(V3(G.rvec3(rng, 30)))
    elif which == 'rotate': o = m3.rotate(V3(G.rvec3(rng, 1)), rng.uniform(-3, 3), P3(G.rpt3(rng, 20)))
    elif which == 'rotate_xy': o = m3.rotate_xy(rng.uniform(-3, 3), P3(G.rpt3(rng, 20)))
    elif which == 'scale': o = m3.scale(rng.choice([0.5, 2.0, 3.0]), P3(G.rpt3(rng, 20)))
    else: o = m3.reflect(V3(G.rvec3(rng, 1)).normalize(), P3(G.rpt3(rng, 20)))
    check_box(ctx, o)


def fam_derived_face(ctx, rng):
    """faces with holes, polylines and polyfaces obtained from another one by the library's own transforms (after the source answered
    its box): the box of the result is the box of the result's own vertices"""
    cls = rng.choice(['Face3D', 'Face3D', 'Polyface3D', 'Polyline3D'])
    o = Bd.face3d(rng, nholes=rng.choice([1, 2])) if cls == 'Face3D' else Bd.make(rng, cls)
    if rng.random() < 0.5:
        o.min, o.max
    which = rng.choice(['rotate_xy', 'rotate_xy', 'rotate', 'move', 'reflect', 'scale'])
    try:
        if which == 'move': r = o.move(V3(G.rvec3(rng, 30)))
        elif which == 'rotate': r = o.rotate(V3(G.rvec3(rng, 1)), rng.uniform(-3, 3), P3(G.rpt3(rng, 20)))
        elif which == 'rotate_xy': r = o.rotate_xy(rng.uniform(-3, 3), P3(G.rpt3(rng, 20)))
        elif which == 'scale': r = o.scale(rng.choice([0.5, 2.0, 3.0]), P3(G.rpt3(rng, 20)))
        else: r = o.reflect(V3(G.rvec3(rng, 1)).normalize(), P3(G.rpt3(rng, 20)))
    except Exception as e:
        ctx.violation('%s:%s:raises' % (cls, which), '%r' % (e,), {'class': cls, 'object': o.to_dict()}); return
    check_box(ctx, r)
    if cls == 'Face3D':
        # the box is that of the outline: every boundary vertex inside it, and the outline touches all six sides
        mn, mx = r.min, r.max
        bs = list(r.boundary)
        sc = max(1.0, max(abs(c) for p in bs for c in p))
        for i, nm in enumerate('xyz'):
            lo, hi = min(p[i] for p in bs), max(p[i] for p in bs)
            if abs(lo - mn[i]) > 1e-9 * sc or abs(hi - mx[i]) > 1e-9 * sc:
                ctx.violation('Face3D:%s:boundary_box' % which, 'after %s the boundary spans [%r, %r] along %s, the box says [%r, %r]' % (which, lo, hi, nm, mn[i], mx[i]),
                              {'class': cls, 'object': o.to_dict(), 'transform': which}); return


def fam_near_axis(ctx, rng):
    """cylinders, cones and full 3D circles whose axis / normal is within a few 1e-4 rad of a world axis without being aligned with it,
    and large ones (radius up to 5000 at coordinates up to 1e4) in general position"""
    from ladybug_geometry.geometry3d import Cylinder, Cone
    k = rng.randrange(3)
    if rng.random() < 0.6:
        t1, t2 = rng.choice([1, -1]) * rng.uniform(5e-5, 4e-4), rng.choice([1, -1]) * rng.uniform(0, 4e-4)
        ax = [0.0, 0.0, 0.0]; ax[k] = rng.choice([1.0, -1.0]); ax[(k + 1) % 3] = t1; ax[(k + 2) % 3] = t2
        r = G.dy(rng.uniform(0.5, 30)); c = G.rpt3(rng, 100)
    else:
        ax = list(G.rvec3(rng, 1)); r = G.dy(rng.uniform(500, 5000)); c = G.rpt3(rng, 5000)
    h = rng.uniform(0.5, 3.0) * (r if r < 100 else 1.0)
    axis = V3(tuple(a * h for a in ax))
    which = rng.choice(['Cylinder', 'Cone', 'Arc3D'])
    if which == 'Cylinder':
        o = Cylinder(P3(c), axis, r)
    elif which == 'Cone':
        o = Cone(P3(c), axis, G.dy(rng.uniform(0.2, 1.2)))
    else:
        o = Arc3D(Plane(axis.normalize(), P3(c)), r)
    check_box(ctx, o)


def check_box(ctx, o):
    cls = type(o).__name__
    mn, mx = tuple(o.min), tuple(o.max)
    dim = len(mn)
    desc = {'class': cls, 'object': o.to_dict() if hasattr(o, 'to_dict') else repr(o), 'min': mn, 'max': mx}
    sc = max(1.0, max(abs(c) for c in mn + mx))
    tol = 1e-9 * sc
    kind = cls
    qk = quad_key(o)
    if cls in ('Arc2D', 'Arc3D'):
        span = (o.a2 - o.a1) % (2 * math.pi)
        wraps_in_quadrant = (not o.is_circle) and qk[0] == qk[1] and qk[2]
        kind = '%s%s' % (cls, ':wrap_same_quadrant' if wraps_in_quadrant else (':partial' if not o.is_circle else ':circle'))
    if cls == 'Arc3D' and not o.is_circle:
        kind = 'Arc3D:partial_box'      # one input class: the box of a partial 3D arc (any symptom)
    ctx.count('box.' + cls, key=qk or round(math.log(max(1e-9, max(b - a for a, b in zip(mn, mx)) or 1e-9))), sample=desc)
    if any(a > b + tol for a, b in zip(mn, mx)):
        ctx.violation(kind + (':min_gt_max' if kind != 'Arc3D:partial_box' else ''), 'min %r > max %r' % (mn, mx), desc)
        return
    if hasattr(o, 'center') and cls not in ('Sphere', 'Cylinder', 'Cone', 'Arc2D', 'Arc3D'):
        c = tuple(o.center)
        if any(abs(c[i] - (mn[i] + mx[i]) / 2) > tol for i in range(dim)):
            ctx.violation(kind + ':center', 'center %r is not the midpoint of %r %r' % (c, mn, mx), desc)
    pts = sample_points(o)
    if pts is not None:
        lo = [min(p[i] for p in pts) for i in range(dim)]
        hi = [max(p[i] for p in pts) for i in range(dim)]
        curve = cls in ('Arc2D', 'Arc3D')
        stol = tol if not curve else 1e-4 * max(1.0, o.radius if cls == 'Arc3D' else o.r)
        for i in range(dim):
            if lo[i] < mn[i] - tol or hi[i] > mx[i] + tol:
                ctx.violation(kind + (':not_contained' if kind != 'Arc3D:partial_box' else ''), 'axis %d: geometry spans [%r,%r] but box is [%r,%r]' % (i, lo[i], hi[i], mn[i], mx[i]), desc)
                return
            if lo[i] > mn[i] + stol or hi[i] < mx[i] - stol:
                ctx.violation(kind + (':not_tight' if kind != 'Arc3D:partial_box' else ''), 'axis %d: geometry spans [%r,%r] but box is [%r,%r]' % (i, lo[i], hi[i], mn[i], mx[i]), desc)
                return
    else:
        ex = exact_extent(o)
        for i in range(dim):
            if abs(ex[0][i] - mn[i]) > 1e-7 * sc or abs(ex[1][i] - mx[i]) > 1e-7 * sc:
                ctx.violation(kind + ':extent', 'axis %d: exact extent [%r,%r] but box is [%r,%r]' % (i, ex[0][i], ex[1][i], mn[i], mx[i]), desc)
                return


def fam_arc_grid(ctx, rng):
    """all angle pairs on the 1/64-turn grid (sampled in quick, exhaustive in thorough through the loop count)"""
    i, j = rng.randrange(65), rng.randrange(65)
    if i == j:
        return
    a1, a2 = i / 64.0 * 2 * math.pi, j / 64.0 * 2 * math.pi
    if i == 64:
        a1 = 2 * math.pi
    arc = Arc2D(P2(G.rpt2(rng, 10)), G.dy(rng.uniform(0.5, 5)), a1, a2)
    mn, mx = tuple(arc.min), tuple(arc.max)
    pts = [arc.point_at(k / 1440.0) for k in range(1441)]
    lo = [min(p[d] for p in pts) for d in range(2)]; hi = [max(p[d] for p in pts) for d in range(2)]
    desc = {'arc': arc.to_dict(), 'min': mn, 'max': mx}
    q1, q2 = int(a1 // (math.pi / 2)) % 4, int(a2 // (math.pi / 2)) % 4
    wrap_same = (q1 == q2 and a2 < a1 and not arc.is_circle)
    ctx.count('box.arcgrid', key=(i, j), sample=desc)
    kind = 'Arc2D:wrap_same_quadrant' if wrap_same else ('Arc2D:circle' if arc.is_circle else 'Arc2D:partial')
    for d in range(2):
        if lo[d] < mn[d] - 1e-9 * 20 or hi[d] > mx[d] + 1e-9 * 20:
            ctx.violation(kind + ':not_contained', 'axis %d: arc spans [%r,%r] box [%r,%r]' % (d, lo[d], hi[d], mn[d], mx[d]), desc)
            return
        if lo[d] > mn[d] + 1e-4 * arc.r or hi[d] < mx[d] - 1e-4 * arc.r:
            ctx.violation(kind + ':not_tight', 'axis %d: arc spans [%r,%r] box [%r,%r]' % (d, lo[d], hi[d], mn[d], mx[d]), desc)
            return


def fam_collections(ctx, rng):
    n = rng.randint(1, 8)
    d3 = rng.random() < 0.5
    pool3 = ['Polyline3D', 'Face3D', 'Face3D', 'Polyface3D', 'Mesh3D', 'LineSegment3D']
    pool2 = ['Polygon2D', 'Polyline2D', 'Mesh2D', 'LineSegment2D']
    verts_of = lambda o: o.vertices if hasattr(o, 'vertices') else (o.p1, o.p2)
    objs = [Bd.make(rng, rng.choice(pool3 if d3 else pool2)) for _ in range(n)]
    if n > 1 and rng.random() < 0.5:
        # concentric members, smallest first: every later member sticks out of the running hull on BOTH sides of every axis
        c0 = objs[0].center
        objs = [o.move(c0 - o.center) for o in objs]
        objs.sort(key=lambda o: (o.max.x - o.min.x) + (o.max.y - o.min.y))
    ang = rng.choice([0.0, rng.uniform(0, 2 * math.pi)])
    desc = {'objects': [o.to_dict() for o in objs], 'axis_angle': ang, '3d': d3}
    ctx.count('collection.%s' % ('3d' if d3 else '2d'), key=(n, ang != 0), sample={'n': n, 'axis_angle': ang})
    if ang == 0:
        # hull of the member boxes
        ex = (min(o.min.x for o in objs), max(o.max.x for o in objs))
        ey = (min(o.min.y for o in objs), max(o.max.y for o in objs))
        if Bn.bounding_domain_x(objs) != ex or Bn.bounding_domain_y(objs) != ey:
            ctx.violation('bounding_domain:hull', 'domain x %r y %r, hull %r %r' % (Bn.bounding_domain_x(objs), Bn.bounding_domain_y(objs), ex, ey), desc)
        if d3:
            ez = (min(o.min.z for o in objs), max(o.max.z for o in objs))
            if Bn.bounding_domain_z(objs) != ez:
                ctx.violation('bounding_domain:hull_z', 'domain z %r, hull %r' % (Bn.bounding_domain_z(objs), ez), desc)
            mn, mx = Bn.bounding_box(objs)
            if (mn.x, mx.x) != ex or (mn.y, mx.y) != ey or (mn.z, mx.z) != ez:
                ctx.violation('bounding_box:hull', 'box %r %r differs from hull' % (mn, mx), desc)
        else:
            mn, mx = Bn.bounding_rectangle(objs)
            if (mn.x, mx.x) != ex or (mn.y, mx.y) != ey:
                ctx.violation('bounding_rectangle:hull', 'rect %r %r differs from hull' % (mn, mx), desc)
        return
    # rotated frame: extents equal the hull extents of the vertices expressed in the frame rotated by axis_angle
    c, s = math.cos(ang), math.sin(ang)
    us, vs = [], []
    for o in objs:
        for p in verts_of(o):
            us.append(p.x * c + p.y * s); vs.append(-p.x * s + p.y * c)
    ew, eh = max(us) - min(us), max(vs) - min(vs)
    given = list(objs)
    try:
        if d3:
            w, h, zz = Bn.bounding_box_extents(objs, ang)
            ez = max(p.z for o in objs for p in verts_of(o)) - min(p.z for o in objs for p in verts_of(o))
            if abs(zz - ez) > 1e-7 * max(1, ez):
                ctx.violation('bounding_box_extents:z', 'z extent %r expected %r' % (zz, ez), desc)
        else:
            w, h = Bn.bounding_rectangle_extents(objs, ang)
    except Exception as e:
        ctx.violation('bounding_extents:rotated:raises', '%r' % (e,), desc); return
    sc = max(1.0, ew, eh)
    # the collection handed in is the caller's: same members afterwards, and the same answer when asked again
    again = Bn.bounding_box_extents(objs, ang)[:2] if d3 else Bn.bounding_rectangle_extents(objs, ang)
    if len(objs) != len(given) or any(a is not b for a, b in zip(objs, given)) or tuple(again) != (w, h):
        ctx.violation('bounding_extents:rotated:argument_changed', 'the list passed in was altered (or a second call on it gives %r after %r)' % (
            tuple(again), (w, h)), desc); return
    if not d3:
        rmn, rmx = Bn.bounding_rectangle(objs, ang)
        if any(a is not b for a, b in zip(objs, given)):
            ctx.violation('bounding_rectangle:rotated:argument_changed', 'the list passed in was altered', desc); return
    if abs(w - ew) > 1e-7 * sc or abs(h - eh) > 1e-7 * sc:
        ctx.violation('bounding_extents:rotated', 'extents (%r,%r) expected (%r,%r) in the frame rotated by %r' % (w, h, ew, eh, ang), desc)


def fam_mixed(ctx, rng):
    """collections that mix 2D and 3D members in every order (2D members count as lying in z = 0): bounding_box,
    bounding_box_extents and bounding_domain_z_2d_safe give the hull of the member boxes whatever the order"""
    n3, n2 = rng.randint(1, 4), rng.randint(1, 3)
    objs = [Bd.make(rng, rng.choice(['Polyline3D', 'Face3D', 'Polyface3D', 'Mesh3D', 'Sphere', 'LineSegment3D'])) for _ in range(n3)]
    objs += [Bd.make(rng, rng.choice(['Polygon2D', 'Polyline2D', 'Mesh2D', 'LineSegment2D'])) for _ in range(n2)]
    if rng.random() < 0.5:
        # every 3D member on one side of z = 0, so that the 2D members decide one end of the range
        dz = max(abs(o.min.z) + abs(o.max.z) for o in objs[:n3]) + 1.0
        sg = rng.choice([1, -1])
        objs[:n3] = [o.move(V3((0.0, 0.0, sg * dz))) for o in objs[:n3]]
    rng.shuffle(objs)
    is2 = [not hasattr(o.min, 'z') if hasattr(o, 'min') else not hasattr(o, 'z') for o in objs]
    def box(o):
        mn, mx = (o.min, o.max) if hasattr(o, 'min') else (o, o)
        return (mn.x, mx.x), (mn.y, mx.y), ((mn.z, mx.z) if hasattr(mn, 'z') else (0.0, 0.0))
    bx = [box(o) for o in objs]
    ex = (min(b[0][0] for b in bx), max(b[0][1] for b in bx)); ey = (min(b[1][0] for b in bx), max(b[1][1] for b in bx))
    ez = (min(b[2][0] for b in bx), max(b[2][1] for b in bx))
    desc = {'objects': [o.to_dict() for o in objs], 'order_2d_flags': is2}
    ctx.count('collection.mixed', key=(n3, n2, tuple(is2)), sample={'n3d': n3, 'n2d': n2, 'order': is2}, nontrivial=True)
    try:
        gz = Bn.bounding_domain_z_2d_safe(objs)
        mn, mx = Bn.bounding_box(objs)
        w, h, zz = Bn.bounding_box_extents(objs)
    except Exception as e:
        ctx.violation('mixed:raises', '%r' % (e,), desc); return
    if tuple(gz) != ez:
        ctx.violation('bounding_domain_z_2d_safe:hull', 'z domain %r, hull of the member boxes %r (2D members first: %r)' % (gz, ez, is2[0]), desc); return
    if (mn.x, mx.x) != ex or (mn.y, mx.y) != ey or (mn.z, mx.z) != ez:
        ctx.violation('bounding_box:mixed:hull', 'box %r %r differs from the hull x %r y %r z %r' % (mn, mx, ex, ey, ez), desc); return
    if abs(zz - (ez[1] - ez[0])) > 1e-9 * max(1.0, ez[1] - ez[0]) or abs(w - (ex[1] - ex[0])) > 1e-9 * max(1.0, w) or abs(h - (ey[1] - ey[0])) > 1e-9 * max(1.0, h):
        ctx.violation('bounding_box_extents:mixed', 'extents %r expected %r' % ((w, h, zz), (ex[1] - ex[0], ey[1] - ey[0], ez[1] - ez[0])), desc)


def fam_overlap(ctx, rng):
    d3 = rng.random() < 0.4
    a = Bd.make(rng, 'Polyface3D' if d3 else 'Polygon2D')
    b = Bd.make(rng, 'Polyface3D' if d3 else 'Polygon2D')
    if rng.random() < 0.5:
        # two boxes of very different sizes, overlapping on all axes but one, where the gap sits just below / above the distance:
        # the answer then depends on BOTH extents on that axis
        ext = lambda o, i: o.max[i] - o.min[i]
        nd = 3 if d3 else 2
        ax = rng.randrange(nd)
        dist0 = rng.choice([0.0, 0.01, G.dy(rng.uniform(0, 2))])
        delta = max(0.05, 0.3 * abs(ext(a, ax) - ext(b, ax)) * rng.uniform(0.1, 1.0))
        gap = dist0 + delta * rng.choice([-1, 1])
        side = rng.choice([-1, 1])
        dv = []
        for i in range(nd):
            if i == ax:
                target = (a.max[i] + gap - b.min[i]) if side > 0 else (a.min[i] - gap - b.max[i])
            else:
                target = a.center[i] - b.center[i]
            dv.append(G.dy(target))
        b = b.move(V3(tuple(dv)) if d3 else V2(tuple(dv)))
    elif rng.random() < 0.6:
        # bring b near a
        dv = [a.center[i] - b.center[i] + rng.uniform(-1, 1) * (a.max[i] - a.min[i] + b.max[i] - b.min[i]) for i in range(3 if d3 else 2)]
        b = b.move(V3(tuple(G.dy(x) for x in dv)) if d3 else V2(tuple(G.dy(x) for x in dv)))
    dist = rng.choice([0.0, 0.01, G.dy(rng.uniform(0, 5))])
    gaps = [max(F(a.min[i]) - F(b.max[i]), F(b.min[i]) - F(a.max[i])) for i in range(3 if d3 else 2)]
    exp = all(g <= F(dist) for g in gaps)
    margin = min(abs(float(g) - dist) for g in gaps)
    if d3:
        r1 = Polyface3D.overlapping_bounding_boxes(a, b, dist); r2 = Polyface3D.overlapping_bounding_boxes(b, a, dist)
    else:
        r1 = Polygon2D.overlapping_bounding_rect(a, b, dist); r2 = Polygon2D.overlapping_bounding_rect(b, a, dist)
    desc = {'a': a.to_dict(), 'b': b.to_dict(), 'distance': dist}
    ctx.count('overlap.%s' % ('3d' if d3 else '2d'), key=(exp, round(margin, 1)), sample={'distance': dist, 'gaps': [float(g) for g in gaps]})
    if r1 != r2:
        ctx.violation('overlap:asymmetric', 'a,b -> %r but b,a -> %r' % (r1, r2), desc)
    elif margin > 1e-9 * 1000 and r1 != exp:
        ctx.violation('overlap:gap_test', 'overlap %r but exact gaps %r vs distance %r' % (r1, [float(g) for g in gaps], dist), desc)


def fam_overlap_exact(ctx, rng):
    """axis-aligned boxes / rectangles with dyadic corners whose gap along ONE axis is exactly the distance, just below it or just above
    it (the other axes overlap): the predicate is the closed test gap <= distance on every axis, in both argument orders"""
    d3 = rng.random() < 0.6
    nd = 3 if d3 else 2
    dims_a = [G.dy(rng.uniform(1, 6), 4) for _ in range(nd)]; dims_b = [G.dy(rng.uniform(1, 6), 4) for _ in range(nd)]
    oa = [G.dy(rng.uniform(-10, 10), 4) for _ in range(nd)]
    ax = rng.randrange(nd)
    dist = rng.choice([0.0, 0.25, 0.5, 0.0625, G.dy(rng.uniform(0, 2), 6)])
    case = rng.choice(['equal', 'equal', 'below', 'above'])
    gap = dist + {'equal': 0.0, 'below': -2.0 ** -10, 'above': 2.0 ** -10}[case]
    side = rng.choice([1, -1])
    ob = []
    for i in range(nd):
        if i == ax:
            ob.append(oa[i] + dims_a[i] + gap if side > 0 else oa[i] - gap - dims_b[i])
        else:
            ob.append(oa[i] + G.dy(rng.uniform(-0.5, 0.5), 4) * dims_a[i])
    if d3:
        from ladybug_geometry.geometry3d import Plane as _Pl
        a = Polyface3D.from_box(dims_a[0], dims_a[1], dims_a[2], _Pl(V3((0.0, 0.0, 1.0)), P3(tuple(oa))))
        b = Polyface3D.from_box(dims_b[0], dims_b[1], dims_b[2], _Pl(V3((0.0, 0.0, 1.0)), P3(tuple(ob))))
        r1 = Polyface3D.overlapping_bounding_boxes(a, b, dist); r2 = Polyface3D.overlapping_bounding_boxes(b, a, dist)
    else:
        a = Polygon2D.from_rectangle(P2(tuple(oa)), V2((0.0, 1.0)), dims_a[0], dims_a[1])
        b = Polygon2D.from_rectangle(P2(tuple(ob)), V2((0.0, 1.0)), dims_b[0], dims_b[1])
        r1 = Polygon2D.overlapping_bounding_rect(a, b, dist); r2 = Polygon2D.overlapping_bounding_rect(b, a, dist)
    gaps = [max(F(a.min[i]) - F(b.max[i]), F(b.min[i]) - F(a.max[i])) for i in range(nd)]
    exp = all(g <= F(dist) for g in gaps)
    desc = {'a': a.to_dict(), 'b': b.to_dict(), 'distance': dist, 'axis': ax, 'case': case}
    ctx.count('overlap.exact.%s' % ('3d' if d3 else '2d'), key=(ax, case, side), sample={'axis': ax, 'case': case, 'distance': dist}, nontrivial=True)
    if r1 != exp or r2 != exp:
        ctx.violation('overlap:threshold:%s:axis%d' % (case, ax), 'gap along axis %d is %s the distance %r (exact gaps %r): expected %r, got %r / %r (swapped)' % (
            ax, {'equal': 'exactly', 'below': 'just below', 'above': 'just above'}[case], dist, [float(g) for g in gaps], exp, r1, r2), desc)


FAMILIES = [(fam_boxes, 150), (fam_derived_mesh, 40), (fam_derived_face, 50), (fam_near_axis, 60), (fam_arc_grid, 80), (fam_collections, 60), (fam_mixed, 30), (fam_overlap, 70), (fam_overlap_exact, 60)]


def explore(ctx):
    for f, n in FAMILIES:
        for _ in range(ctx.n(n, n * 12)):
            f(ctx, ctx.rng)


def replay(ctx, data):
    kind = data.get('kind', '')
    c2 = core.Ctx(ctx.pid, 'quick', 31)
    d = data.get('data') or {}
    if isinstance(d, dict) and isinstance(d.get('object'), dict) and 'type' in d['object']:
        from ladybug_geometry.dictutil import geometry_dict_to_object
        check_box(c2, geometry_dict_to_object(d['object']))
        return any(v.kind == kind for v in c2.violations)
    for f, _ in FAMILIES:
        for _ in range(3000):
            f(c2, c2.rng)
            if any(v.kind == kind for v in c2.violations):
                return True
    return False


def correspond(ctx):
    rng = ctx.rng
    cases, meta = [], []
    for _ in range(ctx.n(150, 1000)):
        loop = G.star_polygon(rng, R=rng.choice([10.0, 100.0]))
        poly = Polygon2D([P2(p) for p in loop])
        L = '(mkPolygon2 %s)' % core.coq_list([v2(p) for p in loop])
        cases.append('Qeq_bool (v2x (Base2DIn2D_min %s)) %s && Qeq_bool (v2y (Base2DIn2D_min %s)) %s && '
                     'Qeq_bool (v2x (Base2DIn2D_max %s)) %s && Qeq_bool (v2y (Base2DIn2D_max %s)) %s' % (
                         L, q(poly.min.x), L, q(poly.min.y), L, q(poly.max.x), L, q(poly.max.y)))
        meta.append(('Polygon2D.min/max', loop))
        loop2 = G.star_polygon(rng, R=rng.choice([10.0, 100.0]))
        poly2 = Polygon2D([P2(p) for p in loop2])
        L2 = '(mkPolygon2 %s)' % core.coq_list([v2(p) for p in loop2])
        d = rng.choice([0.0, 1.0, 8.0])
        r = Polygon2D.overlapping_bounding_rect(poly, poly2, d)
        cases.append('Bool.eqb (overlapping_bounding_rect %s %s %s) %s' % (L, L2, q(d), core.coq_bool(r)))
        meta.append(('overlapping_bounding_rect', loop, loop2, d))
        seg = LineSegment2D(P2(G.rpt2(rng)), V2(G.rvec2(rng)))
        from .C11 import lr2
        cases.append('Qeq_bool (v2x (Base1DIn2D_min %s)) %s && Qeq_bool (v2y (Base1DIn2D_max %s)) %s' % (
            lr2(seg), q(seg.min.x), lr2(seg), q(seg.max.y)))
        meta.append(('Base1DIn2D.min/max', seg))
    # arc min/max with the implementation's own cos/sin of a1,a2
    for _ in range(ctx.n(60, 400)):
        a1, a2 = Bd.arc_angles(rng)
        arc = Arc2D(P2(G.rpt2(rng, 20)), G.dy(rng.uniform(0.5, 9)), a1, a2)
        A = '(mkArc2 %s %s %s %s)' % (v2((arc.c.x, arc.c.y)), q(arc.r), q(a1), q(a2))
        fc = '(fun a => if Qeq_bool a %s then %s else %s)' % (q(a1), q(math.cos(a1)), q(math.cos(a2)))
        fs = '(fun a => if Qeq_bool a %s then %s else %s)' % (q(a1), q(math.sin(a1)), q(math.sin(a2)))
        t = q(Fraction(1, 10 ** 9))
        cases.append('Qle_bool (Qabs (v2x (Arc2D_min %s %s %s %s) - %s)) %s && Qle_bool (Qabs (v2y (Arc2D_min %s %s %s %s) - %s)) %s && '
                     'Qle_bool (Qabs (v2x (Arc2D_max %s %s %s %s) - %s)) %s && Qle_bool (Qabs (v2y (Arc2D_max %s %s %s %s) - %s)) %s' % (
                         fc, fs, q(math.pi), A, q(arc.min.x), t, fc, fs, q(math.pi), A, q(arc.min.y), t,
                         fc, fs, q(math.pi), A, q(arc.max.x), t, fc, fs, q(math.pi), A, q(arc.max.y), t))
        meta.append(('Arc2D.min/max', arc.to_dict()))
    res = core.run_cases('C10_corr', ['Base', 'G0_vec', 'G1_shapes', 'G2_inter', 'G3_poly', 'G4_face', 'G5_bound'], '', cases)
    ctx.corr_cases += len(cases)
    for ok, m in zip(res, meta):
        if ok is not True:
            ctx.corr_fail.append({'function': m[0], 'input': repr(m[1:]),
                                  'result': 'model and implementation differ' if ok is False else 'model evaluation failed'})
