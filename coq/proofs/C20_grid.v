(* C20: grid generation.  Mesh2D._grid_faces / _grid_vertices (generated, nested loops) equal closed-form
   specifications, for every grid size: face (i,j) has indices c, c+ny+1, c+ny+2, c+1 with c = i(ny+1)+j, and vertex
   i(ny+1)+j is (bx + i dx, by + j dy) -- so every face is the cell (i,j), all cells are congruent dx x dy rectangles. *)
From LBG Require Import Base QGeom G0_vec G10_grid.
Open Scope Q_scope.

Definition cellface (ny c : Z) : Z * Z * Z * Z := (c, (c + ny + 1)%Z, (c + ny + 2)%Z, (c + 1)%Z).

(* a fold that ignores its list elements *)
Lemma iter_swap {A} (g : A -> A) n : forall a, Nat.iter n g (g a) = g (Nat.iter n g a).
Proof. induction n as [|n IH]; intros a; [reflexivity|]. simpl. rewrite IH. reflexivity. Qed.

Lemma fold_ignore {A B} (g : A -> A) (l : list B) a : fold_left (fun acc _ => g acc) l a = Nat.iter (length l) g a.
Proof.
  revert a. induction l as [|x r IH]; intros a; [reflexivity|]. cbn [fold_left length]. simpl Nat.iter.
  rewrite IH. apply iter_swap.
Qed.

Lemma py_range_length n : (0 <= n)%Z -> length (py_range 0 n) = Z.to_nat n.
Proof.
  intros H. unfold py_range. rewrite Z.sub_0_r. generalize 0%Z. induction (Z.to_nat n) as [|k IH]; intros s; [reflexivity|].
  cbn. rewrite IH. reflexivity.
Qed.

Lemma fold_left_ext_pair {A B} (f g : A -> B -> A) l a : (forall a x, f a x = g a x) -> fold_left f l a = fold_left g l a.
Proof. intros H. revert a. induction l as [|x r IH]; intros a; [reflexivity|]. cbn [fold_left]. rewrite H. apply IH. Qed.

(* inner loop: one row of faces *)
Definition row_faces (ny : Z) (c0 : Z) (k : nat) : list (Z * Z * Z * Z) :=
  map (fun j => cellface ny (c0 + Z.of_nat j)%Z) (seq 0 k).

Lemma inner_iter ny k : forall F c0,
  Nat.iter k (fun acc : list (Z * Z * Z * Z) * Z => let '(u_faces, u_c) := acc in
                (u_faces ++ [(u_c, (((u_c + ny)%Z) + (1%Z))%Z, (((u_c + ny)%Z) + (2%Z))%Z, (u_c + (1%Z))%Z)], (u_c + 1)%Z)) (F, c0)
  = (F ++ row_faces ny c0 k, (c0 + Z.of_nat k)%Z).
Proof.
  induction k as [|k IH]; intros F c0.
  - cbn. rewrite app_nil_r, Z.add_0_r. reflexivity.
  - simpl Nat.iter. rewrite IH.
    assert (E : row_faces ny c0 (S k) = row_faces ny c0 k ++ [cellface ny (c0 + Z.of_nat k)%Z])
      by (unfold row_faces; rewrite seq_S, map_app; reflexivity).
    rewrite E, app_assoc. unfold cellface.
    replace (c0 + Z.of_nat (S k))%Z with (c0 + Z.of_nat k + 1)%Z by lia. reflexivity.
Qed.

Definition grid_faces_spec (nx ny : Z) : list (Z * Z * Z * Z) :=
  flat_map (fun i => row_faces ny (Z.of_nat i * (ny + 1))%Z (Z.to_nat ny)) (seq 0 (Z.to_nat nx)).

Lemma outer_iter ny k : (0 <= ny)%Z -> forall F c0,
  Nat.iter k (fun acc : list (Z * Z * Z * Z) * Z => let '(F, c) := acc in
                (F ++ row_faces ny c (Z.to_nat ny), (c + ny + 1)%Z)) (F, c0)
  = (F ++ flat_map (fun i => row_faces ny (c0 + Z.of_nat i * (ny + 1))%Z (Z.to_nat ny)) (seq 0 k), (c0 + Z.of_nat k * (ny + 1))%Z).
Proof.
  intros Hny. induction k as [|k IH]; intros F c0.
  - cbn. rewrite app_nil_r. f_equal. lia.
  - simpl Nat.iter. rewrite IH.
    rewrite seq_S, flat_map_app. cbn [flat_map Nat.add]. rewrite app_nil_r, app_assoc.
    replace (c0 + Z.of_nat (S k) * (ny + 1))%Z with (c0 + Z.of_nat k * (ny + 1) + ny + 1)%Z by lia. reflexivity.
Qed.

Theorem grid_faces_is_spec nx ny : (0 <= nx)%Z -> (0 <= ny)%Z -> Mesh2D__grid_faces nx ny = grid_faces_spec nx ny.
Proof.
  intros Hx Hy. unfold Mesh2D__grid_faces. cbv zeta.
  (* inner fold, for any accumulator *)
  assert (INNER : forall F c, fold_left (fun '(u_faces, u_c) (j : Z) =>
        let u_faces := u_faces ++ [(u_c, (((u_c + ny)%Z) + (1%Z))%Z, (((u_c + ny)%Z) + (2%Z))%Z, (u_c + (1%Z))%Z)] in
        let u_c := (u_c + (1%Z))%Z in (u_faces, u_c)) (py_range 0%Z ny) ((F : list (Z * Z * Z * Z)), c)
      = (F ++ row_faces ny c (Z.to_nat ny), (c + ny)%Z)).
  { intros F c.
    rewrite (fold_left_ext_pair _ (fun acc (_ : Z) => let '(u_faces, u_c) := acc in
       (u_faces ++ [(u_c, (((u_c + ny)%Z) + (1%Z))%Z, (((u_c + ny)%Z) + (2%Z))%Z, (u_c + (1%Z))%Z)], (u_c + 1)%Z))).
    - rewrite fold_ignore, py_range_length by exact Hy. rewrite inner_iter. f_equal. lia.
    - intros [a b] x. reflexivity. }
  rewrite (fold_left_ext_pair _ (fun acc (_ : Z) => let '(F, c) := acc in (F ++ row_faces ny c (Z.to_nat ny), (c + ny + 1)%Z))).
  - rewrite fold_ignore, py_range_length by exact Hx. rewrite (outer_iter ny (Z.to_nat nx) Hy). cbn [app].
    unfold grid_faces_spec. reflexivity.
  - intros [F c] x. rewrite INNER. reflexivity.
Qed.

Lemma grid_faces_length nx ny : (0 <= nx)%Z -> (0 <= ny)%Z -> length (grid_faces_spec nx ny) = (Z.to_nat nx * Z.to_nat ny)%nat.
Proof.
  intros _ _. unfold grid_faces_spec. generalize (fun i => (Z.of_nat i * (ny + 1))%Z) as f. intros f.
  generalize 0%nat as s. induction (Z.to_nat nx) as [|k IH]; intros s; [reflexivity|].
  cbn [seq flat_map]. rewrite app_length, IH. unfold row_faces. rewrite map_length, seq_length. reflexivity.
Qed.

(* ------------------------------------------------------------------ vertices *)
Definition qstep (d : Q) (n : nat) (a : Q) : Q := Nat.iter n (fun y => y + d) a.

Lemma qstep_value d n a : qstep d n a == a + inject_Z (Z.of_nat n) * d.
Proof.
  unfold qstep. induction n as [|n IH]; [cbn; ring|]. simpl Nat.iter. rewrite IH.
  rewrite Nat2Z.inj_succ. unfold Z.succ. rewrite inject_Z_plus. ring.
Qed.

Definition vrow (x y0 dy : Q) (k : nat) : list V2 := map (fun j => mkV2 x (qstep dy j y0)) (seq 0 k).

Lemma vinner_iter x dy k : forall (V : list V2) y0,
  Nat.iter k (fun acc : list V2 * Q => let '(V, y) := acc in (V ++ [mkV2 x y], y + dy)) (V, y0)
  = (V ++ vrow x y0 dy k, qstep dy k y0).
Proof.
  induction k as [|k IH]; intros V y0.
  - cbn. rewrite app_nil_r. reflexivity.
  - simpl Nat.iter. rewrite IH.
    assert (E : vrow x y0 dy (S k) = vrow x y0 dy k ++ [mkV2 x (qstep dy k y0)])
      by (unfold vrow; rewrite seq_S, map_app; reflexivity).
    rewrite E, app_assoc. reflexivity.
Qed.

Definition grid_vertices_spec (b : V2) (nx ny : Z) (dx dy : Q) : list V2 :=
  flat_map (fun i => vrow (qstep dx i (v2x b)) (v2y b) dy (Z.to_nat (ny + 1))) (seq 0 (Z.to_nat (nx + 1))).

Lemma vouter_iter y0 dx dy m k : forall (V : list V2) x0,
  Nat.iter k (fun acc : list V2 * Q => let '(V, x) := acc in (V ++ vrow x y0 dy m, x + dx)) (V, x0)
  = (V ++ flat_map (fun i => vrow (qstep dx i x0) y0 dy m) (seq 0 k), qstep dx k x0).
Proof.
  induction k as [|k IH]; intros V x0.
  - cbn. rewrite app_nil_r. reflexivity.
  - simpl Nat.iter. rewrite IH.
    rewrite seq_S, flat_map_app. cbn [flat_map Nat.add]. rewrite app_nil_r, app_assoc. reflexivity.
Qed.

Theorem grid_vertices_is_spec b nx ny dx dy : (0 <= nx)%Z -> (0 <= ny)%Z ->
  Mesh2D__grid_vertices b nx ny dx dy = grid_vertices_spec b nx ny dx dy.
Proof.
  intros Hx Hy. unfold Mesh2D__grid_vertices. cbv zeta.
  assert (INNER : forall (V : list V2) x y, fold_left (fun '(u_verts, u_y) (j : Z) =>
        let u_verts := u_verts ++ [mkV2 x u_y] in let u_y := (u_y + dy) in (u_verts, u_y)) (py_range 0%Z (ny + 1)%Z) (V, y)
      = (V ++ vrow x y dy (Z.to_nat (ny + 1)), qstep dy (Z.to_nat (ny + 1)) y)).
  { intros V x y.
    rewrite (fold_left_ext_pair _ (fun acc (_ : Z) => let '(V, y) := acc in (V ++ [mkV2 x y], y + dy))).
    - rewrite fold_ignore, py_range_length by lia. apply vinner_iter.
    - intros [a c] j. reflexivity. }
  rewrite (fold_left_ext_pair _ (fun acc (_ : Z) => let '(V, x) := acc in (V ++ vrow x (v2y b) dy (Z.to_nat (ny + 1)), x + dx))).
  - rewrite fold_ignore, py_range_length by lia. rewrite vouter_iter. cbn [app]. reflexivity.
  - intros [V x] i. rewrite INNER. reflexivity.
Qed.

(* position of vertex number i(ny+1)+j, and the four corners of face (i,j): the cell [i,i+1] x [j,j+1] scaled by (dx,dy) *)
Lemma nth_flat_map_const {A} (f : nat -> list A) m n d : (forall i, length (f i) = m) ->
  forall i j, (i < n)%nat -> (j < m)%nat -> nth (i * m + j) (flat_map f (seq 0 n)) d = nth j (f i) d.
Proof.
  intros Hm. assert (G : forall s i j, (i < n)%nat -> (j < m)%nat -> nth (i * m + j) (flat_map f (seq s n)) d = nth j (f (s + i)%nat) d).
  { induction n as [|n IH]; intros s i j Hi Hj; [lia|]. cbn [seq flat_map]. destruct i as [|i].
    - rewrite app_nth1 by (rewrite Hm; lia). rewrite Nat.add_0_r. reflexivity.
    - rewrite app_nth2 by (rewrite Hm; nia). rewrite Hm. replace (S i * m + j - m)%nat with (i * m + j)%nat by nia.
      rewrite IH by lia. f_equal. f_equal. lia. }
  intros i j Hi Hj. apply (G 0%nat i j Hi Hj).
Qed.

Lemma nth_map_seq {A} (f : nat -> A) k j d : (j < k)%nat -> nth j (map f (seq 0 k)) d = f j.
Proof.
  intros H. rewrite (nth_indep _ d (f 0%nat)) by (rewrite map_length, seq_length; exact H).
  rewrite (map_nth f), seq_nth by exact H. reflexivity.
Qed.

Theorem grid_vertex_position b nx ny dx dy i j : (0 <= nx)%Z -> (0 <= ny)%Z -> (i <= Z.to_nat nx)%nat -> (j <= Z.to_nat ny)%nat ->
  let v := nth (i * Z.to_nat (ny + 1) + j) (Mesh2D__grid_vertices b nx ny dx dy) (mkV2 0 0) in
  v2x v == v2x b + inject_Z (Z.of_nat i) * dx /\ v2y v == v2y b + inject_Z (Z.of_nat j) * dy.
Proof.
  intros Hx Hy Hi Hj. rewrite grid_vertices_is_spec by assumption. unfold grid_vertices_spec.
  rewrite (nth_flat_map_const _ (Z.to_nat (ny + 1))); [| intros k; unfold vrow; rewrite map_length, seq_length; reflexivity | lia | lia].
  unfold vrow. cbv zeta. rewrite nth_map_seq by lia. cbn [v2x v2y]. split; apply qstep_value.
Qed.

Theorem grid_face_cell nx ny i j d : (0 <= nx)%Z -> (0 <= ny)%Z -> (i < Z.to_nat nx)%nat -> (j < Z.to_nat ny)%nat ->
  nth (i * Z.to_nat ny + j) (Mesh2D__grid_faces nx ny) d = cellface ny (Z.of_nat i * (ny + 1) + Z.of_nat j)%Z.
Proof.
  intros Hx Hy Hi Hj. rewrite grid_faces_is_spec by assumption. unfold grid_faces_spec.
  rewrite (nth_flat_map_const _ (Z.to_nat ny)); [| intros k; unfold row_faces; rewrite map_length, seq_length; reflexivity | lia | lia].
  unfold row_faces. rewrite nth_map_seq by lia. reflexivity.
Qed.
