(* C16_join.v -- Mesh2D.join_meshes / Mesh3D.join_meshes (generated): the joined vertex list is the concatenation of the vertex lists, the
   joined faces are the faces of each mesh shifted by the number of vertices of ALL the meshes before it (any number of meshes), every
   shifted index points at the vertex it pointed at in its own mesh, and the 2D and 3D routines produce the same face lists. *)
From Coq Require Import ZArith List Lia.
From LBG Require Import Base QGeom G0_vec G1_shapes G3_poly G4_face G12_mesh.
Import ListNotations.
Local Open Scope Z_scope.

Section Join.
Variable V : Type.

(* faces of meshes given as (vertices, faces), shifted by the running vertex count *)
Fixpoint shifted_faces (off : Z) (ms : list (list V * list (list Z))) : list (list Z) :=
  match ms with
  | [] => []
  | (vs, fs) :: r => map (map (fun i => i + off)) fs ++ shifted_faces (off + py_len vs) r
  end.

Definition jstep (acc : list V * list (list Z) * Z * list unit) (m : list V * list (list Z)) :=
  let '(verts, faces, tot, colors) := acc in
  (verts ++ fst m, fold_left (fun faces fc => faces ++ [map (fun v_i => v_i + tot) fc]) (snd m) faces, tot + py_len (fst m), colors).

Lemma append_each {A B} (f : A -> B) l acc : fold_left (fun a x => a ++ [f x]) l acc = acc ++ map f l.
Proof. revert acc; induction l as [|x l IH]; intros acc; cbn [fold_left map]; [rewrite app_nil_r; reflexivity|]. rewrite IH, <- app_assoc. reflexivity. Qed.

Lemma jfold ms : forall verts faces tot colors,
  fold_left jstep ms (verts, faces, tot, colors) =
  (verts ++ concat (map fst ms), faces ++ shifted_faces tot ms, tot + py_len (concat (map fst ms)), colors).
Proof.
  induction ms as [|[vs fs] r IH]; intros verts faces tot colors; cbn [fold_left map concat shifted_faces].
  - rewrite !app_nil_r. unfold py_len. cbn. rewrite Z.add_0_r. reflexivity.
  - unfold jstep at 2. cbn [fst snd]. rewrite IH, (append_each (map (fun v_i => v_i + tot))), <- !app_assoc.
    unfold py_len. rewrite app_length, Nat2Z.inj_add, Z.add_assoc. reflexivity.
Qed.

(* a shifted index points at the same vertex: the k-th mesh's index i becomes i + (vertices before it) in the concatenation *)
Lemma nth_shifted (d : V) (before vs after : list V) i : (i < length vs)%nat ->
  nth (length before + i) (before ++ vs ++ after) d = nth i vs d.
Proof. intros H. rewrite app_nth2 by lia. replace (length before + i - length before)%nat with i by lia. apply app_nth1. exact H. Qed.
End Join.

Definition parts3 (ms : list Mesh3R) := map (fun m => (m3_vertices m, m3_faces m)) ms.
Definition parts2 (ms : list Mesh2R) := map (fun m => (m2_vertices m, m2_faces m)) ms.

Lemma fold3_is_jfold ms acc :
  fold_left (fun (acc_ : list V3 * list (list Z) * Z * list unit) mesh =>
    let '(verts, faces, total_v_i, colors) := acc_ in
    let verts := verts ++ m3_vertices mesh in
    let faces := fold_left (fun faces fc => let faces := faces ++ [map (fun v_i => (v_i + total_v_i)%Z) fc] in faces) (m3_faces mesh) (faces : list (list Z)) in
    let total_v_i := (total_v_i + py_len (m3_vertices mesh))%Z in (verts, faces, total_v_i, colors)) ms acc
  = fold_left (jstep V3) (parts3 ms) acc.
Proof.
  revert acc; induction ms as [|m r IH]; intros acc; [reflexivity|]. cbn [fold_left parts3 map]. rewrite IH.
  destruct acc as [[[verts faces] tot] colors]. reflexivity.
Qed.

Lemma fold2_is_jfold ms acc :
  fold_left (fun (acc_ : list V2 * list (list Z) * Z * list unit) mesh =>
    let '(verts, faces, total_v_i, colors) := acc_ in
    let verts := verts ++ m2_vertices mesh in
    let faces := fold_left (fun faces fc => let faces := faces ++ [map (fun v_i => (v_i + total_v_i)%Z) fc] in faces) (m2_faces mesh) (faces : list (list Z)) in
    let total_v_i := (total_v_i + py_len (m2_vertices mesh))%Z in (verts, faces, total_v_i, colors)) ms acc
  = fold_left (jstep V2) (parts2 ms) acc.
Proof.
  revert acc; induction ms as [|m r IH]; intros acc; [reflexivity|]. cbn [fold_left parts2 map]. rewrite IH.
  destruct acc as [[[verts faces] tot] colors]. reflexivity.
Qed.

Theorem mesh3_join_spec ms :
  m3_vertices (Mesh3D_join_meshes ms) = concat (map m3_vertices ms) /\
  m3_faces (Mesh3D_join_meshes ms) = shifted_faces V3 0 (parts3 ms).
Proof.
  unfold Mesh3D_join_meshes. cbv zeta. rewrite fold3_is_jfold, jfold. cbn [app].
  unfold py_len at 2. cbn [length Z.of_nat Z.eqb negb]. unfold Mesh3D_op_init_2, Face3D__check_vertices_input, MeshBase__check_faces_input.
  cbn [m3_vertices m3_faces]. unfold parts3. rewrite map_map. cbn [fst]. split; reflexivity.
Qed.

Theorem mesh2_join_spec ms :
  m2_vertices (Mesh2D_join_meshes ms) = concat (map m2_vertices ms) /\
  m2_faces (Mesh2D_join_meshes ms) = shifted_faces V2 0 (parts2 ms).
Proof.
  unfold Mesh2D_join_meshes. cbv zeta. rewrite fold2_is_jfold, jfold. cbn [app].
  unfold py_len at 2. cbn [length Z.of_nat Z.eqb negb]. unfold Mesh2D_op_init_2, Base2DIn2D__check_vertices_input, MeshBase__check_faces_input.
  cbn [m2_vertices m2_faces]. unfold parts2. rewrite map_map. cbn [fst]. split; reflexivity.
Qed.

(* the shift only depends on the vertex COUNTS: siblings with the same faces and as many vertices get the same joined faces *)
Lemma shifted_faces_counts (A B : Type) (pa : list (list A * list (list Z))) (pb : list (list B * list (list Z))) : forall off,
  map (fun p => (length (fst p), snd p)) pa = map (fun p => (length (fst p), snd p)) pb ->
  shifted_faces A off pa = shifted_faces B off pb.
Proof.
  revert pb; induction pa as [|[va fa] ra IH]; intros [|[vb fb] rb] off H; cbn [map] in H; try discriminate H; [reflexivity|].
  cbn [fst snd] in H. injection H as Hl Hf Hr. cbn [shifted_faces]. subst fb. unfold py_len. rewrite Hl. f_equal. apply IH. exact Hr.
Qed.

Theorem joined_siblings_have_the_same_faces (m2 : list Mesh2R) (m3 : list Mesh3R) :
  map (fun m => (length (m2_vertices m), m2_faces m)) m2 = map (fun m => (length (m3_vertices m), m3_faces m)) m3 ->
  m2_faces (Mesh2D_join_meshes m2) = m3_faces (Mesh3D_join_meshes m3).
Proof.
  intros H. rewrite (proj2 (mesh2_join_spec m2)), (proj2 (mesh3_join_spec m3)). apply shifted_faces_counts.
  unfold parts2, parts3. rewrite !map_map. cbn [fst snd]. exact H.
Qed.

Lemma shifted_faces_app (A : Type) (a b : list (list A * list (list Z))) : forall off,
  shifted_faces A off (a ++ b) = shifted_faces A off a ++ shifted_faces A (off + py_len (concat (map fst a))) b.
Proof.
  induction a as [|[vs fs] r IH]; intros off; cbn [app shifted_faces map concat].
  - unfold py_len. cbn. rewrite Z.add_0_r. reflexivity.
  - rewrite IH, <- app_assoc. cbn [fst]. unfold py_len. rewrite app_length, Nat2Z.inj_add, Z.add_assoc. reflexivity.
Qed.

(* every face of every joined mesh is present, shifted by the vertices of the meshes before it, and each shifted index of it points at
   the vertex the original index pointed at - for a mesh at ANY position of the list *)
Theorem joined_index_points_at_its_vertex (pre post : list Mesh3R) (m : Mesh3R) (d : V3) fc i :
  In fc (m3_faces m) -> 0 <= i < py_len (m3_vertices m) ->
  let J := Mesh3D_join_meshes (pre ++ m :: post) in
  let off := py_len (concat (map m3_vertices pre)) in
  In (map (fun j => j + off) fc) (m3_faces J) /\
  nth (Z.to_nat (i + off)) (m3_vertices J) d = nth (Z.to_nat i) (m3_vertices m) d.
Proof.
  intros Hf Hi J off. unfold J. destruct (mesh3_join_spec (pre ++ m :: post)) as [EV EF]. rewrite EV, EF. split.
  - unfold parts3. rewrite map_app. cbn [map]. rewrite shifted_faces_app. cbn [shifted_faces]. apply in_or_app. right. apply in_or_app. left.
    rewrite Z.add_0_l, map_map. cbn [fst]. fold off. apply in_map. exact Hf.
  - rewrite map_app. cbn [map]. rewrite concat_app. cbn [concat]. unfold off, py_len in *.
    replace (Z.to_nat (i + Z.of_nat (length (concat (map m3_vertices pre))))) with (length (concat (map m3_vertices pre)) + Z.to_nat i)%nat by lia.
    apply nth_shifted. lia.
Qed.
