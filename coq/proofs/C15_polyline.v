(* C15_polyline.v -- Polyline2D.remove_colinear_vertices (generated from the source): the index loop with its `skip` counter is the
   scan that keeps a vertex exactly when the triangle (last KEPT vertex, the vertex, the NEXT original vertex) has twice-area at least
   the tolerance; the two end points always stay. *)
From LBG Require Import Base QGeom ListCyc G0_vec G1_shapes G3_poly G9_clean.
Open Scope Q_scope.

Definition tri2 (a v n : V2) : Q := det2 a v + det2 v n + det2 n a.

(* the specification, on (vertex, next vertex) pairs *)
Fixpoint scanp (tol : Q) (prev : V2) (l : list (V2 * V2)) : list V2 :=
  match l with
  | [] => []
  | (v, n) :: r => if Qle_bool tol (Qabs (tri2 prev v n)) then v :: scanp tol v r else scanp tol prev r
  end.

(* ... and in look-ahead form on the plain vertex list *)
Fixpoint scan (tol : Q) (prev : V2) (l : list V2) : list V2 :=
  match l with
  | [] => []
  | v :: r => match r with
              | [] => []
              | n :: _ => if Qle_bool tol (Qabs (tri2 prev v n)) then v :: scan tol v r else scan tol prev r
              end
  end.

Lemma scan_cons2 tol prev v n r :
  scan tol prev (v :: n :: r) = if Qle_bool tol (Qabs (tri2 prev v n)) then v :: scan tol v (n :: r) else scan tol prev (n :: r).
Proof. reflexivity. Qed.

Lemma scan_scanp tol l : forall prev, scan tol prev l = scanp tol prev (combine (removelast l) (tl l)).
Proof.
  induction l as [|v r IH]; intros prev; [reflexivity|]. destruct r as [|n r']; [reflexivity|].
  rewrite scan_cons2. change (removelast (v :: n :: r')) with (v :: removelast (n :: r')). cbn [tl combine scanp].
  destruct (Qle_bool tol _); rewrite IH; reflexivity.
Qed.

Lemma skipn_step {A} (l : list A) : forall k x r, skipn k l = x :: r -> skipn (S k) l = r.
Proof.
  induction l as [|a l IH]; intros k x r E; [destruct k; discriminate|].
  destruct k as [|k]; [cbn in E; inversion E; reflexivity|]. cbn [skipn] in *. apply (IH k x r E).
Qed.

Definition step (L : list V2) (tol : Q) (st : list V2 * Z) (iv : Z * V2) : list V2 * Z :=
  let '(new, skip) := st in let '(i, v) := iv in
  let a := py_nth L (i - skip) (mkV2 0 0) in let n := py_nth L (i + 2) (mkV2 0 0) in
  if Qle_bool tol (Qabs (tri2 a v n)) then (new ++ [v], 0%Z) else (new, (skip + 1)%Z).

Lemma loop_is_scan (L : list V2) tol d :
  forall (m : list V2) (k : nat) acc (skip : nat) prev,
    (k + 1 + length m < length L)%nat -> (skip <= k)%nat -> nth (k - skip) L d = prev ->
    (forall j, (j < length m)%nat -> nth j m d = nth (k + 1 + j) L d) ->
    fst (fold_left (step L tol) (enum_from (Z.of_nat k) m) (acc, Z.of_nat skip))
    = acc ++ scanp tol prev (combine m (skipn (k + 2) L)).
Proof.
  induction m as [|v m IH]; intros k acc skip prev Hlen Hs Hp Hn.
  - cbn. rewrite app_nil_r. reflexivity.
  - cbn [length] in Hlen. cbn [enum_from fold_left].
    assert (Hnext : exists n r, skipn (k + 2) L = n :: r /\ n = nth (k + 2) L d).
    { destruct (skipn (k + 2) L) as [|n r] eqn:E.
      - exfalso. assert (X : length (skipn (k + 2) L) = (length L - (k + 2))%nat) by apply skipn_length. rewrite E in X. cbn in X. lia.
      - exists n, r. split; [reflexivity|]. rewrite <- (firstn_skipn (k + 2) L) at 1. rewrite E.
        rewrite app_nth2 by (rewrite firstn_length; lia). rewrite firstn_length. replace (k + 2 - Nat.min (k + 2) (length L))%nat with 0%nat by lia.
        reflexivity. }
    destruct Hnext as (n & r & Esk & En).
    rewrite Esk. cbn [combine scanp].
    assert (Ea : py_nth L (Z.of_nat k - Z.of_nat skip) (mkV2 0 0) = prev).
    { unfold py_nth. replace (Z.of_nat k - Z.of_nat skip <? 0)%Z with false by (symmetry; apply Z.ltb_ge; lia).
      replace (Z.to_nat (Z.of_nat k - Z.of_nat skip)) with (k - skip)%nat by lia.
      rewrite (nth_indep L (mkV2 0 0) d) by lia. exact Hp. }
    assert (Enx : py_nth L (Z.of_nat k + 2) (mkV2 0 0) = n).
    { unfold py_nth. replace (Z.of_nat k + 2 <? 0)%Z with false by (symmetry; apply Z.ltb_ge; lia).
      replace (Z.to_nat (Z.of_nat k + 2)) with (k + 2)%nat by lia.
      rewrite (nth_indep L (mkV2 0 0) d) by lia. symmetry. exact En. }
    assert (Ev : v = nth (k + 1) L d) by (specialize (Hn 0%nat ltac:(cbn; lia)); cbn [nth] in Hn; rewrite Nat.add_0_r in Hn; exact Hn).
    assert (Esk' : skipn (S k + 2) L = r).
    { replace (S k + 2)%nat with (S (k + 2)) by lia. apply (skipn_step L (k + 2) n r Esk). }
    unfold step at 2. cbv zeta. rewrite Ea, Enx.
    replace (Z.of_nat k + 1)%Z with (Z.of_nat (S k)) by lia.
    destruct (Qle_bool tol (Qabs (tri2 prev v n))).
    + change 0%Z with (Z.of_nat 0). rewrite (IH (S k) (acc ++ [v]) 0%nat v).
      * rewrite Esk', <- app_assoc. reflexivity.
      * lia.
      * lia.
      * rewrite Nat.sub_0_r. replace (S k) with (k + 1)%nat by lia. symmetry. exact Ev.
      * intros j Hj. specialize (Hn (S j) ltac:(cbn; lia)). cbn [nth] in Hn. rewrite Hn. f_equal. lia.
    + replace (Z.of_nat skip + 1)%Z with (Z.of_nat (S skip)) by lia. rewrite (IH (S k) acc (S skip) prev).
      * rewrite Esk'. reflexivity.
      * lia.
      * lia.
      * replace (S k - S skip)%nat with (k - skip)%nat by lia. exact Hp.
      * intros j Hj. specialize (Hn (S j) ltac:(cbn; lia)). cbn [nth] in Hn. rewrite Hn. f_equal. lia.
Qed.

Lemma fold_left_ext {A B} (F G : A -> B -> A) l a : (forall s x, F s x = G s x) -> fold_left F l a = fold_left G l a.
Proof. intros H. revert a. induction l as [|x l IH]; intros a; [reflexivity|]. cbn [fold_left]. rewrite H. apply IH. Qed.

Lemma nth_firstn_lt {A} (l : list A) d : forall k j, (j < k)%nat -> nth j (firstn k l) d = nth j l d.
Proof.
  induction l as [|x l IH]; intros k j H; [destruct k, j; reflexivity|].
  destruct k as [|k]; [lia|]. destruct j as [|j]; [reflexivity|]. cbn [firstn nth]. apply IH. lia.
Qed.

Lemma middle_slice {A} (L : list A) : (2 <= length L)%nat -> py_slice L (Some 1%Z) (Some (-1)%Z) = removelast (tl L).
Proof.
  intros H. unfold py_slice, py_norm_index. cbv zeta.
  replace (1 <? 0)%Z with false by reflexivity. replace (-1 <? 0)%Z with true by reflexivity.
  replace (Z.to_nat (Z.max 0 (Z.min (Z.of_nat (length L)) 1))) with 1%nat by lia.
  replace (Z.to_nat (Z.max 0 (Z.min (Z.of_nat (length L)) (Z.of_nat (length L) + -1)) - Z.max 0 (Z.min (Z.of_nat (length L)) 1)))
    with (pred (length (tl L))) by (destruct L as [|x r]; cbn [length tl] in *; lia).
  destruct L as [|x r]; [cbn in H; lia|]. cbn [skipn tl]. symmetry. apply removelast_firstn_len.
Qed.

Theorem polyline_remove_colinear_spec (p : Polyline2R) tol :
  let L := pl2_vertices p in (3 <= length L)%nat ->
  (length L = 3%nat -> Polyline2D_remove_colinear_vertices p tol = p) /\
  (length L <> 3%nat ->
   pl2_vertices (Polyline2D_remove_colinear_vertices p tol)
   = hd (mkV2 0 0) L :: scan tol (hd (mkV2 0 0) L) (tl L) ++ [last L (mkV2 0 0)]).
Proof.
  cbv zeta. intros H3. unfold Polyline2D_remove_colinear_vertices. cbv zeta. set (L := pl2_vertices p) in *.
  split; intros E.
  - unfold py_len. rewrite E. reflexivity.
  - replace (py_len L =? 3)%Z with false by (symmetry; apply Z.eqb_neq; unfold py_len; lia).
    set (d := mkV2 0 0).
    rewrite (fold_left_ext _ (step L tol)).
    2:{ intros [new skip] [i v]. unfold step, Base2DIn2D_op_getitem_2, tri2, det2, Vector2D_determinant. fold L. fold d.
        destruct (Qle_bool tol _); reflexivity. }
    rewrite middle_slice by lia.
    set (m := removelast (tl L)).
    assert (Lm : length m = (length L - 2)%nat).
    { unfold m. rewrite removelast_firstn_len, firstn_length. destruct L as [|x r]; cbn [tl length] in *; lia. }
    assert (Nm : forall j, (j < length m)%nat -> nth j m d = nth (0 + 1 + j) L d).
    { intros j Hj. unfold m. rewrite removelast_firstn_len. rewrite nth_firstn_lt.
      - destruct L as [|x r]; [cbn in H3; lia|]. reflexivity.
      - rewrite Lm in Hj. destruct L as [|x r]; cbn [tl length] in *; lia. }
    pose proof (loop_is_scan L tol d m 0 [py_nth L 0 d] 0 (nth 0 L d) ltac:(lia) ltac:(lia) eq_refl Nm) as LS.
    change (Z.of_nat 0) with 0%Z in LS. unfold py_enumerate.
    destruct (fold_left (step L tol) (enum_from 0 m) ([py_nth L 0 d], 0%Z)) as [new skip] eqn:EF.
    cbn [fst] in LS. unfold Polyline2D_op_init. cbv zeta. cbn [pl2_vertices]. rewrite LS.
    assert (H0 : py_nth L 0 d = hd d L) by (destruct L; reflexivity).
    assert (H0' : nth 0 L d = hd d L) by (destruct L; reflexivity).
    assert (HL : Base2DIn2D_op_getitem_2 p (-1) = last L d).
    { unfold Base2DIn2D_op_getitem_2, py_nth. fold L. fold d. replace (-1 <? 0)%Z with true by reflexivity.
      replace (Z.to_nat (Z.of_nat (length L) + -1)) with (length L - 1)%nat by lia. apply nth_last. }
    rewrite H0, H0', HL. rewrite scan_scanp. fold m.
    replace (skipn (0 + 2) L) with (tl (tl L)) by (destruct L as [|x [|y r]]; reflexivity).
    unfold Base2DIn2D__check_vertices_input. cbn [app]. reflexivity.
Qed.

(* the clean-up keeps the `interpolated` flag of the polyline *)
Theorem polyline_remove_colinear_keeps_flag (p : Polyline2R) tol :
  pl2_interp (Polyline2D_remove_colinear_vertices p tol) = pl2_interp p.
Proof.
  unfold Polyline2D_remove_colinear_vertices. cbv zeta. destruct (py_len (pl2_vertices p) =? 3)%Z; [reflexivity|].
  destruct (fold_left _ _ _) as [new skip]. reflexivity.
Qed.

(* what the scan guarantees: only original vertices, in their order, each kept one a genuine corner w.r.t. the previous kept vertex *)
Lemma scanp_sub tol l : forall prev v, In v (scanp tol prev l) -> In v (map fst l).
Proof.
  induction l as [|[w n] r IH]; intros prev v I; [destruct I|]. cbn [scanp map fst] in *.
  destruct (Qle_bool tol _); [destruct I as [->|I]; [left; reflexivity| right; eapply IH; exact I] | right; eapply IH; exact I].
Qed.

Lemma scanp_keeps_corners tol l : forall prev,
  (forall v n, In (v, n) l -> forall a, tol <= Qabs (tri2 a v n)) -> scanp tol prev l = map fst l.
Proof.
  induction l as [|[w n] r IH]; intros prev H; [reflexivity|]. cbn [scanp map fst].
  assert (T : Qle_bool tol (Qabs (tri2 prev w n)) = true) by (apply Qle_bool_iff; apply (H w n); left; reflexivity).
  rewrite T. f_equal. apply IH. intros v n' I a. apply (H v n'). right. exact I.
Qed.
