(* C04 -- polygon Boolean operations: the selection logic is exactly the set operation (complete
   on its finite domain) and the cell-set specification used to judge the sweep obeys the set algebra. *)
From LBG Require Import T_tables C04_tables CellSpec.
From Coq Require Import ZArith List Bool.
Import ListNotations.
Open Scope Z_scope.

Theorem C04_union_table : forall a1 b1 a2 b2, correct_entry orb a1 b1 a2 b2 (entry select_union_table a1 b1 a2 b2) = true.
Proof. exact union_table_correct. Qed.
Print Assumptions C04_union_table.
Theorem C04_intersect_table : forall a1 b1 a2 b2, correct_entry andb a1 b1 a2 b2 (entry select_intersect_table a1 b1 a2 b2) = true.
Proof. exact intersect_table_correct. Qed.
Print Assumptions C04_intersect_table.
Theorem C04_difference_table : forall a1 b1 a2 b2,
  correct_entry (fun x y => x && negb y) a1 b1 a2 b2 (entry select_difference_table a1 b1 a2 b2) = true.
Proof. exact difference_table_correct. Qed.
Print Assumptions C04_difference_table.
Theorem C04_difference_rev_table : forall a1 b1 a2 b2,
  correct_entry (fun x y => negb x && y) a1 b1 a2 b2 (entry select_difference_rev_table a1 b1 a2 b2) = true.
Proof. exact difference_rev_table_correct. Qed.
Print Assumptions C04_difference_rev_table.
Theorem C04_xor_table : forall a1 b1 a2 b2, correct_entry xorb a1 b1 a2 b2 (entry select_xor_table a1 b1 a2 b2) = true.
Proof. exact xor_table_correct. Qed.
Print Assumptions C04_xor_table.

Theorem C04_tables_complete :
  length select_union_table = 16%nat /\ length select_intersect_table = 16%nat /\ length select_difference_table = 16%nat /\
  length select_difference_rev_table = 16%nat /\ length select_xor_table = 16%nat.
Proof. exact tables_have_16_entries. Qed.
Print Assumptions C04_tables_complete.

Theorem C04_inverted_flags : forall a b,
  select_union_inverted a b = orb a b /\ select_intersect_inverted a b = andb a b /\
  select_difference_inverted a b = (a && negb b) /\ select_difference_rev_inverted a b = (negb a && b) /\
  select_xor_inverted a b = xorb a b.
Proof. exact inverted_flags_correct. Qed.
Print Assumptions C04_inverted_flags.

Theorem C04_selection_keeps_exactly_the_boundary : forall op tab,
  (forall a1 b1 a2 b2, correct_entry op a1 b1 a2 b2 (entry tab a1 b1 a2 b2) = true) ->
  forall a1 b1 a2 b2, select_keep (entry tab a1 b1 a2 b2) = true <-> op a1 a2 <> op b1 b2.
Proof. exact selection_keeps_exactly_the_boundary. Qed.
Print Assumptions C04_selection_keeps_exactly_the_boundary.

(* the specification the sweep is compared with: exact set semantics and its area laws *)
Theorem C04_spec_union : forall a b c, In c (cunion a b) <-> In c a \/ In c b.
Proof. exact cunion_spec. Qed.
Print Assumptions C04_spec_union.
Theorem C04_spec_intersection : forall a b c, In c (cinter a b) <-> In c a /\ In c b.
Proof. exact cinter_spec. Qed.
Print Assumptions C04_spec_intersection.
Theorem C04_spec_difference : forall a b c, In c (cdiff a b) <-> In c a /\ ~ In c b.
Proof. exact cdiff_spec. Qed.
Print Assumptions C04_spec_difference.
Theorem C04_spec_xor : forall a b c, In c (cxor a b) <-> (In c a /\ ~ In c b) \/ (In c b /\ ~ In c a).
Proof. exact cxor_spec. Qed.
Print Assumptions C04_spec_xor.
Theorem C04_inclusion_exclusion : forall a b, area (cunion a b) + area (cinter a b) = area a + area b.
Proof. exact inclusion_exclusion. Qed.
Print Assumptions C04_inclusion_exclusion.
Theorem C04_split_partitions : forall a b c,
  (In c a <-> In c (cinter a b) \/ In c (cdiff a b)) /\ ~ (In c (cinter a b) /\ In c (cdiff a b)) /\
  (In c b <-> In c (cinter a b) \/ In c (cdiff b a)) /\ ~ (In c (cinter a b) /\ In c (cdiff b a)).
Proof. exact split_partitions. Qed.
Print Assumptions C04_split_partitions.
Theorem C04_union_all : forall l c, In c (cunion_all l) <-> exists s, In s l /\ In c s.
Proof. exact cunion_all_spec. Qed.
Print Assumptions C04_union_all.
Theorem C04_intersect_all : forall a r c, In c (cinter_all (a :: r)) <-> forall s, In s (a :: r) -> In c s.
Proof. exact cinter_all_spec. Qed.
Print Assumptions C04_intersect_all.
