(* Base.v -- number system and Python-runtime primitives used by the
   generated models (coq/gen/*.v).  Hand-written, no proofs about the code. *)
From Coq Require Export QArith Qminmax Qabs Qround ZArith List Bool Lia Lqa.
Export ListNotations.
Open Scope Q_scope.

Record V2 := mkV2 { v2x : Q; v2y : Q }.
Record V3 := mkV3 { v3x : Q; v3y : Q; v3z : Q }.

Definition Qlt_bool (a b : Q) : bool := negb (Qle_bool b a).
Definition Qneq_bool (a b : Q) : bool := negb (Qeq_bool a b).

Lemma Qlt_bool_iff a b : Qlt_bool a b = true <-> a < b.
Proof.
  unfold Qlt_bool. rewrite negb_true_iff.
  split; intro H.
  - apply Qnot_le_lt. intro H1. apply Qle_bool_iff in H1. congruence.
  - destruct (Qle_bool b a) eqn:E; auto. apply Qle_bool_iff in E.
    exfalso. apply (Qlt_not_le _ _ H E).
Qed.

Lemma Qle_bool_false_iff a b : Qle_bool a b = false <-> b < a.
Proof.
  rewrite <- Qlt_bool_iff. unfold Qlt_bool. rewrite negb_true_iff. tauto.
Qed.

Lemma Qlt_bool_false_iff a b : Qlt_bool a b = false <-> b <= a.
Proof.
  unfold Qlt_bool. rewrite negb_false_iff. apply Qle_bool_iff.
Qed.

Lemma Qeq_bool_false_iff a b : Qeq_bool a b = false <-> ~ a == b.
Proof.
  split; intro H.
  - intro E. apply Qeq_bool_iff in E. congruence.
  - destruct (Qeq_bool a b) eqn:E; auto. apply Qeq_bool_iff in E. tauto.
Qed.

(* Python sequence indexing with negative indices; [d] stands for IndexError *)
Definition py_nth {A} (l : list A) (i : Z) (d : A) : A :=
  if (i <? 0)%Z then nth (Z.to_nat (Z.of_nat (length l) + i)) l d
  else nth (Z.to_nat i) l d.

Fixpoint enum_from {A} (i : Z) (l : list A) : list (Z * A) :=
  match l with
  | [] => []
  | x :: r => (i, x) :: enum_from (i + 1)%Z r
  end.
Definition py_enumerate {A} (l : list A) : list (Z * A) := enum_from 0%Z l.

Fixpoint zrange_aux (n : nat) (start : Z) : list Z :=
  match n with O => [] | S k => start :: zrange_aux k (start + 1)%Z end.
Definition py_range (a b : Z) : list Z := zrange_aux (Z.to_nat (b - a)) a.
Definition py_len {A} (l : list A) : Z := Z.of_nat (length l).

Definition Qsum (l : list Q) : Q := fold_left Qplus l 0.

(* cyclic predecessor pairs: [(l[-1], l[0]); (l[0], l[1]); ...] *)
Definition cyc_pairs {A} (l : list A) : list (A * A) :=
  match l with
  | [] => []
  | x :: r => combine (last l x :: removelast l) l
  end.

Definition opt_is_none {A} (o : option A) : bool :=
  match o with None => true | Some _ => false end.

(* deterministic rational square root used ONLY when models are executed for
   the correspondence check (exact on squares of dyadic rationals, otherwise
   within 2^-60 absolute after scaling); never used in a theorem. *)
Definition qsqrt_exec (x : Q) : Q :=
  let s := (2 ^ 120)%Z in
  let n := (Qnum x * s / Zpos (Qden x))%Z in
  Qred (Z.sqrt n # (2 ^ 60)%positive).

(* record shapes of the geometry classes: exactly the *defining* slots
   (memo slots are not part of the value), see tools/py2coq.py configure_classes *)
Record LR2 := mkLR2 { lr2p : V2; lr2v : V2 }.
Record LR3 := mkLR3 { lr3p : V3; lr3v : V3 }.
Record PlaneR := mkPlane { pl_n : V3; pl_o : V3; pl_k : Q; pl_x : V3; pl_y : V3 }.
Record Arc2R := mkArc2 { a2_c : V2; a2_r : Q; a2_a1 : Q; a2_a2 : Q }.
Record Arc3R := mkArc3 { a3_plane : PlaneR; a3_arc2d : Arc2R }.
Record SphereR := mkSphere { sp_c : V3; sp_r : Q }.
Record ConeR := mkCone { co_vertex : V3; co_axis : V3; co_angle : Q }.
Record CylR := mkCyl { cy_c : V3; cy_axis : V3; cy_r : Q }.
Record Polygon2R := mkPolygon2 { pg_vertices : list V2 }.
Record Polyline2R := mkPolyline2 { pl2_vertices : list V2; pl2_interp : bool }.
Record Polyline3R := mkPolyline3 { pl3_vertices : list V3; pl3_interp : bool }.
Record Mesh2R := mkMesh2 { m2_vertices : list V2; m2_faces : list (list Z) }.
Record Mesh3R := mkMesh3 { m3_vertices : list V3; m3_faces : list (list Z) }.
Record Face3R := mkFace3 { f3_boundary : list V3; f3_holes : option (list (list V3)); f3_plane : PlaneR }.

Fixpoint set_nth {A} (l : list A) (n : nat) (x : A) : list A :=
  match l, n with
  | [], _ => []
  | _ :: r, O => x :: r
  | y :: r, S k => y :: set_nth r k x
  end.
Definition py_set_nth {A} (l : list A) (i : Z) (x : A) : list A :=
  if (i <? 0)%Z then set_nth l (Z.to_nat (Z.of_nat (length l) + i)) x
  else set_nth l (Z.to_nat i) x.

Definition py_norm_index (len i : Z) : Z :=
  let j := if (i <? 0)%Z then (len + i)%Z else i in
  Z.max 0 (Z.min len j).
Definition py_slice {A} (l : list A) (lo hi : option Z) : list A :=
  let n := Z.of_nat (length l) in
  let a := match lo with None => 0%Z | Some i => py_norm_index n i end in
  let b := match hi with None => n | Some i => py_norm_index n i end in
  firstn (Z.to_nat (b - a)) (skipn (Z.to_nat a) l).

(* Python float modulo (sign of the divisor): a - b * floor(a / b) *)
Definition py_mod (a b : Q) : Q := a - b * inject_Z (Qfloor (a / b)).

Definition py_rotl {A} (l : list A) : list A :=
  match l with [] => [] | x :: r => r ++ [x] end.

Definition py_min_list (l : list Q) : Q := match l with [] => 0 | x :: r => fold_left Qmin r x end.
Definition py_max_list (l : list Q) : Q := match l with [] => 0 | x :: r => fold_left Qmax r x end.

(* `while c: b` with an explicit bound on the number of iterations; when the fuel runs out the current state is returned
   (theorems exclude that case by assuming enough fuel) *)
Fixpoint py_while {S : Type} (fuel : nat) (c : S -> bool) (b : S -> S) (s : S) : S :=
  match fuel with
  | O => s
  | Datatypes.S k => if c s then py_while k c b (b s) else s
  end.

(* Python 3 round(): to the nearest integer, ties to even *)
Definition py_round (x : Q) : Z :=
  let f := Qfloor x in
  let r := x - inject_Z f in
  if Qlt_bool r (1#2) then f else if Qlt_bool (1#2) r then (f + 1)%Z else if Z.even f then f else (f + 1)%Z.
