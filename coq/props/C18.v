(* C18 -- joining segments conserves the input.  PARTIAL: proved for the hand model JoinSeg.v (exact end-point
   matching; tied to the implementation by correspondence): every input segment is used exactly once by the returned
   chains, and the result is maximal - no edge of a later chain (nor any unused segment while a chain is grown) touches an
   end of an earlier chain - for every order and orientation of the input.  Maximality under a non-transitive tolerance
   and the outline extraction (joined_intersected_boundary, join_coplanar_faces) are validated by the harness. *)
From Coq Require Import ZArith List Bool.
From LBG Require Import JoinSeg C18_join.
Import ListNotations.
Open Scope Z_scope.

Theorem C18_every_segment_used_exactly_once : forall segs k, (2 <= length segs)%nat ->
  cnt k (all_edges (group_vertices segs)) = cnt k segs.
Proof. exact group_uses_each_segment_once. Qed.
Print Assumptions C18_every_segment_used_exactly_once.

Theorem C18_chains_are_maximal : forall segs, (2 <= length segs)%nat -> ordered (group_vertices segs).
Proof. exact group_vertices_maximal. Qed.
Print Assumptions C18_chains_are_maximal.

Theorem C18_a_grown_chain_cannot_be_extended : forall fuel poly others, poly <> [] -> (length others <= fuel)%nat ->
  let '(p, rest) := build fuel poly others in
  p <> [] /\ (forall s, In s rest -> touches_end p s = false) /\ (forall s, In s rest -> In s others).
Proof. exact build_maximal. Qed.
Print Assumptions C18_a_grown_chain_cannot_be_extended.

(* a shuffled, partly flipped square plus a lone segment: one closed chain of 5 vertices and one segment *)
Example C18_nonvacuous :
  let segs := [((1,0),(1,1)); ((0,0),(1,0)); ((5,5),(6,5)); ((0,1),(1,1)); ((0,1),(0,0))] in
  map (@length pt) (group_vertices segs) = [5%nat; 2%nat] /\
  cnt ((1,1),(1,0)) (all_edges (group_vertices segs)) = 1%nat.
Proof. vm_compute. split; reflexivity. Qed.

(* the end-point matching test of the joining routines (generated Vector2D.is_equivalent) is an absolute coordinate test: symmetric, and
   independent of where in the model the two points lie *)
From Coq Require Import QArith Qabs.
From LBG Require Import Base G0_vec G9_clean C18_equiv.
Theorem C18_end_points_match_within_the_absolute_tolerance : forall a b tol,
  Vector2D_is_equivalent a b tol = true <-> (Qabs (v2x a - v2x b) <= tol /\ Qabs (v2y a - v2y b) <= tol)%Q.
Proof. exact is_equivalent_spec. Qed.
Print Assumptions C18_end_points_match_within_the_absolute_tolerance.

Theorem C18_end_point_matching_does_not_depend_on_position : forall a b t tol,
  Vector2D_is_equivalent (mkV2 (v2x a + v2x t) (v2y a + v2y t)) (mkV2 (v2x b + v2x t) (v2y b + v2y t)) tol = Vector2D_is_equivalent a b tol.
Proof. exact is_equivalent_translation_invariant. Qed.
Print Assumptions C18_end_point_matching_does_not_depend_on_position.

Theorem C18_end_point_matching_is_symmetric : forall a b tol, Vector2D_is_equivalent a b tol = Vector2D_is_equivalent b a tol.
Proof. exact is_equivalent_symmetric. Qed.
Print Assumptions C18_end_point_matching_is_symmetric.
