"""Exact-rational (Fraction) reference geometry: the oracles' vocabulary.
Independent of ladybug_geometry and of the Coq models."""
from fractions import Fraction
import math

Fr = Fraction


def F(x):
    if isinstance(x, Fraction):
        return x
    if isinstance(x, float):
        return Fraction(*x.as_integer_ratio())
    return Fraction(x)


def fpt(p):
    """exact coordinates of a ladybug point/vector or a tuple"""
    if hasattr(p, 'z'):
        return (F(p.x), F(p.y), F(p.z))
    if hasattr(p, 'x'):
        return (F(p.x), F(p.y))
    return tuple(F(c) for c in p)


def sub(a, b): return tuple(x - y for x, y in zip(a, b))
def add(a, b): return tuple(x + y for x, y in zip(a, b))
def smul(k, a): return tuple(k * x for x in a)
def dot(a, b): return sum(x * y for x, y in zip(a, b))
def det2(a, b): return a[0] * b[1] - a[1] * b[0]
def cross(a, b):
    return (a[1] * b[2] - a[2] * b[1], a[2] * b[0] - a[0] * b[2], a[0] * b[1] - a[1] * b[0])
def sqd(a, b): return dot(sub(a, b), sub(a, b))
def norm2(a): return dot(a, a)


def fsqrt(x):
    """float sqrt of an exact rational (only for tolerance comparisons)"""
    return math.sqrt(float(x)) if x > 0 else 0.0


def close(a, b, rel=1e-9, scale=1.0):
    return abs(float(a) - float(b)) <= rel * max(scale, abs(float(a)), abs(float(b)))


def pclose(a, b, rel=1e-9, scale=1.0):
    return all(close(x, y, rel, scale) for x, y in zip(a, b)) and len(a) == len(b)


# ---------------------------------------------------------------- polygons
def shoelace2(pts):
    """twice the signed area"""
    s = Fr(0)
    n = len(pts)
    for i in range(n):
        s += det2(pts[i - 1], pts[i])
    return s


def area(pts):
    return abs(shoelace2(pts)) / 2


def perimeter(pts):
    return sum(fsqrt(sqd(pts[i - 1], pts[i])) for i in range(len(pts)))


def centroid2(pts):
    a2 = shoelace2(pts)
    cx = cy = Fr(0)
    for i in range(len(pts)):
        p, q_ = pts[i - 1], pts[i]
        d = det2(p, q_)
        cx += (p[0] + q_[0]) * d
        cy += (p[1] + q_[1]) * d
    return (cx / (3 * a2), cy / (3 * a2))


def newell(pts):
    """area vector (twice) of a 3D loop"""
    n = (Fr(0), Fr(0), Fr(0))
    for i in range(len(pts)):
        n = add(n, cross(pts[i - 1], pts[i]))
    return n


def orient(a, b, c):
    d = det2(sub(b, a), sub(c, a))
    return (d > 0) - (d < 0)


def on_segment(a, b, p):
    """p on closed segment ab (exact)"""
    if orient(a, b, p) != 0:
        return False
    return min(a[0], b[0]) <= p[0] <= max(a[0], b[0]) and min(a[1], b[1]) <= p[1] <= max(a[1], b[1])


def segs_intersect(a, b, c, d):
    """closed segments ab, cd share a point (exact)"""
    o1, o2, o3, o4 = orient(a, b, c), orient(a, b, d), orient(c, d, a), orient(c, d, b)
    if o1 != o2 and o3 != o4:
        return True
    return (o1 == 0 and on_segment(a, b, c)) or (o2 == 0 and on_segment(a, b, d)) or \
        (o3 == 0 and on_segment(c, d, a)) or (o4 == 0 and on_segment(c, d, b))


def is_simple(pts):
    n = len(pts)
    if n < 3:
        return False
    for i in range(n):
        if pts[i] == pts[(i + 1) % n]:
            return False
    for i in range(n):
        a, b = pts[i], pts[(i + 1) % n]
        for j in range(i + 1, n):
            c, d = pts[j], pts[(j + 1) % n]
            adjacent = (j == i + 1) or (i == 0 and j == n - 1)
            if adjacent:
                # adjacent edges share exactly one end point; they must not overlap
                shared = b if j == i + 1 else a
                other1 = a if j == i + 1 else b
                other2 = d if j == i + 1 else c
                if orient(shared, other1, other2) == 0 and dot(sub(other1, shared), sub(other2, shared)) > 0:
                    return False
                continue
            if segs_intersect(a, b, c, d):
                return False
    return True


def winding_inside(pts, p):
    """exact containment by the half-open crossing rule; None if p is on the boundary"""
    n = len(pts)
    inside = False
    for i in range(n):
        a, b = pts[i - 1], pts[i]
        if on_segment(a, b, p):
            return None
        if (a[1] > p[1]) != (b[1] > p[1]):
            # x coordinate of the crossing
            t = (p[1] - a[1]) / (b[1] - a[1])
            x = a[0] + t * (b[0] - a[0])
            if x > p[0]:
                inside = not inside
    return inside


def sqdist_point_segment(p, a, b):
    ab = sub(b, a)
    d = dot(ab, ab)
    if d == 0:
        return sqd(p, a)
    t = dot(sub(p, a), ab) / d
    t = max(Fr(0), min(Fr(1), t))
    return sqd(p, add(a, smul(t, ab)))


def sqdist_to_boundary(pts, p):
    return min(sqdist_point_segment(p, pts[i - 1], pts[i]) for i in range(len(pts)))


def region_contains(boundary, holes, p):
    """even-odd containment for boundary minus holes; None on any edge"""
    r = winding_inside(boundary, p)
    if r is None:
        return None
    for h in holes:
        k = winding_inside(h, p)
        if k is None:
            return None
        if k:
            return False
    return r


# ---------------------------------------------------------------- rigid maps
def rodrigues(v, axis, c, s):
    """rotate vector v about axis (any length) by the angle with cos=c, sin=s; axis length via float sqrt"""
    n2 = dot(axis, axis)
    r = F(math.sqrt(float(n2)))
    k = smul(1 / r, axis)
    kv = dot(k, v)
    kxv = cross(k, v)
    return add(add(smul(c, v), smul(s, kxv)), smul(kv * (1 - c), k))


def householder(v, n):
    return sub(v, smul(2 * dot(v, n), n))


def rot2(v, c, s):
    return (c * v[0] - s * v[1], s * v[0] + c * v[1])
