"""C03  derived properties do not depend on which properties were read before (no stale memo).

explore(): history runner.  For each class, sequences drawn from {read property, duplicate, reverse/flip, move, rotate,
rotate_xy, reflect, scale, remove_*, join_meshes, triangulated}; after the history EVERY zero-argument derived property
is compared with a fresh object built only from the defining data.  Short histories exhaustively, longer ones sampled.
correspond(): the XFER tables generated from the source (which memo slot each operation carries over, and how) are
checked dynamically against what the real objects do."""
import math, itertools, inspect
from fractions import Fraction
from .. import core, gens as G, exact as X, build as Bd
from ..build import P2, V2, P3, V3
from ladybug_geometry.geometry2d import Polygon2D, Polyline2D, Mesh2D, Point2D, Vector2D
from ladybug_geometry.geometry3d import Polyline3D, Mesh3D, Face3D, Polyface3D, Plane, Point3D, Vector3D

RULE = ('op histories over the alphabet of the property on Polygon2D, Polyline2D/3D, Mesh2D/3D, Face3D, Polyface3D incl. '
        'cache-seeding factories; all histories of length <=2 (quick) / <=3 (thorough) per start object exhaustively, longer '
        'ones (to length 6) sampled; non-trivial = history contains a read before a transform; distinct by (class, factory, history)')
ASSUMPTIONS = ['a fresh object is rebuilt from vertices / faces / plane / holes only', 'values compared to 1e-9 relative (bools, counts exactly)']
TRUSTED = []

TOL = 1e-9
SKIP = {'vertices', 'boundary', 'holes', 'faces', 'plane', 'interpolated', 'colors', 'is_color_by_face', 'face_indices',
        'boundary_polygon2d', 'hole_polygon2d', 'polygon2d', 'triangulated_mesh2d', 'triangulated_mesh3d',
        'edge_information', 'ToString', 'self_intersection_points'}
# properties that are expensive or not value-like are skipped; everything else that is a @property is compared


def props_of(cls):
    out = []
    for name in dir(cls):
        if name.startswith('_') or (name in SKIP and not (cls is Polyface3D and name == 'faces')):
            continue
        if isinstance(getattr(cls, name, None), property):
            out.append(name)
    return sorted(out)


def flat(v, out):
    """flatten a value into a list of comparable atoms"""
    if v is None or isinstance(v, (bool, int, str)):
        out.append(v)
    elif isinstance(v, float):
        out.append(v)
    elif isinstance(v, (tuple, list)):
        out.append(('len', len(v)))
        for x in v:
            flat(x, out)
    elif hasattr(v, 'to_array') and not isinstance(v, (Polygon2D, Face3D)):
        try:
            flat(v.to_array(), out)
        except Exception:
            out.append(repr(v))
    elif isinstance(v, (Point2D, Vector2D, Point3D, Vector3D)):
        flat(tuple(v), out)
    elif hasattr(v, 'vertices'):
        flat(tuple(v.vertices), out)
    elif hasattr(v, 'p') and hasattr(v, 'v'):
        flat((tuple(v.p), tuple(v.v)), out)
    elif isinstance(v, Plane):
        flat((tuple(v.n), tuple(v.o)), out)
    else:
        out.append(repr(v))


EDGE_PROPS = {'edges', 'naked_edges', 'internal_edges', 'non_manifold_edges', 'edge_indices', 'edge_types'}


def canon_edges(o, p, v):
    """edge lists are documented as sets: compare order-free (and direction-free)"""
    if p == 'edge_types':
        return sorted(v)
    if p == 'edge_indices':
        return sorted(tuple(sorted(e)) for e in v)
    return sorted(tuple(sorted((tuple(round(c, 9) for c in s.p1), tuple(round(c, 9) for c in s.p2)))) for s in v)


def edges_match(a, b, tol):
    """two lists of segments describe the same multiset of undirected edges (within tol)"""
    if len(a) != len(b):
        return False
    rem = list(b)
    for s in a:
        hit = None
        for t in rem:
            d1 = s.p1.distance_to_point(t.p1) + s.p2.distance_to_point(t.p2)
            d2 = s.p1.distance_to_point(t.p2) + s.p2.distance_to_point(t.p1)
            if min(d1, d2) <= 4 * tol:
                hit = t
                break
        if hit is None:
            return False
        rem.remove(hit)
    return True


def same(a, b, scale):
    fa, fb = [], []
    flat(a, fa); flat(b, fb)
    if len(fa) != len(fb):
        return False
    for x, y in zip(fa, fb):
        if isinstance(x, float) or isinstance(y, float):
            if x is None or y is None or isinstance(x, (str, tuple)) or isinstance(y, (str, tuple)):
                return False
            if abs(x - y) > TOL * max(scale, abs(x), abs(y)):
                return False
        elif x != y:
            return False
    return True


def fresh(o):
    if isinstance(o, Polygon2D): return Polygon2D(o.vertices)
    if isinstance(o, Polyline2D): return Polyline2D(o.vertices, o.interpolated)
    if isinstance(o, Polyline3D): return Polyline3D(o.vertices, o.interpolated)
    if isinstance(o, Mesh2D): return Mesh2D(o.vertices, o.faces, o.colors)
    if isinstance(o, Mesh3D): return Mesh3D(o.vertices, o.faces, o.colors)
    if isinstance(o, Face3D): return Face3D(o.boundary, o.plane, o.holes)
    if isinstance(o, Polyface3D): return Polyface3D(o.vertices, o.face_indices)
    raise TypeError(type(o))


# ------------------------------------------------------------------ start objects
def starts(rng):
    """(label, maker) pairs: maker() rebuilds the start object from scratch (so that no memo slot filled by an
    earlier history survives), including factories that pre-seed memo slots"""
    out = []
    pts = G.star_polygon(rng, n=rng.choice([4, 5, 7]), R=10.0)
    out.append(('Polygon2D', lambda: Polygon2D([P2(p) for p in pts])))
    out.append(('Polygon2D.cw', lambda: Polygon2D([P2(p) for p in pts[::-1]])))
    # a star polygon that winds twice (every turn the same way, edges crossing): is_convex and is_self_intersecting are both
    # defined for it and must not influence each other
    ring = [(G.dy(8 * math.cos(2 * math.pi * i / 5 + 0.3)), G.dy(8 * math.sin(2 * math.pi * i / 5 + 0.3))) for i in range(5)]
    gram = [ring[(2 * i) % 5] for i in range(5)]
    out.append(('Polygon2D.pentagram', lambda: Polygon2D([P2(p) for p in gram])))
    bp, rb, rh = G.rpt2(rng, 20), G.dy(rng.uniform(1, 9)), G.dy(rng.uniform(1, 9))
    out.append(('Polygon2D.from_rectangle', lambda: Polygon2D.from_rectangle(P2(bp), Vector2D(0, 1), rb, rh)))
    ns, rr, cp = rng.randint(3, 8), G.dy(rng.uniform(1, 9)), G.rpt2(rng, 20)
    out.append(('Polygon2D.from_regular_polygon', lambda: Polygon2D.from_regular_polygon(ns, rr, P2(cp))))
    out.append(('Polyline2D', lambda: Polyline2D([P2(p) for p in pts[:-1]])))
    # a polyline with a nearly (not exactly) collinear vertex, so that remove_colinear_vertices changes the length
    wob = [(0.0, 0.0), (2.0, 0.002), (4.0, 0.0), (4.0, 3.0), (1.0, 5.0)]
    out.append(('Polyline2D.wobble', lambda: Polyline2D([P2(p) for p in wob])))
    out.append(('Polyline3D.wobble', lambda: Polyline3D([P3((p[0], p[1], 1.0)) for p in wob])))
    p3s = [G.rpt3(rng, 20) for _ in range(5)]
    out.append(('Polyline3D', lambda: Polyline3D([P3(p) for p in p3s])))
    v, f = Bd.tri_quad_mesh2d(rng)
    out.append(('Mesh2D', lambda: Mesh2D([P2(p) for p in v], f)))
    gb, gnx, gny, gdx, gdy = G.rpt2(rng, 20), rng.randint(1, 3), rng.randint(1, 3), G.dy(rng.uniform(0.5, 4)), G.dy(rng.uniform(0.5, 4))
    out.append(('Mesh2D.from_grid', lambda: Mesh2D.from_grid(P2(gb), gnx, gny, gdx, gdy)))
    cv = G.convex_polygon(rng, n=5, R=10.0)
    out.append(('Mesh2D.from_polygon_grid', lambda: Mesh2D.from_polygon_grid(Polygon2D([P2(p) for p in cv]), 3.0, 3.0, False)))
    frame = G.rational_frame(rng, special=False); o = G.rpt3(rng, 20)      # tilted: face normals are not along an axis
    out.append(('Mesh3D', lambda: Mesh3D([P3(G.embed(frame, o, p)) for p in v], f)))
    # a folded (non-planar) triangle mesh: vertex normals really are averages of different face normals
    fv = [(p[0], p[1], G.dy(rng.uniform(-4, 4))) for p in v]
    ff = [t for fc in f for t in ([tuple(fc)] if len(fc) == 3 else [(fc[0], fc[1], fc[2]), (fc[2], fc[3], fc[0])])]
    out.append(('Mesh3D.folded', lambda: Mesh3D([P3(p) for p in fv], ff)))
    f0 = Bd.face3d(rng, nholes=0, n=5); f0d = f0.to_dict()
    out.append(('Face3D', lambda: Face3D.from_dict(f0d)))
    f1d = Bd.face3d(rng, nholes=1, n=6).to_dict()
    out.append(('Face3D.holes', lambda: Face3D.from_dict(f1d)))
    fw, fh, fpl = G.dy(rng.uniform(1, 9)), G.dy(rng.uniform(1, 9)), Bd.plane(rng)
    out.append(('Face3D.from_rectangle', lambda: Face3D.from_rectangle(fw, fh, fpl)))
    seg = Bd.make(rng, 'LineSegment3D'); ez = G.dy(rng.uniform(1, 9))
    out.append(('Face3D.from_extrusion', lambda: Face3D.from_extrusion(seg, V3((0.0, 0.0, ez)))))
    # grid mesh of a face: plain, or lifted off the face and flipped (all of its per-face data is pre-seeded by the factory)
    gext = max(f0.max.x - f0.min.x, f0.max.y - f0.min.y, f0.max.z - f0.min.z)
    gcell = G.dy(gext / 5.0)
    for div in (5.0, 9.0, 15.0, 31.0):
        try:
            Face3D.from_dict(f0d).mesh_grid(G.dy(gext / div), G.dy(gext / div), 0, False)
            gcell = G.dy(gext / div)
            break
        except AssertionError:
            continue
    gpar = [gcell, gcell, 0, False]
    out.append(('Face3D.mesh_grid', lambda: Face3D.from_dict(f0d).mesh_grid(*gpar)))
    out[-1][1].witness = {'face': f0d, 'grid': gpar}
    gpar2 = [gcell, gcell, G.dy(rng.uniform(0.1, 1)), True]
    out.append(('Face3D.mesh_grid', lambda: Face3D.from_dict(f0d).mesh_grid(*gpar2)))
    out[-1][1].witness = {'face': f0d, 'grid': gpar2}
    bw, bd_, bh, bpl = G.dy(rng.uniform(1, 9)), G.dy(rng.uniform(1, 9)), G.dy(rng.uniform(1, 9)), Bd.plane(rng)
    out.append(('Polyface3D.from_box', lambda: Polyface3D.from_box(bw, bd_, bh, bpl)))
    f4d = Bd.face3d(rng, n=4).to_dict(); oh = G.dy(rng.uniform(1, 9))
    out.append(('Polyface3D.from_offset_face', lambda: Polyface3D.from_offset_face(Face3D.from_dict(f4d), oh)))
    good = []
    for label, mk in out:
        try:
            mk()
            good.append((label, mk))
        except Exception:
            pass
    return good


def transforms(rng, o):
    """name -> callable producing a new object of the same family"""
    d3 = not isinstance(o, (Polygon2D, Polyline2D, Mesh2D))
    t = {}
    t['duplicate'] = lambda x: x.duplicate()
    if d3:
        mv = V3(G.rvec3(rng, 10)); ax = V3(G.rvec3(rng, 3)); org = P3(G.rpt3(rng, 10)); ang = rng.uniform(-3, 3)
        fr = G.rational_frame(rng); nrm = V3(fr[2]); k = rng.choice([0.5, 2.0, 3.0])
        t['move'] = lambda x: x.move(mv)
        t['rotate'] = lambda x: x.rotate(ax, ang, org)
        t['rotate_xy'] = lambda x: x.rotate_xy(ang, org)
        t['reflect'] = lambda x: x.reflect(nrm, org)
        t['scale'] = lambda x: x.scale(k, org)
        t['scale_world'] = lambda x: x.scale(k)
    else:
        mv = V2(G.rvec2(rng, 10)); org = P2(G.rpt2(rng, 10)); ang = rng.uniform(-3, 3)
        c, s, _ = G.pythagorean_angle(rng); nrm = V2((float(c), float(s))); k = rng.choice([0.5, 2.0, 3.0])
        t['move'] = lambda x: x.move(mv)
        t['rotate'] = lambda x: x.rotate(ang, org)
        t['reflect'] = lambda x: x.reflect(nrm, org)
        t['scale'] = lambda x: x.scale(k, org)
        t['scale_world'] = lambda x: x.scale(k)
    if isinstance(o, (Polygon2D, Polyline2D, Polyline3D)):
        t['reverse'] = lambda x: x.reverse()
    if isinstance(o, Face3D):
        t['flip'] = lambda x: x.flip()
    if isinstance(o, (Polygon2D, Polyline2D, Polyline3D)):
        t['remove_colinear_vertices'] = lambda x: x.remove_colinear_vertices(0.01)
    if isinstance(o, (Mesh2D, Mesh3D)):
        def rm_faces(x):
            pat = [i % 3 != 0 for i in range(len(x.faces))]
            if sum(pat) == 0: pat[0] = True
            return x.remove_faces(pat)[0]
        def rm_faces_only(x):
            pat = [i % 2 == 0 for i in range(len(x.faces))]
            return x.remove_faces_only(pat)
        def rm_verts(x):
            pat = [True] * len(x.vertices); pat[-1] = False
            m = x.remove_vertices(pat)[0]
            return m
        t['remove_faces'] = rm_faces
        t['remove_faces_only'] = rm_faces_only
        t['remove_vertices'] = rm_verts
        if hasattr(o, 'triangulated'):
            t['triangulated'] = lambda x: x.triangulated()
        t['join_meshes'] = lambda x: type(x).join_meshes([x, x])
        t['join_moved'] = lambda x: type(x).join_meshes([x, x.move(mv)])
    return t


def run_history(o, hist, tr):
    for step in hist:
        if step[0] == 'read':
            getattr(o, step[1])
        else:
            o = tr[step[1]](o)
    return o


SEED_BAD = {}


def check_history(ctx, label, maker, hist, tr, rprops):
    start = maker() if callable(maker) else maker
    desc = {'start': label, 'history': [list(h) for h in hist],
            'object': start.to_dict() if hasattr(start, 'to_dict') else repr(start)}
    if hasattr(maker, 'witness'):
        desc['witness'] = maker.witness
    try:
        o = run_history(start, hist, tr)
    except Exception as e:
        if isinstance(e, AssertionError) and any(h[1] in ('remove_faces', 'remove_vertices', 'remove_faces_only', 'remove_colinear_vertices') for h in hist):
            return      # the removal left a degenerate object: constructor assertions are legitimate
        kind = '%s:%s:raises' % (label.split('.')[0], [h[1] for h in hist if h[0] == 'op'][-1] if any(h[0] == 'op' for h in hist) else 'read')
        ctx.violation(kind, 'history %s raised %r' % (hist, e), desc)
        return
    try:
        f = fresh(o)
    except Exception:
        return
    scale = 1.0
    try:
        scale = max(1.0, max(abs(c) for p in o.vertices for c in p))
    except Exception:
        pass
    nontriv = any(h[0] == 'read' for h in hist) and any(h[0] == 'op' for h in hist)
    ctx.count('history.' + label.split('.')[0], key=(label, tuple(hist)), sample={'start': label, 'history': [list(h) for h in hist]}, nontrivial=nontriv)
    for p in rprops:
        if hist and p in SEED_BAD.get(label, ()):
            continue        # already wrong right after construction: reported once, as a defect of the factory
        try:
            a = getattr(o, p)
        except Exception as e:
            try:
                getattr(f, p)
            except Exception:
                continue
            ops = [h[1] for h in hist if h[0] == 'op']
            ctx.violation('%s:%s:%s:raises' % (label.split('.')[0], ops[-1] if ops else 'read', p),
                          'after %s, property %s raised %r but is fine on a fresh object' % (hist, p, e), desc)
            continue
        try:
            b = getattr(f, p)
        except Exception:
            continue
        if p == 'faces' and isinstance(o, Polyface3D):
            # the memoised Face3D objects: same point sets, normals and areas as the faces a fresh polyface builds from the vertices
            canon = lambda fs: [(sorted(tuple(q) for q in fc.vertices), tuple(fc.normal), fc.area) for fc in fs]
            a, b = canon(a), canon(b)
        if p in EDGE_PROPS and a is not None and b is not None:
            if p == 'edge_types':
                # types go with indices: compare the (undirected edge, type) pairs
                a = sorted(zip([tuple(sorted(e)) for e in o.edge_indices], a))
                b = sorted(zip([tuple(sorted(e)) for e in f.edge_indices], b))
            elif p == 'edge_indices':
                a, b = canon_edges(o, p, a), canon_edges(f, p, b)
            else:
                a, b = ('edges', edges_match(a, b, TOL * scale)), ('edges', True)
        if not same(a, b, scale):
            ops = [h[1] for h in hist if h[0] == 'op']
            seeded = label if '.' in label and not ops else None
            kind = '%s:%s:%s' % (label.split('.')[0], (ops[-1] if ops else (label.split('.', 1)[1] if '.' in label else 'read')), p)
            if not hist:
                SEED_BAD.setdefault(label, set()).add(p)
                kind = '%s:seed:%s' % (label, p)
            ctx.violation(kind, 'after %s from %s: %s = %s but a fresh object reports %s' % (
                hist, label, p, short(a), short(b)), dict(desc, property=p))


def short(v):
    s = repr(v)
    return s if len(s) < 160 else s[:157] + '...'


def explore(ctx):
    rng = ctx.rng
    SEED_BAD.clear()
    reps = ctx.n(1, 3)
    for _ in range(reps):
        for label, maker in starts(rng):
            start = maker()
            tr = transforms(rng, start)
            rprops = props_of(type(start))
            reads = [('read', p) for p in rprops]
            ops = [('op', n) for n in sorted(tr)]
            # exhaustive: [], [op], [read, op] for all (read, op), [op, op]
            hists = [()] + [(o,) for o in ops] + [(r, o) for r in reads for o in ops] + [(o1, o2) for o1 in ops for o2 in ops]
            if ctx.thorough:
                hists += [(r, o1, o2) for r in reads for o1 in ops for o2 in ops]
            # read everything first, then each op
            hists += [tuple(reads) + (o,) for o in ops]
            hists += [tuple(reads) + (o1, o2) for o1 in ops for o2 in ops]
            for h in hists:
                check_history(ctx, label, maker, h, tr, rprops)
            # sampled long histories
            alphabet = reads + ops * 3
            for _ in range(ctx.n(20, 200)):
                n = rng.randint(3, 6)
                h = tuple(rng.choice(alphabet) for _ in range(n))
                check_history(ctx, label, maker, h, tr, rprops)


def replay(ctx, data):
    kind = data.get('kind', '')
    c2 = core.Ctx(ctx.pid, 'quick', 11)
    d = data.get('data') or {}
    w = d.get('witness') if isinstance(d, dict) else None
    if w and 'face' in w:
        mk = lambda: Face3D.from_dict(w['face']).mesh_grid(*w['grid'])
        SEED_BAD.clear()
        o = mk()
        check_history(c2, 'Face3D.mesh_grid', mk, (), transforms(c2.rng, o), props_of(type(o)))
        return any(v.kind == kind for v in c2.violations)
    for _ in range(3):
        explore(c2)
        if any(v.kind == kind for v in c2.violations):
            return True
    return False


def all_slots(cls):
    out = []
    for c in cls.__mro__:
        for sl in getattr(c, '__slots__', ()):
            if sl not in out:
                out.append(sl)
    return out


def classify_dynamic(old, new, k):
    """what happened to a memo value across an operation, judged from the two values"""
    if new is None:
        return 'Reset'
    if old is None:
        return 'Filled'
    if old is new or same(old, new, 1.0):
        return 'Copy'
    if isinstance(old, bool) and new == (not old):
        return 'NegBool'
    if isinstance(old, (int, float)) and not isinstance(old, bool):
        if abs(new + old) <= 1e-9 * max(1, abs(old)):
            return 'Neg'
        for p in (1, 2, 3):
            if abs(new - old * k ** p) <= 1e-9 * max(1, abs(new)):
                return 'Mul %d' % p
    if isinstance(old, tuple) and isinstance(new, tuple) and len(old) == len(new) and old and isinstance(old[0], float):
        for p in (1, 2, 3):
            if all(abs(n - o * k ** p) <= 1e-9 * max(1, abs(n)) for o, n in zip(old, new)):
                return 'MulEach %d' % p
    return 'Other'


def correspond(ctx):
    """dynamic check of the XFER tables: fill every memo of a real object, apply the operation, and compare what
    each slot of the result holds with what tools/xfer.py read from the source"""
    import sys, os
    sys.path.insert(0, os.path.join(core.VERIF, 'tools'))
    import importlib, xfer
    importlib.reload(xfer)
    defs = xfer.load(core.REPO)
    rng = ctx.rng
    opmap = {'copy': 'duplicate'}
    for label, maker in starts(rng):
        if '.' in label and label.split('.')[1] not in ('cw', 'wobble', 'holes'):
            continue
        cls = label.split('.')[0]
        o0 = maker()
        tr = transforms(rng, o0)
        for op in xfer.OPS:
            fn = xfer.find_method(defs, cls, op)
            opn = opmap.get(op.strip('_'), op.strip('_'))
            if fn is None or opn not in tr:
                continue
            table = xfer.analyze(defs, cls, fn)
            o = maker()
            for p in props_of(type(o)):
                try:
                    getattr(o, p)
                except Exception:
                    pass
            try:
                r = tr[opn](o)
            except Exception:
                continue
            k = 1.0
            if opn == 'scale':
                # recover the factor from the first vertex distance ratio (transforms() draws it)
                try:
                    k = r.vertices[0].distance_to_point(r.vertices[1]) / o.vertices[0].distance_to_point(o.vertices[1])
                except Exception:
                    k = 2.0
            defining = xfer.DEFINING.get(cls, xfer.DEFINING_COMMON)
            for sl in all_slots(type(o)):
                if sl in defining or not sl.startswith('_'):
                    continue
                old, new = getattr(o, sl, None), getattr(r, sl, None)
                dyn = classify_dynamic(old, new, k)
                stat = table.get(sl)
                ctx.corr_cases += 1
                if stat is None:
                    ok = dyn in ('Reset', 'Filled')      # not transferred: empty, or recomputed by the constructor itself
                elif stat.startswith('Lifted'):
                    ok = dyn in ('Other', 'Copy', 'Reset')
                elif stat == 'Reset':
                    ok = dyn == 'Reset'
                elif old is None:
                    ok = True
                else:
                    ok = (dyn == stat) or (dyn == 'Copy' and stat.startswith('Mul') and k == 1.0) or \
                        (stat in ('Copy',) and dyn == 'Copy') or (dyn == 'Copy' and stat in ('Neg',) and old == 0)
                if not ok:
                    ctx.corr_fail.append({'function': 'XFER %s.%s slot %s' % (cls, op, sl),
                                          'input': label, 'result': 'source table says %r, the real object shows %r (old=%s new=%s)' % (
                                              stat, dyn, short(old), short(new))})
