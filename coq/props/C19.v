(* C19 -- offsets and generated sub-faces have the stated size and stay inside.  PARTIAL.  Proved (exact arithmetic):
   (1) for the offset vertex kernel (model/SubOffset.v, run against Polygon2D.offset corner by corner): the moved vertex is at
       signed distance exactly d from both adjacent edge lines, on the inner side for d > 0, for every corner (convex or reflex);
   (2) for the perimeter quads (model run against perimeter_core_by_offset, vertex for vertex): quads plus the inner loop tile
       the outer loop - signed areas add up for every pair of n-gons;
   (3) scaling about a centre (generated Polygon2D.scale): the image lies in every half-plane containing the centre and the
       original point (so inside a convex parent), and with k*k == ratio the area is ratio times the original; per-piece scaling
       totals k*k times the total;
   (4) for the sub-rectangle layout (model run against Face3D.sub_rects_from_rect_ratio): in every branch the rectangle areas
       total ratio x parent area, the array lies inside the parent rectangle, columns and rows do not overlap (ratio <= 0.95).
   Global non-self-intersection of offsets, rectangle extraction and sub_rects_from_rect_dimensions are validated only. *)
From LBG Require Import Base QGeom ListCyc G0_vec G1_shapes G2_inter G3_poly C02_kernels C01_area SubOffset C19_sub.
Open Scope Q_scope.

Theorem C19_offset_vertex_at_distance_d : forall u1 c s d, dot2 u1 u1 == 1 -> c * c + s * s == 1 -> ~ s == 0 ->
  let m := offset_move u1 c s d in
  let u2 := rotm c s (rotm c s u1) in
  det2 m u1 == d /\ det2 u2 m == d /\ dot2 u2 u2 == 1.
Proof. exact offset_move_distance. Qed.
Print Assumptions C19_offset_vertex_at_distance_d.

Theorem C19_perimeter_quads_and_core_partition : forall L : list (V2 * V2),
  Qsum (map shoelace2 (quads L)) + shoelace2 (map snd L) == shoelace2 (map fst L).
Proof. exact quads_partition. Qed.
Print Assumptions C19_perimeter_quads_and_core_partition.

Theorem C19_scaled_copy_stays_inside : forall a b c p k, 0 <= k -> k <= 1 -> 0 <= orient2 a b c -> 0 <= orient2 a b p ->
  0 <= orient2 a b (scale_about k c p).
Proof. exact scale_stays_in_halfplane. Qed.
Print Assumptions C19_scaled_copy_stays_inside.

Theorem C19_scaled_area_is_ratio : forall p k o ratio, k * k == ratio ->
  shoelace2 (pg_vertices (Polygon2D_scale p k o)) == ratio * shoelace2 (pg_vertices p).
Proof. exact scale_area_ratio. Qed.
Print Assumptions C19_scaled_area_is_ratio.

Theorem C19_scaled_pieces_total : forall areas k, Qsum (map (fun a => k * k * a) areas) == k * k * Qsum areas.
Proof. exact pieces_scaled_total. Qed.
Print Assumptions C19_scaled_pieces_total.

Theorem C19_sub_rects_total_area : forall base height ratio srh0 sill0 hsep vsep0,
  0 < base -> 0 < height -> 0 < ratio -> 0 < srh0 -> 0 < hsep ->
  layout_area (rects_ratio base height ratio srh0 sill0 hsep vsep0) == ratio * base * height.
Proof. intros. apply rects_ratio_total_area; assumption. Qed.
Print Assumptions C19_sub_rects_total_area.

Theorem C19_sub_rects_inside_and_disjoint : forall base height ratio srh0 sill0 hsep vsep0,
  0 < base -> 0 < height -> 0 < ratio -> ratio <= 95 # 100 -> 0 < srh0 -> 0 < hsep ->
  let L := rects_ratio base height ratio srh0 sill0 hsep vsep0 in
  (0 <= layout_left L /\ layout_right L <= base /\ 0 <= layout_bottom L /\ layout_top L <= height) /\
  (lw L <= pitch L \/ cols L = 1%Z) /\ ((rows L = 1%Z) \/ (rows L = 2%Z /\ lh L <= rpitch L)).
Proof. intros. apply rects_ratio_inside; assumption. Qed.
Print Assumptions C19_sub_rects_inside_and_disjoint.

(* non-vacuity: a right-angle corner (half angle 45 deg is irrational, so use the 3-4-5 half angle), and a 10 x 3 wall *)
Example C19_nonvacuous :
  (let m := offset_move (mkV2 1 0) (4 # 5) (3 # 5) 1 in det2 m (mkV2 1 0) == 1) /\
  cols (rects_ratio 10 3 (4 # 10) 2 (8 # 10) 3 0) = 3%Z /\
  layout_area (rects_ratio 10 3 (4 # 10) 2 (8 # 10) 3 0) == 12.
Proof. vm_compute. repeat split; reflexivity. Qed.
