(* C01 -- area / orientation of polygons are the exact shoelace value.  Theorems only. *)
From LBG Require Import Base QGeom ListCyc G0_vec G1_shapes G2_inter G3_poly G4_face C02_kernels C01_area C06_plane C06_face.
Open Scope Q_scope.

Theorem C01_polygon_area_is_shoelace : forall p, Polygon2D_area p == Qabs (shoelace2 (pg_vertices p) / 2).
Proof. exact polygon_area_is_shoelace. Qed.
Print Assumptions C01_polygon_area_is_shoelace.

Theorem C01_is_clockwise_is_sign : forall p, Polygon2D_is_clockwise p = true <-> shoelace2 (pg_vertices p) < 0.
Proof. exact polygon_is_clockwise_iff. Qed.
Print Assumptions C01_is_clockwise_is_sign.

(* every cyclic start vertex *)
Theorem C01_shoelace_start_vertex_independent : forall x l, shoelace2 (x :: l) == shoelace2 (l ++ [x]).
Proof. exact shoelace_cyclic. Qed.
Print Assumptions C01_shoelace_start_vertex_independent.

(* both vertex orders *)
Theorem C01_shoelace_reversal : forall l, shoelace2 (rev l) == - shoelace2 l.
Proof. exact shoelace_rev. Qed.
Print Assumptions C01_shoelace_reversal.

(* every placement: translation, any linear map (rotation det 1, mirror det -1, scale k^2) *)
Theorem C01_shoelace_translation : forall t l, shoelace2 (map (fun p => add2 p t) l) == shoelace2 l.
Proof. exact shoelace_translate. Qed.
Print Assumptions C01_shoelace_translation.

Theorem C01_shoelace_linear_map : forall m11 m12 m21 m22 l,
  shoelace2 (map (fun p => mkV2 (m11 * v2x p + m12 * v2y p) (m21 * v2x p + m22 * v2y p)) l)
  == (m11 * m22 - m12 * m21) * shoelace2 l.
Proof. exact shoelace_linear. Qed.
Print Assumptions C01_shoelace_linear_map.

(* agreement with two independent textbook definitions of polygon area *)
Theorem C01_shoelace_is_triangle_fan : forall o l,
  shoelace2 l == cyc_sum (fun a b => det2 (sub2 a o) (sub2 b o)) l.
Proof. exact shoelace_is_fan_sum. Qed.
Print Assumptions C01_shoelace_is_triangle_fan.

Theorem C01_shoelace_is_trapezoid_formula : forall l,
  shoelace2 l == cyc_sum (fun a b => (v2x a - v2x b) * (v2y a + v2y b)) l.
Proof. exact shoelace_is_trapezoid_sum. Qed.
Print Assumptions C01_shoelace_is_trapezoid_formula.

(* Face3D.area = |area vector . normal| / 2: independent of the plane's x axis and origin *)
Theorem C01_face_area_is_newell : forall f, frame_ok (f3_plane f) ->
  Face3D_area f == Qabs (dot3 (newell (f3_boundary f)) (pl_n (f3_plane f)) / 2).
Proof. exact face_area_is_newell. Qed.
Print Assumptions C01_face_area_is_newell.

(* perimeter (generated Polygon2D.perimeter): the cyclic sum of the edge lengths *)
From LBG Require Import C05_convex C01_perimeter.
Theorem C01_perimeter_is_the_cyclic_edge_sum : forall qsqrt (p : Polygon2R),
  Polygon2D_perimeter qsqrt p == cyc_sum (elen qsqrt) (pg_vertices p).
Proof. exact perimeter_is_cyclic_edge_sum. Qed.
Print Assumptions C01_perimeter_is_the_cyclic_edge_sum.

Theorem C01_perimeter_start_vertex_independent : forall qsqrt x l,
  Polygon2D_perimeter qsqrt (mkPolygon2 (x :: l)) == Polygon2D_perimeter qsqrt (mkPolygon2 (l ++ [x])).
Proof. exact perimeter_start_vertex_independent. Qed.
Print Assumptions C01_perimeter_start_vertex_independent.

Theorem C01_perimeter_reversal : forall qsqrt, Proper (Qeq ==> Qeq) qsqrt -> forall l,
  Polygon2D_perimeter qsqrt (mkPolygon2 (rev l)) == Polygon2D_perimeter qsqrt (mkPolygon2 l).
Proof. exact perimeter_reversal. Qed.
Print Assumptions C01_perimeter_reversal.

Example C01_nonvacuous :
  Polygon2D_area (mkPolygon2 [mkV2 0 0; mkV2 4 0; mkV2 4 3; mkV2 0 3]) == 12 /\
  Polygon2D_area (mkPolygon2 [mkV2 0 3; mkV2 4 3; mkV2 4 0; mkV2 0 0]) == 12 /\
  Polygon2D_is_clockwise (mkPolygon2 [mkV2 0 3; mkV2 4 3; mkV2 4 0; mkV2 0 0]) = true.
Proof. vm_compute. repeat split; reflexivity. Qed.

(* mesh kernels (gen/G12_mesh.v): the 2D face area is the absolute shoelace value for every vertex count; the area-weighted centroid
   of a quad cut along a diagonal is the polygon (area) centroid; a plane-embedded triangle has its 2D area *)
From LBG Require Import G12_mesh C01_mesh.

Theorem C01_mesh2d_face_area_is_shoelace : forall verts, Mesh2D__get_area verts == Qabs (shoelace2 verts / 2).
Proof. exact mesh2d_get_area_is_shoelace. Qed.
Print Assumptions C01_mesh2d_face_area_is_shoelace.

Theorem C01_mesh3d_triangle_area_is_the_planar_area : forall qsqrt, Proper (Qeq ==> Qeq) qsqrt -> forall p, frame_ok p -> forall a b c,
  qsqrt (tri2 a b c * tri2 a b c) == Qabs (tri2 a b c) ->
  Mesh3D__get_tri_area_2 qsqrt (Plane_xy_to_xyz p a, Plane_xy_to_xyz p b, Plane_xy_to_xyz p c) == Qabs (tri2 a b c) / 2.
Proof. exact embedded_tri_area. Qed.
Print Assumptions C01_mesh3d_triangle_area_is_the_planar_area.

Theorem C01_quad_area_centroid_is_polygon_centroid : forall p0 p1 p2 p3,
  let cr (a b : V2) := v2x a * v2y b - v2x b * v2y a in
  let A2 := cr p0 p1 + cr p1 p2 + cr p2 p3 + cr p3 p0 in
  ~ A2 == 0 ->
  v2x (quad_centroid2 p0 p1 p2 p3) == ((v2x p0 + v2x p1) * cr p0 p1 + (v2x p1 + v2x p2) * cr p1 p2 + (v2x p2 + v2x p3) * cr p2 p3 + (v2x p3 + v2x p0) * cr p3 p0) / (3 * A2) /\
  v2y (quad_centroid2 p0 p1 p2 p3) == ((v2y p0 + v2y p1) * cr p0 p1 + (v2y p1 + v2y p2) * cr p1 p2 + (v2y p2 + v2y p3) * cr p2 p3 + (v2y p3 + v2y p0) * cr p3 p0) / (3 * A2).
Proof. exact quad_centroid2_is_polygon_centroid. Qed.
Print Assumptions C01_quad_area_centroid_is_polygon_centroid.

(* hole merging (hand model HoleMerge.v of Polygon2D._merge_boundary_and_hole, run against it for every bridge tried): whatever
   pair of vertices the bridge joins, the merged loop's signed shoelace sum is the boundary's plus the hole's - so with opposite
   windings a face with holes reports boundary area minus hole areas; also for any number of holes merged one after the other *)
From LBG Require Import HoleMerge.

Theorem C01_hole_merge_conserves_signed_area : forall b h i j d, (i < length b)%nat -> (j < length h)%nat ->
  sh2 (merge b h i j d) == sh2 b + sh2 h.
Proof. exact merge_conserves_signed_area. Qed.
Print Assumptions C01_hole_merge_conserves_signed_area.

Theorem C01_merging_all_holes_conserves_signed_area : forall d xs b, valid b d xs ->
  sh2 (fold_left (step d) xs b) == sh2 b + fold_right Qplus 0 (map (fun x => sh2 (fst (fst x))) xs).
Proof. exact merge_all_conserves_signed_area. Qed.
Print Assumptions C01_merging_all_holes_conserves_signed_area.

Example C01_hole_merge_nonvacuous :
  sh2 (merge [mkV2 0 0; mkV2 6 0; mkV2 6 6; mkV2 0 6] [mkV2 2 2; mkV2 2 4; mkV2 4 4; mkV2 4 2] 1 2 (mkV2 0 0)) == 72 - 8.
Proof. vm_compute. reflexivity. Qed.

(* ---- closed forms of Sphere / Cylinder / Cone (generated area, volume, height, radius, slant_height); pi, sqrt and tan are oracles ---- *)
From Coq Require Import QArith.
From LBG Require Import G1_shapes G12_mesh C01_solids.
Theorem C01_sphere_closed_forms : forall qpi s,
  (Sphere_area qpi s == 4 * qpi * (sp_r s * sp_r s) /\ Sphere_volume qpi s == (4 # 3) * qpi * (sp_r s * sp_r s * sp_r s))%Q.
Proof. exact sphere_closed_forms. Qed.
Print Assumptions C01_sphere_closed_forms.

Theorem C01_cylinder_closed_forms : forall qsqrt qpi c, let h := Cylinder_height qsqrt c in
  (Cylinder_volume qsqrt qpi c == qpi * (cy_r c * cy_r c) * h /\
   Cylinder_area qsqrt qpi c == 2 * qpi * cy_r c * (cy_r c + h) /\
   (qsqrt (len2 (cy_axis c)) * qsqrt (len2 (cy_axis c)) == len2 (cy_axis c) -> h * h == len2 (cy_axis c)))%Q.
Proof. exact cylinder_closed_forms. Qed.
Print Assumptions C01_cylinder_closed_forms.

Theorem C01_cone_closed_forms : forall qsqrt qtan qpi c,
  let h := Cone_height qsqrt c in let R := Cone_radius qsqrt qtan c in let L := Cone_slant_height qsqrt qtan c in
  (R == h * qtan (co_angle c) /\
   Cone_volume qsqrt qtan qpi c == qpi * (R * R) * h / 3 /\
   Cone_area qsqrt qtan qpi c == qpi * R * (R + L) /\
   (qsqrt (R * R + h * h) * qsqrt (R * R + h * h) == R * R + h * h -> L * L == R * R + h * h))%Q.
Proof. exact cone_closed_forms. Qed.
Print Assumptions C01_cone_closed_forms.

(* with the executable root: a cylinder of radius 2 along an axis of length 5 (3-4-5) and "pi" = 3 has volume 3 * 4 * 5 *)
Example C01_cylinder_concrete :
  (Cylinder_volume qsqrt_exec 3 (mkCyl (mkV3 1 1 1) (mkV3 0 3 4) 2) == 60)%Q.
Proof. vm_compute. reflexivity. Qed.
