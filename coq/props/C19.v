(* C19 -- offsets and generated sub-faces have the stated size and stay inside.  PARTIAL.  Proved (exact arithmetic):
   (1) for the offset vertex kernel (model/SubOffset.v, run against Polygon2D.offset corner by corner): the moved vertex is at
       signed distance exactly d from both adjacent edge lines, on the inner side for d > 0, for every corner (convex or reflex);
   (2) for the perimeter quads (model run against perimeter_core_by_offset, vertex for vertex): quads plus the inner loop tile
       the outer loop - signed areas add up for every pair of n-gons;
   (3) scaling about a centre (generated Polygon2D.scale): the image lies in every half-plane containing the centre and the
       original point (so inside a convex parent), and with k*k == ratio the area is ratio times the original; per-piece scaling
       totals k*k times the total;
   (4) for the sub-rectangle layout (model run against Face3D.sub_rects_from_rect_ratio): in every branch the rectangle areas
       total ratio x parent area, the array lies inside the parent rectangle, columns and rows do not overlap (ratio <= 0.95).
   Global non-self-intersection of offsets, rectangle extraction and sub_rects_from_rect_dimensions are validated only. *)
From LBG Require Import Base QGeom ListCyc G0_vec G1_shapes G2_inter G3_poly G11_sub C02_kernels C01_area SubOffset C19_sub C19_offset.
Open Scope Q_scope.

Theorem C19_offset_vertex_at_distance_d : forall u1 c s d, dot2 u1 u1 == 1 -> c * c + s * s == 1 -> ~ s == 0 ->
  let m := offset_move u1 c s d in
  let u2 := rotm c s (rotm c s u1) in
  det2 m u1 == d /\ det2 u2 m == d /\ dot2 u2 u2 == 1.
Proof. exact offset_move_distance. Qed.
Print Assumptions C19_offset_vertex_at_distance_d.

Theorem C19_perimeter_quads_and_core_partition : forall L : list (V2 * V2),
  Qsum (map shoelace2 (quads L)) + shoelace2 (map snd L) == shoelace2 (map fst L).
Proof. exact quads_partition. Qed.
Print Assumptions C19_perimeter_quads_and_core_partition.

Theorem C19_scaled_copy_stays_inside : forall a b c p k, 0 <= k -> k <= 1 -> 0 <= orient2 a b c -> 0 <= orient2 a b p ->
  0 <= orient2 a b (scale_about k c p).
Proof. exact scale_stays_in_halfplane. Qed.
Print Assumptions C19_scaled_copy_stays_inside.

Theorem C19_scaled_area_is_ratio : forall p k o ratio, k * k == ratio ->
  shoelace2 (pg_vertices (Polygon2D_scale p k o)) == ratio * shoelace2 (pg_vertices p).
Proof. exact scale_area_ratio. Qed.
Print Assumptions C19_scaled_area_is_ratio.

Theorem C19_scaled_pieces_total : forall areas k, Qsum (map (fun a => k * k * a) areas) == k * k * Qsum areas.
Proof. exact pieces_scaled_total. Qed.
Print Assumptions C19_scaled_pieces_total.

Theorem C19_sub_rects_total_area : forall base height ratio srh0 sill0 hsep vsep0,
  0 < base -> 0 < height -> 0 < ratio -> 0 < srh0 -> 0 < hsep ->
  layout_area (rects_ratio base height ratio srh0 sill0 hsep vsep0) == ratio * base * height.
Proof. intros. apply rects_ratio_total_area; assumption. Qed.
Print Assumptions C19_sub_rects_total_area.

Theorem C19_sub_rects_inside_and_disjoint : forall base height ratio srh0 sill0 hsep vsep0,
  0 < base -> 0 < height -> 0 < ratio -> ratio <= 95 # 100 -> 0 < srh0 -> 0 < hsep ->
  let L := rects_ratio base height ratio srh0 sill0 hsep vsep0 in
  (0 <= layout_left L /\ layout_right L <= base /\ 0 <= layout_bottom L /\ layout_top L <= height) /\
  (lw L <= pitch L \/ cols L = 1%Z) /\ ((rows L = 1%Z) \/ (rows L = 2%Z /\ lh L <= rpitch L)).
Proof. intros. apply rects_ratio_inside; assumption. Qed.
Print Assumptions C19_sub_rects_inside_and_disjoint.

(* the same two facts about the GENERATED Polygon2D.offset (translated from the source on every run; cos / sin / sqrt / acos are
   the runtime's, explicit parameters): (B) for a counter-clockwise loop without repeated consecutive vertices and d <> 0 the
   method moves vertex i by exactly off_vec; (A) that vector - normalize(rotate(v1, -a)) * (d / sin a) - puts the vertex at signed
   distance d from both adjacent edges (r1 = |v1|, mu*r1 = |v2|), whenever cos^2 + sin^2 = 1 and sin(-a) = -sin a at the half angle,
   sqrt squares back at |v1|^2, and a is half the clockwise angle from v1 to v2 *)
Theorem C19_generated_offset_moves_each_vertex : forall qsqrt qcos qsin qacos qpi (self : Polygon2R) d,
  let L := pg_vertices self in
  ~ d == 0 -> Polygon2D_is_clockwise self = false -> (3 <= py_len L)%Z ->
  (forall ip, In ip (py_enumerate L) -> Vector2D_op_eq (snd ip) (py_nth L (fst ip - 1)%Z (mkV2 0 0)) = false) ->
  pg_vertices (Polygon2D_offset qsqrt qcos qsin qacos qpi self d)
  = map (fun ip => Point2D_move (snd ip) (off_vec qsqrt qcos qsin qacos qpi L d (fst ip) (snd ip))) (py_enumerate L).
Proof. exact offset_moves_each_vertex. Qed.
Print Assumptions C19_generated_offset_moves_each_vertex.

Theorem C19_generated_offset_vector_distances : forall (qsqrt qcos qsin : Q -> Q), Proper (Qeq ==> Qeq) qsqrt ->
  forall (v1 v2 : V2) (a d : Q),
  qsin (- a) == - qsin a -> qcos (- a) * qcos (- a) + qsin a * qsin a == 1 -> ~ qsin a == 0 ->
  qsqrt (Vector2D_magnitude_squared v1) * qsqrt (Vector2D_magnitude_squared v1) == dot2 v1 v1 ->
  ~ qsqrt (Vector2D_magnitude_squared v1) == 0 ->
  forall mu, 0 < mu -> v2 =2= smul2 mu (rotm (qcos (- a)) (qsin a) (rotm (qcos (- a)) (qsin a) v1)) ->
  let m := move_vec qsqrt qcos qsin v1 a d in
  let r1 := qsqrt (Vector2D_magnitude_squared v1) in
  det2 m v1 == d * r1 /\ det2 v2 m == d * (mu * r1) /\ (mu * r1) * (mu * r1) == dot2 v2 v2.
Proof. intros. apply move_vec_distances; assumption. Qed.
Print Assumptions C19_generated_offset_vector_distances.

(* sub_rects_from_rect_dimensions (hand model SubDims.v, run against the implementation): for every parameter value the
   rectangles lie strictly between sill and top inside the parent, between its left and right edges, and do not overlap *)
(* LineSegment3D.from_sdl (generated; lays out the edges of the sub-rectangles): starts at s, has the requested length, points along d *)
Theorem C19_from_sdl_has_the_requested_length_and_direction : forall qsqrt s d L,
  let m := v3x d * v3x d + v3y d * v3y d + v3z d * v3z d in
  qsqrt m * qsqrt m == m -> ~ m == 0 ->
  let sg := LineSegment3D_from_sdl qsqrt s d L in
  lr3p sg = s /\ dot3 (lr3v sg) (lr3v sg) == L * L /\ cross3 (lr3v sg) d =3= mkV3 0 0 0 /\ dot3 (lr3v sg) d == L * qsqrt m.
Proof. exact from_sdl_spec. Qed.
Print Assumptions C19_from_sdl_has_the_requested_length_and_direction.

From LBG Require Import SubDims.
Theorem C19_sub_rects_dimensions_inside_and_disjoint : forall base height srh0 srw0 sill0 hsep0,
  0 < base -> 0 < height -> 0 < srh0 -> 0 < srw0 -> 0 < hsep0 ->
  let L := rects_dims base height srh0 srw0 sill0 hsep0 in
  (1 <= cols L)%Z /\ 0 <= layout_left L /\ layout_right L <= base /\ 0 < layout_bottom L /\ layout_top L < height /\
  (lw L <= pitch L \/ cols L = 1%Z) /\ rows L = 1%Z.
Proof. intros. apply rects_dims_inside; assumption. Qed.
Print Assumptions C19_sub_rects_dimensions_inside_and_disjoint.

(* non-vacuity: a right-angle corner (half angle 45 deg is irrational, so use the 3-4-5 half angle), and a 10 x 3 wall *)
Example C19_nonvacuous :
  (let m := offset_move (mkV2 1 0) (4 # 5) (3 # 5) 1 in det2 m (mkV2 1 0) == 1) /\
  cols (rects_ratio 10 3 (4 # 10) 2 (8 # 10) 3 0) = 3%Z /\
  layout_area (rects_ratio 10 3 (4 # 10) 2 (8 # 10) 3 0) == 12.
Proof. vm_compute. repeat split; reflexivity. Qed.

(* the hypotheses of C19_generated_offset_vector_distances are satisfiable: a 3-4-5 half angle at the unit vector (1,0) *)
Example C19_generated_offset_hypotheses_satisfiable :
  let qsqrt := fun _ : Q => 1 in let qcos := fun _ : Q => 4 # 5 in
  let qsin := fun x : Q => if Qlt_bool x 0 then - (3 # 5) else 3 # 5 in
  let v1 := mkV2 1 0 in let a := 1 in
  let v2 := smul2 2 (rotm (qcos (- a)) (qsin a) (rotm (qcos (- a)) (qsin a) v1)) in
  Proper (Qeq ==> Qeq) qsqrt /\ qsin (- a) == - qsin a /\ qcos (- a) * qcos (- a) + qsin a * qsin a == 1 /\ ~ qsin a == 0 /\
  qsqrt (Vector2D_magnitude_squared v1) * qsqrt (Vector2D_magnitude_squared v1) == dot2 v1 v1 /\
  det2 (move_vec qsqrt qcos qsin v1 a (1 # 2)) v1 == 1 # 2 /\ det2 v2 (move_vec qsqrt qcos qsin v1 a (1 # 2)) == 1.
Proof.
  cbv zeta. split; [intros x y _; reflexivity|]. vm_compute. repeat split; try reflexivity; try discriminate.
Qed.

(* sub_faces_by_ratio scales a face about its centroid only when Polygon2D.is_convex says so (a concave face scaled that way leaves its
   parent): the generated test is True exactly when NO vertex - the first and the last included - turns against the loop *)
From LBG Require Import C05_convex.
Theorem C19_is_convex_checks_the_turn_at_every_vertex : forall p : Polygon2R,
  let vs := pg_vertices p in let n := length vs in
  Polygon2D_is_convex p = true <->
  (n = 3%nat \/ forall i, (i < n)%nat ->
     let t := det2 (sub2 (cnth vs i) (cnth vs (i + n - 1))) (sub2 (cnth vs (S i)) (cnth vs i)) in
     if Polygon2D_is_clockwise p then t <= 0 else 0 <= t)%Q.
Proof. exact is_convex_vertices. Qed.
Print Assumptions C19_is_convex_checks_the_turn_at_every_vertex.

(* an L whose reflex corner is its start vertex is not convex *)
Example C19_L_started_at_its_reflex_corner_is_not_convex :
  Polygon2D_is_convex (mkPolygon2 (mkV2 1 1 :: mkV2 1 4 :: mkV2 0 4 :: mkV2 0 0 :: mkV2 4 0 :: mkV2 4 1 :: nil)) = false.
Proof. vm_compute. reflexivity. Qed.

(* Face3D's vertex clean-up (generated Face3D._remove_colinear, used for the boundary and every hole, and by extract_rectangle before
   sub_faces_by_ratio_rectangle) IS Polygon2D.remove_colinear_vertices run on the loop's 2D polygon: for 3D vertices that are the images of
   the 2D ones under any map, it keeps exactly the images of the vertices the 2D routine keeps - same test, same clamp, same seam patch *)
From Coq Require Import List.
From LBG Require Import Base G0_vec G3_poly G4_face G9_clean C15_face.
Theorem C19_face_cleanup_is_the_polygon_cleanup : forall (qsqrt : Q -> Q) (emb : V2 -> V3) (self : Face3R) (p : Polygon2R) (tol : Q),
  pg_vertices p <> nil ->
  Face3D__remove_colinear qsqrt self (map emb (pg_vertices p)) p tol
  = map emb (pg_vertices (Polygon2D_remove_colinear_vertices qsqrt p tol)).
Proof. exact face_remove_colinear_is_the_2d_routine. Qed.
Print Assumptions C19_face_cleanup_is_the_polygon_cleanup.
