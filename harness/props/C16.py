"""C16  2D and 3D sibling classes agree on geometry in a common plane."""
import inspect, math
from fractions import Fraction
from .. import core, gens as G, exact as X, build as Bd
from ..build import P2, V2, P3, V3
from ladybug_geometry.geometry2d import (Polygon2D, Mesh2D, LineSegment2D, Ray2D, Arc2D, Polyline2D, Point2D, Vector2D)
from ladybug_geometry.geometry3d import (Face3D, Mesh3D, LineSegment3D, Ray3D, Arc3D, Polyline3D, Plane, Point3D, Vector3D)

RULE = ('pairs (Polygon2D, Face3D), (Mesh2D, Mesh3D), (LineSegment2D, LineSegment3D), (Ray2D, Ray3D), (Arc2D, Arc3D), '
        '(Polyline2D, Polyline3D) built from the same 2D data in the world XY plane and in random rational planes; every shared '
        'zero-argument property and the shared parametrised methods are called on both; numbers compared to 1e-9, counts exactly, '
        'points through the plane map; distinct by (pair, plane kind, member)')
ASSUMPTIONS = ['points returned by the 3D object are mapped to the plane\'s 2D coordinates before comparison']
TRUSTED = []
TOL = 1e-9
SKIP = {'min', 'max', 'center', 'vertices', 'segments', 'p', 'v', 'p1', 'p2', 'midpoint', 'endpoints', 'c', 'plane', 'normal',
        'boundary', 'holes', 'polygon2d', 'boundary_polygon2d', 'hole_polygon2d', 'faces', 'colors', 'edges', 'naked_edges',
        'internal_edges', 'non_manifold_edges', 'face_centroids', 'face_normals', 'vertex_normals', 'centroid', 'arc2d',
        'triangulated_mesh2d', 'triangulated_mesh3d', 'boundary_segments', 'hole_segments', 'azimuth', 'altitude', 'tilt',
        'upper_left_corner', 'lower_left_corner', 'upper_right_corner', 'lower_right_corner', 'self_intersection_points',
        'face_edges', 'vertex_connected_faces', 'inside_angles', 'outside_angles'}
POINTY = {'midpoint', 'p1', 'p2', 'center', 'centroid', 'c'}


def frames(rng):
    if rng.random() < 0.4:
        return 'xy', ((1.0, 0.0, 0.0), (0.0, 1.0, 0.0), (0.0, 0.0, 1.0)), (0.0, 0.0, 0.0)
    return 'tilted', G.rational_frame(rng, special=False), G.rpt3(rng, 50)


def make_pair(rng):
    kind = rng.choice(['polygon', 'mesh', 'mesh', 'segment', 'ray', 'arc', 'polyline', 'polyline'])
    fk, fr, o = frames(rng)
    pl = Plane(V3(fr[2]), P3(o), V3(fr[0]))
    emb = lambda p: P3(G.embed(fr, o, p))
    embv = lambda v: V3(tuple(v[0] * fr[0][i] + v[1] * fr[1][i] for i in range(3)))
    if kind == 'polygon':
        b = G.star_polygon(rng, n=rng.randint(3, 9), R=10.0)
        return kind, fk, pl, Polygon2D([P2(p) for p in b]), Face3D([emb(p) for p in b], pl)
    if kind == 'mesh':
        if rng.random() < 0.3:
            # a grid mesh made by the 2D factory (cell sizes that do and do not divide the extents) and its 3D image: per-face data of
            # the 2D mesh is pre-seeded by the factory, the 3D sibling is built from the 2D mesh
            cv = G.star_polygon(rng, n=rng.randint(4, 7), R=5.0, center=(0.0, 0.0))
            ext = min(max(p[0] for p in cv) - min(p[0] for p in cv), max(p[1] for p in cv) - min(p[1] for p in cv))
            xd = G.dy(ext / rng.choice([2.3, 3.0, 3.7, 5.2])); yd = rng.choice([xd, G.dy(xd * 0.75)])
            try:
                m2 = Mesh2D.from_polygon_grid(Polygon2D([P2(p) for p in cv]), xd, yd)
                return kind, fk, pl, m2, Mesh3D.from_mesh2d(m2, pl)
            except AssertionError:
                pass
        if rng.random() < 0.25:
            # several faces on one edge (a non-manifold fan; the faces overlap in the plane, which the mesh classes allow)
            k = rng.randint(3, 6)
            v = [(0.0, 0.0), (4.0, 0.0)] + [(G.dy(rng.uniform(-2, 6)), G.dy(rng.uniform(1, 6)) * (1 if i % 2 == 0 else -1)) for i in range(k)]
            f = [(0, 1, 2 + i) for i in range(k)]
        else:
            v, f = Bd.tri_quad_mesh2d(rng)
        return kind, fk, pl, Mesh2D([P2(p) for p in v], f), Mesh3D([emb(p) for p in v], f)
    if kind == 'segment':
        p, v = G.rpt2(rng, 20), G.rvec2(rng, 10)
        return kind, fk, pl, LineSegment2D(P2(p), V2(v)), LineSegment3D(emb(p), embv(v))
    if kind == 'ray':
        p, v = G.rpt2(rng, 20), G.rvec2(rng, 10)
        return kind, fk, pl, Ray2D(P2(p), V2(v)), Ray3D(emb(p), embv(v))
    if kind == 'arc':
        a1, a2 = Bd.arc_angles(rng)
        r = G.dy(rng.uniform(0.5, 9)); c = G.rpt2(rng, 20)
        pla = Plane(V3(fr[2]), emb(c), V3(fr[0]))
        # the 2D arc is centred at c, the 3D arc lives in a plane whose origin is the embedded centre
        return kind, fk, Plane(V3(fr[2]), P3(o), V3(fr[0])), Arc2D(P2(c), r, a1, a2), Arc3D(pla, r, a1, a2)
    pts = G.star_polygon(rng, n=rng.randint(4, 8), R=10.0)[:-1]
    if rng.random() < 0.5:
        # extra vertices exactly on several of the edges (dyadic interpolation), separated by genuine corners
        dec = []
        for i in range(len(pts) - 1):
            a_, b_ = pts[i], pts[i + 1]
            dec.append(a_)
            for t in sorted(rng.sample([1, 2, 3, 4, 5, 6, 7], rng.choice([0, 1, 1, 2]))):
                dec.append((a_[0] + (b_[0] - a_[0]) * t / 8.0, a_[1] + (b_[1] - a_[1]) * t / 8.0))
        dec.append(pts[-1])
        pts = dec
    return kind, fk, pl, Polyline2D([P2(p) for p in pts]), Polyline3D([emb(p) for p in pts])


def to2(pl, v):
    """a 3D result expressed in the plane's 2D coordinates (points), recursively"""
    if isinstance(v, Point3D):
        q = pl.xyz_to_xy(v); return (q.x, q.y)
    if isinstance(v, Vector3D):
        return (v.dot(pl.x), v.dot(pl.y))
    if isinstance(v, (Point2D, Vector2D)):
        return (v.x, v.y)
    if isinstance(v, (list, tuple)):
        return [to2(pl, x) for x in v]
    if hasattr(v, 'vertices') and not isinstance(v, (int, float)):
        return [to2(pl, x) for x in v.vertices]
    if hasattr(v, 'p') and hasattr(v, 'v'):
        return [to2(pl, v.p), to2(pl, v.v)]
    return v


def flat(v, out):
    if isinstance(v, bool) or v is None or isinstance(v, (int, str)):
        out.append(v)
    elif isinstance(v, float):
        out.append(v)
    elif isinstance(v, (list, tuple)):
        out.append(('n', len(v)))
        for x in v: flat(x, out)
    else:
        out.append(repr(type(v)))


def agree(a, b, scale):
    fa, fb = [], []
    flat(a, fa); flat(b, fb)
    if len(fa) != len(fb):
        return False
    for x, y in zip(fa, fb):
        if isinstance(x, float) or isinstance(y, float):
            if not isinstance(x, (int, float)) or not isinstance(y, (int, float)) or isinstance(x, bool) or isinstance(y, bool):
                return False
            if abs(x - y) > TOL * max(scale, abs(x), abs(y)):
                return False
        elif x != y:
            return False
    return True


def members(a, b):
    props, meths = [], []
    for name in sorted(set(dir(type(a))) & set(dir(type(b)))):
        if name.startswith('_') or name in SKIP:
            continue
        ra, rb = inspect.getattr_static(type(a), name), inspect.getattr_static(type(b), name)
        if isinstance(ra, property) and isinstance(rb, property):
            props.append(name)
    return props


def fam_pairs(ctx, rng):
    kind, fk, pl, a, b = make_pair(rng)
    desc = {'pair': kind, 'plane': fk, '2d': a.to_dict(), '3d': b.to_dict()}
    scale = 20.0
    for name in members(a, b):
        try:
            va = getattr(a, name)
        except Exception:
            continue
        try:
            vb = getattr(b, name)
        except Exception as e:
            ctx.violation('%s:%s:raises_3d' % (kind, name), '3D sibling raised %r' % (e,), desc); continue
        ctx.count('pair.%s' % kind, key=(fk, name), sample={'pair': kind, 'member': name, 'plane': fk})
        if not agree(to2(pl, va), to2(pl, vb), scale):
            cls = 'quad' if kind == 'mesh' and any(len(f) == 4 for f in a.faces) else ''
            ctx.violation('%s:%s%s' % (kind, name, ':' + cls if cls else ''), '2D %s vs 3D %s' % (short(va), short(vb)), dict(desc, member=name))
    if kind == 'mesh':
        # each sibling's face centroids are the vertex means of its own faces (also when a factory pre-seeded them)
        for tag, m in (('2d', a), ('3d', b)):
            for f, c in zip(m.faces, m.face_centroids):
                mean = [sum(m.vertices[i][k] for i in f) / len(f) for k in range(len(tuple(c)))]
                if max(abs(x - y) for x, y in zip(mean, tuple(c))) > 1e-8 * scale:
                    ctx.violation('mesh:face_centroids:%s:own_vertices' % tag, 'a face centroid %r is not the mean %r of the face vertices' % (c, mean), desc)
                    break
        for nm in ('naked_edges', 'internal_edges', 'non_manifold_edges', 'edges'):
            la, lb = len(getattr(a, nm)), len(getattr(b, nm))
            ctx.count('pair.mesh', key=(fk, nm))
            if la != lb:
                ctx.violation('mesh:%s:count' % nm, '%d %s in 2D, %d in 3D' % (la, nm, lb), dict(desc, member=nm))
    if kind == 'mesh':
        # several meshes joined (the mesh itself and moved copies of it): the joined siblings still agree
        k = rng.randint(2, 4)
        mvs = [G.rvec2(rng, 10) for _ in range(k - 1)]
        try:
            ja = Mesh2D.join_meshes([a] + [a.move(V2(m_)) for m_ in mvs])
            jb = Mesh3D.join_meshes([b] + [b.move(V3(tuple(m_[0] * pl.x[i] + m_[1] * pl.y[i] for i in range(3)))) for m_ in mvs])
        except Exception as e:
            ctx.violation('mesh:join_meshes:raises', '%r' % (e,), desc); ja = None
        if ja is not None:
            ctx.count('pair.mesh', key=(fk, 'join_meshes', k))
            if [tuple(f) for f in ja.faces] != [tuple(f) for f in jb.faces]:
                ctx.violation('mesh:join_meshes:faces', 'joining %d meshes: the face index lists differ between 2D and 3D' % k, dict(desc, joined=k))
            else:
                for name in ('area', 'face_areas', 'face_centroids', 'vertices'):
                    if not agree(to2(pl, getattr(ja, name)), to2(pl, getattr(jb, name)), scale * 2):
                        ctx.violation('mesh:join_meshes:%s' % name, 'joining %d meshes: 2D %s vs 3D %s' % (k, short(getattr(ja, name)), short(getattr(jb, name))),
                                      dict(desc, joined=k)); break
    if kind == 'polygon':
        # the face WITH holes next to its 2D loops, after the library derived it from another face (flip / reflect / scale / move / rotate)
        # and after it answered something else first: its area, perimeter and orientation are those of its own loops read as 2D polygons
        base = [(v.x, v.y) for v in a.vertices]
        hs = G.holes_in(rng, base, rng.choice([1, 1, 2]))
        if hs:
            emb2 = lambda q: pl.xy_to_xyz(P2(q))
            fh = Face3D([emb2(q) for q in base], pl, [[emb2(q) for q in h] for h in hs])
            tname = rng.choice(['flip', 'reflect', 'scale', 'move', 'rotate', 'rotate_xy'])
            if tname == 'flip': d = fh.flip()
            elif tname == 'reflect': d = fh.reflect(V3(G.rvec3(rng, 1)).normalize(), P3(G.rpt3(rng, 10)))
            elif tname == 'scale': d = fh.scale(G.dy(rng.uniform(0.3, 3)), P3(G.rpt3(rng, 10)))
            elif tname == 'move': d = fh.move(V3(G.rvec3(rng, 10)))
            elif tname == 'rotate': d = fh.rotate(V3(G.rvec3(rng, 1)), rng.uniform(-3, 3), P3(G.rpt3(rng, 10)))
            else: d = fh.rotate_xy(rng.uniform(-3, 3), P3(G.rpt3(rng, 10)))
            first = rng.choice(['centroid', 'is_self_intersecting', 'triangulated_mesh3d', 'boundary_polygon2d', 'hole_polygon2d', None, 'perimeter'])
            if first:
                getattr(d, first)
            dp = d.plane
            pb = Polygon2D([dp.xyz_to_xy(v) for v in d.boundary]); ph = [Polygon2D([dp.xyz_to_xy(v) for v in h]) for h in d.holes]
            ea = pb.area - sum(h.area for h in ph); ep = pb.perimeter + sum(h.perimeter for h in ph)
            ctx.count('pair.polygon', key=(fk, 'holed_face', tname, first))
            dd = dict(desc, holes=hs, derived_by=tname, read_first=first)
            if abs(d.area - ea) > 1e-8 * max(1.0, ea):
                ctx.violation('polygon:holed_face:area', 'after %s (and reading %s) the face reports area %r, its loops as 2D polygons enclose %r' % (tname, first, d.area, ea), dd)
            elif abs(d.perimeter - ep) > 1e-8 * max(1.0, ep):
                ctx.violation('polygon:holed_face:perimeter', 'after %s (and reading %s) perimeter %r, loops %r' % (tname, first, d.perimeter, ep), dd)
            elif d.is_convex and not (pb.is_convex and not ph):
                ctx.violation('polygon:holed_face:is_convex', 'after %s (and reading %s) a face with holes reports is_convex' % (tname, first), dd)
            elif d.is_clockwise != pb.is_clockwise:
                ctx.violation('polygon:holed_face:is_clockwise', 'after %s (and reading %s) is_clockwise %r, its boundary in its own plane %r' % (
                    tname, first, d.is_clockwise, pb.is_clockwise), dd)
    # both siblings have now answered their properties; the same similarity applied to both must keep them in agreement
    if kind in ('polygon', 'mesh', 'segment', 'polyline'):
        k_ = G.dy(rng.uniform(0.3, 3)); o2 = G.rpt2(rng, 10); mv = G.rvec2(rng, 10)
        o3 = pl.xy_to_xyz(P2(o2))
        mv3 = V3(tuple(mv[0] * pl.x[i] + mv[1] * pl.y[i] for i in range(3)))
        for tname, ta, tb in (('scale', lambda: a.scale(k_, P2(o2)), lambda: b.scale(k_, o3)),
                              ('move', lambda: a.move(V2(mv)), lambda: b.move(mv3))):
            try:
                a2, b2 = ta(), tb()
            except Exception as e:
                ctx.violation('%s:%s:raises' % (kind, tname), '%r' % (e,), desc); continue
            for name in members(a2, b2):
                if name in ('is_self_intersecting',):
                    continue
                try:
                    va = getattr(a2, name); vb = getattr(b2, name)
                except Exception:
                    continue
                ctx.count('pair.%s' % kind, key=(fk, tname, name))
                if not agree(to2(pl, va), to2(pl, vb), scale * max(1.0, k_)):
                    ctx.violation('%s:%s_after_%s' % (kind, name, tname), 'after %s of both siblings: 2D %s vs 3D %s' % (tname, short(va), short(vb)),
                                  dict(desc, member=name, transform=tname))
    # parametrised shared methods
    if kind in ('segment', 'ray', 'arc'):
        t = rng.random()
        if kind != 'ray':
            pa, pb = a.point_at(t), b.point_at(t)
            ctx.count('pair.%s' % kind, key=(fk, 'point_at'))
            if not agree(to2(pl, pa), to2(pl, pb), scale):
                ctx.violation('%s:point_at' % kind, 'point_at(%r): 2D %r vs 3D %r' % (t, pa, pb), desc)
        q2 = G.rpt2(rng, 30)
        q3 = pl.xy_to_xyz(P2(q2)) if kind != 'arc' else b.plane.xy_to_xyz(P2((q2[0] - a.c.x, q2[1] - a.c.y)))
        ca, cb = a.closest_point(P2(q2)), b.closest_point(q3)
        ctx.count('pair.%s' % kind, key=(fk, 'closest_point'))
        cb2 = to2(pl, cb) if kind != 'arc' else tuple(x + y for x, y in zip(to2(b.plane, cb), (a.c.x, a.c.y)))
        if not agree(to2(pl, ca), cb2, scale):
            inv = ':inverted' if kind == 'arc' and a.a2 < a.a1 else ''
            ctx.violation('%s:closest_point%s' % (kind, inv), 'closest_point: 2D %r vs 3D %r' % (ca, cb), desc)
        da, db = a.distance_to_point(P2(q2)), b.distance_to_point(q3)
        if abs(da - db) > TOL * scale:
            ctx.violation('%s:distance_to_point' % kind, '2D %r vs 3D %r' % (da, db), desc)
    if kind in ('segment', 'ray'):
        # another line at a small angle to this one, starting a small distance off it: is_parallel / is_colinear with the distance
        # tolerance and the (optional) angle tolerance given separately, below / between / above the actual angle and distance
        L = math.hypot(a.v.x, a.v.y)
        if L > 1e-6:
            ux, uy = a.v.x / L, a.v.y / L
            ang = rng.choice([0.0, 0.003, 0.005, 0.05, 0.1]) * rng.choice([1, -1]); dist_ = rng.choice([0.0, 0.003, 0.0003, 0.3])
            t_ = rng.uniform(-1, 2) * L
            p2_ = (a.p.x + ux * t_ - uy * dist_, a.p.y + uy * t_ + ux * dist_)
            v2_ = (math.cos(ang) * ux - math.sin(ang) * uy, math.sin(ang) * ux + math.cos(ang) * uy)
            k2 = rng.uniform(0.5, 3) * rng.choice([1, -1])
            cls2, cls3 = (LineSegment2D, LineSegment3D) if rng.random() < 0.5 else (Ray2D, Ray3D)
            o2 = cls2(P2(p2_), V2((v2_[0] * k2, v2_[1] * k2)))
            o3 = cls3(pl.xy_to_xyz(P2(p2_)), V3(tuple(o2.v.x * pl.x[i] + o2.v.y * pl.y[i] for i in range(3))))
            for tol_, atol_ in ((0.5, 0.01), (0.001, 0.0175), (0.01, None), (0.01, 0.01), (0.001, 0.2)):
                if min(abs(abs(ang) - (atol_ if atol_ is not None else tol_)), abs(dist_ - tol_)) < 1e-4 or (atol_ is None and abs(abs(ang) - tol_) < 1e-4):
                    continue        # too close to a threshold to demand agreement
                ra, rb = a.is_colinear(o2, tol_, atol_), b.is_colinear(o3, tol_, atol_)
                ctx.count('pair.%s' % kind, key=(fk, 'is_colinear', atol_ is None))
                if ra != rb:
                    ctx.violation('%s:is_colinear' % kind, 'is_colinear(other, %r, %r) with the other line %r rad and %r off: 2D %r, 3D %r' % (
                        tol_, atol_, ang, dist_, ra, rb), dict(desc, other=o2.to_dict(), tolerance=tol_, angle_tolerance=atol_)); break
                if atol_ is not None and a.is_parallel(o2, atol_) != b.is_parallel(o3, atol_):
                    ctx.violation('%s:is_parallel' % kind, 'is_parallel(other, %r) at %r rad: 2D %r, 3D %r' % (atol_, ang, a.is_parallel(o2, atol_), b.is_parallel(o3, atol_)),
                                  dict(desc, other=o2.to_dict(), angle_tolerance=atol_)); break
    if kind in ('segment', 'arc'):
        for n in (rng.choice([1, 2, 3, 7, 9, 11, 20, 21, 25]), rng.randint(1, 300)):
            sa, sb = a.subdivide_evenly(n), b.subdivide_evenly(n)
            ctx.count('pair.%s' % kind, key=(fk, 'subdivide_evenly'))
            if len(sa) != len(sb):
                ctx.violation('%s:subdivide_evenly:count' % kind, 'subdivide_evenly(%d): %d points in 2D, %d in 3D' % (n, len(sa), len(sb)), dict(desc, n=n))
            elif kind == 'segment' and not agree(to2(pl, sa), to2(pl, sb), scale):
                ctx.violation('%s:subdivide_evenly:points' % kind, 'subdivide_evenly(%d) points differ' % n, dict(desc, n=n))
        d = G.dy(a.length * rng.uniform(0.1, 0.45)) or 0.5
        sa, sb = a.subdivide(d), b.subdivide(d)
        if len(sa) != len(sb):
            ctx.violation('%s:subdivide:count' % kind, 'subdivide(%r): %d vs %d points' % (d, len(sa), len(sb)), desc)
        # a LIST of distances that is used up well before the end of the curve (the last entry is then repeated)
        dl = [G.dy(a.length * rng.uniform(0.04, 0.12)) or 0.25, G.dy(a.length * rng.uniform(0.13, 0.22)) or 0.5]
        if rng.random() < 0.5:
            dl.append(G.dy(a.length * rng.uniform(0.05, 0.1)) or 0.125)
        sa, sb = a.subdivide(list(dl)), b.subdivide(list(dl))
        ctx.count('pair.%s' % kind, key=(fk, 'subdivide_list', len(dl)))
        if len(sa) != len(sb):
            ctx.violation('%s:subdivide:list:count' % kind, 'subdivide(%r): %d points in 2D, %d in 3D' % (dl, len(sa), len(sb)), dict(desc, distances=dl))
        elif kind == 'segment' and not agree(to2(pl, sa), to2(pl, sb), scale):
            ctx.violation('%s:subdivide:list:points' % kind, 'subdivide(%r) points differ between the siblings' % (dl,), dict(desc, distances=dl))
    if kind == 'segment':
        o2 = LineSegment2D(P2(G.rpt2(rng, 20)), V2(G.rvec2(rng, 10)))
        ia = a.intersect_line_ray(o2)
        # 3D sibling offers plane intersection instead; compare through a plane containing o2 and the normal
        n2 = V2((-o2.v.y, o2.v.x))
        n3 = V3(tuple(n2.x * pl.x[i] + n2.y * pl.y[i] for i in range(3)))
        cut = Plane(n3, pl.xy_to_xyz(o2.p))
        ib = b.intersect_plane(cut)
        # the 2D routine also requires the hit to be within o2's range: compare only when the 2D result exists
        if ia is not None:
            ctx.count('pair.segment', key=(fk, 'intersect'))
            if ib is None or not agree(to2(pl, ia), to2(pl, ib), scale):
                ctx.violation('segment:intersect', '2D crossing %r vs 3D plane hit %r' % (ia, ib), desc)
    if kind == 'polyline':
        for nm in ('remove_colinear_vertices',):
            ra, rb = getattr(a, nm)(0.01), getattr(b, nm)(0.01)
            ctx.count('pair.polyline', key=(fk, nm))
            if len(ra.vertices) != len(rb.vertices):
                ctx.violation('polyline:%s' % nm, '%d vertices in 2D, %d in 3D' % (len(ra.vertices), len(rb.vertices)), desc)
            elif not agree(to2(pl, list(ra.vertices)), to2(pl, list(rb.vertices)), scale):
                ctx.violation('polyline:%s:vertices' % nm, 'the siblings keep different vertices: 2D %s vs 3D %s' % (short(ra.vertices), short(rb.vertices)), desc)
    if kind == 'polygon':
        # the same loop with extra vertices placed off-centre on its edges at a perpendicular offset below the tolerance:
        # both siblings must keep / drop the same vertices
        base = [(v.x, v.y) for v in a.vertices]
        loop = []
        for i, p in enumerate(base):
            nx = base[(i + 1) % len(base)]
            loop.append(p)
            if rng.random() < 0.6:
                t = rng.choice([0.08, 0.15, 0.3, 0.5, 0.7, 0.85, 0.92])
                ex, ey = nx[0] - p[0], nx[1] - p[1]
                L = math.hypot(ex, ey)
                h = rng.uniform(0.0, 0.01) * rng.choice([1, -1])
                loop.append((p[0] + t * ex - h * ey / L, p[1] + t * ey + h * ex / L))
        emb2 = lambda q: pl.xy_to_xyz(P2(q))
        try:
            da = Polygon2D([P2(q) for q in loop]).remove_colinear_vertices(0.01)
            db = Face3D([emb2(q) for q in loop], pl).remove_colinear_vertices(0.01)
            ctx.count('pair.polygon', key=(fk, 'remove_colinear_vertices:near_colinear'))
            va = [(v.x, v.y) for v in da.vertices]
            vb = [tuple(to2(pl, v)) for v in db.boundary]
            same = len(va) == len(vb) and all(any(abs(p[0] - q_[0]) < 1e-7 and abs(p[1] - q_[1]) < 1e-7 for q_ in vb) for p in va)
            if not same:
                ctx.violation('polygon:remove_colinear_vertices:near_colinear', '2D keeps %d vertices, 3D keeps %d (or different ones)' % (len(va), len(vb)),
                              dict(desc, loop=loop))
        except AssertionError:
            pass
        ra, rb = a.remove_colinear_vertices(0.01), b.remove_colinear_vertices(0.01)
        ctx.count('pair.polygon', key=(fk, 'remove_colinear_vertices'))
        if len(ra.vertices) != len(rb.vertices):
            ctx.violation('polygon:remove_colinear_vertices', '%d vertices in 2D, %d in 3D' % (len(ra.vertices), len(rb.vertices)), desc)
        q2 = G.rpt2(rng, 12)
        ina = a.is_point_inside_bound_rect(P2(q2)); inb = b.is_point_on_face(pl.xy_to_xyz(P2(q2)), 0.01)
        f = [X.fpt(p) for p in a.vertices]
        if X.sqdist_to_boundary(f, X.fpt(q2)) > Fraction(1, 100) and ina != inb:
            ctx.violation('polygon:containment', 'is_point_inside %r vs is_point_on_face %r' % (ina, inb), dict(desc, query=q2))


def short(v):
    s = repr(v)
    return s if len(s) < 120 else s[:117] + '...'


def fam_join(ctx, rng):
    """join_segments: same chains in 2D and 3D"""
    from .C18 import distinct_points
    used = set(); segs = []
    for _ in range(rng.randint(1, 4)):
        k = rng.randint(2, 6)
        pts = distinct_points(rng, k, False, used); used |= set(pts)
        for x, y in zip(pts, pts[1:]):
            segs.append((y, x) if rng.random() < 0.5 else (x, y))
    rng.shuffle(segs)
    if len(segs) < 2:
        return
    r2 = Polyline2D.join_segments([LineSegment2D.from_end_points(P2(x), P2(y)) for x, y in segs], 0.01)
    r3 = Polyline3D.join_segments([LineSegment3D.from_end_points(P3((x[0], x[1], 1.0)), P3((y[0], y[1], 1.0))) for x, y in segs], 0.01)
    ctx.count('pair.join_segments', key=len(segs))
    a = [[(v.x, v.y) for v in r.vertices] for r in r2]; b = [[(v.x, v.y) for v in r.vertices] for r in r3]
    if a != b:
        ctx.violation('join_segments:differs', '2D and 3D join_segments give different chains', {'segments': segs})


FAMILIES = [(fam_pairs, 150), (fam_join, 30)]


def explore(ctx):
    for fn, n in FAMILIES:
        for _ in range(ctx.n(n, n * 10)):
            fn(ctx, ctx.rng)


def replay(ctx, data):
    kind = data.get('kind', '')
    c2 = core.Ctx(ctx.pid, 'quick', 53)
    for fn, _ in FAMILIES:
        for _ in range(3000):
            fn(c2, c2.rng)
            if any(v.kind == kind for v in c2.violations):
                return True
    return False


def correspond(ctx):
    """generated mesh kernels (gen/G12_mesh.v, evaluated by vm_compute with the executable sqrt) against the implementation:
    Mesh3D._quad_centroid / _get_tri_area on plane-embedded quads, Mesh2D._get_area"""
    rng = ctx.rng
    cases, meta = [], []
    for _ in range(ctx.n(60, 400)):
        # convex quad from a jittered rectangle
        w, h = G.dy(rng.uniform(1, 9)), G.dy(rng.uniform(1, 9)); m = 0.3 * min(w, h)
        ox, oy = G.rpt2(rng, 20)
        q2 = [(G.dy(ox + a + rng.uniform(-m, m)), G.dy(oy + b + rng.uniform(-m, m))) for a, b in ((0, 0), (w, 0), (w, h), (0, h))]
        f = [X.fpt(p) for p in q2]
        if not all(X.orient(f[i - 2], f[i - 1], f[i]) > 0 for i in range(4)):
            continue
        fk, fr, o = frames(rng)
        q3 = [G.embed(fr, o, p) for p in q2]
        c = Mesh3D._quad_centroid([P3(p) for p in q3])
        cases.append('c3 (Mesh3D__quad_centroid qsqrt_exec %s) %s' % (core.coq_list([core.v3(p) for p in q3]), core.v3((c.x, c.y, c.z))))
        meta.append(('Mesh3D._quad_centroid', q3))
        a = Mesh2D._get_area([P2(p) for p in q2])
        cases.append('closeq (Mesh2D__get_area %s) %s' % (core.coq_list([core.v2(p) for p in q2]), core.q(a)))
        meta.append(('Mesh2D._get_area', q2))
    pre = ('Definition closeq (a b : Q) : bool := Qle_bool (Qabs (a - b)) (1 # 100000000).\n'
           'Definition c3 (a b : V3) : bool := closeq (v3x a) (v3x b) && closeq (v3y a) (v3y b) && closeq (v3z a) (v3z b).\n')
    res = core.run_cases('C16_corr', ['Base', 'QGeom', 'G0_vec', 'G12_mesh'], pre, cases)
    ctx.corr_cases += len(cases)
    for ok, mm in zip(res, meta):
        if ok is not True:
            ctx.corr_fail.append({'function': mm[0], 'input': repr(mm[1:]),
                                  'result': 'generated definition and implementation differ' if ok is False else 'model evaluation failed'})
