(* QGeom.v -- setoid equality on vectors and small algebra helpers. *)
From LBG Require Import Base.
Open Scope Q_scope.

Definition v2eq (a b : V2) : Prop := v2x a == v2x b /\ v2y a == v2y b.
Definition v3eq (a b : V3) : Prop := v3x a == v3x b /\ v3y a == v3y b /\ v3z a == v3z b.
Infix "=2=" := v2eq (at level 70).
Infix "=3=" := v3eq (at level 70).

Definition dot2 (a b : V2) : Q := v2x a * v2x b + v2y a * v2y b.
Definition det2 (a b : V2) : Q := v2x a * v2y b - v2y a * v2x b.
Definition sub2 (a b : V2) : V2 := mkV2 (v2x a - v2x b) (v2y a - v2y b).
Definition add2 (a b : V2) : V2 := mkV2 (v2x a + v2x b) (v2y a + v2y b).
Definition smul2 (k : Q) (a : V2) : V2 := mkV2 (k * v2x a) (k * v2y a).
Definition sqd2 (a b : V2) : Q := dot2 (sub2 a b) (sub2 a b).

Definition dot3 (a b : V3) : Q := v3x a * v3x b + v3y a * v3y b + v3z a * v3z b.
Definition cross3 (a b : V3) : V3 :=
  mkV3 (v3y a * v3z b - v3z a * v3y b) (v3z a * v3x b - v3x a * v3z b) (v3x a * v3y b - v3y a * v3x b).
Definition sub3 (a b : V3) : V3 := mkV3 (v3x a - v3x b) (v3y a - v3y b) (v3z a - v3z b).
Definition add3 (a b : V3) : V3 := mkV3 (v3x a + v3x b) (v3y a + v3y b) (v3z a + v3z b).
Definition smul3 (k : Q) (a : V3) : V3 := mkV3 (k * v3x a) (k * v3y a) (k * v3z a).
Definition sqd3 (a b : V3) : Q := dot3 (sub3 a b) (sub3 a b).

Lemma v2eq_refl a : a =2= a. Proof. split; reflexivity. Qed.
Lemma v2eq_sym a b : a =2= b -> b =2= a. Proof. intros [H1 H2]; split; symmetry; assumption. Qed.
Lemma v2eq_trans a b c : a =2= b -> b =2= c -> a =2= c.
Proof. intros [H1 H2] [H3 H4]; split; etransitivity; eassumption. Qed.
Lemma v3eq_refl a : a =3= a. Proof. repeat split; reflexivity. Qed.
Lemma v3eq_sym a b : a =3= b -> b =3= a.
Proof. intros (H1 & H2 & H3); repeat split; symmetry; assumption. Qed.
Lemma v3eq_trans a b c : a =3= b -> b =3= c -> a =3= c.
Proof. intros (H1 & H2 & H3) (H4 & H5 & H6); repeat split; etransitivity; eassumption. Qed.

Add Parametric Relation : V2 v2eq reflexivity proved by v2eq_refl symmetry proved by v2eq_sym
  transitivity proved by v2eq_trans as v2eq_rel.
Add Parametric Relation : V3 v3eq reflexivity proved by v3eq_refl symmetry proved by v3eq_sym
  transitivity proved by v3eq_trans as v3eq_rel.

Lemma Qsq_nonneg (x : Q) : 0 <= x * x.
Proof. nra. Qed.

Lemma dot2_self_nonneg a : 0 <= dot2 a a.
Proof. unfold dot2. nra. Qed.
Lemma dot3_self_nonneg a : 0 <= dot3 a a.
Proof. unfold dot3. nra. Qed.

(* reduce only record projections (never Q arithmetic: cbn/simpl would unfold
   numerals like 2 into Qmult on positives and break ring) *)
Ltac vred := cbn [v2x v2y v3x v3y v3z lr2p lr2v lr3p lr3v pl_n pl_o pl_k pl_x pl_y
                  a2_c a2_r a2_a1 a2_a2 a3_plane a3_arc2d sp_c sp_r
                  co_vertex co_axis co_angle cy_c cy_axis cy_r pg_vertices f3_boundary f3_holes f3_plane
                  pl2_vertices pl2_interp pl3_vertices pl3_interp m2_vertices m2_faces m3_vertices m3_faces fst snd] in *.

(* boolean comparisons respect == *)
Global Instance Qle_bool_proper : Proper (Qeq ==> Qeq ==> eq) Qle_bool.
Proof.
  intros a b E c d F. destruct (Qle_bool a c) eqn:X; symmetry.
  - apply Qle_bool_iff. rewrite <- E, <- F. apply Qle_bool_iff. exact X.
  - apply Qle_bool_false_iff. rewrite <- E, <- F. apply Qle_bool_false_iff. exact X.
Qed.
Global Instance Qlt_bool_proper : Proper (Qeq ==> Qeq ==> eq) Qlt_bool.
Proof. intros a b E c d F. unfold Qlt_bool. rewrite E, F. reflexivity. Qed.
Global Instance Qeq_bool_proper : Proper (Qeq ==> Qeq ==> eq) Qeq_bool.
Proof.
  intros a b E c d F. destruct (Qeq_bool a c) eqn:X; symmetry.
  - apply Qeq_bool_iff. rewrite <- E, <- F. apply Qeq_bool_iff. exact X.
  - apply Qeq_bool_false_iff. rewrite <- E, <- F. apply Qeq_bool_false_iff. exact X.
Qed.
