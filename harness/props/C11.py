"""C11  intersection results lie on both operands and none are missed.

explore(): every routine family against exact-rational configuration analysis.
correspond(): generated Coq kernels of intersection2d/3d vs the implementation."""
import math
from fractions import Fraction
from .. import core, gens as G, exact as X, build as Bd
from ..core import q, v2, v3, F
from ..build import P2, V2, P3, V3
from ladybug_geometry.geometry2d import Ray2D, LineSegment2D, Arc2D, Polygon2D, Polyline2D
from ladybug_geometry.geometry3d import (Ray3D, LineSegment3D, Plane, Sphere, Face3D, Polyface3D, Arc3D, Polyline3D)

RULE = ('random operand pairs per routine family; configuration (crossing / separated / parallel / touching) decided in '
        'exact rational arithmetic; non-trivial = a crossing or a certified separation (not a parallel reject); distinct by '
        '(family, configuration, parameter bucket)')
ASSUMPTIONS = ['near-degenerate configurations (parameter within 1e-9 of a range end, |sin|<1e-9) are excluded from the '
               'completeness half only']
TRUSTED = ['sqrt in plane/sphere and line/sphere theorems: pointwise hypothesis qsqrt(x)^2==x for x>=0']
EPS = Fraction(1, 10 ** 9)


def lin(rng, kind, d3=False, s=100.0):
    p = G.rpt3(rng, s) if d3 else G.rpt2(rng, s)
    v = G.rvec3(rng, s / 2) if d3 else G.rvec2(rng, s / 2)
    if d3:
        return (Ray3D if kind == 'ray' else LineSegment3D)(P3(p), V3(v))
    return (Ray2D if kind == 'ray' else LineSegment2D)(P2(p), V2(v))


def in_range(kind, u, margin=0):
    if kind == 'ray':
        return u >= margin
    if kind == 'line':
        return True
    return margin <= u <= 1 - margin


def out_range(kind, u, margin):
    if kind == 'ray':
        return u < -margin
    if kind == 'line':
        return False
    return u < -margin or u > 1 + margin


def scale_of(*objs):
    m = 1.0
    for o in objs:
        for p in (o.p, o.v):
            for c in p:
                m = max(m, abs(c))
    return m


def fam_axis_crossings(ctx, rng):
    """segment x segment crossings, well inside both ranges, whose crossing point has a coordinate that is exactly 0; integer end points
    in general position (the two evaluations of the point then differ by rounding noise around 0): the crossing is returned in both
    operand orders"""
    for _ in range(8):
        c = (0, rng.randint(-60, 60)) if rng.random() < 0.5 else (rng.randint(-60, 60), 0)
        da = (rng.randint(-13, 13), rng.randint(-13, 13)); db = (rng.randint(-13, 13), rng.randint(-13, 13))
        if da[0] * db[1] - da[1] * db[0] == 0 or 0 in da or 0 in db:
            continue
        k1, k2, k3, k4 = rng.randint(3, 30), rng.randint(3, 30), rng.randint(3, 30), rng.randint(3, 30)
        a = LineSegment2D.from_end_points(P2((float(c[0] - k1 * da[0]), float(c[1] - k1 * da[1]))), P2((float(c[0] + k2 * da[0]), float(c[1] + k2 * da[1]))))
        b = LineSegment2D.from_end_points(P2((float(c[0] - k3 * db[0]), float(c[1] - k3 * db[1]))), P2((float(c[0] + k4 * db[0]), float(c[1] + k4 * db[1]))))
        desc = {'a': repr(a.to_dict()), 'b': repr(b.to_dict()), 'crossing': c}
        ctx.count('line2d.axis_crossing', key=(c[0] == 0, k1 + k2, k3 + k4), sample=desc, nontrivial=True)
        for x, y, tag in ((a, b, 'a_b'), (b, a, 'b_a')):
            r = x.intersect_line_ray(y)
            if r is None:
                ctx.violation('line2d.seg_seg:axis_crossing:missed', 'the transversal crossing at %r (a coordinate exactly 0) is not returned (%s)' % (c, tag), desc); return
            if abs(r.x - c[0]) > 1e-7 or abs(r.y - c[1]) > 1e-7:
                ctx.violation('line2d.seg_seg:axis_crossing:wrong_point', 'crossing %r expected %r' % (r, c), desc); return


# ----------------------------------------------------------------- family 1
def fam_lines2d(ctx, rng):
    ka, kb = rng.choice(['seg', 'ray']), rng.choice(['seg', 'ray'])
    a, b = lin(rng, ka), lin(rng, kb)
    if rng.random() < 0.2:
        # a transversal crossing whose point has a coordinate that is exactly 0 (on a coordinate axis), between segments with
        # integer end points in general position: the two ways of evaluating the point differ by rounding noise around 0
        ka = kb = 'seg'
        for _ in range(50):
            c = (0, rng.randint(-60, 60)) if rng.random() < 0.5 else (rng.randint(-60, 60), 0)
            da = (rng.randint(-9, 9), rng.randint(-9, 9)); db = (rng.randint(-9, 9), rng.randint(-9, 9))
            if da[0] * db[1] - da[1] * db[0] == 0 or 0 in da or 0 in db:
                continue
            k1, k2, k3, k4 = rng.randint(3, 30), rng.randint(3, 30), rng.randint(3, 30), rng.randint(3, 30)
            a = LineSegment2D.from_end_points(P2((float(c[0] - k1 * da[0]), float(c[1] - k1 * da[1]))), P2((float(c[0] + k2 * da[0]), float(c[1] + k2 * da[1]))))
            b = LineSegment2D.from_end_points(P2((float(c[0] - k3 * db[0]), float(c[1] - k3 * db[1]))), P2((float(c[0] + k4 * db[0]), float(c[1] + k4 * db[1]))))
            break
    elif rng.random() < 0.25:
        # force a crossing: b passes through a point of a
        t = Fraction(rng.randint(1, 15), 16)
        pt = X.add(X.fpt(a.p), X.smul(t, X.fpt(a.v)))
        bv = G.rvec2(rng, 40)
        s_ = Fraction(rng.randint(1, 15), 16)
        bp = X.sub(pt, X.smul(s_, X.fpt(bv)))
        b = (Ray2D if kb == 'ray' else LineSegment2D)(P2([float(c) for c in bp]), V2(bv))
    pa, va, pb, vb = X.fpt(a.p), X.fpt(a.v), X.fpt(b.p), X.fpt(b.v)
    d = vb[1] * va[0] - vb[0] * va[1]
    res = a.intersect_line_ray(b)
    res2 = b.intersect_line_ray(a)
    sc = scale_of(a, b)
    desc = {'a': repr(a.to_dict()), 'b': repr(b.to_dict()), 'result': repr(res)}
    fam = 'line2d.%s_%s' % (ka, kb)
    if d == 0:
        ctx.count(fam, key='parallel', nontrivial=False)
        if res is not None:
            ctx.violation(fam + ':parallel_returns', 'parallel operands returned %r' % (res,), desc)
        return
    dy, dx = pa[1] - pb[1], pa[0] - pb[0]
    ua, ub = (vb[0] * dy - vb[1] * dx) / d, (va[0] * dy - va[1] * dx) / d
    sin2 = d * d / (X.norm2(va) * X.norm2(vb))
    crossing = in_range(ka, ua, EPS) and in_range(kb, ub, EPS) and sin2 > Fraction(1, 10 ** 18)
    separated = out_range(ka, ua, EPS) or out_range(kb, ub, EPS)
    exact_pt = X.add(pa, X.smul(ua, va))
    key = ('cross' if crossing else 'sep' if separated else 'edge', int(float(ua) * 4) if crossing else 0)
    ctx.count(fam, key=key, sample=desc, nontrivial=crossing or separated)
    if res is not None:
        g = X.fpt(res)
        tol = 1e-9 * sc
        # soundness: on both operands, inside ranges (within rounding)
        da = X.sqdist_point_segment(g, pa, X.add(pa, va)) if ka == 'seg' else sqd_ray(g, pa, va)
        db = X.sqdist_point_segment(g, pb, X.add(pb, vb)) if kb == 'seg' else sqd_ray(g, pb, vb)
        if float(da) > (1e-7 * sc) ** 2 or float(db) > (1e-7 * sc) ** 2:
            if sin2 > Fraction(1, 10 ** 12):
                ctx.violation(fam + ':unsound', 'returned point %r is %.3g / %.3g away from the operands' % (
                    res, math.sqrt(float(da)), math.sqrt(float(db))), desc)
        if crossing and not X.pclose(exact_pt, g, 1e-7, sc):
            ctx.violation(fam + ':wrong_point', 'expected %s got %r' % ([float(c) for c in exact_pt], res), desc)
    if crossing and res is None:
        ctx.violation(fam + ':missed', 'transversal crossing at ua=%s ub=%s not returned' % (float(ua), float(ub)), desc)
    if separated and res is not None:
        ctx.violation(fam + ':spurious', 'operands are separated (ua=%s ub=%s) but %r returned' % (float(ua), float(ub), res), desc)
    if (crossing or separated) and ((res is None) != (res2 is None)):
        ctx.violation(fam + ':asymmetric', 'a.intersect(b)=%r but b.intersect(a)=%r' % (res, res2), desc)
    if res is not None and res2 is not None and not X.pclose(X.fpt(res), X.fpt(res2), 1e-7, sc) and sin2 > Fraction(1, 10 ** 12):
        ctx.violation(fam + ':asymmetric', 'a.intersect(b)=%r but b.intersect(a)=%r' % (res, res2), desc)


def sqd_ray(p, o, v):
    d = X.dot(v, v)
    t = X.dot(X.sub(p, o), v) / d
    t = max(Fraction(0), t)
    return X.sqd(p, X.add(o, X.smul(t, v)))


# ----------------------------------------------------------------- family 2
def arc_contains_angle(a1, a2, ang, margin=0.0):
    """is angle ang (0..2pi) on the arc from a1 counter-clockwise to a2, at least margin from the ends"""
    two = 2 * math.pi
    span = (a2 - a1) % two
    if span == 0:
        span = two
    rel = (ang - a1) % two
    return margin <= rel <= span - margin


def fam_arc_line(ctx, rng):
    a1, a2 = Bd.arc_angles(rng)
    c = G.rpt2(rng, 50)
    r = G.dy(rng.uniform(0.5, 20))
    arc = Arc2D(P2(c), r, a1, a2)
    kind = rng.choice(['seg', 'ray'])
    # line through a point near the circle
    ang0 = rng.uniform(0, 2 * math.pi)
    rad = r * rng.uniform(0.0, 1.4)
    through = (c[0] + rad * math.cos(ang0), c[1] + rad * math.sin(ang0))
    v = G.rvec2(rng, 3 * r)
    t0 = rng.uniform(0.1, 0.9)
    p = (G.dy(through[0] - t0 * v[0]), G.dy(through[1] - t0 * v[1]))
    L = (Ray2D if kind == 'ray' else LineSegment2D)(P2(p), V2(v))
    infinite = rng.random() < 0.4
    res = arc.intersect_line_infinite(L) if infinite else arc.intersect_line_ray(L)
    pts = [] if res is None else (list(res) if isinstance(res, (list, tuple)) else [res])
    fp, fv, fc, fr = X.fpt(L.p), X.fpt(L.v), X.fpt(arc.c), F(r)
    A = X.norm2(fv); Bq = 2 * X.dot(fv, X.sub(fp, fc)); Cq = X.sqd(fp, fc) - fr * fr
    disc = Bq * Bq - 4 * A * Cq
    fam = 'arc2d.%s%s' % ('infinite_' if infinite else '', kind)
    desc = {'arc': repr(arc.to_dict()), 'line': repr(L.to_dict()), 'infinite': infinite, 'result': repr(res)}
    inverted = 'inverted' if arc.is_inverted else ('circle' if arc.is_circle else 'plain')
    sc = max(1.0, abs(c[0]), abs(c[1]), r)
    # soundness
    for g in pts:
        fg = X.fpt(g)
        if not X.close(X.sqd(fg, fc), fr * fr, 1e-7, float(fr * fr)):
            ctx.violation(fam + ':off_circle:' + inverted, 'point %r not on the circle' % (g,), desc)
        ang = math.atan2(g.y - c[1], g.x - c[0]) % (2 * math.pi)
        if not arc.is_circle and not arc_contains_angle(a1, a2, ang, -1e-6):
            ctx.violation(fam + ':outside_arc:' + inverted, 'point %r at angle %.6f is outside the arc [%.6f,%.6f]' % (g, ang, a1, a2), desc)
        t = X.dot(X.sub(fg, fp), fv) / A
        if not infinite and not in_range(kind, t, -Fraction(1, 10 ** 7)):
            ctx.violation(fam + ':outside_line_range', 'point %r has line parameter %s' % (g, float(t)), desc)
    # completeness
    expected = 0
    if disc > Fraction(1, 10 ** 6) * A * fr * fr:
        sq = math.sqrt(float(disc))
        for u in ((-float(Bq) + sq) / (2 * float(A)), (-float(Bq) - sq) / (2 * float(A))):
            if infinite or in_range(kind, u, 1e-6):
                px, py = p[0] + u * v[0], p[1] + u * v[1]
                ang = math.atan2(py - c[1], px - c[0]) % (2 * math.pi)
                if arc.is_circle or arc_contains_angle(a1, a2, ang, 1e-5):
                    expected += 1
                    if not any(abs(g.x - px) + abs(g.y - py) < 1e-6 * sc for g in pts):
                        ctx.violation(fam + ':missed:' + inverted, 'crossing at (%r,%r) angle %.6f not returned' % (px, py, ang), desc)
    ctx.count(fam, key=(inverted, expected, len(pts)), sample=desc, nontrivial=expected > 0)


# ----------------------------------------------------------------- family 3
def fam_line_plane(ctx, rng):
    pl = Bd.plane(rng)
    kind = rng.choice(['seg', 'ray'])
    L = lin(rng, kind, d3=True)
    res = pl.intersect_line_ray(L)
    n, o, p, v = X.fpt(pl.n), X.fpt(pl.o), X.fpt(L.p), X.fpt(L.v)
    d = X.dot(n, v)
    fam = 'plane.%s' % kind
    desc = {'plane': repr(pl.to_dict()), 'line': repr(L.to_dict()), 'result': repr(res)}
    sc = max(scale_of(L), max(abs(c) for c in pl.o))
    if d == 0:
        ctx.count(fam, key='parallel', nontrivial=False)
        return
    u = X.dot(n, X.sub(o, p)) / d
    sin2 = d * d / (X.norm2(n) * X.norm2(v))
    crossing = in_range(kind, u, EPS) and sin2 > Fraction(1, 10 ** 18)
    separated = out_range(kind, u, EPS)
    ctx.count(fam, key=('cross' if crossing else 'sep' if separated else 'edge', int(float(u) * 4) if crossing else 0),
              sample=desc, nontrivial=crossing or separated)
    if res is not None:
        g = X.fpt(res)
        if abs(float(X.dot(n, X.sub(g, o)))) > 1e-7 * sc:
            ctx.violation(fam + ':off_plane', 'point %r is off the plane' % (res,), desc)
        e = X.add(p, X.smul(u, v))
        if crossing and not X.pclose(e, g, 1e-7, sc):
            ctx.violation(fam + ':wrong_point', 'expected %s' % ([float(c) for c in e],), desc)
    if crossing and res is None:
        ctx.violation(fam + ':missed', 'crossing at u=%s missed' % float(u), desc)
    if separated and res is not None:
        ctx.violation(fam + ':spurious', 'u=%s out of range but %r returned' % (float(u), res), desc)


def fam_plane_plane(ctx, rng):
    a, b = Bd.plane(rng), Bd.plane(rng)
    r1, r2 = a.intersect_plane(b), b.intersect_plane(a)
    na, nb = X.fpt(a.n), X.fpt(b.n)
    cr = X.cross(na, nb)
    fam = 'plane.plane'
    desc = {'a': repr(a.to_dict()), 'b': repr(b.to_dict()), 'result': repr(r1)}
    par = X.norm2(cr) < Fraction(1, 10 ** 18)
    ctx.count(fam, key=('par' if par else 'cross', round(float(X.dot(na, nb)), 1)), sample=desc, nontrivial=not par)
    if par:
        return
    if r1 is None or r2 is None:
        ctx.violation(fam + ':missed', 'non-parallel planes returned None', desc)
        return
    sc = max(1.0, max(abs(c) for c in a.o), max(abs(c) for c in b.o))
    for r in (r1, r2):
        for t in (0.0, 1.0, -3.5):
            g = X.add(X.fpt(r.p), X.smul(F(t), X.fpt(r.v)))
            for pl in (a, b):
                if abs(float(X.dot(X.fpt(pl.n), X.sub(g, X.fpt(pl.o))))) > 1e-7 * sc:
                    ctx.violation(fam + ':off_plane', 'line point at t=%s is off a plane' % t, desc)
                    return


# ----------------------------------------------------------------- family 4
def fam_sphere(ctx, rng):
    c = G.rpt3(rng, 50); r = G.dy(rng.uniform(0.5, 30))
    s = Sphere(P3(c), r)
    fc, fr = X.fpt(c), F(r)
    if rng.random() < 0.5:
        pl = Bd.plane(rng)
        # move plane near the sphere
        off = rng.uniform(-1.5, 1.5) * r
        o = tuple(G.dy(c[i] + off * pl.n[i]) for i in range(3))
        pl = Plane(pl.n, P3(o))
        res = s.intersect_plane(pl)
        n, fo = X.fpt(pl.n), X.fpt(pl.o)
        dist = X.dot(X.sub(fo, fc), n)          # n is (nearly) unit
        desc = {'sphere': repr(s.to_dict()), 'plane': repr(pl.to_dict()), 'result': repr(res)}
        fam = 'sphere.plane'
        cut = abs(float(dist)) < r * (1 - 1e-6)
        miss = abs(float(dist)) > r * (1 + 1e-6)
        ctx.count(fam, key=('cut' if cut else 'miss' if miss else 'tangent', int(float(dist) / r * 4)), sample=desc,
                  nontrivial=cut or miss)
        if cut:
            if res is None:
                ctx.violation(fam + ':missed', 'plane at distance %s < r=%s: None' % (float(dist), r), desc)
            else:
                arc = res
                e_r = math.sqrt(r * r - float(dist) ** 2)
                if not X.close(arc.radius, e_r, 1e-7, r):
                    ctx.violation(fam + ':radius', 'cut radius %r expected %r' % (arc.radius, e_r), desc)
                for t in (0.0, 0.3, 0.77):
                    g = X.fpt(arc.point_at(t))
                    if not X.close(X.sqd(g, fc), fr * fr, 1e-7, float(fr * fr)) or abs(float(X.dot(n, X.sub(g, fo)))) > 1e-7 * max(1, r, 50):
                        ctx.violation(fam + ':off_operands', 'cut circle point off the sphere or the plane', desc)
                        break
        if miss and res is not None:
            ctx.violation(fam + ':spurious', 'plane misses the sphere but %r returned' % (res,), desc)
        return
    kind = rng.choice(['seg', 'ray'])
    ang = G.rvec3(rng, 1.0)
    rad = r * rng.uniform(0, 1.5)
    nrm = math.sqrt(sum(x * x for x in ang))
    through = tuple(c[i] + rad * ang[i] / nrm for i in range(3))
    v = G.rvec3(rng, 3 * r)
    t0 = rng.uniform(-0.5, 1.5)
    p = tuple(G.dy(through[i] - t0 * v[i]) for i in range(3))
    L = (Ray3D if kind == 'ray' else LineSegment3D)(P3(p), V3(v))
    res = s.intersect_line_ray(L)
    fp, fv = X.fpt(p), X.fpt(v)
    A = X.norm2(fv); Bq = 2 * X.dot(fv, X.sub(fp, fc)); Cq = X.sqd(fp, fc) - fr * fr
    disc = Bq * Bq - 4 * A * Cq
    fam = 'sphere.%s' % kind
    desc = {'sphere': repr(s.to_dict()), 'line': repr(L.to_dict()), 'result': repr(res)}
    pts = []
    if res is not None:
        pts = [res.p1, res.p2] if isinstance(res, LineSegment3D) else [res]
    roots = []
    if disc > Fraction(1, 10 ** 6) * A * fr * fr:
        sq = math.sqrt(float(disc))
        roots = [(-float(Bq) + sq) / (2 * float(A)), (-float(Bq) - sq) / (2 * float(A))]
    inside_ends = [u for u in roots if in_range(kind, u, 1e-6)]
    outside = [u for u in roots if out_range(kind, u, 1e-6)]
    ctx.count(fam, key=(len(roots), len(inside_ends)), sample=desc, nontrivial=len(roots) > 0)
    # the result is the part of the segment/ray inside the (solid) sphere: every returned point lies on L within
    # its range and in the closed ball; it is on the surface unless it is an end point of L
    for g in pts:
        fg = X.fpt(g)
        d2 = X.sqd(fg, fc)
        u = X.dot(X.sub(fg, fp), fv) / A
        on_surface = X.close(d2, fr * fr, 1e-6, float(fr * fr))
        at_end = abs(float(u)) < 1e-9 or (kind == 'seg' and abs(float(u) - 1) < 1e-9)
        if float(d2) > float(fr * fr) * (1 + 1e-6):
            ctx.violation(fam + ':outside_ball', 'returned point %r is outside the sphere (|p-c|=%r, r=%r)' % (
                g, math.sqrt(float(d2)), r), desc)
            break
        if not on_surface and not at_end:
            ctx.violation(fam + ':interior_point', 'returned point %r is neither on the surface nor an end of the operand' % (g,), desc)
            break
        if not in_range(kind, u, -Fraction(1, 10 ** 7)):
            ctx.violation(fam + ':outside_line_range', 'returned point %r has parameter %s' % (g, float(u)), desc)
            break
    if isinstance(res, P3(()).__class__ if False else type(P3((0, 0, 0)))) and len(roots) == 2 and len(inside_ends) == 0 and len(outside) == 2:
        pass
    for u in inside_ends:
        e = tuple(p[i] + u * v[i] for i in range(3))
        if not any(sum(abs(g[i] - e[i]) for i in range(3)) < 1e-6 * max(1, r, 50) for g in pts):
            ctx.violation(fam + ':missed', 'crossing at u=%r not returned' % u, desc)
    if not roots and disc < -Fraction(1, 10 ** 6) * A * fr * fr and res is not None:
        ctx.violation(fam + ':spurious', 'line misses the sphere but %r returned' % (res,), desc)


# ----------------------------------------------------------------- family 5
def fam_polygon_line(ctx, rng):
    pts = G.star_polygon(rng, R=rng.choice([10.0, 100.0]))
    closed = rng.random() < 0.6
    poly = Polygon2D([P2(p) for p in pts]) if closed else Polyline2D([P2(p) for p in pts])
    kind = rng.choice(['seg', 'ray', 'line'])
    xs = [p[0] for p in pts]; ys = [p[1] for p in pts]
    a = (rng.uniform(min(xs), max(xs)), rng.uniform(min(ys), max(ys)))
    b = (rng.uniform(min(xs) - 5, max(xs) + 5), rng.uniform(min(ys) - 5, max(ys) + 5))
    p = (G.dy(a[0]), G.dy(a[1])); v = (G.dy(b[0] - a[0]) or 1.0, G.dy(b[1] - a[1]))
    L = LineSegment2D(P2(p), V2(v)) if kind == 'seg' else Ray2D(P2(p), V2(v))
    res = poly.intersect_line_infinite(L) if kind == 'line' else poly.intersect_line_ray(L)
    fam = '%s.%s' % ('polygon2d' if closed else 'polyline2d', kind)
    fpts = [X.fpt(q_) for q_ in pts]
    fp, fv = X.fpt(p), X.fpt(v)
    edges = [(fpts[i - 1], fpts[i]) for i in range(len(fpts))] if closed else [(fpts[i], fpts[i + 1]) for i in range(len(fpts) - 1)]
    expected = []
    degenerate = False
    for (e0, e1) in edges:
        ev = X.sub(e1, e0)
        d = ev[1] * fv[0] - ev[0] * fv[1]
        if d == 0:
            continue
        dy_, dx_ = fp[1] - e0[1], fp[0] - e0[0]
        u = (ev[0] * dy_ - ev[1] * dx_) / d      # along L
        w = (fv[0] * dy_ - fv[1] * dx_) / d      # along edge
        m = Fraction(1, 10 ** 7)
        if in_range(kind, u, m) and m <= w <= 1 - m:
            expected.append(X.add(fp, X.smul(u, fv)))
        elif not (out_range(kind, u, m) or w < -m or w > 1 + m):
            degenerate = True
    desc = {'shape': repr(poly.to_dict()), 'line': repr(L.to_dict()), 'kind': kind, 'result': repr(res)}
    sc = max(1.0, max(map(abs, xs)), max(map(abs, ys)))
    ctx.count(fam, key=(len(expected), degenerate), sample=desc, nontrivial=len(expected) > 0)
    got = [X.fpt(g) for g in (res or [])]
    for g in got:
        if min(float(X.sqdist_point_segment(g, e0, e1)) for e0, e1 in edges) > (1e-7 * sc) ** 2:
            ctx.violation(fam + ':unsound', 'point %s is not on the shape' % ([float(c) for c in g],), desc)
    if not degenerate:
        for e in expected:
            if not any(X.pclose(e, g, 1e-7, sc) for g in got):
                ctx.violation(fam + ':missed', 'crossing %s not returned' % ([float(c) for c in e],), desc)
        if len(got) != len(expected):
            ctx.violation(fam + ':count', 'expected %d crossings got %d' % (len(expected), len(got)), desc)


# ----------------------------------------------------------------- family 6
def fam_face(ctx, rng):
    face = Bd.face3d(rng, nholes=rng.choice([0, 0, 1]))
    pl = face.plane
    b2 = [X.fpt(pl.xyz_to_xy(p)) for p in face.boundary]
    h2 = [[X.fpt(pl.xyz_to_xy(p)) for p in h] for h in (face.holes or ())]
    xs = [float(p[0]) for p in b2]; ys = [float(p[1]) for p in b2]
    target2 = (rng.uniform(min(xs) - 2, max(xs) + 2), rng.uniform(min(ys) - 2, max(ys) + 2))
    t3 = pl.xy_to_xyz(P2(target2))
    kind = rng.choice(['seg', 'ray'])
    v = G.rvec3(rng, 20)
    t0 = rng.uniform(0.1, 0.9)
    L = (Ray3D if kind == 'ray' else LineSegment3D)(P3((t3.x - t0 * v[0], t3.y - t0 * v[1], t3.z - t0 * v[2])), V3(v))
    res = face.intersect_line_ray(L)
    n, o, p, fv = X.fpt(pl.n), X.fpt(pl.o), X.fpt(L.p), X.fpt(L.v)
    d = X.dot(n, fv)
    fam = 'face3d.%s' % kind
    desc = {'face': repr(face.to_dict()), 'line': repr(L.to_dict()), 'result': repr(res)}
    if abs(float(d)) < 1e-6 * math.sqrt(float(X.norm2(fv))):
        return
    u = X.dot(n, X.sub(o, p)) / d
    hit3 = X.add(p, X.smul(u, fv))
    hit2 = X.fpt(pl.xyz_to_xy(P3([float(c) for c in hit3])))
    inside = X.region_contains(b2, h2, hit2)
    m2 = min([X.sqdist_to_boundary(b2, hit2)] + [X.sqdist_to_boundary(h, hit2) for h in h2])
    clear = m2 > Fraction(1, 10 ** 8)
    ctx.count(fam, key=(inside, in_range(kind, u), clear, len(h2)), sample=desc, nontrivial=bool(clear))
    if not clear:
        return
    if in_range(kind, u, EPS) and inside and res is None:
        ctx.violation(fam + ':missed', 'ray hits the face interior at %s but None returned' % ([float(c) for c in hit3],), desc)
    if res is not None and (inside is False or out_range(kind, u, EPS)):
        ctx.violation(fam + ':spurious', 'hit point is %s the face / u=%s but %r returned' % (
            'inside' if inside else 'outside', float(u), res), desc)
    if res is not None and inside and not X.pclose(hit3, X.fpt(res), 1e-7, 100.0):
        ctx.violation(fam + ':wrong_point', 'expected %s got %r' % ([float(c) for c in hit3], res), desc)


def fam_face_plane(ctx, rng):
    face = Bd.face3d(rng, nholes=0, n=rng.randint(3, 8))
    pl = face.plane
    cutter = Bd.plane(rng)
    # move the cutter through the face centre region
    c = face.center
    cutter = Plane(cutter.n, P3((G.dy(c.x + rng.uniform(-3, 3)), G.dy(c.y + rng.uniform(-3, 3)), G.dy(c.z + rng.uniform(-3, 3)))))
    res = face.intersect_plane(cutter)
    fam = 'face3d.plane'
    desc = {'face': repr(face.to_dict()), 'plane': repr(cutter.to_dict()), 'result': repr(res)}
    n, o = X.fpt(cutter.n), X.fpt(cutter.o)
    b3 = [X.fpt(p) for p in face.boundary]
    side = [X.dot(n, X.sub(p, o)) for p in b3]
    if any(abs(float(s_)) < 1e-6 for s_ in side):
        return
    crossings = sum(1 for i in range(len(side)) if (side[i - 1] > 0) != (side[i] > 0))
    ctx.count(fam, key=crossings, sample=desc, nontrivial=crossings > 0)
    if crossings == 0:
        if res:
            ctx.violation(fam + ':spurious', 'plane misses the face but %r returned' % (res,), desc)
        return
    if not res:
        ctx.violation(fam + ':missed', 'plane crosses %d edges but nothing returned' % crossings, desc)
        return
    if len(res) * 2 != crossings:
        ctx.violation(fam + ':count', '%d edge crossings but %d segments' % (crossings, len(res)), desc)
    b2 = [X.fpt(pl.xyz_to_xy(p)) for p in face.boundary]
    for s_ in res:
        for g in (s_.p1, s_.p2, s_.midpoint):
            fg = X.fpt(g)
            if abs(float(X.dot(n, X.sub(fg, o)))) > 1e-6 or abs(float(X.dot(X.fpt(pl.n), X.sub(fg, X.fpt(pl.o))))) > 1e-6:
                ctx.violation(fam + ':off_operands', 'segment point %r is off a plane' % (g,), desc)
                return
        mid2 = X.fpt(pl.xyz_to_xy(s_.midpoint))
        if X.winding_inside(b2, mid2) is False and X.sqdist_to_boundary(b2, mid2) > Fraction(1, 10 ** 10):
            ctx.violation(fam + ':outside_face', 'segment midpoint %r lies outside the face' % (s_.midpoint,), desc)
            return


def fam_face_plane_exact(ctx, rng):
    """faces with 0..2 holes (concave outlines included) cut by a plane: the returned segments are, as a point set, exactly the
    parts of the cut line inside the face - the crossings of all loops sorted along the line and paired.  Faces lie anywhere, also
    around the world origin (where the base point of the plane/plane line falls between the crossings), and the cutter is in
    general position or perpendicular to one of the face's own axes."""
    face = Bd.face3d(rng, nholes=rng.choice([0, 1, 2, 2]), n=rng.choice([4, 6, 8, 10]))
    where = rng.choice(['anywhere', 'around_origin'])
    if where == 'around_origin':
        c = face.center
        face = face.move(V3((G.dy(-c.x + rng.uniform(-2, 2)), G.dy(-c.y + rng.uniform(-2, 2)), G.dy(-c.z + rng.uniform(-2, 2)))))
    pl = face.plane
    c = face.center
    mode = rng.choice(['general', 'general', 'perp_x', 'perp_y'])
    through = P3((G.dy(c.x + rng.uniform(-3, 3)), G.dy(c.y + rng.uniform(-3, 3)), G.dy(c.z + rng.uniform(-3, 3))))
    cutter = Plane(Bd.plane(rng).n if mode == 'general' else (pl.x if mode == 'perp_x' else pl.y), through)
    fam = 'face3d.plane_exact'
    n, o = X.fpt(cutter.n), X.fpt(cutter.o)
    loops = [[X.fpt(p) for p in face.boundary]] + [[X.fpt(p) for p in h] for h in (face.holes or ())]
    d = X.cross(X.newell(loops[0]), n)
    if X.norm2(d) == 0:
        return
    ts = []
    for lp in loops:
        side = [X.dot(n, X.sub(p, o)) for p in lp]
        if any(abs(float(s_)) < 1e-6 for s_ in side):
            return
        for i in range(len(lp)):
            a, b, sa, sb = lp[i - 1], lp[i], side[i - 1], side[i]
            if (sa > 0) != (sb > 0):
                t = sa / (sa - sb)
                ts.append(X.dot(X.add(a, X.smul(t, X.sub(b, a))), d))
    ts.sort()
    dl = math.sqrt(float(X.norm2(d)))
    exp = [(float(ts[i]) / dl, float(ts[i + 1]) / dl) for i in range(0, len(ts) - 1, 2)]
    if any(b - a < 1e-4 for a, b in exp) or any(exp[i + 1][0] - exp[i][1] < 1e-4 for i in range(len(exp) - 1)):
        return
    desc = {'face': face.to_dict(), 'plane': cutter.to_dict(), 'mode': mode, 'where': where}
    ctx.count(fam, key=(len(exp), len(loops) - 1, mode, where), sample={'pieces': len(exp), 'holes': len(loops) - 1, 'mode': mode, 'where': where},
              nontrivial=len(exp) > 0)
    try:
        res = face.intersect_plane(cutter)
    except Exception as e:
        ctx.violation(fam + ':raises', '%r' % (e,), desc); return
    got = []
    for s_ in res or []:
        a, b = float(X.dot(X.fpt(s_.p1), d)) / dl, float(X.dot(X.fpt(s_.p2), d)) / dl
        if abs(b - a) > 1e-7:
            got.append((min(a, b), max(a, b)))
        for g in (s_.p1, s_.p2):
            fg = X.fpt(g)
            if abs(float(X.dot(n, X.sub(fg, o)))) > 1e-6 * 100 or abs(float(X.dot(X.fpt(pl.n), X.sub(fg, X.fpt(pl.o))))) > 1e-6 * 100:
                ctx.violation(fam + ':off_operands', 'segment end %r is off one of the planes' % (g,), desc); return
    got.sort()
    merged = []
    for a, b in got:            # pieces that abut (the cut passes a seam of the merged outline) are one piece
        if merged and a <= merged[-1][1] + 1e-6:
            merged[-1] = (merged[-1][0], max(merged[-1][1], b))
        else:
            merged.append((a, b))
    sc = max([1.0] + [abs(x) for iv in exp for x in iv])
    same = len(merged) == len(exp) and all(abs(a - c_) <= 1e-6 * sc and abs(b - e_) <= 1e-6 * sc for (a, b), (c_, e_) in zip(merged, exp))
    if not same:
        kind = fam + (':vertical_in_face_axes' if mode == 'perp_x' else '') + ':pieces'
        ctx.violation(kind, 'pieces along the cut line %r, the face meets the plane in %r' % (
            [(round(a, 6), round(b, 6)) for a, b in merged], [(round(a, 6), round(b, 6)) for a, b in exp]), desc)


def fam_polyface(ctx, rng):
    pf = Bd.prism(rng)
    c = pf.center
    kind = rng.choice(['seg', 'ray'])
    v = G.rvec3(rng, 30)
    start = P3((c.x - 3 * v[0], c.y - 3 * v[1], c.z - 3 * v[2]))
    L = (Ray3D if kind == 'ray' else LineSegment3D)(start, V3((6 * v[0], 6 * v[1], 6 * v[2])) if kind == 'seg' else V3(v))
    res = pf.intersect_line_ray(L)
    fam = 'polyface3d.%s' % kind
    desc = {'polyface': repr(pf.to_dict()), 'line': repr(L.to_dict()), 'result': repr(res)}
    ctx.count(fam, key=len(res or []), sample=desc, nontrivial=bool(res))
    # a line through the interior centre of a prism, starting far outside, crosses the boundary exactly twice
    if not res or len(res) != 2:
        # could graze an edge: only report when both per-face exact tests agree it is a clean double hit
        hits = 0
        for f in pf.faces:
            if f.intersect_line_ray(L) is not None:
                hits += 1
        if hits == 2:
            ctx.violation(fam + ':count', 'two faces are hit but polyface returned %r' % (res,), desc)
        return
    for g in res:
        fg = X.fpt(g)
        ok = any(abs(float(X.dot(X.fpt(f.normal), X.sub(fg, X.fpt(f.plane.o))))) < 1e-6 for f in pf.faces)
        if not ok:
            ctx.violation(fam + ':off_faces', 'point %r is on no face plane' % (g,), desc)


def fam_polyface_rectilinear(ctx, rng):
    """L / U / stepped prisms (several faces share a normal but lie in different planes), faces in the factory order or shuffled, in a
    random rational frame, met by a ray or segment aimed through the solid: the returned points are exactly the crossings with the
    faces (exact line/plane crossing + exact containment per face)"""
    cells = G.polyomino(rng, ncells=rng.randint(3, 8), w=4, h=4)
    loop = [(2.0 * x, 2.0 * y) for x, y in G.cells_boundary(cells)[0]]
    frame = G.rational_frame(rng); o = G.rpt3(rng, 30)
    hgt = G.dy(rng.uniform(1, 6))
    base = Face3D([P3(G.embed(frame, o, p)) for p in loop])
    pf = Polyface3D.from_offset_face(base, hgt)
    order = 'factory'
    if rng.random() < 0.5:
        fs = list(pf.faces); rng.shuffle(fs); order = 'shuffled'
        pf = Polyface3D.from_faces(fs, 0.001)
    cell = rng.choice(sorted(cells))
    nrm = base.normal
    tgt2 = (2.0 * cell[0] + G.dy(rng.uniform(0.3, 1.7)), 2.0 * cell[1] + G.dy(rng.uniform(0.3, 1.7)))
    tz = G.dy(rng.uniform(0.1, 0.9) * hgt)
    t3 = G.embed(frame, o, tgt2)
    t3 = tuple(t3[i] + tz * nrm[i] * (1 if rng.random() < 2 else 1) for i in range(3))
    # the factory extrudes along the face normal: find the side by looking at the far cap
    v = G.rvec3(rng, 12)
    if rng.random() < 0.4:
        # nearly along the long direction of the base: the line passes several walls that share a normal
        ax = frame[rng.choice([0, 1])]
        v = tuple(G.dy(12 * ax[i] + rng.uniform(-0.6, 0.6)) for i in range(3))
    if all(abs(c) < 1e-3 for c in v):
        return
    kind = rng.choice(['seg', 'ray'])
    t0 = G.dy(rng.uniform(0.3, 2.0))
    start = P3(tuple(G.dy(t3[i] - t0 * v[i]) for i in range(3)))
    L = Ray3D(start, V3(v)) if kind == 'ray' else LineSegment3D(start, V3(tuple(G.dy(c * rng.choice([1.0, 2.5, 4.0])) for c in v)))
    fp, fv = X.fpt(L.p), X.fpt(L.v)
    exp = []
    for f in pf.faces:
        lp = [X.fpt(q_) for q_ in f.boundary]
        nw = X.newell(lp)
        d = X.dot(nw, fv)
        if d == 0:
            if X.dot(nw, X.sub(lp[0], fp)) == 0:
                return          # the line lies in a face plane
            continue
        u = X.dot(nw, X.sub(lp[0], fp)) / d
        if abs(u) < EPS or (kind == 'seg' and abs(u - 1) < EPS):
            return
        if u < 0 or (kind == 'seg' and u > 1):
            continue
        hit = X.add(fp, X.smul(u, fv))
        k = max(range(3), key=lambda i: abs(nw[i]))
        drop = lambda q_: tuple(q_[i] for i in range(3) if i != k)
        l2 = [drop(q_) for q_ in lp]
        ins = X.winding_inside(l2, drop(hit))
        if ins is None or X.sqdist_to_boundary(l2, drop(hit)) < Fraction(1, 10 ** 6):
            return              # grazes an edge of a face
        if ins:
            exp.append(hit)
    fam = 'polyface3d.rectilinear.%s' % kind
    desc = {'polyface': pf.to_dict(), 'line': L.to_dict(), 'order': order}
    ctx.count(fam, key=(len(cells), len(exp), order), sample={'cells': len(cells), 'crossings': len(exp), 'order': order}, nontrivial=len(exp) > 0)
    try:
        res = pf.intersect_line_ray(L)
    except Exception as e:
        ctx.violation(fam + ':raises', '%r' % (e,), desc); return
    res = list(res or [])
    rem = list(exp)
    for g in res:
        fg = X.fpt(g)
        m = [h_ for h_ in rem if X.pclose(h_, fg, 1e-7, 100.0)]
        if not m:
            ctx.violation(fam + ':spurious', 'returned point %r is not a crossing of the line with any face (crossings: %s)' % (
                g, [[round(float(c), 6) for c in h_] for h_ in exp]), desc); return
        rem.remove(m[0])
    if rem:
        ctx.violation(fam + ':missed', 'crossing(s) %s not returned (%d returned)' % ([[round(float(c), 6) for c in h_] for h_ in rem], len(res)), desc)


def fam_polyface_plane(ctx, rng):
    """box / convex prism cut by a plane in general position (normals with mixed signs): one segment per crossed face, every
    segment end on the plane and on an edge of the solid, nothing for separated planes"""
    if rng.random() < 0.5:
        pf = Polyface3D.from_box(G.dy(rng.uniform(2, 12)), G.dy(rng.uniform(2, 12)), G.dy(rng.uniform(2, 12)), Bd.plane(rng))
    else:
        b = G.convex_polygon(rng, n=rng.randint(3, 7), R=8.0, center=(0.0, 0.0))
        frame = G.rational_frame(rng); o = G.rpt3(rng, 100.0)
        base = Face3D([P3(G.embed(frame, o, p)) for p in b])
        pf = Polyface3D.from_offset_face(base, G.dy(rng.uniform(2, 9)))
    vs = [X.fpt(v) for v in pf.vertices]
    c = tuple(sum(v[k] for v in vs) / len(vs) for k in range(3))
    mode = rng.choice(['cut', 'cut', 'cut', 'corner', 'miss'])
    n = G.rvec3(rng, 1)
    if max(abs(t) for t in n) == 0:
        return
    ext = math.sqrt(max(float(X.sqd(v, c)) for v in vs))
    if mode == 'cut':
        o3 = tuple(float(c[k]) + rng.uniform(-0.3, 0.3) * ext * 0.5 for k in range(3))
    elif mode == 'corner':
        # clip the region near one vertex of the solid
        v0 = vs[rng.randrange(len(vs))]
        o3 = tuple(float(v0[k]) + 0.25 * (float(c[k]) - float(v0[k])) for k in range(3))
        n = tuple(float(v0[k]) - float(c[k]) + rng.uniform(-0.2, 0.2) * ext for k in range(3))
    else:
        o3 = tuple(float(c[k]) + 3 * ext * (n[k] / math.sqrt(sum(t * t for t in n))) for k in range(3))
    o3 = tuple(G.dy(t) for t in o3); n = tuple(G.dy(t, 12) for t in n)
    if max(abs(t) for t in n) == 0:
        return
    pl = Plane(V3(n), P3(o3))
    fn, fo = X.fpt(n), X.fpt(o3)
    side = [X.dot(fn, X.sub(v, fo)) for v in vs]
    nn = float(X.norm2(fn)) ** 0.5
    margin = 1e-6 * ext * nn
    if any(abs(float(t)) < margin for t in side):
        return          # a vertex (numerically) on the plane: not general position
    exp = 0
    for f in pf.face_indices:
        loop = f[0]
        sg = [side[i] > 0 for i in loop]
        if any(sg) and not all(sg):
            exp += 1
    desc = {'polyface': repr(pf.to_dict()), 'plane': repr(pl.to_dict()), 'mode': mode}
    try:
        res = pf.intersect_plane(pl)
    except Exception as e:
        ctx.violation('polyface3d.plane:raises', '%r' % (e,), desc); return
    ctx.count('polyface3d.plane', key=(mode, exp, tuple(t > 0 for t in n)), sample=desc, nontrivial=exp > 0)
    if len(res) != exp:
        ctx.violation('polyface3d.plane:count', '%d faces are crossed transversally but %d segments were returned' % (exp, len(res)), desc); return
    for sgm in res:
        for pt in (sgm.p1, sgm.p2):
            d = abs(float(X.dot(fn, X.sub(X.fpt(pt), fo)))) / nn
            if d > 1e-7 * max(1.0, ext):
                ctx.violation('polyface3d.plane:off_plane', 'segment end %r is %r off the plane' % (pt, d), desc); return
            on_edge = False
            for e in pf.edges:
                if math.sqrt(float(X.sqdist_point_segment(X.fpt(pt), X.fpt(e.p1), X.fpt(e.p2)))) < 1e-6 * max(1.0, ext):
                    on_edge = True; break
            if not on_edge:
                ctx.violation('polyface3d.plane:off_solid', 'segment end %r is on no edge of the solid' % (pt,), desc); return


def fam_arc3d_plane(ctx, rng):
    arc = Bd.make(rng, 'Arc3D')
    cutter = Bd.plane(rng)
    c = arc.c
    r = arc.radius
    cutter = Plane(cutter.n, P3((G.dy(c.x + rng.uniform(-1.2, 1.2) * r), G.dy(c.y + rng.uniform(-1.2, 1.2) * r),
                                 G.dy(c.z + rng.uniform(-1.2, 1.2) * r))))
    res = arc.intersect_plane(cutter)
    fam = 'arc3d.plane'
    inverted = 'inverted' if arc.is_inverted else ('circle' if arc.is_circle else 'plain')
    desc = {'arc': repr(arc.to_dict()), 'plane': repr(cutter.to_dict()), 'result': repr(res)}
    n, o = X.fpt(cutter.n), X.fpt(cutter.o)
    # dense sampling of sign changes along the arc (reference)
    N = 720
    prev = None
    expected = 0
    tmin = 1.0
    for i in range(N + 1):
        g = arc.point_at(i / N)
        s_ = float(X.dot(n, X.sub(X.fpt(g), o)))
        tmin = min(tmin, abs(s_))
        if prev is not None and (prev > 0) != (s_ > 0):
            expected += 1
        prev = s_
    e0 = abs(float(X.dot(n, X.sub(X.fpt(arc.p1), o)))); e1 = abs(float(X.dot(n, X.sub(X.fpt(arc.p2), o))))
    clean = min(e0, e1) > 1e-3 * r
    ctx.count(fam, key=(inverted, expected), sample=desc, nontrivial=expected > 0)
    for g in (res or []):
        fg = X.fpt(g)
        if abs(float(X.dot(n, X.sub(fg, o)))) > 1e-6 * max(1.0, r, 100.0):
            ctx.violation(fam + ':off_plane:' + inverted, 'point %r off the cutting plane' % (g,), desc)
        d = arc.closest_point(g).distance_to_point(g) if False else abs(g.distance_to_point(arc.c) - r)
        if d > 1e-6 * max(1.0, r):
            ctx.violation(fam + ':off_circle:' + inverted, 'point %r off the circle' % (g,), desc)
    if clean and expected != len(res or []):
        # tangent grazes can fool the sampler: require a robust sign change
        if expected > len(res or []):
            ctx.violation(fam + ':missed:' + inverted, '%d sign changes along the arc but %d points returned' % (expected, len(res or [])), desc)
        else:
            ctx.violation(fam + ':spurious:' + inverted, '%d sign changes along the arc but %d points returned' % (expected, len(res or [])), desc)


FAMILIES = [(fam_axis_crossings, 30), (fam_polyface_plane, 40), (fam_lines2d, 60), (fam_arc_line, 40), (fam_line_plane, 30), (fam_plane_plane, 15), (fam_sphere, 30),
            (fam_polygon_line, 30), (fam_face, 25), (fam_face_plane, 15), (fam_face_plane_exact, 40), (fam_polyface, 8), (fam_polyface_rectilinear, 40), (fam_arc3d_plane, 15)]


def explore(ctx):
    for f, n in FAMILIES:
        for _ in range(ctx.n(n, n * 12)):
            f(ctx, ctx.rng)


def replay(ctx, data):
    kind = data.get('kind', '')
    c2 = core.Ctx(ctx.pid, 'quick', 12345)
    fam_name = kind.split(':')[0].split('.')[0]
    table = {'line2d': fam_lines2d, 'arc2d': fam_arc_line, 'plane': fam_line_plane, 'sphere': fam_sphere,
             'polygon2d': fam_polygon_line, 'polyline2d': fam_polygon_line, 'face3d': fam_face, 'polyface3d': fam_polyface,
             'arc3d': fam_arc3d_plane}
    fams = [table.get(fam_name)] if table.get(fam_name) else [f for f, _ in FAMILIES]
    if kind.startswith('plane.plane'):
        fams = [fam_plane_plane]
    if kind.startswith('face3d.plane'):
        fams = [fam_face_plane]
    if kind.startswith('polyface3d.rectilinear'):
        fams = [fam_polyface_rectilinear]
    if kind.startswith('face3d.plane_exact'):
        fams = [fam_face_plane_exact]
    for f in fams:
        for _ in range(3000):
            f(c2, c2.rng)
            if any(v.kind == kind for v in c2.violations):
                return True
    return False


# ------------------------------------------------------------ correspondence
def lr2(o): return '(mkLR2 %s %s)' % (v2((o.p.x, o.p.y)), v2((o.v.x, o.v.y)))
def lr3(o): return '(mkLR3 %s %s)' % (v3((o.p.x, o.p.y, o.p.z)), v3((o.v.x, o.v.y, o.v.z)))
def plq(p):
    return '(mkPlane %s %s %s %s %s)' % (v3(tuple(p.n)), v3(tuple(p.o)), q(p.k), v3(tuple(p.x)), v3(tuple(p.y)))


def correspond(ctx):
    rng = ctx.rng
    pre = ('Definition c2o (a : option V2) (b : option V2) (t : Q) : bool := match a, b with None, None => true '
           '| Some a, Some b => Qle_bool (Qabs (v2x a - v2x b)) t && Qle_bool (Qabs (v2y a - v2y b)) t | _, _ => false end.\n'
           'Definition c3o (a : option V3) (b : option V3) (t : Q) : bool := match a, b with None, None => true '
           '| Some a, Some b => Qle_bool (Qabs (v3x a - v3x b)) t && Qle_bool (Qabs (v3y a - v3y b)) t && '
           'Qle_bool (Qabs (v3z a - v3z b)) t | _, _ => false end.\n')
    cases, meta = [], []
    tol = q(Fraction(1, 10 ** 6))
    for _ in range(ctx.n(150, 1200)):
        ka, kb = rng.choice(['seg', 'ray']), rng.choice(['seg', 'ray'])
        # integer coordinates: the float implementation takes exactly the model's branches
        a = (Ray2D if ka == 'ray' else LineSegment2D)(P2((rng.randint(-20, 20), rng.randint(-20, 20))),
                                                      V2((rng.randint(-9, 9) or 1, rng.randint(-9, 9))))
        b = (Ray2D if kb == 'ray' else LineSegment2D)(P2((rng.randint(-20, 20), rng.randint(-20, 20))),
                                                      V2((rng.randint(-9, 9), rng.randint(-9, 9) or 1)))
        from ladybug_geometry.intersection2d import intersect_line2d, does_intersection_exist_line2d
        r = intersect_line2d(a, b)
        rs = 'None' if r is None else '(Some %s)' % v2((r.x, r.y))
        cases.append('c2o (intersect_line2d_%s_%s %s %s) %s %s' % (ka, kb, lr2(a), lr2(b), rs, tol))
        meta.append(('intersect_line2d_%s_%s' % (ka, kb), a, b))
        e = does_intersection_exist_line2d(a, b)
        cases.append('Bool.eqb (does_intersection_exist_line2d_%s_%s %s %s) %s' % (ka, kb, lr2(a), lr2(b), core.coq_bool(e)))
        meta.append(('does_intersection_exist_line2d_%s_%s' % (ka, kb), a, b))
        pt = (rng.randint(-20, 20), rng.randint(-20, 20))
        from ladybug_geometry.intersection2d import closest_point2d_on_line2d
        r = closest_point2d_on_line2d(P2(pt), a)
        cases.append('c2o (Some (closest_point2d_on_line2d_%s %s %s)) (Some %s) %s' % (ka, v2(pt), lr2(a), v2((r.x, r.y)), tol))
        meta.append(('closest_point2d_on_line2d_%s' % ka, pt, a))
    for _ in range(ctx.n(60, 500)):
        k = rng.choice(['seg', 'ray'])
        L = (Ray3D if k == 'ray' else LineSegment3D)(P3(tuple(rng.randint(-20, 20) for _ in range(3))),
                                                     V3((rng.randint(-9, 9) or 1, rng.randint(-9, 9), rng.randint(-9, 9))))
        pl = Bd.plane(rng)
        from ladybug_geometry.intersection3d import intersect_line3d_plane, closest_point3d_on_plane
        r = intersect_line3d_plane(L, pl)
        rs = 'None' if r is None else '(Some %s)' % v3(tuple(r))
        cases.append('c3o (intersect_line3d_plane_%s %s %s) %s %s' % (k, lr3(L), plq(pl), rs, tol))
        meta.append(('intersect_line3d_plane_%s' % k, L, pl))
        pt = tuple(rng.randint(-20, 20) for _ in range(3))
        r = closest_point3d_on_plane(P3(pt), pl)
        cases.append('c3o (Some (closest_point3d_on_plane %s %s)) (Some %s) %s' % (v3(pt), plq(pl), v3(tuple(r)), tol))
        meta.append(('closest_point3d_on_plane', pt, pl))
    res = core.run_cases('C11_corr', ['Base', 'G0_vec', 'G1_shapes', 'G2_inter'], pre, cases)
    ctx.corr_cases += len(cases)
    for ok, m in zip(res, meta):
        if ok is not True:
            ctx.corr_fail.append({'function': m[0], 'input': repr(m[1:]),
                                  'result': 'model and implementation differ' if ok is False else 'model evaluation failed'})
