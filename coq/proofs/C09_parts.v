(* C09: cell-set laws used to judge coplanar booleans and splits: area depends only on the set, pairwise disjoint pieces
   add up, difference = A minus the intersection. *)
From Coq Require Import ZArith List Bool Lia.
From LBG Require Import CellSpec.
Import ListNotations.
Open Scope Z_scope.

Lemma area_ext a b : (forall c, In c a <-> In c b) -> area a = area b.
Proof.
  intros H. unfold area. f_equal. apply same_elements_length; try apply dedup_NoDup.
  intros c. rewrite !dedup_In. apply H.
Qed.

Lemma area_nil : area [] = 0.
Proof. reflexivity. Qed.

Definition disjoint (a b : list cell) : Prop := forall c, In c a -> ~ In c b.

Lemma union_disjoint_area a b : disjoint a b -> area (cunion a b) = area a + area b.
Proof.
  intros D. rewrite union_area_disjoint. f_equal. apply area_ext. intros c. rewrite cdiff_spec. split.
  - intros [H _]; exact H.
  - intros H. split; [exact H|]. intros Ha. exact (D c Ha H).
Qed.

Fixpoint pairwise_disjoint (l : list (list cell)) : Prop :=
  match l with [] => True | a :: r => (forall b, In b r -> disjoint a b) /\ pairwise_disjoint r end.

Definition sum_area (l : list (list cell)) : Z := fold_right Z.add 0 (map area l).

Lemma fold_cunion_area l : forall acc, (forall b, In b l -> disjoint acc b) -> pairwise_disjoint l ->
  area (fold_left cunion l acc) = area acc + sum_area l.
Proof.
  induction l as [|a r IH]; intros acc Hacc Hp; [unfold sum_area; cbn; lia|].
  cbn [fold_left]. destruct Hp as [Ha Hr]. rewrite IH.
  - rewrite union_disjoint_area by (apply Hacc; left; reflexivity). unfold sum_area. cbn. lia.
  - intros b Hb c Hc. apply cunion_spec in Hc. destruct Hc as [Hc|Hc].
    + apply (Hacc b (or_intror Hb) c Hc).
    + apply (Ha b Hb c Hc).
  - exact Hr.
Qed.

(* pieces that are pairwise disjoint and whose union is the face: their areas total the face area *)
Theorem partition_area l s : pairwise_disjoint l -> (forall c, In c s <-> exists p, In p l /\ In c p) ->
  sum_area l = area s.
Proof.
  intros Hp Hs. assert (E : area s = area (cunion_all l)).
  { apply area_ext. intros c. rewrite cunion_all_spec. apply Hs. }
  rewrite E. unfold cunion_all. rewrite fold_cunion_area; [rewrite area_nil; lia| intros b _ c []| exact Hp].
Qed.

Theorem difference_area a b : area (cdiff a b) = area a - area (cinter a b).
Proof. pose proof (area_split a b). lia. Qed.

(* a coplanar split: the pieces of A are the intersection pieces plus the difference pieces *)
Theorem split_pieces_area a b : area (cinter a b) + area (cdiff a b) = area a /\ area (cinter a b) + area (cdiff b a) = area b.
Proof.
  split; [symmetry; apply area_split|]. rewrite (area_split b a). f_equal. apply area_ext. intros c. rewrite !cinter_spec. tauto.
Qed.
