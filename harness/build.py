"""Builders of ladybug_geometry objects from generator output (all 21 classes)."""
import math
from ladybug_geometry.geometry2d import (Vector2D, Point2D, Ray2D, LineSegment2D, Arc2D, Polyline2D,
                                         Polygon2D, Mesh2D)
from ladybug_geometry.geometry3d import (Vector3D, Point3D, Ray3D, LineSegment3D, Arc3D, Polyline3D,
                                         Polyface3D, Mesh3D, Plane, Face3D, Sphere, Cone, Cylinder)
from . import gens as G

ALL_CLASSES = ['Vector2D', 'Point2D', 'Ray2D', 'LineSegment2D', 'Arc2D', 'Polyline2D', 'Polygon2D', 'Mesh2D',
               'Vector3D', 'Point3D', 'Ray3D', 'LineSegment3D', 'Arc3D', 'Polyline3D', 'Mesh3D', 'Plane',
               'Polyface3D', 'Face3D', 'Sphere', 'Cone', 'Cylinder']
CLASSES_2D = ALL_CLASSES[:8]


def P2(p): return Point2D(p[0], p[1])
def V2(p): return Vector2D(p[0], p[1])
def P3(p): return Point3D(p[0], p[1], p[2])
def V3(p): return Vector3D(p[0], p[1], p[2])


def plane(rng, s=50.0, special=True):
    x, y, n = G.rational_frame(rng, special)
    o = G.rpt3(rng, s)
    return Plane(V3(n), P3(o), V3(x))


def arc_angles(rng):
    k = rng.random()
    if k < 0.15:
        return 0.0, 2 * math.pi
    a1 = rng.uniform(0, 2 * math.pi)
    a2 = rng.uniform(0, 2 * math.pi)
    if k < 0.3:   # on the 1/64-turn grid
        a1 = (rng.randrange(64) / 64.0) * 2 * math.pi
        a2 = (rng.randrange(64) / 64.0) * 2 * math.pi
    if 0.3 <= k < 0.36:
        a2 = 0.0          # an arc that ends exactly on the plane's x axis
    elif 0.36 <= k < 0.4:
        a1 = 0.0
    if a1 == a2:
        a2 = (a1 + 1.0) % (2 * math.pi)
    return a1, a2


def tri_quad_mesh2d(rng):
    """small grid-like mesh of convex quads and triangles: (vertices, faces)"""
    nx, ny = rng.randint(1, 3), rng.randint(1, 3)
    sx, sy = G.dy(rng.uniform(0.5, 5)), G.dy(rng.uniform(0.5, 5))
    ox, oy = G.rpt2(rng, 50)
    verts = [(ox + i * sx, oy + j * sy) for j in range(ny + 1) for i in range(nx + 1)]
    faces = []
    for j in range(ny):
        for i in range(nx):
            a, b = j * (nx + 1) + i, j * (nx + 1) + i + 1
            c, d = (j + 1) * (nx + 1) + i + 1, (j + 1) * (nx + 1) + i
            if rng.random() < 0.5:
                faces.append((a, b, c, d))
            else:
                faces.append((a, b, c)); faces.append((a, c, d))
    # move every vertex by less than a fifth of the cell (quads stay strictly convex but are no longer parallelograms)
    if rng.random() < 0.7:
        m = 0.2 * min(sx, sy)
        verts = [(G.dy(x + rng.uniform(-m, m)), G.dy(y + rng.uniform(-m, m))) for x, y in verts]
    return verts, faces


def face3d(rng, nholes=0, n=None):
    frame = G.rational_frame(rng)
    o = G.rpt3(rng, 50)
    b = G.star_polygon(rng, n=n, R=rng.choice([5.0, 20.0]), center=(0.0, 0.0))
    hs = G.holes_in(rng, b, nholes) if nholes else []
    b3 = [P3(G.embed(frame, o, p)) for p in b]
    h3 = [[P3(G.embed(frame, o, p)) for p in h] for h in hs]
    return Face3D(b3, holes=h3 or None)


def prism(rng):
    f = face3d(rng, n=rng.randint(3, 7))
    return Polyface3D.from_offset_face(f, G.dy(rng.uniform(0.5, 8)))


def make(rng, cls):
    if cls == 'Vector2D': return V2(G.rvec2(rng))
    if cls == 'Point2D': return P2(G.rpt2(rng))
    if cls == 'Ray2D': return Ray2D(P2(G.rpt2(rng)), V2(G.rvec2(rng)))
    if cls == 'LineSegment2D': return LineSegment2D(P2(G.rpt2(rng)), V2(G.rvec2(rng)))
    if cls == 'Arc2D':
        a1, a2 = arc_angles(rng)
        return Arc2D(P2(G.rpt2(rng)), G.dy(rng.uniform(0.2, 20)), a1, a2)
    if cls == 'Polyline2D':
        pts = G.star_polygon(rng)
        return Polyline2D([P2(p) for p in pts[:max(3, len(pts) - 1)]], interpolated=rng.random() < 0.3)
    if cls == 'Polygon2D': return Polygon2D([P2(p) for p in G.star_polygon(rng)])
    if cls == 'Mesh2D':
        if rng.random() < 0.25:
            # a grid-generated mesh: it carries pre-seeded per-face data (one shared cell area, centroids)
            return Mesh2D.from_grid(P2(G.rpt2(rng)), rng.randint(1, 4), rng.randint(1, 4), G.dy(rng.uniform(0.5, 5)), G.dy(rng.uniform(0.5, 5)),
                                    rng.random() < 0.5)
        v, f = tri_quad_mesh2d(rng)
        return Mesh2D([P2(p) for p in v], f)
    if cls == 'Vector3D': return V3(G.rvec3(rng))
    if cls == 'Point3D': return P3(G.rpt3(rng))
    if cls == 'Ray3D': return Ray3D(P3(G.rpt3(rng)), V3(G.rvec3(rng)))
    if cls == 'LineSegment3D': return LineSegment3D(P3(G.rpt3(rng)), V3(G.rvec3(rng)))
    if cls == 'Arc3D':
        a1, a2 = arc_angles(rng)
        return Arc3D(plane(rng), G.dy(rng.uniform(0.2, 20)), a1, a2)
    if cls == 'Polyline3D':
        return Polyline3D([P3(G.rpt3(rng, 20)) for _ in range(rng.randint(3, 8))], interpolated=rng.random() < 0.3)
    if cls == 'Mesh3D':
        if rng.random() < 0.25:
            # a grid mesh of a face (pre-seeded areas / normals / centroids), with and without offset and flip
            for _ in range(5):
                try:
                    fc = face3d(rng, nholes=0)
                    ext = max(fc.max.x - fc.min.x, fc.max.y - fc.min.y, fc.max.z - fc.min.z)
                    return fc.mesh_grid(G.dy(ext / rng.choice([3.0, 5.0, 8.0])), None, rng.choice([None, G.dy(rng.uniform(0.05, 1))]),
                                        rng.random() < 0.5, rng.random() < 0.5)
                except AssertionError:
                    continue
        v, f = tri_quad_mesh2d(rng)
        frame = G.rational_frame(rng); o = G.rpt3(rng, 20)
        return Mesh3D([P3(G.embed(frame, o, p)) for p in v], f)
    if cls == 'Plane': return plane(rng)
    if cls == 'Polyface3D':
        if rng.random() < 0.3:
            return Polyface3D.from_box(G.dy(rng.uniform(1, 9)), G.dy(rng.uniform(1, 9)), G.dy(rng.uniform(1, 9)), plane(rng))
        pf = prism(rng)
        if rng.random() < 0.35:
            # the same solid handed over as a shuffled bag of faces, some of them pointing into the solid
            fs = [f.flip() if rng.random() < 0.4 else f for f in pf.faces]
            rng.shuffle(fs)
            return Polyface3D.from_faces(fs, 0.001)
        return pf
    if cls == 'Face3D': return face3d(rng, nholes=rng.choice([0, 0, 1, 2]))
    if cls == 'Sphere': return Sphere(P3(G.rpt3(rng)), G.dy(rng.uniform(0.2, 20)))
    if cls == 'Cone': return Cone(P3(G.rpt3(rng)), V3(G.rvec3(rng)), G.dy(rng.uniform(0.1, 1.4)))
    if cls == 'Cylinder': return Cylinder(P3(G.rpt3(rng)), V3(G.rvec3(rng)), G.dy(rng.uniform(0.2, 20)))
    raise KeyError(cls)
