"""sweep.py -- translator validation: every root definition the translator emits (tools/roots.py) is run, inside Coq, on generated
inputs and compared with what the implementation returns for the same inputs.

For each root the translator records how the function is called in Python (module function / method / property / static / constructor),
its argument and return types and which oracles (sqrt, cos, ...) its Gallina text takes.  Here: arguments are generated per type, the
implementation is called with math.cos/sin/... wrapped so that every oracle call is RECORDED; the Gallina definition is then evaluated by
vm_compute with `qsqrt_exec` for sqrt and, for the trigonometric oracles, the finite table of the recorded (argument, value) pairs
(looked up within 1e-9, the model computes the argument exactly while the implementation rounds it).  Results are compared field by
field with a relative tolerance of 1e-7 (booleans, integers, list lengths and None-ness exactly).

A root whose argument or result type has no generator / renderer here is reported as not swept (listed in the evidence)."""
import math, os, sys, importlib
from fractions import Fraction
from . import core, gens as G, build as Bd
from .core import q, z

sys.path.insert(0, os.path.join(core.VERIF, 'tools'))

TRIG = ['cos', 'sin', 'tan', 'acos', 'asin', 'atan', 'atan2']
PRE = '''
Definition qclose (a b : Q) : bool := Qle_bool (Qabs (a - b)) ((1 # 10000000) * (1 + Qabs b)).
Fixpoint lcmp {A} (f : A -> A -> bool) (a b : list A) : bool :=
  match a, b with [], [] => true | x :: r, y :: s => f x y && lcmp f r s | _, _ => false end.
Definition ocmp {A} (f : A -> A -> bool) (a b : option A) : bool :=
  match a, b with None, None => true | Some x, Some y => f x y | _, _ => false end.
Definition tab (t : list (Q * Q)) (x : Q) : Q :=
  match find (fun kv => Qle_bool (Qabs (x - fst kv)) ((1 # 1000000000) * (1 + Qabs x))) t with Some kv => snd kv | None => 0 end.
Definition tab2 (t : list (Q * Q * Q)) (y x : Q) : Q :=
  match find (fun kv => Qle_bool (Qabs (y - fst (fst kv))) ((1 # 1000000000) * (1 + Qabs y))
                        && Qle_bool (Qabs (x - snd (fst kv))) ((1 # 1000000000) * (1 + Qabs x))) t with Some kv => snd kv | None => 0 end.
'''


class Unsupported(Exception):
    pass


def _load():
    import py2coq, roots
    importlib.reload(roots)
    py2coq.generate(core.REPO, roots.LAYERS)
    return py2coq, list(py2coq.SIGNATURES)


def gen_value(rng, ty, P, hint=''):
    """a Python value of translator type ty; hint = ('unit', frame, counter) makes vector arguments unit / mutually orthogonal
    (normals, plane axes), which some operations assert"""
    if hint and isinstance(ty, P.TObj) and ty.cls == 'Vector3D':
        fr, cnt = hint[1], hint[2]
        v = fr[[2, 0, 1][cnt[0] % 3]]; cnt[0] += 1
        return Bd.V3(v)
    if hint and isinstance(ty, P.TObj) and ty.cls == 'Vector2D':
        c, s_, _ = G.pythagorean_angle(rng)
        return Bd.V2((float(c), float(s_)))
    if isinstance(ty, P.TQ):
        return G.dy(rng.uniform(0.1, 3.0))
    if isinstance(ty, P.TZ):
        return rng.randint(1, 5)
    if isinstance(ty, P.TB):
        return rng.random() < 0.5
    if isinstance(ty, P.TObj):
        cls = ty.cls
        if cls in Bd.ALL_CLASSES:
            if cls == 'Face3D':
                return Bd.face3d(rng, nholes=0)
            if cls in ('Mesh2D', 'Mesh3D'):
                v, f = Bd.tri_quad_mesh2d(rng)
                from ladybug_geometry.geometry2d import Mesh2D
                from ladybug_geometry.geometry3d import Mesh3D
                return Mesh2D([Bd.P2(p) for p in v], f) if cls == 'Mesh2D' else Mesh3D([Bd.P3((p[0], p[1], 0.5 * p[0])) for p in v], f)
            return Bd.make(rng, cls)
        raise Unsupported('no generator for class %s' % cls)
    if isinstance(ty, P.TLst):
        t = ty.t
        if isinstance(t, P.TObj) and t.cls in ('Point2D', 'Vector2D'):
            return [Bd.P2(p) for p in G.star_polygon(rng, n=rng.randint(3, 7), R=10.0)]
        if isinstance(t, P.TObj) and t.cls in ('Point3D', 'Vector3D'):
            fr = G.rational_frame(rng); o = G.rpt3(rng, 20)
            return [Bd.P3(G.embed(fr, o, p)) for p in G.star_polygon(rng, n=rng.randint(3, 7), R=10.0)]
        return [gen_value(rng, t, P) for _ in range(rng.randint(1, 4))]
    if isinstance(ty, P.TOpt):
        return None if rng.random() < 0.3 else gen_value(rng, ty.t, P)
    if isinstance(ty, P.TTup):
        return tuple(gen_value(rng, t, P) for t in ty.ts)
    raise Unsupported('no generator for type %r' % (ty,))


def render(v, ty, P):
    """Coq term of type ty.coq() for the Python value v"""
    if isinstance(ty, (P.TQ, P.TNum)):
        if isinstance(v, bool) or not isinstance(v, (int, float, Fraction)):
            raise Unsupported('value %r for Q' % (v,))
        if isinstance(v, float) and (math.isnan(v) or math.isinf(v)):
            raise Unsupported('non-finite value')
        return q(v)
    if isinstance(ty, P.TZ):
        if isinstance(v, bool) or not isinstance(v, int):
            raise Unsupported('value %r for Z' % (v,))
        return z(v)
    if isinstance(ty, P.TB):
        if not isinstance(v, bool):
            raise Unsupported('value %r for bool' % (v,))
        return 'true' if v else 'false'
    if isinstance(ty, (P.TNone, P.TStr, P.TDefault, P.TCls)):
        return 'tt'
    if isinstance(ty, P.TObj):
        cfg = P.CLASSES.root_cfg(ty.cls)
        parts = []
        for slot, acc, fty in cfg['fields']:
            if not hasattr(v, slot):
                raise Unsupported('%r has no slot %s' % (type(v).__name__, slot))
            parts.append('(%s)' % render(getattr(v, slot), fty, P))
        return '%s %s' % (cfg['ctor'], ' '.join(parts))
    if isinstance(ty, P.TLst):
        if not isinstance(v, (list, tuple)):
            raise Unsupported('value %r for a list' % (type(v).__name__,))
        return '[' + '; '.join(render(x, ty.t, P) for x in v) + ']'
    if isinstance(ty, P.TOpt):
        return 'None' if v is None else 'Some (%s)' % render(v, ty.t, P)
    if isinstance(ty, P.TTup):
        if not isinstance(v, (tuple, list)) or len(v) != len(ty.ts):
            raise Unsupported('value %r for a %d-tuple' % (v, len(ty.ts)))
        return '(' + ', '.join(render(x, t, P) for x, t in zip(v, ty.ts)) + ')'
    if isinstance(ty, P.TSum):
        try:
            return 'inl (%s)' % render(v, ty.a, P)
        except Unsupported:
            return 'inr (%s)' % render(v, ty.b, P)
    raise Unsupported('no renderer for %r' % (ty,))


def comparator(ty, P):
    """Coq term : T -> T -> bool"""
    if isinstance(ty, (P.TQ, P.TNum)):
        return 'qclose'
    if isinstance(ty, P.TZ):
        return 'Z.eqb'
    if isinstance(ty, P.TB):
        return 'Bool.eqb'
    if isinstance(ty, (P.TNone, P.TStr, P.TDefault, P.TCls)):
        return '(fun _ _ : unit => true)'
    if isinstance(ty, P.TObj):
        cfg = P.CLASSES.root_cfg(ty.cls)
        return '(fun a_ b_ : %s => %s)' % (cfg['coq'], ' && '.join('%s (%s a_) (%s b_)' % (comparator(fty, P), acc, acc)
                                                                   for _, acc, fty in cfg['fields']) or 'true')
    if isinstance(ty, P.TLst):
        return '(lcmp %s)' % comparator(ty.t, P)
    if isinstance(ty, P.TOpt):
        return '(ocmp %s)' % comparator(ty.t, P)
    if isinstance(ty, P.TTup):
        n = len(ty.ts)
        an = ', '.join('a%d_' % i for i in range(n)); bn = ', '.join('b%d_' % i for i in range(n))
        body = ' && '.join('%s a%d_ b%d_' % (comparator(t, P), i, i) for i, t in enumerate(ty.ts))
        return "(fun (a_ b_ : %s) => let '(%s) := a_ in let '(%s) := b_ in %s)" % (ty.coq(), an, bn, body)
    if isinstance(ty, P.TSum):
        return '(fun (a_ b_ : %s) => match a_, b_ with inl x_, inl y_ => %s x_ y_ | inr x_, inr y_ => %s x_ y_ | _, _ => false end)' % (
            ty.coq(), comparator(ty.a, P), comparator(ty.b, P))
    raise Unsupported('no comparator for %r' % (ty,))


class Recorder:
    """wrap math.cos etc. so that every call made by the implementation is recorded"""
    def __enter__(self):
        self.saved = {n: getattr(math, n) for n in TRIG}
        self.calls = {n: [] for n in TRIG}
        for n in TRIG:
            def mk(n, f):
                def w(*a):
                    r = f(*a)
                    self.calls[n].append((tuple(float(x) for x in a), r))
                    return r
                return w
            setattr(math, n, mk(n, self.saved[n]))
        return self

    def __exit__(self, *exc):
        for n, f in self.saved.items():
            setattr(math, n, f)


def call_python(sg, args):
    kind = sg['kind']
    if kind == 'func':
        mod = importlib.import_module(sg['module'])
        return getattr(mod, sg['func'])(*args)
    import ladybug_geometry.geometry2d as g2, ladybug_geometry.geometry3d as g3
    cname = sg.get('cls') or sg['owner']
    cls = getattr(g2, cname, None) or getattr(g3, cname, None)
    if cls is None:
        mod = importlib.import_module(sg['module'])
        cls = getattr(mod, cname)
    if kind == 'init':
        return cls(*args)
    if kind in ('static', 'classmethod'):
        return getattr(cls, sg['func'])(*args)
    if kind == 'property':
        return getattr(args[0], sg['func'])
    return getattr(args[0], sg['func'])(*args[1:])


def oracle_terms(orcs, rec):
    out = []
    for o in orcs:
        if o == 'fuel':
            out.append('400%nat')
        elif o == 'qsqrt':
            out.append('qsqrt_exec')
        elif o == 'qpi':
            out.append(q(math.pi))
        elif o == 'qatan2':
            out.append('(tab2 [%s])' % '; '.join('(%s, %s, %s)' % (q(a[0]), q(a[1]), q(r)) for a, r in rec.calls['atan2']))
        else:
            out.append('(tab [%s])' % '; '.join('(%s, %s)' % (q(a[0]), q(r)) for a, r in rec.calls[o[1:]]))
    return out


def _face_and_plane(rng):
    f = Bd.face3d(rng, nholes=0)
    pl = f.plane if rng.random() < 0.5 else f.plane.flip()
    return [list(f.boundary), pl]


def _line_through_sphere(kind):
    def gen(rng):
        from ladybug_geometry.geometry3d import LineSegment3D, Ray3D
        sp = Bd.make(rng, 'Sphere')
        if rng.random() < 0.3:
            return [Bd.make(rng, 'LineSegment3D' if kind == 'seg' else 'Ray3D'), sp]        # mostly a miss
        c, r = sp.center, sp.radius
        q_ = Bd.P3((c.x + G.dy(rng.uniform(-0.6, 0.6) * r), c.y + G.dy(rng.uniform(-0.6, 0.6) * r), c.z + G.dy(rng.uniform(-0.5, 0.5) * r)))
        v = Bd.V3(G.rvec3(rng, 1))
        k = rng.choice([0.3, 1.5, 3.0]) * r / max(v.magnitude, 1e-9)        # end inside the ball, one crossing, or two crossings
        p0 = Bd.P3((q_.x - v.x * k, q_.y - v.y * k, q_.z - v.z * k))
        vv = Bd.V3((v.x * 2 * k, v.y * 2 * k, v.z * 2 * k))
        return [(LineSegment3D if kind == 'seg' else Ray3D)(p0, vv), sp]
    return gen


def _plane_through_sphere(rng):
    sp = Bd.make(rng, 'Sphere')
    pl = Bd.plane(rng)
    if rng.random() < 0.7:
        c, r = sp.center, sp.radius
        from ladybug_geometry.geometry3d import Plane
        pl = Plane(pl.n, Bd.P3((c.x + G.dy(rng.uniform(-0.5, 0.5) * r), c.y + G.dy(rng.uniform(-0.5, 0.5) * r), c.z + G.dy(rng.uniform(-0.5, 0.5) * r))))
    return [pl, sp]


# roots whose arguments must fit together (a vertex loop and the plane it lies in; a line or plane that actually meets the sphere):
# generated jointly
def _face_loop_pair(rng):
    """Face3D._remove_colinear(pts_3d, pts_2d, tol): a face, its boundary (with exactly collinear points inserted on some edges) and
    the 2D polygon of the same points in the face plane"""
    from ladybug_geometry.geometry2d import Polygon2D
    f = Bd.face3d(rng, nholes=0, n=rng.randint(4, 7))
    pl = f.plane
    p2 = [pl.xyz_to_xy(v) for v in f.boundary]
    loop = []
    for i, a in enumerate(p2):
        b = p2[(i + 1) % len(p2)]
        loop.append(a)
        if rng.random() < 0.5:
            t = rng.choice([0.25, 0.5, 0.75])
            loop.append(Bd.P2((a.x + (b.x - a.x) * t, a.y + (b.y - a.y) * t)))
    poly = Polygon2D(loop)
    return [f, [pl.xy_to_xyz(q) for q in loop], poly, 0.01]


def _mesh_and_pattern(cls):
    def gen(rng):
        from ladybug_geometry.geometry2d import Mesh2D
        from ladybug_geometry.geometry3d import Mesh3D
        v, f = Bd.tri_quad_mesh2d(rng)
        m = Mesh2D([Bd.P2(p) for p in v], f) if cls == 'Mesh2D' else Mesh3D([Bd.P3((p[0], p[1], 0.5 * p[0])) for p in v], f)
        pat = [rng.random() < 0.6 for _ in f]
        if not any(pat):
            pat[rng.randrange(len(pat))] = True
        return [m, pat]
    return gen


CUSTOM = {'Mesh2D_remove_faces_only': _mesh_and_pattern('Mesh2D'), 'Mesh3D_remove_faces_only': _mesh_and_pattern('Mesh3D'),
          'Face3D__remove_colinear': _face_loop_pair, 'Face3D_init_plane': _face_and_plane, 'intersect_line3d_sphere_seg': _line_through_sphere('seg'),
          'intersect_line3d_sphere_ray': _line_through_sphere('ray'), 'intersect_plane_sphere': _plane_through_sphere}
# roots whose evaluation inside Coq is slow (rational blow-up through the square root): one input, thorough tier only
SLOW = {'Face3D_init', 'Face3D_sub_rects_from_rect_ratio', 'Face3D_sub_rects_from_rect_dimensions'}


def run(ctx, layers, per_root=3, skip=()):
    """sweep the roots of the given generated layers; disagreements go to ctx.corr_fail"""
    P, sigs = _load()
    rng = ctx.rng
    cases, meta, not_swept = [], [], {}
    for sg in sigs:
        if sg.get('stem') not in layers or sg['result'] is None:
            continue
        name, rty, orcs = sg['result']
        if name in skip:
            continue
        atys = sg['spec']['args']
        try:
            cmpf = comparator(rty, P)
        except Unsupported as e:
            not_swept[name] = str(e); continue
        done = 0
        want = per_root
        if name in SLOW:
            if ctx.tier != 'thorough':
                not_swept[name] = 'slow inside Coq: swept in the thorough tier only (run against the implementation in C19 / C06)'
                continue
            want = 1
        for attempt in range(per_root * 6):
            if done >= want:
                break
            try:
                # the recorder is active while the arguments are built too: some classes evaluate cos / sin in their constructor
                with Recorder() as rec:
                    hint = ('unit', G.rational_frame(rng), [0]) if attempt % 2 == 1 else ''
                    if name in CUSTOM:
                        args = CUSTOM[name](rng)
                    else:
                        args = [gen_value(rng, t, P, hint) for t in atys if not isinstance(t, (P.TNone, P.TDefault, P.TStr, P.TCls))]
                    # render the arguments BEFORE the call (properties may fill memo slots; rendering reads defining slots only)
                    aterms = ['(%s)' % render(a, t, P) for a, t in zip(args, [t for t in atys if not isinstance(t, (P.TNone, P.TDefault, P.TStr, P.TCls))])]
                    res = call_python(sg, args)
                    exp = render(res, rty, P)
            except Unsupported as e:
                not_swept[name] = str(e); break
            except Exception:
                continue            # the implementation rejects this input (assertion, zero vector ...): try another
            term = '%s (%s %s) (%s)' % (cmpf, name, ' '.join(oracle_terms(orcs, rec) + aterms), exp)
            cases.append(term); meta.append((name, sg['spec']['target'], aterms, exp))
            done += 1
        if done == 0 and name not in not_swept:
            not_swept[name] = 'no generated input was accepted by the implementation'
    import roots
    all_layers = [st for st, _ in roots.LAYERS]
    core.make(['gen/%s.vo' % st for st in all_layers])          # the generated layers themselves must be current
    imports = ['Base', 'QGeom'] + all_layers
    res = core.run_cases('%s_sweep' % ctx.pid, imports, PRE, cases, chunk=60) if cases else []
    ctx.corr_cases += len(cases)
    swept = sorted({m[0] for m in meta})
    ctx.note('translator sweep over %s: %d roots run on %d inputs; not swept: %s' % (
        '+'.join(layers), len(swept), len(cases), ', '.join('%s (%s)' % kv for kv in sorted(not_swept.items())) or 'none'))
    for ok, m in zip(res, meta):
        if ok is not True:
            ctx.corr_fail.append({'function': m[1] + ' [' + m[0] + ']', 'input': ' '.join(m[2])[:600], 'expected': m[3][:300],
                                  'result': 'generated model and implementation differ' if ok is False else 'model evaluation failed'})
    return swept, not_swept
