(* C11 (3D part): line/plane, plane/plane, plane/sphere, line/sphere. *)
From LBG Require Import Base QGeom G0_vec G1_shapes G2_inter C11_inter2d C12_closest.
Open Scope Q_scope.

Definition on_plane (pl : PlaneR) (p : V3) : Prop := dot3 (pl_n pl) p == pl_k pl.

Lemma seg3_u_in_iff l u : LineSegment3D__u_in l u = true <-> in_seg u.
Proof. unfold LineSegment3D__u_in, in_seg. rewrite andb_true_iff, !Qle_bool_iff. tauto. Qed.
Lemma ray3_u_in_iff l u : Ray3D__u_in l u = true <-> in_ray u.
Proof. unfold Ray3D__u_in, in_ray. rewrite Qle_bool_iff. tauto. Qed.

Definition u_plane (l : LR3) (pl : PlaneR) : Q :=
  (pl_k pl - dot3 (pl_n pl) (lr3p l)) / dot3 (pl_n pl) (lr3v l).

Lemma on3_on_plane l pl : ~ dot3 (pl_n pl) (lr3v l) == 0 -> on_plane pl (on3 l (u_plane l pl)).
Proof. intros Hd. unfold on_plane, on3, u_plane, dot3 in *. vred. field. exact Hd. Qed.

Lemma on_plane_param_unique l pl u : ~ dot3 (pl_n pl) (lr3v l) == 0 -> on_plane pl (on3 l u) -> u == u_plane l pl.
Proof.
  intros Hd H. unfold on_plane, on3, u_plane, dot3 in *. vred.
  set (d := v3x (pl_n pl) * v3x (lr3v l) + v3y (pl_n pl) * v3y (lr3v l) + v3z (pl_n pl) * v3z (lr3v l)) in *.
  assert (E : pl_k pl - (v3x (pl_n pl) * v3x (lr3p l) + v3y (pl_n pl) * v3y (lr3p l) + v3z (pl_n pl) * v3z (lr3p l)) == u * d)
    by (unfold d; lra).
  rewrite E. field. exact Hd.
Qed.

(* segment / plane *)
Lemma line3d_plane_seg_sound l pl p : intersect_line3d_plane_seg l pl = Some p ->
  exists u, in_seg u /\ p = on3 l u /\ on_plane pl p.
Proof.
  unfold intersect_line3d_plane_seg, Vector3D_dot. cbv zeta.
  destruct (Qneq_bool _ 0) eqn:Hd; cbn [negb]; [|discriminate].
  unfold Qneq_bool in Hd. apply negb_true_iff, Qeq_bool_false_iff in Hd.
  destruct (LineSegment3D__u_in l _) eqn:Eu; cbn [negb]; [|discriminate].
  intros H; injection H as <-. apply seg3_u_in_iff in Eu.
  exists (u_plane l pl). split; [exact Eu|]. split; [reflexivity|].
  apply on3_on_plane. exact Hd.
Qed.

Lemma line3d_plane_seg_complete l pl u : ~ dot3 (pl_n pl) (lr3v l) == 0 -> in_seg u -> on_plane pl (on3 l u) ->
  exists p, intersect_line3d_plane_seg l pl = Some p /\ p =3= on3 l u.
Proof.
  intros Hd Hu Hp. pose proof (on_plane_param_unique l pl u Hd Hp) as E.
  unfold intersect_line3d_plane_seg, Vector3D_dot. cbv zeta.
  fold (dot3 (pl_n pl) (lr3v l)). fold (dot3 (pl_n pl) (lr3p l)). fold (u_plane l pl).
  destruct (Qneq_bool _ 0) eqn:Hd'; cbn [negb].
  - assert (T : LineSegment3D__u_in l (u_plane l pl) = true) by (apply seg3_u_in_iff; rewrite <- E; exact Hu).
    rewrite T. cbn [negb]. eexists; split; [reflexivity|].
    unfold on3; repeat split; vred; rewrite <- E; reflexivity.
  - unfold Qneq_bool in Hd'. apply negb_false_iff, Qeq_bool_iff in Hd'. tauto.
Qed.

Lemma line3d_plane_ray_sound l pl p : intersect_line3d_plane_ray l pl = Some p ->
  exists u, in_ray u /\ p = on3 l u /\ on_plane pl p.
Proof.
  unfold intersect_line3d_plane_ray, Vector3D_dot. cbv zeta.
  destruct (Qneq_bool _ 0) eqn:Hd; cbn [negb]; [|discriminate].
  unfold Qneq_bool in Hd. apply negb_true_iff, Qeq_bool_false_iff in Hd.
  destruct (Ray3D__u_in l _) eqn:Eu; cbn [negb]; [|discriminate].
  intros H; injection H as <-. apply ray3_u_in_iff in Eu.
  exists (u_plane l pl). split; [exact Eu|]. split; [reflexivity|].
  apply on3_on_plane. exact Hd.
Qed.

Lemma line3d_plane_ray_complete l pl u : ~ dot3 (pl_n pl) (lr3v l) == 0 -> in_ray u -> on_plane pl (on3 l u) ->
  exists p, intersect_line3d_plane_ray l pl = Some p /\ p =3= on3 l u.
Proof.
  intros Hd Hu Hp. pose proof (on_plane_param_unique l pl u Hd Hp) as E.
  unfold intersect_line3d_plane_ray, Vector3D_dot. cbv zeta.
  fold (dot3 (pl_n pl) (lr3v l)). fold (dot3 (pl_n pl) (lr3p l)). fold (u_plane l pl).
  destruct (Qneq_bool _ 0) eqn:Hd'; cbn [negb].
  - assert (T : Ray3D__u_in l (u_plane l pl) = true) by (apply ray3_u_in_iff; rewrite <- E; exact Hu).
    rewrite T. cbn [negb]. eexists; split; [reflexivity|].
    unfold on3; repeat split; vred; rewrite <- E; reflexivity.
  - unfold Qneq_bool in Hd'. apply negb_false_iff, Qeq_bool_iff in Hd'. tauto.
Qed.

(* a line parallel to the plane yields nothing *)
Lemma line3d_plane_parallel_none l pl : dot3 (pl_n pl) (lr3v l) == 0 -> intersect_line3d_plane_seg l pl = None.
Proof.
  intros H. unfold intersect_line3d_plane_seg, Vector3D_dot. cbv zeta. fold (dot3 (pl_n pl) (lr3v l)).
  unfold Qneq_bool. apply Qeq_bool_iff in H. rewrite H. reflexivity.
Qed.

(* plane / plane: the returned point lies on both planes, the direction is orthogonal to both normals *)
Lemma plane_plane_sound a b p v : intersect_plane_plane a b = Some (p, v) ->
  on_plane a p /\ on_plane b p /\ dot3 (pl_n a) v == 0 /\ dot3 (pl_n b) v == 0.
Proof.
  unfold intersect_plane_plane, Vector3D_magnitude_squared, Vector3D_dot, Vector3D_cross. cbv zeta.
  destruct (Qeq_bool _ 0) eqn:Hd; [discriminate|]. apply Qeq_bool_false_iff in Hd.
  intros H; injection H as <- <-. unfold on_plane, dot3. vred.
  repeat split; try ring; field; exact Hd.
Qed.

(* non-parallel planes always intersect: completeness *)
Lemma plane_plane_complete a b :
  ~ dot3 (pl_n a) (pl_n a) * dot3 (pl_n b) (pl_n b) - dot3 (pl_n a) (pl_n b) * dot3 (pl_n a) (pl_n b) == 0 ->
  exists pv, intersect_plane_plane a b = Some pv.
Proof.
  intros Hd. unfold intersect_plane_plane, Vector3D_magnitude_squared, Vector3D_dot. cbv zeta.
  unfold dot3 in Hd. destruct (Qeq_bool _ 0) eqn:E; [apply Qeq_bool_iff in E; tauto|].
  eexists; reflexivity.
Qed.

Lemma plane_plane_swap_direction a b p v p' v' :
  intersect_plane_plane a b = Some (p, v) -> intersect_plane_plane b a = Some (p', v') ->
  p' =3= p /\ v' =3= smul3 (-1) v.
Proof.
  unfold intersect_plane_plane, Vector3D_magnitude_squared, Vector3D_dot, Vector3D_cross. cbv zeta.
  destruct (Qeq_bool _ 0) eqn:Hd; [discriminate|]. apply Qeq_bool_false_iff in Hd.
  destruct (Qeq_bool (_ * _ - _ * _) 0) eqn:Hd'; [discriminate|]. apply Qeq_bool_false_iff in Hd'.
  intros H; injection H as <- <-. intros H; injection H as <- <-.
  unfold smul3. repeat split; vred; try ring; field; repeat split; assumption.
Qed.

(* plane / sphere: centre of the cut circle on the plane, cut_r^2 + d^2 = r^2 *)
Lemma plane_sphere_sound qsqrt pl s c n cr :
  let nn := Vector3D_normalize qsqrt (pl_n pl) in
  dot3 nn nn == 1 ->
  (forall x, 0 <= x -> qsqrt x * qsqrt x == x) ->
  intersect_plane_sphere qsqrt pl s = Some (inl (c, n, cr)) ->
  let d := dot3 (sub3 (pl_o pl) (sp_c s)) nn in
  cr * cr + d * d == sp_r s * sp_r s /\ dot3 (sub3 c (pl_o pl)) nn == 0 /\ n = nn.
Proof.
  intros nn U SQ. unfold intersect_plane_sphere. cbv zeta. fold nn.
  destruct (Qlt_bool _ _) eqn:Hlt; [discriminate|]. apply Qlt_bool_false_iff in Hlt.
  destruct (Qneq_bool _ 0) eqn:Hne; [|discriminate].
  intros H; injection H as <- <- <-.
  unfold Vector3D_dot, Vector3D_op_sub, Vector3D_op_add, Vector3D_op_mul, dot3, sub3 in *. vred.
  set (nx := v3x nn) in *; set (ny := v3y nn) in *; set (nz := v3z nn) in *.
  set (d := (v3x (pl_o pl) - v3x (sp_c s)) * nx + (v3y (pl_o pl) - v3y (sp_c s)) * ny + (v3z (pl_o pl) - v3z (sp_c s)) * nz) in *.
  assert (Hpos : 0 <= sp_r s * sp_r s - d * d).
  { assert (Qabs d * Qabs d <= Qabs (sp_r s) * Qabs (sp_r s)).
    { pose proof (Qabs_nonneg d) as P1. pose proof (Qabs_nonneg (sp_r s)) as P2.
      apply Qle_trans with (Qabs (sp_r s) * Qabs d).
      - apply Qmult_le_compat_r; assumption.
      - rewrite (Qmult_comm (Qabs (sp_r s)) (Qabs d)). apply Qmult_le_compat_r; assumption. }
    assert (Ad : Qabs d * Qabs d == d * d) by (rewrite <- Qabs_Qmult; apply Qabs_pos; apply Qsq_nonneg).
    assert (Ar : Qabs (sp_r s) * Qabs (sp_r s) == sp_r s * sp_r s) by (rewrite <- Qabs_Qmult; apply Qabs_pos; apply Qsq_nonneg).
    lra. }
  split; [rewrite (SQ _ Hpos); ring|]. split; [|reflexivity].
  transitivity (d * ((nx*nx + ny*ny + nz*nz) - 1)); [unfold d; ring| rewrite U; ring].
Qed.

(* ---- line / sphere (generated intersect_line3d_sphere): the quadratic in the line parameter, and both roots returned on the sphere *)
Definition on3u (l : LR3) (u : Q) : V3 :=
  mkV3 (v3x (lr3p l) + u * v3x (lr3v l)) (v3y (lr3p l) + u * v3y (lr3v l)) (v3z (lr3p l) + u * v3z (lr3v l)).
Definition sph_a (l : LR3) : Q := Vector3D_magnitude_squared (lr3v l).
Definition sph_b (l : LR3) (s : SphereR) : Q :=
  2 * (v3x (lr3v l) * (v3x (lr3p l) - v3x (sp_c s)) + v3y (lr3v l) * (v3y (lr3p l) - v3y (sp_c s)) + v3z (lr3v l) * (v3z (lr3p l) - v3z (sp_c s))).
Definition sph_c (l : LR3) (s : SphereR) : Q :=
  Vector3D_magnitude_squared (sp_c s) + Vector3D_magnitude_squared (lr3p l) - 2 * Vector3D_dot (sp_c s) (lr3p l) - sp_r s * sp_r s.

Lemma sphere_quadratic l s u :
  sqd3 (on3u l u) (sp_c s) - sp_r s * sp_r s == sph_a l * u * u + sph_b l s * u + sph_c l s.
Proof.
  unfold sqd3, dot3, sub3, on3u, sph_a, sph_b, sph_c, Vector3D_magnitude_squared, Vector3D_dot. cbn [v3x v3y v3z]. ring.
Qed.

Theorem line_sphere_two_points_on_sphere qsqrt l s :
  let a := sph_a l in let b := sph_b l s in let c := sph_c l s in let det := b * b - 4 * a * c in
  let u1 := (- b + qsqrt det) / (2 * a) in let u2 := (- b - qsqrt det) / (2 * a) in
  ~ a == 0 -> Qlt_bool det 0 = false -> qsqrt det * qsqrt det == det ->
  LineSegment3D__u_in l u1 = true -> LineSegment3D__u_in l u2 = true -> Qeq_bool u1 u2 = false ->
  intersect_line3d_sphere_seg qsqrt l s = Some (inr (on3u l u1, on3u l u2)) /\
  sqd3 (on3u l u1) (sp_c s) == sp_r s * sp_r s /\ sqd3 (on3u l u2) (sp_c s) == sp_r s * sp_r s.
Proof.
  cbv zeta. intros Ha Hd Hs I1 I2 Ne.
  split.
  - unfold intersect_line3d_sphere_seg. cbv zeta.
    fold (sph_a l). fold (sph_b l s). fold (sph_c l s).
    rewrite Hd, I1, I2. cbn [negb orb andb]. rewrite Ne. cbn [andb]. reflexivity.
  - set (a := sph_a l) in *. set (b := sph_b l s) in *. set (c := sph_c l s) in *. set (sq := qsqrt (b * b - 4 * a * c)) in *.
    assert (R1 : a * ((- b + sq) / (2 * a)) * ((- b + sq) / (2 * a)) + b * ((- b + sq) / (2 * a)) + c == 0).
    { transitivity ((sq * sq - (b * b - 4 * a * c)) / (4 * a)); [field; exact Ha|]. rewrite Hs. field. exact Ha. }
    assert (R2 : a * ((- b - sq) / (2 * a)) * ((- b - sq) / (2 * a)) + b * ((- b - sq) / (2 * a)) + c == 0).
    { transitivity ((sq * sq - (b * b - 4 * a * c)) / (4 * a)); [field; exact Ha|]. rewrite Hs. field. exact Ha. }
    pose proof (sphere_quadratic l s ((- b + sq) / (2 * a))) as Q1. pose proof (sphere_quadratic l s ((- b - sq) / (2 * a))) as Q2.
    fold a b c in Q1, Q2. split; lra.
Qed.
