#!/venv/bin/python
"""seeded_par.py [--jobs N] [--seeds 0,1,2] [--only r3m] [--base K]  -- run every stored seeded change through its property's quick check in
parallel.  Each job works in its own copy of /verif (under /tmp) against its own git worktree of /repo (LBG_REPO), so /repo itself is
never touched.  Results are merged into seeded/<prop>/<name>/meta.json (same fields as `seeded.py run`).  Scratch copies are removed
at the end.  Nothing here is registered in MANIFEST.json."""
import json, os, subprocess, sys, time, shutil
from concurrent.futures import ThreadPoolExecutor

ROOT = os.path.dirname(os.path.dirname(os.path.abspath(__file__)))
sys.path.insert(0, os.path.join(ROOT, 'tools'))
import seeded as S


def sh(cmd, cwd=None, env=None, timeout=7200):
    p = subprocess.run(cmd, shell=True, cwd=cwd, env=env, stdout=subprocess.PIPE, stderr=subprocess.STDOUT, text=True, timeout=timeout)
    return p.returncode, p.stdout


def worker(j, items, seeds, tier):
    j += BASE
    vr, rr = '/tmp/vr%d' % j, '/tmp/rr%d' % j
    sh('rm -rf %s; git -C /repo worktree remove --force %s 2>/dev/null; rm -rf %s' % (vr, rr, rr))
    sh('rsync -a --exclude .git --exclude replays --exclude work %s/ %s/' % (ROOT, vr))
    sh('git -C /repo worktree add -q --detach %s HEAD' % rr)
    out = []
    for p, n, d in items:
        t0 = time.time()
        rc, o = sh('git -C %s apply %s' % (rr, os.path.join(d, 'patch.diff')))
        if rc != 0:
            out.append((p, n, None, 'patch does not apply: ' + o[-200:]))
            print('%s %-6s PATCH DOES NOT APPLY %s' % (p, n, o.strip()[-120:]), flush=True); continue
        per_seed, res = {}, None
        try:
            for sd in seeds:
                rc, o = sh('./check %s --tier %s' % (p, tier), cwd=vr, env=dict(os.environ, VERIF_SEED=str(sd), LBG_REPO=rr, PYTHONPATH=rr))
                lines = [l for l in o.splitlines() if l.startswith('VIOLATION') or l.startswith('    ')]
                per_seed[str(sd)] = rc != 0
                if res is None or (rc != 0 and res['exit'] == 0):
                    res = {'exit': rc, 'lines': lines[:8], 'tail': o.splitlines()[-1] if o.splitlines() else ''}
        finally:
            sh('git -C %s checkout -- .' % rr)
        out.append((p, n, per_seed, res))
        print('%s %-6s %s %s (%.0fs) %s' % (p, n, 'DETECTED' if all(per_seed.values()) else 'MISSED on some seed', per_seed, time.time() - t0,
                                           '; '.join(l.strip()[:100] for l in (res or {}).get('lines', [])[1:2])), flush=True)
    sh('git -C /repo worktree remove --force %s; rm -rf %s %s' % (rr, rr, vr))
    return out


if __name__ == '__main__':
    a = sys.argv[1:]
    jobs = int(a[a.index('--jobs') + 1]) if '--jobs' in a else 4
    seeds = tuple(int(x) for x in a[a.index('--seeds') + 1].split(',')) if '--seeds' in a else (0, 1, 2)
    only = a[a.index('--only') + 1] if '--only' in a else ''
    tier = 'quick'
    BASE = int(a[a.index('--base') + 1]) if '--base' in a else 0
    items = [e for e in S.entries() if only in (e[0] + '/' + e[1])]
    parts = [items[i::jobs] for i in range(jobs)]
    with ThreadPoolExecutor(jobs) as ex:
        results = list(ex.map(lambda t: worker(t[0], t[1], seeds, tier), enumerate(parts)))
    for part in results:
        for p, n, per_seed, res in part:
            d = os.path.join(S.SEEDED, p, n)
            meta = json.load(open(os.path.join(d, 'meta.json')))
            if per_seed is None:
                meta['apply_error'] = res
            else:
                meta.setdefault('outcomes', {})[tier] = {p: res}
                meta['detected_' + tier] = all(per_seed.values())
                meta['detected_by_seed_' + tier] = per_seed
                meta.pop('apply_error', None)
            json.dump(meta, open(os.path.join(d, 'meta.json'), 'w'), indent=1)
    print('done')
