(* C02 -- property theorems only.  Each is closed by [exact] of a lemma proved in
   proofs/, about the definitions GENERATED from /repo (gen/G0_vec.v). *)
From LBG Require Import Base QGeom G0_vec C02_kernels.
Open Scope Q_scope.

(* 2D rotation by ANY angle (only cos^2+sin^2=1 is assumed of qcos/qsin):
   inner products, hence lengths and angles, and orientation are preserved *)
Theorem C02_rot2_isometry : forall qcos qsin a, qcos a * qcos a + qsin a * qsin a == 1 -> forall u v,
  dot2 (Vector2D__rotate qcos qsin u a) (Vector2D__rotate qcos qsin v a) == dot2 u v.
Proof. exact rot2_dot. Qed.
Print Assumptions C02_rot2_isometry.

Theorem C02_rot2_orientation : forall qcos qsin a, qcos a * qcos a + qsin a * qsin a == 1 -> forall u v,
  det2 (Vector2D__rotate qcos qsin u a) (Vector2D__rotate qcos qsin v a) == det2 u v.
Proof. exact rot2_det. Qed.
Print Assumptions C02_rot2_orientation.

Theorem C02_point2_rotate_distances : forall qcos qsin a, qcos a * qcos a + qsin a * qsin a == 1 -> forall p q o,
  sqd2 (Point2D_rotate qcos qsin p a o) (Point2D_rotate qcos qsin q a o) == sqd2 p q.
Proof. exact point2_rotate_sqd. Qed.
Print Assumptions C02_point2_rotate_distances.

Theorem C02_point2_rotate_inverse : forall qcos qsin a, qcos a * qcos a + qsin a * qsin a == 1 ->
  forall b, qcos b == qcos a -> qsin b == - qsin a -> forall p o,
  Point2D_rotate qcos qsin (Point2D_rotate qcos qsin p a o) b o =2= p.
Proof. exact point2_rotate_inverse. Qed.
Print Assumptions C02_point2_rotate_inverse.

Theorem C02_rot2_compose : forall qcos qsin a b ab v,
  qcos ab == qcos a * qcos b - qsin a * qsin b -> qsin ab == qsin a * qcos b + qcos a * qsin b ->
  Vector2D__rotate qcos qsin (Vector2D__rotate qcos qsin v a) b =2= Vector2D__rotate qcos qsin v ab.
Proof. exact rot2_compose. Qed.
Print Assumptions C02_rot2_compose.

Theorem C02_refl2_householder : forall n v, Vector2D__reflect v n =2= sub2 v (smul2 (2 * dot2 v n) n).
Proof. exact refl2_is_householder. Qed.
Print Assumptions C02_refl2_householder.

Theorem C02_refl2_isometry : forall n, dot2 n n == 1 -> forall u v,
  dot2 (Vector2D__reflect u n) (Vector2D__reflect v n) == dot2 u v.
Proof. exact refl2_dot. Qed.
Print Assumptions C02_refl2_isometry.

Theorem C02_refl2_flips_orientation : forall n, dot2 n n == 1 -> forall u v,
  det2 (Vector2D__reflect u n) (Vector2D__reflect v n) == - det2 u v.
Proof. exact refl2_det. Qed.
Print Assumptions C02_refl2_flips_orientation.

Theorem C02_point2_reflect_involutive : forall n, dot2 n n == 1 -> forall p o,
  Point2D_reflect (Point2D_reflect p n o) n o =2= p.
Proof. exact point2_reflect_involutive. Qed.
Print Assumptions C02_point2_reflect_involutive.

Theorem C02_point2_reflect_distances : forall n, dot2 n n == 1 -> forall p q o,
  sqd2 (Point2D_reflect p n o) (Point2D_reflect q n o) == sqd2 p q.
Proof. exact point2_reflect_sqd. Qed.
Print Assumptions C02_point2_reflect_distances.

Theorem C02_point2_move : forall p m, Point2D_move p m =2= add2 p m.
Proof. exact point2_move_spec. Qed.
Print Assumptions C02_point2_move.

Theorem C02_point2_scale : forall p k o, Point2D_scale p k o =2= add2 (smul2 k (sub2 p o)) o.
Proof. exact point2_scale_spec. Qed.
Print Assumptions C02_point2_scale.

Theorem C02_point2_scale_lengths : forall p q k o,
  sqd2 (Point2D_scale p k o) (Point2D_scale q k o) == k * k * sqd2 p q.
Proof. exact point2_scale_sqd. Qed.
Print Assumptions C02_point2_scale_lengths.

Theorem C02_point2_scale_areas : forall p q r k o,
  det2 (sub2 (Point2D_scale q k o) (Point2D_scale p k o)) (sub2 (Point2D_scale r k o) (Point2D_scale p k o))
  == k * k * det2 (sub2 q p) (sub2 r p).
Proof. exact point2_scale_det. Qed.
Print Assumptions C02_point2_scale_areas.

Theorem C02_point2_scale_inverse : forall p k o, ~ k == 0 -> Point2D_scale (Point2D_scale p k o) (/ k) o =2= p.
Proof. exact point2_scale_inverse. Qed.
Print Assumptions C02_point2_scale_inverse.

(* 3D: any axis (not necessarily unit), any angle *)
Theorem C02_rot3_isometry : forall qsqrt qcos qsin axis a,
  qcos a * qcos a + qsin a * qsin a == 1 ->
  qsqrt (v3x axis * v3x axis + v3y axis * v3y axis + v3z axis * v3z axis)
    * qsqrt (v3x axis * v3x axis + v3y axis * v3y axis + v3z axis * v3z axis)
    == v3x axis * v3x axis + v3y axis * v3y axis + v3z axis * v3z axis ->
  ~ v3x axis * v3x axis + v3y axis * v3y axis + v3z axis * v3z axis == 0 -> forall u v,
  dot3 (Vector3D__rotate qsqrt qcos qsin u axis a) (Vector3D__rotate qsqrt qcos qsin v axis a) == dot3 u v.
Proof. exact rot3_dot. Qed.
Print Assumptions C02_rot3_isometry.

Theorem C02_rot3_orientation : forall qsqrt qcos qsin axis a,
  qcos a * qcos a + qsin a * qsin a == 1 ->
  qsqrt (v3x axis * v3x axis + v3y axis * v3y axis + v3z axis * v3z axis)
    * qsqrt (v3x axis * v3x axis + v3y axis * v3y axis + v3z axis * v3z axis)
    == v3x axis * v3x axis + v3y axis * v3y axis + v3z axis * v3z axis ->
  ~ v3x axis * v3x axis + v3y axis * v3y axis + v3z axis * v3z axis == 0 -> forall u v,
  cross3 (Vector3D__rotate qsqrt qcos qsin u axis a) (Vector3D__rotate qsqrt qcos qsin v axis a)
  =3= Vector3D__rotate qsqrt qcos qsin (cross3 u v) axis a.
Proof. exact rot3_cross. Qed.
Print Assumptions C02_rot3_orientation.

Theorem C02_rot3_fixes_axis : forall qsqrt qcos qsin axis a,
  ~ v3x axis * v3x axis + v3y axis * v3y axis + v3z axis * v3z axis == 0 ->
  Vector3D__rotate qsqrt qcos qsin axis axis a =3= axis.
Proof. exact rot3_fixes_axis. Qed.
Print Assumptions C02_rot3_fixes_axis.

Theorem C02_rot3_rodrigues : forall qsqrt qcos qsin axis a v,
  Vector3D__rotate qsqrt qcos qsin v axis a =3=
  add3 (add3 (smul3 (qcos a) v)
             (smul3 (qsin a / qsqrt (v3x axis * v3x axis + v3y axis * v3y axis + v3z axis * v3z axis)) (cross3 axis v)))
       (smul3 (dot3 axis v * (1 - qcos a) / (v3x axis * v3x axis + v3y axis * v3y axis + v3z axis * v3z axis)) axis).
Proof. exact rot3_is_rodrigues. Qed.
Print Assumptions C02_rot3_rodrigues.

Theorem C02_point3_rotate_distances : forall qsqrt qcos qsin axis a,
  qcos a * qcos a + qsin a * qsin a == 1 ->
  qsqrt (v3x axis * v3x axis + v3y axis * v3y axis + v3z axis * v3z axis)
    * qsqrt (v3x axis * v3x axis + v3y axis * v3y axis + v3z axis * v3z axis)
    == v3x axis * v3x axis + v3y axis * v3y axis + v3z axis * v3z axis ->
  ~ v3x axis * v3x axis + v3y axis * v3y axis + v3z axis * v3z axis == 0 -> forall p q o,
  sqd3 (Point3D_rotate qsqrt qcos qsin p axis a o) (Point3D_rotate qsqrt qcos qsin q axis a o) == sqd3 p q.
Proof. exact point3_rotate_sqd. Qed.
Print Assumptions C02_point3_rotate_distances.

Theorem C02_rotate_xy_is_rotation_about_z : forall qsqrt qcos qsin v a, qsqrt (0 * 0 + 0 * 0 + 1 * 1) == 1 ->
  Vector3D_rotate_xy qcos qsin v a =3= Vector3D__rotate qsqrt qcos qsin v (mkV3 0 0 1) a.
Proof. exact rot3_xy_is_z. Qed.
Print Assumptions C02_rotate_xy_is_rotation_about_z.

Theorem C02_refl3_isometry : forall n, dot3 n n == 1 -> forall u v,
  dot3 (Vector3D__reflect u n) (Vector3D__reflect v n) == dot3 u v.
Proof. exact refl3_dot. Qed.
Print Assumptions C02_refl3_isometry.

Theorem C02_refl3_flips_orientation : forall n, dot3 n n == 1 -> forall u v,
  cross3 (Vector3D__reflect u n) (Vector3D__reflect v n) =3= smul3 (-1) (Vector3D__reflect (cross3 u v) n).
Proof. exact refl3_cross. Qed.
Print Assumptions C02_refl3_flips_orientation.

Theorem C02_point3_reflect_involutive : forall n, dot3 n n == 1 -> forall p o,
  Point3D_reflect (Point3D_reflect p n o) n o =3= p.
Proof. exact point3_reflect_involutive. Qed.
Print Assumptions C02_point3_reflect_involutive.

Theorem C02_point3_reflect_distances : forall n, dot3 n n == 1 -> forall p q o,
  sqd3 (Point3D_reflect p n o) (Point3D_reflect q n o) == sqd3 p q.
Proof. exact point3_reflect_sqd. Qed.
Print Assumptions C02_point3_reflect_distances.

Theorem C02_point3_scale : forall p k o, Point3D_scale p k o =3= add3 (smul3 k (sub3 p o)) o.
Proof. exact point3_scale_spec. Qed.
Print Assumptions C02_point3_scale.

Theorem C02_point3_scale_volumes : forall p q r t k o,
  dot3 (sub3 (Point3D_scale q k o) (Point3D_scale p k o))
       (cross3 (sub3 (Point3D_scale r k o) (Point3D_scale p k o)) (sub3 (Point3D_scale t k o) (Point3D_scale p k o)))
  == k * k * k * dot3 (sub3 q p) (cross3 (sub3 r p) (sub3 t p)).
Proof. exact point3_scale_triple. Qed.
Print Assumptions C02_point3_scale_volumes.

Theorem C02_point3_move : forall p m, Point3D_move p m =3= add3 p m.
Proof. exact point3_move_spec. Qed.
Print Assumptions C02_point3_move.

(* the hypotheses are satisfiable by non-trivial data (3-4-5 angle, axis (1,2,2) of length 3) *)

(* ---- how each shape class composes the kernels (proofs/C02_shapes.v, about the generated code): the image of the point at parameter t
   of a segment / ray is the point at parameter t of the image; sphere surfaces go to sphere surfaces; the axis line of cylinders and
   cones is carried pointwise (radius scaled, opening angle kept) *)
From LBG Require Import G1_shapes G8_curve C02_shapes.

Theorem C02_seg2_move_point_at : forall l m t,
  Point2D_move (LineSegment2D_point_at l t) m =2= LineSegment2D_point_at (LineSegment2D_move l m) t.
Proof. exact seg2_move_point_at. Qed.
Print Assumptions C02_seg2_move_point_at.

Theorem C02_seg2_rotate_point_at : forall qcos qsin l a o t,
  Point2D_rotate qcos qsin (LineSegment2D_point_at l t) a o =2= LineSegment2D_point_at (LineSegment2D_rotate qcos qsin l a o) t.
Proof. exact seg2_rotate_point_at. Qed.
Print Assumptions C02_seg2_rotate_point_at.

Theorem C02_seg2_reflect_point_at : forall l n o t,
  Point2D_reflect (LineSegment2D_point_at l t) n o =2= LineSegment2D_point_at (LineSegment2D_reflect l n o) t.
Proof. exact seg2_reflect_point_at. Qed.
Print Assumptions C02_seg2_reflect_point_at.

Theorem C02_seg2_scale_point_at : forall l k o t,
  Point2D_scale (LineSegment2D_point_at l t) k o =2= LineSegment2D_point_at (LineSegment2D_scale l k o) t.
Proof. exact seg2_scale_point_at. Qed.
Print Assumptions C02_seg2_scale_point_at.

Theorem C02_seg3_move_point_at : forall l m t,
  Point3D_move (LineSegment3D_point_at l t) m =3= LineSegment3D_point_at (LineSegment3D_move l m) t.
Proof. exact seg3_move_point_at. Qed.
Print Assumptions C02_seg3_move_point_at.

Theorem C02_seg3_rotate_point_at : forall qsqrt qcos qsin l axis a o t,
  Point3D_rotate qsqrt qcos qsin (LineSegment3D_point_at l t) axis a o
  =3= LineSegment3D_point_at (LineSegment3D_rotate qsqrt qcos qsin l axis a o) t.
Proof. exact seg3_rotate_point_at. Qed.
Print Assumptions C02_seg3_rotate_point_at.

Theorem C02_seg3_rotate_xy_point_at : forall qcos qsin l a o t,
  Point3D_rotate_xy qcos qsin (LineSegment3D_point_at l t) a o =3= LineSegment3D_point_at (LineSegment3D_rotate_xy qcos qsin l a o) t.
Proof. exact seg3_rotate_xy_point_at. Qed.
Print Assumptions C02_seg3_rotate_xy_point_at.

Theorem C02_seg3_reflect_point_at : forall l n o t,
  Point3D_reflect (LineSegment3D_point_at l t) n o =3= LineSegment3D_point_at (LineSegment3D_reflect l n o) t.
Proof. exact seg3_reflect_point_at. Qed.
Print Assumptions C02_seg3_reflect_point_at.

Theorem C02_seg3_scale_point_at : forall l k o t,
  Point3D_scale (LineSegment3D_point_at l t) k o =3= LineSegment3D_point_at (LineSegment3D_scale l k o) t.
Proof. exact seg3_scale_point_at. Qed.
Print Assumptions C02_seg3_scale_point_at.

Theorem C02_sphere_move_surface : forall s q m,
  on_sphere s q -> on_sphere (Sphere_move s m) (Point3D_move q m).
Proof. exact sphere_move_surface. Qed.
Print Assumptions C02_sphere_move_surface.

Theorem C02_sphere_scale_surface : forall s q k o,
  on_sphere s q -> on_sphere (Sphere_scale s k o) (Point3D_scale q k o).
Proof. exact sphere_scale_surface. Qed.
Print Assumptions C02_sphere_scale_surface.

Theorem C02_sphere_reflect_surface : forall s q n o,
  dot3 n n == 1 -> on_sphere s q -> on_sphere (Sphere_reflect s n o) (Point3D_reflect q n o).
Proof. exact sphere_reflect_surface. Qed.
Print Assumptions C02_sphere_reflect_surface.

Theorem C02_sphere_rotate_surface : forall qsqrt qcos qsin s q axis a o,
  qcos a * qcos a + qsin a * qsin a == 1 ->
  qsqrt (v3x axis * v3x axis + v3y axis * v3y axis + v3z axis * v3z axis)
    * qsqrt (v3x axis * v3x axis + v3y axis * v3y axis + v3z axis * v3z axis)
    == v3x axis * v3x axis + v3y axis * v3y axis + v3z axis * v3z axis ->
  ~ v3x axis * v3x axis + v3y axis * v3y axis + v3z axis * v3z axis == 0 ->
  on_sphere s q -> on_sphere (Sphere_rotate qsqrt qcos qsin s axis a o) (Point3D_rotate qsqrt qcos qsin q axis a o).
Proof. exact sphere_rotate_surface. Qed.
Print Assumptions C02_sphere_rotate_surface.

Theorem C02_cylinder_move_axis : forall s m t,
  Point3D_move (axis_pt (cy_c s) (cy_axis s) t) m =3= axis_pt (cy_c (Cylinder_move s m)) (cy_axis (Cylinder_move s m)) t.
Proof. exact cylinder_move_axis. Qed.
Print Assumptions C02_cylinder_move_axis.

Theorem C02_cylinder_rotate_axis : forall qsqrt qcos qsin s axis a o t,
  Point3D_rotate qsqrt qcos qsin (axis_pt (cy_c s) (cy_axis s) t) axis a o
  =3= axis_pt (cy_c (Cylinder_rotate qsqrt qcos qsin s axis a o)) (cy_axis (Cylinder_rotate qsqrt qcos qsin s axis a o)) t.
Proof. exact cylinder_rotate_axis. Qed.
Print Assumptions C02_cylinder_rotate_axis.

Theorem C02_cylinder_reflect_axis : forall s n o t,
  Point3D_reflect (axis_pt (cy_c s) (cy_axis s) t) n o
  =3= axis_pt (cy_c (Cylinder_reflect s n o)) (cy_axis (Cylinder_reflect s n o)) t.
Proof. exact cylinder_reflect_axis. Qed.
Print Assumptions C02_cylinder_reflect_axis.

Theorem C02_cylinder_scale_axis : forall s k o t,
  Point3D_scale (axis_pt (cy_c s) (cy_axis s) t) k o
  =3= axis_pt (cy_c (Cylinder_scale s k o)) (cy_axis (Cylinder_scale s k o)) t
  /\ cy_r (Cylinder_scale s k o) == cy_r s * k.
Proof. exact cylinder_scale_axis. Qed.
Print Assumptions C02_cylinder_scale_axis.

Theorem C02_cone_move_axis : forall s m t,
  Point3D_move (axis_pt (co_vertex s) (co_axis s) t) m =3= axis_pt (co_vertex (Cone_move s m)) (co_axis (Cone_move s m)) t
  /\ co_angle (Cone_move s m) = co_angle s.
Proof. exact cone_move_axis. Qed.
Print Assumptions C02_cone_move_axis.

Theorem C02_cone_rotate_axis : forall qsqrt qcos qsin s axis a o t,
  Point3D_rotate qsqrt qcos qsin (axis_pt (co_vertex s) (co_axis s) t) axis a o
  =3= axis_pt (co_vertex (Cone_rotate qsqrt qcos qsin s axis a o)) (co_axis (Cone_rotate qsqrt qcos qsin s axis a o)) t
  /\ co_angle (Cone_rotate qsqrt qcos qsin s axis a o) = co_angle s.
Proof. exact cone_rotate_axis. Qed.
Print Assumptions C02_cone_rotate_axis.

Theorem C02_cone_reflect_axis : forall s n o t,
  Point3D_reflect (axis_pt (co_vertex s) (co_axis s) t) n o
  =3= axis_pt (co_vertex (Cone_reflect s n o)) (co_axis (Cone_reflect s n o)) t
  /\ co_angle (Cone_reflect s n o) = co_angle s.
Proof. exact cone_reflect_axis. Qed.
Print Assumptions C02_cone_reflect_axis.

Theorem C02_cone_scale_axis : forall s k o t,
  Point3D_scale (axis_pt (co_vertex s) (co_axis s) t) k o
  =3= axis_pt (co_vertex (Cone_scale s k o)) (co_axis (Cone_scale s k o)) t
  /\ co_angle (Cone_scale s k o) = co_angle s.
Proof. exact cone_scale_axis. Qed.
Print Assumptions C02_cone_scale_axis.


Theorem C02_arc2_move_point_at : forall qcos qsin qpi a m t,
  Point2D_move (Arc2D_point_at qcos qsin qpi a t) m =2= Arc2D_point_at qcos qsin qpi (Arc2D_move a m) t.
Proof. exact arc2_move_point_at. Qed.
Print Assumptions C02_arc2_move_point_at.

Theorem C02_arc2_scale_point_at : forall qcos qsin qpi a k o t,
  Point2D_scale (Arc2D_point_at qcos qsin qpi a t) k o =2= Arc2D_point_at qcos qsin qpi (Arc2D_scale a k o) t.
Proof. exact arc2_scale_point_at. Qed.
Print Assumptions C02_arc2_scale_point_at.

(* ---- Plane transforms (proofs/C02_planes.v, about the generated code): for a plane with an orthonormal frame, every transform returns a
   plane with an orthonormal frame, with normal / x axis / origin the images of the old ones, containing the image of every point of
   the old plane.  sqrt enters as a morphism with sqrt 1 = 1 (the frame vectors are unit) *)
From LBG Require Import C06_plane C02_planes.

Theorem C02_plane_move_frame : forall qsqrt (sqrt_proper : Proper (Qeq ==> Qeq) qsqrt) (sqrt_one : qsqrt 1 == 1) p m,
  frame_ok p ->
  let p' := Plane_move qsqrt p m in
  frame_ok p' /\ pl_n p' =3= pl_n p /\ pl_x p' =3= pl_x p /\ pl_o p' = Point3D_move (pl_o p) m /\
  (forall q, on_plane p q -> on_plane p' (Point3D_move q m)).
Proof. exact plane_move_frame. Qed.
Print Assumptions C02_plane_move_frame.

Theorem C02_plane_scale_frame : forall qsqrt (sqrt_proper : Proper (Qeq ==> Qeq) qsqrt) (sqrt_one : qsqrt 1 == 1) p k o,
  frame_ok p ->
  let p' := Plane_scale qsqrt p k o in
  frame_ok p' /\ pl_n p' =3= pl_n p /\ pl_x p' =3= pl_x p /\ pl_o p' = Point3D_scale (pl_o p) k o /\
  (forall q, on_plane p q -> on_plane p' (Point3D_scale q k o)).
Proof. exact plane_scale_frame. Qed.
Print Assumptions C02_plane_scale_frame.

Theorem C02_plane_reflect_frame : forall qsqrt (sqrt_proper : Proper (Qeq ==> Qeq) qsqrt) (sqrt_one : qsqrt 1 == 1) p n o,
  frame_ok p -> dot3 n n == 1 ->
  let p' := Plane_reflect qsqrt p n o in
  frame_ok p' /\ pl_n p' =3= Vector3D__reflect (pl_n p) n /\ pl_x p' =3= Vector3D__reflect (pl_x p) n /\
  pl_o p' = Point3D_reflect (pl_o p) n o /\
  (forall q, on_plane p q -> on_plane p' (Point3D_reflect q n o)).
Proof. exact plane_reflect_frame. Qed.
Print Assumptions C02_plane_reflect_frame.

Theorem C02_plane_rotate_frame : forall qsqrt (sqrt_proper : Proper (Qeq ==> Qeq) qsqrt) (sqrt_one : qsqrt 1 == 1) qcos qsin p axis a o,
  frame_ok p ->
  qcos a * qcos a + qsin a * qsin a == 1 ->
  qsqrt (v3x axis * v3x axis + v3y axis * v3y axis + v3z axis * v3z axis)
    * qsqrt (v3x axis * v3x axis + v3y axis * v3y axis + v3z axis * v3z axis)
    == v3x axis * v3x axis + v3y axis * v3y axis + v3z axis * v3z axis ->
  ~ v3x axis * v3x axis + v3y axis * v3y axis + v3z axis * v3z axis == 0 ->
  let R := fun v => Vector3D__rotate qsqrt qcos qsin v axis a in
  let p' := Plane_rotate qsqrt qcos qsin p axis a o in
  frame_ok p' /\ pl_n p' =3= R (pl_n p) /\ pl_x p' =3= R (pl_x p) /\
  pl_o p' = Point3D_rotate qsqrt qcos qsin (pl_o p) axis a o /\
  (forall q, on_plane p q -> on_plane p' (Point3D_rotate qsqrt qcos qsin q axis a o)).
Proof. exact plane_rotate_frame. Qed.
Print Assumptions C02_plane_rotate_frame.

Theorem C02_plane_rotate_xy_frame : forall qsqrt (sqrt_proper : Proper (Qeq ==> Qeq) qsqrt) (sqrt_one : qsqrt 1 == 1) qcos qsin p a o,
  frame_ok p -> qcos a * qcos a + qsin a * qsin a == 1 ->
  let R := fun v => Vector3D_rotate_xy qcos qsin v a in
  let p' := Plane_rotate_xy qsqrt qcos qsin p a o in
  frame_ok p' /\ pl_n p' =3= R (pl_n p) /\ pl_x p' =3= R (pl_x p) /\ pl_o p' = Point3D_rotate_xy qcos qsin (pl_o p) a o /\
  (forall q, on_plane p q -> on_plane p' (Point3D_rotate_xy qcos qsin q a o)).
Proof. exact plane_rotate_xy_frame. Qed.
Print Assumptions C02_plane_rotate_xy_frame.

Theorem C02_plane_flip_frame : forall qsqrt (sqrt_proper : Proper (Qeq ==> Qeq) qsqrt) (sqrt_one : qsqrt 1 == 1) p,
  frame_ok p ->
  let p' := Plane_flip qsqrt p in
  frame_ok p' /\ pl_n p' =3= smul3 (-1) (pl_n p) /\ pl_x p' =3= pl_x p /\ pl_o p' = pl_o p /\ (forall q, on_plane p q -> on_plane p' q).
Proof. exact plane_flip_frame. Qed.
Print Assumptions C02_plane_flip_frame.

Example C02_hypotheses_satisfiable :
  let qc := fun _ : Q => 3 # 5 in let qs := fun _ : Q => 4 # 5 in let sq := fun _ : Q => 3 in
  let axis := mkV3 1 2 2 in
  qc 0 * qc 0 + qs 0 * qs 0 == 1 /\
  sq (v3x axis * v3x axis + v3y axis * v3y axis + v3z axis * v3z axis)
   * sq (v3x axis * v3x axis + v3y axis * v3y axis + v3z axis * v3z axis)
   == v3x axis * v3x axis + v3y axis * v3y axis + v3z axis * v3z axis /\
  ~ v3x axis * v3x axis + v3y axis * v3y axis + v3z axis * v3z axis == 0 /\
  dot3 (mkV3 (2#3) (1#3) (2#3)) (mkV3 (2#3) (1#3) (2#3)) == 1 /\
  ~ Vector3D__rotate sq qc qs (mkV3 1 0 0) axis 0 =3= mkV3 1 0 0.
Proof. vm_compute. repeat split; try discriminate; intros [H _]; discriminate. Qed.

(* ---- measures of the solids under the generated `scale` (k >= 0): areas by k^2, volumes by k^3; the root is only assumed to respect
   equality and to be homogeneous, sqrt(k^2 m) = k sqrt(m) ---- *)
From LBG Require Import G12_mesh C01_solids.
Theorem C02_solid_measures_scale : forall (qsqrt qtan : Q -> Q) (qpi : Q),
  (forall a b, a == b -> qsqrt a == qsqrt b) -> (forall k m, 0 <= k -> qsqrt (k * k * m) == k * qsqrt m) ->
  forall k o, 0 <= k ->
  (forall s, Sphere_area qpi (Sphere_scale s k o) == k * k * Sphere_area qpi s /\
             Sphere_volume qpi (Sphere_scale s k o) == k * k * k * Sphere_volume qpi s) /\
  (forall c, Cylinder_volume qsqrt qpi (Cylinder_scale c k o) == k * k * k * Cylinder_volume qsqrt qpi c /\
             Cylinder_area qsqrt qpi (Cylinder_scale c k o) == k * k * Cylinder_area qsqrt qpi c) /\
  (forall c, Cone_radius qsqrt qtan (Cone_scale c k o) == k * Cone_radius qsqrt qtan c /\
             Cone_volume qsqrt qtan qpi (Cone_scale c k o) == k * k * k * Cone_volume qsqrt qtan qpi c).
Proof.
  intros qsqrt qtan qpi P H k o Hk. split; [intros s; apply sphere_scale_law|].
  split; [intros c; apply cylinder_scale_law; assumption | intros c; apply cone_scale_law; assumption].
Qed.
Print Assumptions C02_solid_measures_scale.
