(* C20 -- grid meshes are faithful to the geometry.  PARTIAL: proved for the generated grid kernels
   Mesh2D._grid_faces / Mesh2D._grid_vertices (translated from /repo on every run): for every grid size the face list
   and the vertex list equal the closed-form specification, face number i*ny+j has the indices
   (c, c+ny+1, c+ny+2, c+1) with c = i(ny+1)+j, and vertex number i(ny+1)+j lies at (bx + i dx, by + j dy) -- hence every
   face is exactly the dx x dy cell (i,j), all cells are congruent, and there are nx*ny of them.  Removal of cells, the
   polygon / face grids, and OBJ / STL files are validated by the harness (file I/O is not modelled). *)
From LBG Require Import Base QGeom G0_vec G10_grid C20_grid MeshOps.
Open Scope Q_scope.

Theorem C20_grid_faces_closed_form : forall nx ny, (0 <= nx)%Z -> (0 <= ny)%Z ->
  Mesh2D__grid_faces nx ny = grid_faces_spec nx ny /\ length (Mesh2D__grid_faces nx ny) = (Z.to_nat nx * Z.to_nat ny)%nat.
Proof. intros nx ny Hx Hy. split; [apply grid_faces_is_spec; assumption | rewrite grid_faces_is_spec by assumption; apply grid_faces_length; assumption]. Qed.
Print Assumptions C20_grid_faces_closed_form.

Theorem C20_grid_face_is_cell : forall nx ny i j d, (0 <= nx)%Z -> (0 <= ny)%Z -> (i < Z.to_nat nx)%nat -> (j < Z.to_nat ny)%nat ->
  nth (i * Z.to_nat ny + j) (Mesh2D__grid_faces nx ny) d = cellface ny (Z.of_nat i * (ny + 1) + Z.of_nat j)%Z.
Proof. exact grid_face_cell. Qed.
Print Assumptions C20_grid_face_is_cell.

Theorem C20_grid_vertex_position : forall b nx ny dx dy i j, (0 <= nx)%Z -> (0 <= ny)%Z -> (i <= Z.to_nat nx)%nat -> (j <= Z.to_nat ny)%nat ->
  let v := nth (i * Z.to_nat (ny + 1) + j) (Mesh2D__grid_vertices b nx ny dx dy) (mkV2 0 0) in
  v2x v == v2x b + inject_Z (Z.of_nat i) * dx /\ v2y v == v2y b + inject_Z (Z.of_nat j) * dy.
Proof. exact grid_vertex_position. Qed.
Print Assumptions C20_grid_vertex_position.

(* removal (hand model MeshOps.v of _remove_vertices / _remove_faces_only / _transfer_face_centroids_areas, run against
   Mesh2D/Mesh3D.remove_vertices and remove_faces_only): a surviving face references the same points as before, a face survives
   exactly when all its vertices do, and per-face data filtered by the face pattern stays aligned with the surviving faces *)
Theorem C20_surviving_faces_reference_the_same_points : forall (A : Type) (verts : list A) pattern f f' d,
  length pattern = length verts -> new_face (renum pattern 0) f = Some f' ->
  map (fun j => nth j (keep pattern verts) d) f' = map (fun i => nth i verts d) f.
Proof. intros A. exact (@surviving_face_same_points A). Qed.
Print Assumptions C20_surviving_faces_reference_the_same_points.

Theorem C20_face_survives_iff_all_its_vertices_do : forall pattern f,
  is_some (new_face (renum pattern 0) f) = true <-> forall i, In i f -> nth i pattern false = true.
Proof. exact face_survives_iff. Qed.
Print Assumptions C20_face_survives_iff_all_its_vertices_do.

Theorem C20_per_face_data_stays_aligned : forall (D : Type) (nf : list (option (list nat))) (data : list D), length data = length nf ->
  combine (somes nf) (keep (map is_some nf) data)
  = flat_map (fun od => match fst od with Some f => [(f, snd od)] | None => [] end) (combine nf data).
Proof. intros D. exact (@face_data_aligned D). Qed.
Print Assumptions C20_per_face_data_stays_aligned.

Example C20_nonvacuous :
  Mesh2D__grid_faces 2 2 = [(0, 3, 4, 1); (1, 4, 5, 2); (3, 6, 7, 4); (4, 7, 8, 5)]%Z /\
  length (Mesh2D__grid_vertices (mkV2 1 1) 2 2 (1#2) (1#4)) = 9%nat.
Proof. vm_compute. split; reflexivity. Qed.

(* ---- triangulating quad faces: Mesh2D._quad_to_triangles (generated from the source) ------------------------------------------- *)
From LBG Require Import Base QGeom ListCyc G0_vec G1_shapes G2_inter G3_poly G7_contain G8_curve G12_mesh C01_area C20_quads.
Open Scope Q_scope.
Theorem C20_quad_diagonal_is_chosen_after_testing_all_four_corners : forall v0 v1 v2 v3,
  let s := left v1 v2 v3 in
  Mesh2D__quad_to_triangles [v0; v1; v2; v3]
  = if Bool.eqb (left v2 v3 v0) s && Bool.eqb (left v3 v0 v1) s && Bool.eqb (left v0 v1 v2) s
    then [(0, 1, 2); (2, 3, 0)] else Mesh2D__concave_quad_to_triangles [v0; v1; v2; v3].
Proof. exact quad_to_triangles_spec. Qed.
Print Assumptions C20_quad_diagonal_is_chosen_after_testing_all_four_corners.

Theorem C20_fan_triangles_cover_a_convex_quad : forall v0 v1 v2 v3,
  let s := left v1 v2 v3 in
  Bool.eqb (left v2 v3 v0) s && Bool.eqb (left v3 v0 v1) s && Bool.eqb (left v0 v1 v2) s = true ->
  left v0 v1 v2 = s /\ left v2 v3 v0 = s /\
  turn2 v0 v1 v2 + turn2 v2 v3 v0 == shoelace2 [v0; v1; v2; v3].
Proof. exact fan_triangles_cover_a_convex_quad. Qed.
Print Assumptions C20_fan_triangles_cover_a_convex_quad.

(* a dart with its re-entrant corner at position 1 of the face tuple is not split along the diagonal 0-2 *)
Example C20_dart_reflex_at_position_1 :
  Mesh2D__quad_to_triangles [mkV2 0 0; mkV2 2 1; mkV2 4 0; mkV2 2 4] = [(1, 2, 3); (3, 0, 1)].
Proof. vm_compute. reflexivity. Qed.

(* ---- removing faces: Mesh2D / Mesh3D.remove_faces_only (generated from the source) ------------------------------------------------ *)
From Coq Require Import ZArith List.
From LBG Require Import G4_face C20_remove.
Theorem C20_remove_faces_only_keeps_exactly_the_flagged_faces_in_order : forall (m : Mesh3R) (pat : list bool),
  length pat = length (m3_faces m) ->
  m3_vertices (Mesh3D_remove_faces_only m pat) = m3_vertices m /\
  m3_faces (Mesh3D_remove_faces_only m pat) = map fst (filter snd (combine (m3_faces m) pat)) /\
  length (m3_faces (Mesh3D_remove_faces_only m pat)) = length (filter (fun b => b) pat).
Proof.
  intros m pat H. split; [exact (proj1 (mesh3_remove_faces_only_spec m pat))|]. exact (mesh3_remove_faces_only_is_filter m pat H).
Qed.
Print Assumptions C20_remove_faces_only_keeps_exactly_the_flagged_faces_in_order.

Theorem C20_remove_faces_only_2d_and_3d_agree : forall (m2 : Mesh2R) (m3 : Mesh3R) (pat : list bool),
  m2_faces m2 = m3_faces m3 -> m2_faces (Mesh2D_remove_faces_only m2 pat) = m3_faces (Mesh3D_remove_faces_only m3 pat).
Proof.
  intros m2 m3 pat H. rewrite (proj2 (mesh2_remove_faces_only_spec m2 pat)), (proj2 (mesh3_remove_faces_only_spec m3 pat)), H. reflexivity.
Qed.
Print Assumptions C20_remove_faces_only_2d_and_3d_agree.

Example C20_remove_faces_only_concrete :
  m3_faces (Mesh3D_remove_faces_only (mkMesh3 (mkV3 0 0 0 :: mkV3 1 0 0 :: mkV3 1 1 0 :: mkV3 0 1 0 :: nil)
                                              ((0 :: 1 :: 2 :: nil) :: (2 :: 3 :: 0 :: nil) :: (1 :: 2 :: 3 :: nil) :: nil)%Z)
                                     (true :: false :: true :: nil))
  = ((0 :: 1 :: 2 :: nil) :: (1 :: 2 :: 3 :: nil) :: nil)%Z.
Proof. vm_compute. reflexivity. Qed.

From LBG Require Import Base QGeom G0_vec G1_shapes.
From Coq Require Import QArith Morphisms.

(* Face3D.mesh_grid builds its offset grid through plane.move: the moved plane (generated Plane.move) keeps its axes, so a 2D point cached in the plane frame maps through the MOVED plane onto the
   moved 3D point, and a moved point keeps its 2D coordinates *)
From LBG Require Import C06_plane C02_planes C03_planemove.
Theorem C20_cached_plane_coordinates_survive_a_move : forall qsqrt (sqrt_proper : Proper (Qeq ==> Qeq) qsqrt) (sqrt_one : (qsqrt 1 == 1)%Q) p m,
  frame_ok p ->
  (forall q, Plane_xy_to_xyz (Plane_move qsqrt p m) q =3= Point3D_move (Plane_xy_to_xyz p q) m) /\
  (forall r, Plane_xyz_to_xy (Plane_move qsqrt p m) (Point3D_move r m) =2= Plane_xyz_to_xy p r).
Proof.
  intros qsqrt sp so p m F. split; [intros q; apply cached_2d_point_maps_to_the_moved_point; assumption | intros r; apply moved_point_keeps_its_2d_coordinates; assumption].
Qed.
Print Assumptions C20_cached_plane_coordinates_survive_a_move.
