(* C07 -- edge classes of meshes and polyfaces are the independent incidence count; solidity.
   About model/EdgeInfo.v (hand model of the edge loop, tied by correspondence).  PARTIAL: the ray-parity
   outward test (get_outward_faces) is validated against the exact divergence volume, not proved. *)
From Coq Require Import ZArith List Bool.
From LBG Require Import EdgeInfo.
Import ListNotations.
Open Scope Z_scope.

Theorem C07_edge_type_is_incidence_count : forall faces e t,
  In (e, t) (edge_info faces) -> S t = uses e (all_pairs faces).
Proof. exact edge_type_is_incidence_count. Qed.
Print Assumptions C07_edge_type_is_incidence_count.

Theorem C07_every_edge_listed_exactly_once : forall faces k, fst k <> snd k ->
  (entries k (edge_info faces) <= 1)%nat /\ ((0 < uses k (all_pairs faces))%nat -> entries k (edge_info faces) = 1%nat).
Proof. exact edge_listed_once. Qed.
Print Assumptions C07_every_edge_listed_exactly_once.

Theorem C07_solid_iff_every_edge_used_twice : forall faces, is_solid (edge_info faces) = true <->
  forall e t, In (e, t) (edge_info faces) -> uses e (all_pairs faces) = 2%nat.
Proof. exact is_solid_iff. Qed.
Print Assumptions C07_solid_iff_every_edge_used_twice.

(* a tetrahedron is solid; removing a face makes exactly its three edges naked; a duplicate makes them non-manifold *)
Example C07_tetrahedron :
  let tet := [[0; 1; 2]; [0; 3; 1]; [1; 3; 2]; [2; 3; 0]] in
  is_solid (edge_info tet) = true /\
  map snd (edge_info (tl tet)) = [0; 1; 1; 0; 1; 0]%nat /\
  map snd (edge_info (hd [] tet :: tet)) = [2; 2; 2; 1; 1; 1]%nat.
Proof. vm_compute. repeat split; reflexivity. Qed.

(* ---- the volume formula (model/Volume.v, hand model of Polyface3D.volume tied by correspondence) ------------------------------
   6 * volume = sum over faces of  first_vertex . area_vector  (holes wound against the boundary add their own area vector). *)
From Coq Require Import QArith Permutation.
From LBG Require Import Base QGeom Volume.
Open Scope Q_scope.

(* for a closed, consistently oriented surface the value does not depend on where the solid sits *)
Theorem C07_volume_is_translation_invariant : forall t fs, nonempty fs -> closed fs ->
  vol6 (tmap (fun p => add3 p t) fs) == vol6 fs.
Proof. exact vol6_translate. Qed.
Print Assumptions C07_volume_is_translation_invariant.

(* the vertex a face starts at does not matter: any point of the face's plane may serve as its reference point *)
Theorem C07_volume_any_reference_point : forall fs (refs : face -> V3),
  (forall f, In f fs -> dot3 (sub3 (refs f) (face_ref f)) (face_vec f) == 0) ->
  qs (map (fun f => dot3 (refs f) (face_vec f)) fs) == vol6 fs.
Proof. exact vol6_any_reference_point. Qed.
Print Assumptions C07_volume_any_reference_point.

(* any linear map multiplies it by the determinant: k^3 for a uniform scale, 1 for rotations, -1 for mirrors *)
Theorem C07_volume_under_linear_maps : forall m fs,
  vol6 (tmap (lin m) fs) == (let '(r1, r2, r3) := m in det3 r1 r2 r3) * vol6 fs.
Proof. exact vol6_linear. Qed.
Print Assumptions C07_volume_under_linear_maps.

Theorem C07_volume_scales_with_the_cube : forall k fs, vol6 (tmap (lin (scale_m k)) fs) == k * k * k * vol6 fs.
Proof. exact vol6_scale. Qed.
Print Assumptions C07_volume_scales_with_the_cube.

(* the tetrahedron, and every solid assembled from tetrahedra glued along coincident opposite planar faces: the formula gives the
   sum of the pieces, i.e. the enclosed volume *)
Theorem C07_tetrahedron_volume : forall a b c d, vol6 (tetra a b c d) == det3 (sub3 b a) (sub3 c a) (sub3 d a).
Proof. exact vol6_tetra. Qed.
Print Assumptions C07_tetrahedron_volume.

Theorem C07_volume_of_assembled_solids : forall fs v, assembled fs v -> vol6 fs == v.
Proof. exact assembled_volume. Qed.
Print Assumptions C07_volume_of_assembled_solids.

Example C07_volume_nonvacuous : (forall a b c d, closed (tetra a b c d) /\ nonempty (tetra a b c d)) /\
  closed cube /\ nonempty cube /\ volume cube == 1.
Proof. split; [intros; split; [apply tetra_closed | apply tetra_nonempty] | exact cube_closed_volume_one]. Qed.

(* ---- index bookkeeping of from_offset_face (generated Polyface3D._verts_faces_edges_from_boundary): a loop of n vertices placed at index
   st contributes the n cyclic wall quads and the 3n cyclic edges (bottom ring, uprights, top ring) - the closing ones join the last
   vertex back to the first, at st as well as at 0 - and every index stays inside the loop's own block of 2n vertices *)
From Coq Require Import ZArith List.
From LBG Require Import Base G0_vec G12_mesh C07_offset.
Theorem C07_offset_loop_quads_and_edges_are_the_cyclic_ones : forall (vs : list V3) (e : V3) (st : Z), vs <> nil ->
  let n := py_len vs in
  let '(verts, faces, edges) := Polyface3D__verts_faces_edges_from_boundary vs e st in
  verts = vs ++ map (fun p => Point3D_move p e) vs /\
  faces = map (quad st n) (py_range 0 n) /\
  edges = map (ring st n 0) (py_range 0 n) ++ map (upright st n) (py_range 0 n) ++ map (ring st n n) (py_range 0 n).
Proof. exact offset_loop_spec. Qed.
Print Assumptions C07_offset_loop_quads_and_edges_are_the_cyclic_ones.

Theorem C07_offset_loop_indices_stay_in_their_block : forall (vs : list V3) (e : V3) (st : Z), vs <> nil ->
  let n := py_len vs in
  let '(_, faces, edges) := Polyface3D__verts_faces_edges_from_boundary vs e st in
  (forall a b c d, In (a, b, c, d) faces ->
     (st <= a < st + 2 * n /\ st <= b < st + 2 * n /\ st <= c < st + 2 * n /\ st <= d < st + 2 * n)%Z) /\
  (forall a b, In (a, b) edges -> (st <= a < st + 2 * n /\ st <= b < st + 2 * n /\ a <> b)%Z \/ n = 1%Z).
Proof. exact offset_loop_indices_in_block. Qed.
Print Assumptions C07_offset_loop_indices_stay_in_their_block.

(* a triangular hole placed after 6 boundary vertices: its closing top edge is (11, 9), not (11, 3) *)
Example C07_offset_loop_concrete :
  let '(_, _, edges) := Polyface3D__verts_faces_edges_from_boundary (mkV3 0 0 0 :: mkV3 1 0 0 :: mkV3 0 1 0 :: nil) (mkV3 0 0 1) 6 in
  last edges (0, 0)%Z = (11, 9)%Z.
Proof. vm_compute. reflexivity. Qed.

From LBG Require Import Base QGeom G0_vec G1_shapes.
From Coq Require Import QArith Morphisms.

(* the faces of a moved solid are the moved faces: Face3D.move carries the plane with Plane.move: the moved plane (generated Plane.move) keeps its axes, so a 2D point cached in the plane frame maps through the MOVED plane onto the
   moved 3D point, and a moved point keeps its 2D coordinates *)
From LBG Require Import C06_plane C02_planes C03_planemove.
Theorem C07_cached_plane_coordinates_survive_a_move : forall qsqrt (sqrt_proper : Proper (Qeq ==> Qeq) qsqrt) (sqrt_one : (qsqrt 1 == 1)%Q) p m,
  frame_ok p ->
  (forall q, Plane_xy_to_xyz (Plane_move qsqrt p m) q =3= Point3D_move (Plane_xy_to_xyz p q) m) /\
  (forall r, Plane_xyz_to_xy (Plane_move qsqrt p m) (Point3D_move r m) =2= Plane_xyz_to_xy p r).
Proof.
  intros qsqrt sp so p m F. split; [intros q; apply cached_2d_point_maps_to_the_moved_point; assumption | intros r; apply moved_point_keeps_its_2d_coordinates; assumption].
Qed.
Print Assumptions C07_cached_plane_coordinates_survive_a_move.
