(* C01_perimeter.v -- Polygon2D.perimeter (generated from the source): the sum, over the cyclic pairs of consecutive vertices - the
   closing pair (last, first) included - of sqrt |b - a|^2; hence independent of the start vertex, and of the direction when sqrt
   respects ==. *)
From LBG Require Import Base QGeom ListCyc G0_vec G1_shapes G3_poly C05_convex.
Open Scope Q_scope.

Definition elen (qsqrt : Q -> Q) (a b : V2) : Q := qsqrt ((v2x b - v2x a) * (v2x b - v2x a) + (v2y b - v2y a) * (v2y b - v2y a)).

Lemma Qsum_cons' x l : Qsum (x :: l) == x + Qsum l.
Proof.
  unfold Qsum. cbn [fold_left]. assert (G : forall l a, fold_left Qplus l a == a + fold_left Qplus l 0).
  { clear. induction l as [|y l IH]; intros a; cbn [fold_left]; [ring|]. rewrite IH, (IH (0 + y)). ring. }
  rewrite G. ring.
Qed.

Lemma Qsum_app l r : Qsum (l ++ r) == Qsum l + Qsum r.
Proof. induction l as [|x l IH]; cbn [app]; [unfold Qsum at 2; cbn; ring|]. rewrite !Qsum_cons', IH. ring. Qed.

Lemma Qsum_rotl l : Qsum (py_rotl l) == Qsum l.
Proof. destruct l as [|x r]; [reflexivity|]. cbn [py_rotl]. rewrite Qsum_app, !Qsum_cons'. unfold Qsum at 2. cbn. ring. Qed.

Lemma Qsum_ppairs (f : V2 -> V2 -> Q) prev l : Qsum (map (fun pc => f (fst pc) (snd pc)) (ppairs prev l)) == path_sum f (prev :: l).
Proof.
  revert prev. induction l as [|x l IH]; intros prev; cbn [ppairs map]; [reflexivity|].
  rewrite Qsum_cons', IH, path_sum_cons. reflexivity.
Qed.

Theorem perimeter_is_cyclic_edge_sum qsqrt (p : Polygon2R) :
  Polygon2D_perimeter qsqrt p == cyc_sum (elen qsqrt) (pg_vertices p).
Proof.
  unfold Polygon2D_perimeter, Polygon2D_segments. cbv zeta. set (vs := pg_vertices p).
  rewrite (segments_spec vs (mkV2 0 0)).
  assert (ML : forall l : list LR2, map (fun s => LineSegment2D_length qsqrt s) (py_rotl l) = py_rotl (map (fun s => LineSegment2D_length qsqrt s) l)).
  { intros [|x r]; [reflexivity|]. cbn [py_rotl map]. rewrite map_app. reflexivity. }
  rewrite ML, Qsum_rotl, map_map.
  rewrite (Qsum_ppairs (fun a b => LineSegment2D_length qsqrt (seg a b))).
  unfold cyc_sum. destruct vs as [|x r]; [reflexivity|].
  rewrite path_sum_cons.
  assert (E : forall a b, LineSegment2D_length qsqrt (seg a b) = elen qsqrt a b).
  { intros a b. unfold LineSegment2D_length, Vector2D_magnitude, Vector2D_op_abs, seg, sub2, elen. cbn [lr2v v2x v2y]. reflexivity. }
  rewrite E. rewrite (path_sum_ext _ (elen qsqrt)) by (intros; rewrite E; reflexivity).
  rewrite (last_indep (x :: r) (mkV2 0 0) x) by congruence. reflexivity.
Qed.

Theorem perimeter_start_vertex_independent qsqrt x l :
  Polygon2D_perimeter qsqrt (mkPolygon2 (x :: l)) == Polygon2D_perimeter qsqrt (mkPolygon2 (l ++ [x])).
Proof. rewrite !perimeter_is_cyclic_edge_sum. cbn [pg_vertices]. apply cyc_sum_shift. Qed.

Theorem perimeter_reversal qsqrt (P : Proper (Qeq ==> Qeq) qsqrt) l :
  Polygon2D_perimeter qsqrt (mkPolygon2 (rev l)) == Polygon2D_perimeter qsqrt (mkPolygon2 l).
Proof.
  rewrite !perimeter_is_cyclic_edge_sum. cbn [pg_vertices]. rewrite cyc_sum_rev. apply cyc_sum_ext.
  intros a b. unfold elen. apply P. ring.
Qed.
