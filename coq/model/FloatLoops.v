(* FloatLoops.v -- bit-exact IEEE binary64 (PrimFloat) models of the accumulating-parameter loops
     interval = 1 / number; parameter = interval
     while parameter <= LIMIT: append(point_at(parameter)); parameter += interval
   of LineSegment2D/3D.subdivide_evenly (LIMIT = 1, then the end point is appended when the count is short)
   and Arc2D.subdivide_evenly (LIMIT = 1.000000001, no repair).  Only the NUMBER of points depends on
   floating point; it is modelled here and enumerated completely for n in 1..500. *)
From Coq Require Import PrimFloat Uint63 ZArith List Bool Lia.
Import ListNotations.

Fixpoint loop (fuel : nat) (param interval limit : float) (count : nat) : nat :=
  match fuel with
  | O => count
  | S k => if PrimFloat.leb param limit then loop k (PrimFloat.add param interval) interval limit (S count) else count
  end.

Definition interval_of (n : Z) : float := PrimFloat.div 1%float (PrimFloat.of_uint63 (Uint63.of_Z n)).

(* points produced by the while loop alone (start point + one per iteration) *)
Definition raw_count (n : Z) (limit : float) : nat := loop 2000 (interval_of n) (interval_of n) limit 1.

(* LineSegment2D / LineSegment3D: the end point is appended when the loop came up short *)
Definition seg_evenly_count (n : Z) : nat :=
  let c := raw_count n 1%float in if Nat.eqb c (Z.to_nat n + 1) then c else S c.

Definition arc_limit : float := 0x1.000000044b83p+0%float.   (* the double nearest 1.000000001 *)
Definition arc_evenly_count (n : Z) : nat := raw_count n arc_limit.

Fixpoint zrange_from (k : nat) (start : Z) : list Z :=
  match k with O => [] | S j => start :: zrange_from j (start + 1)%Z end.
Definition zrange (k : nat) : list Z := zrange_from k 1%Z.

Fixpoint list_eqb (a b : list nat) : bool :=
  match a, b with [], [] => true | x :: r, y :: s => Nat.eqb x y && list_eqb r s | _, _ => false end.

Lemma zrange_from_In k : forall s n, In n (zrange_from k s) <-> (s <= n < s + Z.of_nat k)%Z.
Proof.
  induction k as [|k IH]; intros s n; cbn [zrange_from In].
  - lia.
  - rewrite IH. lia.
Qed.

(* the loop never overshoots and is at most one short: n or n+1 points, for every n in 1..500 *)
Definition raw_ok (n : Z) : bool := let c := raw_count n 1%float in Nat.eqb c (Z.to_nat n) || Nat.eqb c (Z.to_nat n + 1).

Theorem raw_count_all : forallb raw_ok (zrange 500) = true.
Proof. vm_compute. reflexivity. Qed.

Theorem seg_evenly_count_all : forallb (fun n => Nat.eqb (seg_evenly_count n) (Z.to_nat n + 1)) (zrange 500) = true.
Proof. vm_compute. reflexivity. Qed.

Theorem arc_evenly_count_all : forallb (fun n => Nat.eqb (arc_evenly_count n) (Z.to_nat n + 1)) (zrange 500) = true.
Proof. vm_compute. reflexivity. Qed.

Theorem seg_evenly_count_spec n : (1 <= n <= 500)%Z -> seg_evenly_count n = (Z.to_nat n + 1)%nat.
Proof.
  intros H. pose proof seg_evenly_count_all as A. rewrite forallb_forall in A.
  apply Nat.eqb_eq. apply A. unfold zrange. apply zrange_from_In. lia.
Qed.

Theorem arc_evenly_count_spec n : (1 <= n <= 500)%Z -> arc_evenly_count n = (Z.to_nat n + 1)%nat.
Proof.
  intros H. pose proof arc_evenly_count_all as A. rewrite forallb_forall in A.
  apply Nat.eqb_eq. apply A. unfold zrange. apply zrange_from_In. lia.
Qed.

(* the un-repaired loop (what LineSegment2D did before the fix) IS short for some n: witness n = 9 *)
Theorem raw_loop_is_short_for_some_n : raw_count 9 1%float = 9%nat.
Proof. vm_compute. reflexivity. Qed.
