(* C10: bounding boxes contain the geometry and are tight.  About gen/G3_poly.v, G5_bound.v. *)
From LBG Require Import Base QGeom G0_vec G1_shapes G2_inter G3_poly G4_face G5_bound.
Open Scope Q_scope.

(* one-axis scan with the if/elif of the source *)
Definition step1 (mM : Q * Q) (x : Q) : Q * Q :=
  let '(m, M) := mM in if Qlt_bool x m then (x, M) else if Qlt_bool M x then (m, x) else (m, M).
Definition scan1 (l : list Q) (mM : Q * Q) : Q * Q := fold_left step1 l mM.

Definition scan_ok (l : list Q) (m M : Q) (r : Q * Q) : Prop :=
  fst r <= snd r /\ fst r <= m /\ M <= snd r /\ (forall x, In x l -> fst r <= x /\ x <= snd r) /\
  (fst r = m \/ In (fst r) l) /\ (snd r = M \/ In (snd r) l).

Lemma scan1_spec l : forall m M, m <= M -> scan_ok l m M (scan1 l (m, M)).
Proof.
  induction l as [|x r IH]; intros m M H.
  - unfold scan_ok; cbn. repeat split; auto; try lra; intros y [].
  - change (scan1 (x :: r) (m, M)) with (scan1 r (step1 (m, M) x)). unfold step1.
    destruct (Qlt_bool x m) eqn:E1.
    + apply Qlt_bool_iff in E1. specialize (IH x M ltac:(lra)).
      destruct IH as (A & B & C & D & E & F). set (R := scan1 r (x, M)) in *. unfold scan_ok.
      repeat split; try lra.
      * destruct H0 as [<-|H0]; [lra| apply D; exact H0].
      * destruct H0 as [<-|H0]; [lra| apply D; exact H0].
      * destruct E as [->|E]; right; [left; reflexivity| right; exact E].
      * destruct F as [->|F]; [left; reflexivity| right; right; exact F].
    + apply Qlt_bool_false_iff in E1. destruct (Qlt_bool M x) eqn:E2.
      * apply Qlt_bool_iff in E2. specialize (IH m x ltac:(lra)).
        destruct IH as (A & B & C & D & E & F). set (R := scan1 r (m, x)) in *. unfold scan_ok.
        repeat split; try lra.
        -- destruct H0 as [<-|H0]; [lra| apply D; exact H0].
        -- destruct H0 as [<-|H0]; [lra| apply D; exact H0].
        -- destruct E as [->|E]; [left; reflexivity| right; right; exact E].
        -- destruct F as [->|F]; right; [left; reflexivity| right; exact F].
      * apply Qlt_bool_false_iff in E2. specialize (IH m M H).
        destruct IH as (A & B & C & D & E & F). set (R := scan1 r (m, M)) in *. unfold scan_ok.
        repeat split; try lra.
        -- destruct H0 as [<-|H0]; [lra| apply D; exact H0].
        -- destruct H0 as [<-|H0]; [lra| apply D; exact H0].
        -- destruct E as [->|E]; [left; reflexivity| right; right; exact E].
        -- destruct F as [->|F]; [left; reflexivity| right; right; exact F].
Qed.

(* the 2-axis loop of Base2DIn2D._calculate_min_max is two independent one-axis scans *)
Definition step2 (acc : Q * Q * Q * Q) (v : V2) : Q * Q * Q * Q :=
  let '(min_pt_0, max_pt_0, min_pt_1, max_pt_1) := acc in
  let '(min_pt_0, max_pt_0) := (if Qlt_bool (v2x v) min_pt_0 then let min_pt_0 := v2x v in
  (min_pt_0, max_pt_0) else let max_pt_0 := (if Qlt_bool max_pt_0 (v2x v) then let max_pt_0 := v2x v in
  max_pt_0 else max_pt_0) in
  (min_pt_0, max_pt_0)) in
  let '(min_pt_1, max_pt_1) := (if Qlt_bool (v2y v) min_pt_1 then let min_pt_1 := v2y v in
  (min_pt_1, max_pt_1) else let max_pt_1 := (if Qlt_bool max_pt_1 (v2y v) then let max_pt_1 := v2y v in
  max_pt_1 else max_pt_1) in
  (min_pt_1, max_pt_1)) in
  (min_pt_0, max_pt_0, min_pt_1, max_pt_1).

Lemma step2_split a A b B v :
  step2 (a, A, b, B) v = (fst (step1 (a, A) (v2x v)), snd (step1 (a, A) (v2x v)),
                          fst (step1 (b, B) (v2y v)), snd (step1 (b, B) (v2y v))).
Proof.
  unfold step2, step1.
  destruct (Qlt_bool (v2x v) a), (Qlt_bool A (v2x v)), (Qlt_bool (v2y v) b), (Qlt_bool B (v2y v)); reflexivity.
Qed.

Lemma scan2_split l : forall a A b B,
  fold_left step2 l (a, A, b, B) =
  (fst (scan1 (map v2x l) (a, A)), snd (scan1 (map v2x l) (a, A)),
   fst (scan1 (map v2y l) (b, B)), snd (scan1 (map v2y l) (b, B))).
Proof.
  induction l as [|v r IH]; intros a A b B; [reflexivity|].
  cbn [fold_left map]. rewrite step2_split, IH.
  change (scan1 (v2x v :: map v2x r) (a, A)) with (scan1 (map v2x r) (step1 (a, A) (v2x v))).
  change (scan1 (v2y v :: map v2y r) (b, B)) with (scan1 (map v2y r) (step1 (b, B) (v2y v))).
  rewrite <- !surjective_pairing. reflexivity.
Qed.

Definition box_of (l : list V2) : (V2 * V2) :=
  match l with
  | [] => (mkV2 0 0, mkV2 0 0)
  | v :: r => let X := scan1 (map v2x r) (v2x v, v2x v) in let Y := scan1 (map v2y r) (v2y v, v2y v) in
              (mkV2 (fst X) (fst Y), mkV2 (snd X) (snd Y))
  end.

Lemma fold_left_ext_in {A B} (f g : A -> B -> A) l a : (forall a x, f a x = g a x) -> fold_left f l a = fold_left g l a.
Proof. intros H. revert a. induction l as [|x r IH]; intros a; [reflexivity|]. cbn [fold_left]. rewrite H. apply IH. Qed.

Lemma py_slice_tail {A} (x : A) r : py_slice (x :: r) (Some 1%Z) None = r.
Proof.
  unfold py_slice, py_norm_index. cbn [length].
  replace (1 <? 0)%Z with false by reflexivity.
  assert (E : Z.max 0 (Z.min (Z.of_nat (S (length r))) 1) = 1%Z) by lia. rewrite E.
  replace (Z.to_nat 1) with 1%nat by reflexivity. cbn [skipn].
  replace (Z.to_nat (Z.of_nat (S (length r)) - 1)) with (length r) by lia. apply firstn_all.
Qed.

Theorem polygon_min_max_is_box p v r : pg_vertices p = v :: r ->
  Base2DIn2D_min p = fst (box_of (v :: r)) /\ Base2DIn2D_max p = snd (box_of (v :: r)).
Proof.
  intros E. unfold Base2DIn2D_min, Base2DIn2D_max. cbv zeta. rewrite E, py_slice_tail.
  unfold py_nth. cbn [Z.ltb Z.compare Z.to_nat nth].
  split.
  - erewrite (fold_left_ext_in _ step2); [rewrite scan2_split; reflexivity|].
    intros [[[a A] b] B] x; reflexivity.
  - erewrite (fold_left_ext_in _ step2); [rewrite scan2_split; reflexivity|].
    intros [[[a A] b] B] x; reflexivity.
Qed.

(* containment and tightness, every vertex count *)
Theorem box_contains_and_tight l : l <> [] ->
  let '(mn, mx) := box_of l in
  v2x mn <= v2x mx /\ v2y mn <= v2y mx /\
  (forall p, In p l -> v2x mn <= v2x p <= v2x mx /\ v2y mn <= v2y p <= v2y mx) /\
  (exists p, In p l /\ v2x p = v2x mn) /\ (exists p, In p l /\ v2x p = v2x mx) /\
  (exists p, In p l /\ v2y p = v2y mn) /\ (exists p, In p l /\ v2y p = v2y mx).
Proof.
  destruct l as [|v r]; [congruence|]. intros _. unfold box_of.
  pose proof (scan1_spec (map v2x r) (v2x v) (v2x v) ltac:(lra)) as SX.
  pose proof (scan1_spec (map v2y r) (v2y v) (v2y v) ltac:(lra)) as SY.
  unfold scan_ok in SX, SY.
  destruct (scan1 (map v2x r) (v2x v, v2x v)) as [mx0 Mx0].
  destruct (scan1 (map v2y r) (v2y v, v2y v)) as [my0 My0]. cbn [fst snd] in *. vred.
  destruct SX as (X1 & X2 & X3 & X4 & X5 & X6). destruct SY as (Y1 & Y2 & Y3 & Y4 & Y5 & Y6).
  assert (attain : forall (f : V2 -> Q) z, z = f v \/ In z (map f r) -> exists p, In p (v :: r) /\ f p = z).
  { intros f z [->|Hin]; [exists v; split; [left; reflexivity|reflexivity]|].
    apply in_map_iff in Hin. destruct Hin as (p & <- & Hp). exists p; split; [right; exact Hp| reflexivity]. }
  repeat split; try lra.
  - destruct H as [<-|H]; [lra| apply (X4 (v2x p)), in_map; exact H].
  - destruct H as [<-|H]; [lra| apply (X4 (v2x p)), in_map; exact H].
  - destruct H as [<-|H]; [lra| apply (Y4 (v2y p)), in_map; exact H].
  - destruct H as [<-|H]; [lra| apply (Y4 (v2y p)), in_map; exact H].
  - apply (attain v2x); exact X5.
  - apply (attain v2x); exact X6.
  - apply (attain v2y); exact Y5.
  - apply (attain v2y); exact Y6.
Qed.

(* center is the midpoint *)
Theorem polygon_center_mid p :
  Base2DIn2D_center p =2= mkV2 ((v2x (Base2DIn2D_min p) + v2x (Base2DIn2D_max p)) / 2)
                               ((v2y (Base2DIn2D_min p) + v2y (Base2DIn2D_max p)) / 2).
Proof. unfold Base2DIn2D_center. cbv zeta. split; vred; reflexivity. Qed.

(* segments / rays: min and max of the two end points *)
Theorem segment_box l :
  Base1DIn2D_min l = mkV2 (Qmin (v2x (lr2p l)) (v2x (lr2p l) + v2x (lr2v l))) (Qmin (v2y (lr2p l)) (v2y (lr2p l) + v2y (lr2v l))) /\
  Base1DIn2D_max l = mkV2 (Qmax (v2x (lr2p l)) (v2x (lr2p l) + v2x (lr2v l))) (Qmax (v2y (lr2p l)) (v2y (lr2p l) + v2y (lr2v l))).
Proof. split; reflexivity. Qed.

Theorem segment_box_contains l t : 0 <= t -> t <= 1 ->
  v2x (Base1DIn2D_min l) <= v2x (lr2p l) + t * v2x (lr2v l) <= v2x (Base1DIn2D_max l) /\
  v2y (Base1DIn2D_min l) <= v2y (lr2p l) + t * v2y (lr2v l) <= v2y (Base1DIn2D_max l).
Proof.
  intros T0 T1. destruct (segment_box l) as [-> ->]. vred.
  set (px := v2x (lr2p l)); set (vx := v2x (lr2v l)); set (py := v2y (lr2p l)); set (vy := v2y (lr2v l)).
  pose proof (Q.le_min_l px (px + vx)). pose proof (Q.le_min_r px (px + vx)).
  pose proof (Q.le_max_l px (px + vx)). pose proof (Q.le_max_r px (px + vx)).
  pose proof (Q.le_min_l py (py + vy)). pose proof (Q.le_min_r py (py + vy)).
  pose proof (Q.le_max_l py (py + vy)). pose proof (Q.le_max_r py (py + vy)).
  clearbody px vx py vy.
  assert (forall v, 0 <= v -> 0 <= t * v <= v) by (intros; nra).
  assert (forall v, v <= 0 -> v <= t * v <= 0) by (intros; nra).
  destruct (Qlt_le_dec vx 0), (Qlt_le_dec vy 0);
  repeat match goal with
  | K : ?v < 0 |- _ => pose proof (H8 v ltac:(lra)); clear K
  | K : 0 <= ?v |- _ => lazymatch v with t => fail | _ => pose proof (H7 v K); clear K end
  end; repeat split; lra.
Qed.

(* overlap predicate: symmetric, and equal to the exact gap test *)
Definition gap1 (m1 M1 m2 M2 : Q) : Q := Qmax (m1 - M2) (m2 - M1).

Lemma center_gap m1 M1 m2 M2 :
  Qabs ((m1 + M1) / 2 - (m2 + M2) / 2) - (1 # 2) * (M1 - m1) - (1 # 2) * (M2 - m2) == gap1 m1 M1 m2 M2.
Proof.
  unfold gap1.
  assert (E1 : (m1 + M1) / 2 - (m2 + M2) / 2 == ((m1 + M1) - (m2 + M2)) * (1#2)) by field.
  rewrite E1. clear E1. set (d := ((m1 + M1) - (m2 + M2)) * (1#2)).
  destruct (Qlt_le_dec d 0) as [Hd|Hd].
  - rewrite Qabs_neg by lra. unfold d in *. apply Q.max_case_strong; intros; try lra; try (rewrite <- H; assumption).
  - rewrite Qabs_pos by lra. unfold d in *. apply Q.max_case_strong; intros; try lra; try (rewrite <- H; assumption).
Qed.

Theorem overlap_is_gap_test a b dist :
  overlapping_bounding_rect a b dist = true <->
  gap1 (v2x (Base2DIn2D_min a)) (v2x (Base2DIn2D_max a)) (v2x (Base2DIn2D_min b)) (v2x (Base2DIn2D_max b)) <= dist /\
  gap1 (v2y (Base2DIn2D_min a)) (v2y (Base2DIn2D_max a)) (v2y (Base2DIn2D_min b)) (v2y (Base2DIn2D_max b)) <= dist.
Proof.
  unfold overlapping_bounding_rect, Base2DIn2D_center. cbv zeta. vred.
  set (ax := v2x (Base2DIn2D_min a)); set (Ax := v2x (Base2DIn2D_max a)).
  set (ay := v2y (Base2DIn2D_min a)); set (Ay := v2y (Base2DIn2D_max a)).
  set (bx := v2x (Base2DIn2D_min b)); set (Bx := v2x (Base2DIn2D_max b)).
  set (by_ := v2y (Base2DIn2D_min b)); set (By := v2y (Base2DIn2D_max b)).
  pose proof (center_gap ax Ax bx Bx) as GX. pose proof (center_gap ay Ay by_ By) as GY.
  destruct (Qlt_bool dist _) eqn:E1.
  - apply Qlt_bool_iff in E1. rewrite GX in E1. split; [discriminate| intros [H _]; lra].
  - apply Qlt_bool_false_iff in E1. rewrite GX in E1. destruct (Qlt_bool dist _) eqn:E2.
    + apply Qlt_bool_iff in E2. rewrite GY in E2. split; [discriminate| intros [_ H]; lra].
    + apply Qlt_bool_false_iff in E2. rewrite GY in E2. split; auto.
Qed.

Lemma gap1_sym m1 M1 m2 M2 : gap1 m1 M1 m2 M2 == gap1 m2 M2 m1 M1.
Proof. unfold gap1. apply Q.max_comm. Qed.

Theorem overlap_symmetric a b dist : overlapping_bounding_rect a b dist = overlapping_bounding_rect b a dist.
Proof.
  destruct (overlapping_bounding_rect a b dist) eqn:E1, (overlapping_bounding_rect b a dist) eqn:E2; auto.
  - apply overlap_is_gap_test in E1. destruct E1 as [X Y]. rewrite gap1_sym in X, Y.
    assert (overlapping_bounding_rect b a dist = true) by (apply overlap_is_gap_test; split; assumption). congruence.
  - apply overlap_is_gap_test in E2. destruct E2 as [X Y]. rewrite gap1_sym in X, Y.
    assert (overlapping_bounding_rect a b dist = true) by (apply overlap_is_gap_test; split; assumption). congruence.
Qed.

(* ---- collections: bounding_domain_x / _y fold the members' boxes into their hull ------------------------------------------- *)
Definition hstep {G} (lo hi : G -> Q) (mM : Q * Q) (g : G) : Q * Q :=
  let '(m, M) := mM in ((if Qlt_bool (lo g) m then lo g else m), (if Qlt_bool M (hi g) then hi g else M)).

Lemma hull_fold {G} (lo hi : G -> Q) (l : list G) : forall m M,
  let r := fold_left (hstep lo hi) l (m, M) in
  fst r <= m /\ M <= snd r /\ (forall g, In g l -> fst r <= lo g /\ hi g <= snd r) /\
  (fst r = m \/ exists g, In g l /\ fst r = lo g) /\ (snd r = M \/ exists g, In g l /\ snd r = hi g).
Proof.
  induction l as [|x l IH]; intros m M; cbv zeta.
  - cbn. repeat split; try lra; auto; intros g [].
  - cbn [fold_left].
    set (m' := if Qlt_bool (lo x) m then lo x else m). set (M' := if Qlt_bool M (hi x) then hi x else M).
    assert (HS : hstep lo hi (m, M) x = (m', M')) by reflexivity. rewrite HS. clear HS.
    assert (Hm : m' <= m /\ m' <= lo x /\ (m' = m \/ m' = lo x)).
    { unfold m'. destruct (Qlt_bool (lo x) m) eqn:E; [apply Qlt_bool_iff in E| apply Qlt_bool_false_iff in E]; repeat split; try lra; auto. }
    assert (HM : M <= M' /\ hi x <= M' /\ (M' = M \/ M' = hi x)).
    { unfold M'. destruct (Qlt_bool M (hi x)) eqn:E; [apply Qlt_bool_iff in E| apply Qlt_bool_false_iff in E]; repeat split; try lra; auto. }
    destruct Hm as (Hm1 & Hm2 & Hm3). destruct HM as (HM1 & HM2 & HM3).
    specialize (IH m' M'). cbv zeta in IH. destruct IH as (A & B & C & D & E).
    set (R := fold_left (hstep lo hi) l (m', M')) in *.
    split; [lra|]. split; [lra|]. split.
    + intros g [<-|I]; [split; lra| apply C; exact I].
    + split.
      * destruct D as [D|(g & I & D)].
        -- destruct Hm3 as [H|H]; [left; rewrite D; exact H | right; exists x; split; [left; reflexivity| rewrite D; exact H]].
        -- right. exists g. split; [right; exact I| exact D].
      * destruct E as [E|(g & I & E)].
        -- destruct HM3 as [H|H]; [left; rewrite E; exact H | right; exists x; split; [left; reflexivity| rewrite E; exact H]].
        -- right. exists g. split; [right; exact I| exact E].
Qed.

Theorem bounding_domain_x_is_hull g r :
  let res := bounding_domain_x (g :: r) in
  (forall h, In h (g :: r) -> fst res <= v2x (Base2DIn2D_min h) /\ v2x (Base2DIn2D_max h) <= snd res) /\
  (exists h, In h (g :: r) /\ fst res = v2x (Base2DIn2D_min h)) /\ (exists h, In h (g :: r) /\ snd res = v2x (Base2DIn2D_max h)).
Proof.
  cbv zeta. unfold bounding_domain_x. cbv zeta. rewrite py_slice_tail. change (py_nth (g :: r) 0 (mkPolygon2 [])) with g.
  rewrite (fold_left_ext_in _ (hstep (fun h => v2x (Base2DIn2D_min h)) (fun h => v2x (Base2DIn2D_max h)))).
  2:{ intros [m M] h. unfold hstep. reflexivity. }
  pose proof (hull_fold (fun h => v2x (Base2DIn2D_min h)) (fun h => v2x (Base2DIn2D_max h)) r
                        (v2x (Base2DIn2D_min g)) (v2x (Base2DIn2D_max g))) as H. cbv zeta in H.
  destruct (fold_left _ r _) as [m M] eqn:EF. cbn [fst snd] in *. destruct H as (A & B & C & D & E).
  split; [|split].
  - intros h [<-|I]; [split; lra| apply C; exact I].
  - destruct D as [->|(h & I & ->)]; [exists g; split; [left; reflexivity| reflexivity] | exists h; split; [right; exact I| reflexivity]].
  - destruct E as [->|(h & I & ->)]; [exists g; split; [left; reflexivity| reflexivity] | exists h; split; [right; exact I| reflexivity]].
Qed.

Theorem bounding_domain_y_is_hull g r :
  let res := bounding_domain_y (g :: r) in
  (forall h, In h (g :: r) -> fst res <= v2y (Base2DIn2D_min h) /\ v2y (Base2DIn2D_max h) <= snd res) /\
  (exists h, In h (g :: r) /\ fst res = v2y (Base2DIn2D_min h)) /\ (exists h, In h (g :: r) /\ snd res = v2y (Base2DIn2D_max h)).
Proof.
  cbv zeta. unfold bounding_domain_y. cbv zeta. rewrite py_slice_tail. change (py_nth (g :: r) 0 (mkPolygon2 [])) with g.
  rewrite (fold_left_ext_in _ (hstep (fun h => v2y (Base2DIn2D_min h)) (fun h => v2y (Base2DIn2D_max h)))).
  2:{ intros [m M] h. unfold hstep. reflexivity. }
  pose proof (hull_fold (fun h => v2y (Base2DIn2D_min h)) (fun h => v2y (Base2DIn2D_max h)) r
                        (v2y (Base2DIn2D_min g)) (v2y (Base2DIn2D_max g))) as H. cbv zeta in H.
  destruct (fold_left _ r _) as [m M] eqn:EF. cbn [fst snd] in *. destruct H as (A & B & C & D & E).
  split; [|split].
  - intros h [<-|I]; [split; lra| apply C; exact I].
  - destruct D as [->|(h & I & ->)]; [exists g; split; [left; reflexivity| reflexivity] | exists h; split; [right; exact I| reflexivity]].
  - destruct E as [->|(h & I & ->)]; [exists g; split; [left; reflexivity| reflexivity] | exists h; split; [right; exact I| reflexivity]].
Qed.

(* ---- 3D segments / rays: the box of the two end points contains every point of the segment, per axis *)
Lemma axis_between p v t : 0 <= t -> t <= 1 -> Qmin p (p + v) <= p + t * v <= Qmax p (p + v).
Proof.
  intros T0 T1.
  pose proof (Q.le_min_l p (p + v)). pose proof (Q.le_min_r p (p + v)). pose proof (Q.le_max_l p (p + v)). pose proof (Q.le_max_r p (p + v)).
  destruct (Qlt_le_dec v 0) as [N|N]; [assert (v <= t * v <= 0) by nra | assert (0 <= t * v <= v) by nra]; split; lra.
Qed.

Theorem segment3_box_contains l t : 0 <= t -> t <= 1 ->
  v3x (Base1DIn3D_min l) <= v3x (lr3p l) + t * v3x (lr3v l) <= v3x (Base1DIn3D_max l) /\
  v3y (Base1DIn3D_min l) <= v3y (lr3p l) + t * v3y (lr3v l) <= v3y (Base1DIn3D_max l) /\
  v3z (Base1DIn3D_min l) <= v3z (lr3p l) + t * v3z (lr3v l) <= v3z (Base1DIn3D_max l).
Proof.
  intros T0 T1. unfold Base1DIn3D_min, Base1DIn3D_max. cbv zeta. cbn [v3x v3y v3z].
  repeat split; apply axis_between; assumption.
Qed.

Theorem segment3_center_is_midpoint l :
  Base1DIn3D_center l =3= mkV3 (v3x (lr3p l) + (1 # 2) * v3x (lr3v l)) (v3y (lr3p l) + (1 # 2) * v3y (lr3v l)) (v3z (lr3p l) + (1 # 2) * v3z (lr3v l)).
Proof. unfold Base1DIn3D_center, v3eq. cbv zeta. cbn [v3x v3y v3z]. repeat split; field. Qed.

(* ---- spheres: the box centre -/+ radius contains every point of the surface (and of the ball) *)
Theorem sphere_box_contains s q : 0 <= sp_r s -> sqd3 q (sp_c s) <= sp_r s * sp_r s ->
  v3x (Sphere_min s) <= v3x q <= v3x (Sphere_max s) /\ v3y (Sphere_min s) <= v3y q <= v3y (Sphere_max s) /\
  v3z (Sphere_min s) <= v3z q <= v3z (Sphere_max s).
Proof.
  intros Hr H. unfold Sphere_min, Sphere_max. cbv zeta. cbn [v3x v3y v3z].
  unfold sqd3, dot3, sub3 in H. cbn [v3x v3y v3z] in H.
  set (r := sp_r s) in *. set (dx := v3x q - v3x (sp_c s)) in *. set (dy := v3y q - v3y (sp_c s)) in *. set (dz := v3z q - v3z (sp_c s)) in *.
  assert (X : dx * dx <= r * r) by (pose proof (Qsq_nonneg dy); pose proof (Qsq_nonneg dz); lra).
  assert (Y : dy * dy <= r * r) by (pose proof (Qsq_nonneg dx); pose proof (Qsq_nonneg dz); lra).
  assert (Z_ : dz * dz <= r * r) by (pose proof (Qsq_nonneg dx); pose proof (Qsq_nonneg dy); lra).
  assert (B : forall d, d * d <= r * r -> - r <= d <= r) by (intros d Hd; split; nra).
  pose proof (B dx X). pose proof (B dy Y). pose proof (B dz Z_). unfold dx, dy, dz in *. repeat split; lra.
Qed.
