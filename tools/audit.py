"""AUDIT emitter: sources of run-to-run nondeterminism in the package: calls to the clock / random / id(), and
iterations over sets whose order reaches a result (not wrapped in sorted(), not just membership)."""
import ast, os

CLOCK = {('time', 'time'), ('time', 'clock'), ('time', 'perf_counter'), ('time', 'monotonic'), ('random', None), ('os', 'urandom'),
         ('datetime', 'now'), ('uuid', None)}


def is_set_expr(e, names):
    """does the expression build a set (so that iterating it has hash order)?"""
    if isinstance(e, ast.Name):
        return e.id in names
    if isinstance(e, (ast.Set, ast.SetComp)):
        return True
    if isinstance(e, ast.Call) and isinstance(e.func, ast.Name) and e.func.id in ('set', 'frozenset'):
        return True
    if isinstance(e, ast.BinOp) and isinstance(e.op, (ast.Sub, ast.BitOr, ast.BitAnd, ast.BitXor)):
        return is_set_expr(e.left, names) or is_set_expr(e.right, names)
    if isinstance(e, ast.Call) and isinstance(e.func, ast.Attribute) and \
            e.func.attr in ('union', 'difference', 'intersection', 'symmetric_difference', 'copy'):
        return is_set_expr(e.func.value, names)
    return False


MUTATORS = {'append', 'extend', 'sort', 'reverse', 'pop', 'insert', 'remove', 'clear', 'update', 'add', 'discard', 'setdefault', 'popitem'}
# mutable-by-design internals (sweep-line events, linked lists of the boolean / earcut code, the graph class): not part of the
# value-object surface whose purity C14 states
STATE_EXCLUDED = {'boolean.py', 'triangulation.py', 'network.py'}


def state_writes(rel, tree):
    """(receiver, klass, module, argument) write lists of one file"""
    recv, klass, modst, argw = [], [], [], []
    modnames = {t.id for n in tree.body if isinstance(n, ast.Assign) for t in n.targets if isinstance(t, ast.Name)}
    classnames = {n.name for n in tree.body if isinstance(n, ast.ClassDef)}
    funcs = [(None, n) for n in tree.body if isinstance(n, ast.FunctionDef)]
    for c in [n for n in tree.body if isinstance(n, ast.ClassDef)]:
        funcs += [(c.name, m) for m in c.body if isinstance(m, ast.FunctionDef)]
    for cname, m in funcs:
        deco = [ast.unparse(d) for d in m.decorator_list]
        params = [a.arg for a in m.args.args + m.args.kwonlyargs] + ([m.args.vararg.arg] if m.args.vararg else [])
        first = params[0] if (params and cname and 'staticmethod' not in deco) else None
        pset = set(params) - ({first} if first else set())
        rebound = set()
        for n in ast.walk(m):
            tgs = n.targets if isinstance(n, ast.Assign) else ([n.target] if isinstance(n, (ast.AugAssign, ast.For)) else [])
            for t in tgs:
                for tt in ast.walk(t):
                    if isinstance(tt, ast.Name) and isinstance(tt.ctx, ast.Store):
                        rebound.add(tt.id)
        setter = any(d.endswith('.setter') for d in deco)
        public = not m.name.startswith('_')
        for n in ast.walk(m):
            if isinstance(n, ast.Global):
                modst.append((rel, cname or '', m.name, 'global ' + ','.join(n.names)))
            tgs = n.targets if isinstance(n, (ast.Assign, ast.Delete)) else ([n.target] if isinstance(n, ast.AugAssign) else [])
            writes = []
            for t in tgs:
                for tt in (t.elts if isinstance(t, ast.Tuple) else [t]):
                    b = tt
                    while isinstance(b, (ast.Subscript, ast.Attribute)):
                        b = b.value
                    if isinstance(b, ast.Name) and tt is not b:
                        writes.append((b.id, ast.unparse(tt)[:60].replace('"', "'")))
            if isinstance(n, ast.Call) and isinstance(n.func, ast.Attribute) and n.func.attr in MUTATORS and isinstance(n.func.value, ast.Name):
                writes.append((n.func.value.id, ast.unparse(n.func)[:60].replace('"', "'")))
            for base, txt in writes:
                if base == first and first == 'self':
                    if pset and m.name != '__init__' and not setter:
                        recv.append((rel, cname or '', m.name, txt))
                elif base == 'cls' or base in classnames:
                    klass.append((rel, cname or '', m.name, txt))
                elif base in pset and base not in rebound:
                    if public:
                        argw.append((rel, cname or '', m.name, base))
                elif base in modnames and base not in rebound:
                    modst.append((rel, cname or '', m.name, txt))
    return recv, klass, modst, argw


def gen_audit(root):
    clock, setit = [], []
    recv_w, class_w, mod_w, arg_w = [], [], [], []
    base = os.path.join(root, 'ladybug_geometry')
    for dp, dn, fn in os.walk(base):
        for f in sorted(fn):
            if not f.endswith('.py'):
                continue
            p = os.path.join(dp, f)
            rel = os.path.relpath(p, base)
            tree = ast.parse(open(p).read())
            if rel not in STATE_EXCLUDED:
                a_, b_, c_, d_ = state_writes(rel, tree)
                recv_w += a_; class_w += b_; mod_w += c_; arg_w += d_
            for func in [n for n in ast.walk(tree) if isinstance(n, (ast.FunctionDef, ast.Module))]:
                set_names = set()
                body_nodes = list(ast.walk(func)) if isinstance(func, ast.FunctionDef) else []
                grew = True
                while grew:         # names bound to set-valued expressions (set(), {..}, set algebra on such names), to a fixpoint
                    grew = False
                    for n in body_nodes:
                        if isinstance(n, ast.Assign) and len(n.targets) == 1 and isinstance(n.targets[0], ast.Name) \
                                and n.targets[0].id not in set_names and is_set_expr(n.value, set_names):
                            set_names.add(n.targets[0].id); grew = True
                        if isinstance(n, ast.AugAssign) and isinstance(n.target, ast.Name) and n.target.id not in set_names \
                                and is_set_expr(n.value, set_names):
                            set_names.add(n.target.id); grew = True
                for n in body_nodes:
                    if isinstance(n, ast.Call) and isinstance(n.func, ast.Attribute) and isinstance(n.func.value, ast.Name):
                        mod, attr = n.func.value.id, n.func.attr
                        if (mod, attr) in CLOCK or (mod, None) in CLOCK:
                            clock.append((rel, getattr(func, 'name', '<module>'), '%s.%s' % (mod, attr)))
                    if isinstance(n, ast.Call) and isinstance(n.func, ast.Name) and n.func.id == 'id':
                        clock.append((rel, getattr(func, 'name', '<module>'), 'id'))
                    iters = []
                    if isinstance(n, ast.For):
                        iters.append(n.iter)
                    if isinstance(n, (ast.ListComp, ast.GeneratorExp, ast.DictComp)):
                        iters += [g.iter for g in n.generators]
                    if isinstance(n, ast.Call) and isinstance(n.func, ast.Name) and n.func.id in ('list', 'tuple') and n.args:
                        iters.append(n.args[0])
                    for it in iters:
                        if is_set_expr(it, set_names):
                            setit.append((rel, func.name, ast.unparse(it)[:60].replace('"', "'")))
    L = ['(* GENERATED by tools/audit.py from %s -- do not edit. *)' % root, 'From Coq Require Import String List.',
         'Import ListNotations.', 'Open Scope string_scope.', '',
         '(* calls to the wall clock / random sources / id() anywhere in the package: (file, function, call) *)',
         'Definition clock_calls : list (string * string * string) := [%s].' % '; '.join('("%s", "%s", "%s")' % c for c in sorted(set(clock))),
         '', '(* direct iterations over a set (order would reach a result unless sorted afterwards): (file, function, iterable) *)',
         'Definition set_iterations : list (string * string * string) := [%s].' % '; '.join('("%s", "%s", "%s")' % c for c in sorted(set(setit)))]
    q4 = lambda rows: '; '.join('("%s", "%s", "%s", "%s")' % r for r in sorted(set(rows)))
    L += ['', '(* state kept between calls.  (file, class, member, target) of every assignment / in-place mutation ... *)',
          '(* ... of the RECEIVER inside a member that takes parameters (constructors and property setters excepted): a value stored there',
          '   depends on the arguments of that call and is seen by the next one *)',
          'Definition receiver_writes_in_parameterised_members : list (string * string * string * string) := [%s].' % q4(recv_w),
          '(* ... of a CLASS attribute (cls.x / ClassName.x) inside any function *)',
          'Definition class_state_writes : list (string * string * string * string) := [%s].' % q4(class_w),
          '(* ... of a MODULE-level name (global statements included) inside any function *)',
          'Definition module_state_writes : list (string * string * string * string) := [%s].' % q4(mod_w),
          '(* ... of an ARGUMENT (element / attribute assignment, in-place list method) of a public function, unless the name was re-bound',
          '   to a fresh object first; the last component is the parameter name *)',
          'Definition public_argument_writes : list (string * string * string * string) := [%s].' % q4(arg_w)]
    return '\n'.join(L) + '\n', {}


if __name__ == '__main__':
    import sys
    print(gen_audit(sys.argv[1] if len(sys.argv) > 1 else '/repo')[0])
