"""C08  point containment agrees with exact winding-number containment."""
import math
from fractions import Fraction
from .. import core, gens as G, exact as X, build as Bd
from ..core import q, v2, F
from ..build import P2, V2, P3, V3
from ladybug_geometry.geometry2d import Polygon2D
from ladybug_geometry.geometry3d import Face3D, Polyface3D

RULE = ('simple polygons (star, comb, lattice) x query points uniform over 1.5x the box, kept >=1e-6 from every edge and with no '
        'vertex on the test ray (exact predicates); on-edge queries exactly on edges / vertices and at 0.5*tol offsets; lattice '
        'polygon pairs (nested, disjoint, overlapping, edge- and corner-sharing) judged by unit-cell sets; prisms / faces in 3D. '
        'non-trivial = query inside the bounding box; distinct by (family, vertex count, true answer, method)')
ASSUMPTIONS = ['query points are in general position w.r.t. the default ray (no vertex exactly on it): certified exactly']
TRUSTED = ['parity = containment (Jordan curve theorem) is NOT proved: validated against the exact half-open winding rule']
TOL = 0.01


def vertex_on_ray(f, pt, v):
    """does some polygon vertex lie exactly on the ray pt + t v (t >= 0)?"""
    for p in f:
        d = X.sub(p, pt)
        if X.det2(v, d) == 0 and X.dot(v, d) >= 0:
            return True
    return False


def shape(rng):
    fam = rng.choice(['star', 'star', 'comb', 'lattice', 'convex', 'factory'])
    if fam == 'factory':
        # polygons as the factories build them (they may pre-set bounding data): rectangles on any base direction, regular polygons
        from ladybug_geometry.geometry2d import Vector2D
        if rng.random() < 0.7:
            hv = rng.choice([(0.0, 1.0), (1.0, 0.0), (0.0, -1.0), (-1.0, 0.0), (-1.0, 2.0), (0.6, 0.8), (0.28, -0.96), (-0.8, -0.6)])
            poly = Polygon2D.from_rectangle(P2(G.rpt2(rng, 20)), Vector2D(*hv), G.dy(rng.uniform(1, 9)), G.dy(rng.uniform(1, 9)))
        else:
            poly = Polygon2D.from_regular_polygon(rng.randint(3, 9), G.dy(rng.uniform(1, 9)), P2(G.rpt2(rng, 20)))
        return fam, [tuple(v) for v in poly.vertices], poly
    if fam == 'star': b = G.star_polygon(rng, n=rng.randint(3, 25), R=rng.choice([10.0, 1000.0]))
    elif fam == 'comb': b = G.comb_polygon(rng)
    elif fam == 'lattice': b = G.lattice_polygon(rng, w=6, h=6)[0]
    else: b = G.convex_polygon(rng)
    if rng.random() < 0.5: b = b[::-1]
    return fam, b, Polygon2D([P2(p) for p in b])


def fam_point(ctx, rng):
    fam, b, poly = shape(rng)
    f = [X.fpt(p) for p in b]
    xs = [p[0] for p in b]; ys = [p[1] for p in b]
    w, h = max(xs) - min(xs), max(ys) - min(ys)
    dv = (Fraction(1), Fraction(1, 100000))
    for _ in range(6):
        qf = (G.dy(rng.uniform(min(xs) - 0.25 * w, max(xs) + 0.25 * w), 16), G.dy(rng.uniform(min(ys) - 0.25 * h, max(ys) + 0.25 * h), 16))
        qp = X.fpt(qf)
        if X.sqdist_to_boundary(f, qp) < Fraction(1, 10 ** 12):
            continue
        inside = X.winding_inside(f, qp)
        desc = {'polygon': b, 'query': qf, 'inside': inside}
        in_box = min(xs) <= qf[0] <= max(xs) and min(ys) <= qf[1] <= max(ys)
        ctx.count('point.' + fam, key=(len(b), inside, in_box), sample=desc, nontrivial=in_box)
        pt = P2(qf)
        if not vertex_on_ray(f, qp, dv):
            for name, got in (('is_point_inside', poly.is_point_inside(pt)), ('is_point_inside_bound_rect', poly.is_point_inside_bound_rect(pt))):
                if bool(got) != inside:
                    ctx.violation('point:%s' % name, '%s=%r but the point is %s' % (name, got, 'inside' if inside else 'outside'), desc)
            rel = poly.point_relationship(pt, TOL)
            near = X.sqdist_to_boundary(f, qp) <= Fraction(TOL) ** 2
            exp = 0 if near else (1 if inside else -1)
            margin_ok = abs(math.sqrt(float(X.sqdist_to_boundary(f, qp))) - TOL) > 1e-9
            if margin_ok and rel != exp:
                ctx.violation('point:point_relationship', 'point_relationship=%r expected %r' % (rel, exp), desc)
            d = poly.distance_to_point(pt)
            if inside and d != 0:
                ctx.violation('point:distance_inside', 'distance_to_point=%r for an interior point' % d, desc)
        if not vertex_on_ray(f, qp, (Fraction(1), Fraction(0))) and not vertex_on_ray(f, qp, (Fraction(0), Fraction(1))):
            got = poly.is_point_inside_check(pt)
            if bool(got) != inside:
                ctx.violation('point:is_point_inside_check', 'is_point_inside_check=%r but the point is %s' % (got, 'inside' if inside else 'outside'), desc)
        # any test direction in general position
        tv = G.rvec2(rng, 5)
        if not vertex_on_ray(f, qp, X.fpt(tv)):
            got = poly.is_point_inside(pt, V2(tv))
            if bool(got) != inside:
                ctx.violation('point:is_point_inside_direction', 'direction %r: %r but the point is %s' % (tv, got, 'inside' if inside else 'outside'), dict(desc, direction=tv))


def fam_on_edge(ctx, rng):
    fam, b, poly = shape(rng)
    i = rng.randrange(len(b))
    a, c = b[i - 1], b[i]
    mode = rng.choice(['vertex', 'edge', 'offset_in', 'offset_out'])
    t = Fraction(rng.randint(1, 15), 16)
    pt = (a[0] + float(t) * (c[0] - a[0]), a[1] + float(t) * (c[1] - a[1]))
    if mode == 'vertex':
        pt = c
    elif mode.startswith('offset'):
        ex, ey = c[0] - a[0], c[1] - a[1]
        L = math.hypot(ex, ey)
        s = 0.5 * TOL * (1 if mode == 'offset_in' else -1)
        pt = (pt[0] - ey / L * s, pt[1] + ex / L * s)
    desc = {'polygon': b, 'query': pt, 'mode': mode}
    ctx.count('on_edge.' + mode, key=(fam, len(b)), sample=desc)
    rel = poly.point_relationship(P2(pt), TOL)
    if rel != 0:
        ctx.violation('on_edge:%s' % mode, 'point_relationship=%r for a point %s' % (rel, 'on a vertex' if mode == 'vertex' else 'within 0.5 tol of an edge'), desc)
    if not poly.is_point_on_edge(P2(pt), TOL):
        ctx.violation('on_edge:is_point_on_edge:%s' % mode, 'is_point_on_edge False', desc)


def fam_polygon_rel(ctx, rng):
    from .C04 import lattice_pair
    lp = lattice_pair(rng)
    if lp is None:
        return
    mode, ca, cb, la, lb = lp
    a, b = Polygon2D([P2(p) for p in la]), Polygon2D([P2(p) for p in lb])
    if cb <= ca:
        exp = 1
    elif not (ca & cb):
        exp = -1
    else:
        exp = 0
    desc = {'a': la, 'b': lb, 'relation': mode, 'expected': exp}
    ctx.count('polygon_rel.' + mode, key=(exp, len(ca), len(cb)), sample=desc)
    got = a.polygon_relationship(b, TOL)
    if got != exp:
        ctx.violation('polygon_relationship:%s:expected_%d' % (mode, exp), 'polygon_relationship=%r expected %r' % (got, exp), desc)
    # closed regions meet: share a cell, an edge or a corner
    def corners(cs):
        return {(i + dx, j + dy) for i, j in cs for dx in (0, 1) for dy in (0, 1)}
    touch = bool(corners(ca) & corners(cb))
    gt = a.does_polygon_touch(b, TOL)
    if bool(gt) != touch:
        ctx.violation('does_polygon_touch:%s' % mode, 'does_polygon_touch=%r expected %r' % (gt, touch), desc)
    # the relation is symmetric: asked from the other polygon (e.g. from the inner one of a nested pair) the answer is the same
    gt2 = b.does_polygon_touch(a, TOL)
    if bool(gt2) != touch:
        ctx.violation('does_polygon_touch:%s:swapped' % mode, 'b.does_polygon_touch(a)=%r expected %r' % (gt2, touch), desc)
    # and the relationship seen from b
    exp_b = 1 if ca <= cb else (-1 if not (ca & cb) else 0)
    got_b = b.polygon_relationship(a, TOL)
    if got_b != exp_b:
        ctx.violation('polygon_relationship:%s:swapped:expected_%d' % (mode, exp_b), 'b.polygon_relationship(a)=%r expected %r' % (got_b, exp_b), desc)
    if exp == 1 and not a.is_polygon_inside(b) and mode == 'nested':
        ctx.violation('is_polygon_inside:nested', 'strictly nested polygon not reported inside', desc)
    if mode == 'disjoint' and not a.is_polygon_outside(b):
        ctx.violation('is_polygon_outside:disjoint', 'disjoint polygon not reported outside', desc)


def fam_3d(ctx, rng):
    # face: point in the face plane
    face = Bd.face3d(rng, nholes=rng.choice([0, 1, 2]))
    pl = face.plane
    b2 = [X.fpt(pl.xyz_to_xy(p)) for p in face.boundary]
    h2 = [[X.fpt(pl.xyz_to_xy(p)) for p in h] for h in (face.holes or ())]
    xs = [float(p[0]) for p in b2]; ys = [float(p[1]) for p in b2]
    queries = [(rng.uniform(min(xs) - 2, max(xs) + 2), rng.uniform(min(ys) - 2, max(ys) + 2)) for _ in range(4)]
    for h in h2:
        # points in and around every hole (the hole centroid region and just outside its edges)
        cx = float(sum(p[0] for p in h) / len(h)); cy = float(sum(p[1] for p in h) / len(h))
        queries.append((cx + rng.uniform(-0.05, 0.05), cy + rng.uniform(-0.05, 0.05)))
        k = rng.randrange(len(h)); vx, vy = float(h[k][0]), float(h[k][1])
        queries.append((cx + 1.6 * (vx - cx), cy + 1.6 * (vy - cy)))
    for q2 in queries:
        fq = X.fpt(q2)
        inside = X.region_contains(b2, h2, fq)
        clear = min([X.sqdist_to_boundary(b2, fq)] + [X.sqdist_to_boundary(h, fq) for h in h2]) > Fraction(4 * TOL * TOL)
        if inside is None or not clear:
            continue
        p3 = pl.xy_to_xyz(P2(q2))
        got = face.is_point_on_face(p3, TOL)
        in_hole = any(X.winding_inside(h, fq) for h in h2)
        desc = {'face': face.to_dict(), 'point': tuple(p3), 'inside': inside}
        ctx.count('face.is_point_on_face', key=(inside, len(h2), in_hole), sample=desc)
        if bool(got) != inside:
            ctx.violation('face:is_point_on_face:%s' % ('in_hole' if in_hole else ('holes' if h2 else 'plain')),
                          'is_point_on_face=%r but the point is %s the face' % (got, 'on' if inside else 'off'), desc)
        # the flipped face (and a moved / rotated copy made after the face answered) is the same point set
        for nm, fc in (('flip', face.flip()), ('flip_flip', face.flip().flip())):
            g2 = fc.is_point_on_face(p3, TOL)
            if bool(g2) != inside:
                ctx.violation('face:is_point_on_face:%s:%s' % (nm, 'holes' if h2 else 'plain'),
                              'on the %s of the face is_point_on_face=%r but the point is %s the face' % (nm, g2, 'on' if inside else 'off'), desc)
                break
        # a point off the plane is never on the face
        n = face.normal
        off = P3((p3.x + n.x, p3.y + n.y, p3.z + n.z))
        if face.is_point_on_face(off, TOL):
            ctx.violation('face:is_point_on_face:off_plane', 'point one unit off the plane reported on the face', desc)
    # solid
    from .C07 import solid_faces
    fam, faces, ip = solid_faces(rng)
    pf = Polyface3D.from_faces(faces, TOL)
    c = pf.center
    far = P3((pf.max.x + 5 + rng.uniform(0, 3), c.y + rng.uniform(-1, 1), c.z + rng.uniform(-1, 1)))
    desc = {'family': fam, 'faces': [f.to_dict() for f in faces], 'inside_point': ip}
    ctx.count('solid.is_point_inside', key=fam, sample={'family': fam})
    if not pf.is_point_inside(P3(ip)):
        ctx.violation('solid:inside_missed', 'interior point reported outside', desc)
    if pf.is_point_inside(far):
        ctx.violation('solid:outside_reported_inside', 'far point %r reported inside' % (far,), desc)
    tv = G.rvec3(rng, 3)
    if not pf.is_point_inside(P3(ip), V3(tv)):
        ctx.violation('solid:inside_missed_direction', 'interior point reported outside for direction %r' % (tv,), dict(desc, direction=tv))


FAMILIES = [(fam_point, 60), (fam_on_edge, 40), (fam_polygon_rel, 50), (fam_3d, 30)]


def explore(ctx):
    for fn, n in FAMILIES:
        for _ in range(ctx.n(n, n * 10)):
            fn(ctx, ctx.rng)


def replay(ctx, data):
    kind = data.get('kind', '')
    c2 = core.Ctx(ctx.pid, 'quick', 23)
    for fn, _ in FAMILIES:
        for _ in range(2500):
            fn(c2, c2.rng)
            if any(v.kind == kind for v in c2.violations):
                return True
    return False


def correspond(ctx):
    """generated is_point_inside / bound_rect / point_relationship models vs implementation on lattice polygons"""
    rng = ctx.rng
    cases, meta = [], []
    for _ in range(ctx.n(120, 900)):
        loop = G.lattice_polygon(rng, w=5, h=5)[0] if rng.random() < 0.6 else G.star_polygon(rng, n=rng.randint(3, 9), R=8.0)
        poly = Polygon2D([P2(p) for p in loop])
        L = '(mkPolygon2 %s)' % core.coq_list([v2(p) for p in loop])
        pt = (rng.randint(-2, 14) / 2.0 + 0.25, rng.randint(-2, 14) / 2.0 + 0.125)
        tv = (1.0, 0.00001)
        r = poly.is_point_inside(P2(pt))
        cases.append('Bool.eqb (Polygon2D_is_point_inside %s %s (mkV2 1 (1 # 100000))) %s' % (L, v2(pt), core.coq_bool(r)))
        meta.append(('is_point_inside', loop, pt))
        r = poly.is_point_inside_bound_rect(P2(pt))
        cases.append('Bool.eqb (Polygon2D_is_point_inside_bound_rect %s %s (mkV2 1 (1 # 100000))) %s' % (L, v2(pt), core.coq_bool(r)))
        meta.append(('is_point_inside_bound_rect', loop, pt))
        r = poly.point_relationship(P2(pt), 0.01)
        cases.append('Z.eqb (Polygon2D_point_relationship qsqrt_exec %s %s (1 # 100)) (%d)%%Z' % (L, v2(pt), r))
        meta.append(('point_relationship', loop, pt))
    res = core.run_cases('C08_corr', ['Base', 'G0_vec', 'G1_shapes', 'G2_inter', 'G3_poly', 'G7_contain'], '', cases)
    ctx.corr_cases += len(cases)
    for ok, m in zip(res, meta):
        if ok is not True:
            ctx.corr_fail.append({'function': 'Polygon2D.' + m[0], 'input': repr(m[1:]),
                                  'result': 'model and implementation differ' if ok is False else 'model evaluation failed'})
