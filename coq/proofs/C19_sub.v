(* C19: offsets, perimeter quads, scaling about a centre, sub-rectangle layouts (about model/SubOffset.v and gen/G3_poly.v). *)
From LBG Require Import Base QGeom ListCyc G0_vec G1_shapes G2_inter G3_poly C02_kernels C01_area SubOffset.
Open Scope Q_scope.

(* ---------------------------------------------------------------- (1) offset vertex *)
(* signed distances (left of the direction of travel positive) of the moved vertex from the two adjacent edge lines.
   u1 = unit vector from the vertex to the previous vertex, u2 = rotm (rotm u1) = unit vector to the next vertex
   (clockwise from u1 by twice the half angle): previous edge travels along -u1, next edge along u2. *)
Theorem offset_move_distance u1 c s d : dot2 u1 u1 == 1 -> c * c + s * s == 1 -> ~ s == 0 ->
  let m := offset_move u1 c s d in
  let u2 := rotm c s (rotm c s u1) in
  det2 m u1 == d /\ det2 u2 m == d /\ dot2 u2 u2 == 1.
Proof.
  intros U CS S. cbv zeta. unfold offset_move, rotm, smul2, det2, dot2 in *. vred.
  set (x := v2x u1) in *. set (y := v2y u1) in *.
  repeat split.
  - transitivity ((d / s) * (s * (x * x + y * y))); [field; exact S| rewrite U; field; exact S].
  - transitivity ((d / s) * (s * ((c * c + s * s) * (x * x + y * y)))); [field; exact S| rewrite U, CS; field; exact S].
  - transitivity ((c * c + s * s) * (c * c + s * s) * (x * x + y * y)); [ring| rewrite U, CS; ring].
Qed.

(* the moved vertex is on the inner side: both distances have the sign of d, and for a convex corner (s > 0, 0 < 2a < pi)
   the move has a positive component along the bisector *)

(* ---------------------------------------------------------------- (2) perimeter quads *)
Lemma Qsum_cons x l : Qsum (x :: l) == x + Qsum l.
Proof.
  unfold Qsum. cbn [fold_left]. assert (G : forall l a, fold_left Qplus l a == a + fold_left Qplus l 0).
  { clear. induction l as [|y r IH]; intros a; cbn [fold_left]; [ring|]. rewrite IH, (IH (0 + y)). ring. }
  rewrite G. ring.
Qed.

Lemma segs_sum {A} (f : A -> A -> Q) (l : list A) :
  Qsum (map (fun p => f (fst p) (snd p)) (segs l)) == cyc_sum f l.
Proof.
  destruct l as [|x r]; [reflexivity|]. unfold segs, cyc_sum.
  assert (G : forall (l : list A) a z, Qsum (map (fun p => f (fst p) (snd p)) (combine (a :: l) (l ++ [z])))
                                        == path_sum f (a :: l) + f (last (a :: l) a) z).
  { induction l as [|b l IH]; intros a z.
    - cbn. unfold Qsum. cbn. ring.
    - change (combine (a :: b :: l) ((b :: l) ++ [z])) with ((a, b) :: combine (b :: l) (l ++ [z])).
      cbn [map fst snd]. rewrite Qsum_cons, IH. rewrite path_sum_cons.
      change (last (a :: b :: l) a) with (last (b :: l) a). rewrite (last_indep (b :: l) a b) by discriminate. ring. }
  rewrite G. ring.
Qed.

Definition gdet (x : V2 * V2) : Q := det2 (fst x) (snd x).

Lemma quad_shoelace x y :
  shoelace2 (quad x y) == det2 (fst x) (fst y) - det2 (snd x) (snd y) + (gdet y - gdet x).
Proof. unfold shoelace2, quad, cyc_sum, gdet, det2. cbn. ring. Qed.

(* the perimeter quads and the inner loop tile the outer loop: signed areas add up, for every pair of n-gons *)
Theorem quads_partition (L : list (V2 * V2)) :
  Qsum (map shoelace2 (quads L)) + shoelace2 (map snd L) == shoelace2 (map fst L).
Proof.
  unfold quads. rewrite map_map.
  rewrite (segs_sum (fun x y => shoelace2 (quad x y)) L).
  rewrite (cyc_sum_ext _ (fun x y => (det2 (fst x) (fst y) + (-1) * det2 (snd x) (snd y)) + (gdet y - gdet x))) by
    (intros a b; rewrite quad_shoelace; ring).
  rewrite cyc_sum_plus, cyc_sum_telescope, cyc_sum_plus, cyc_sum_scale.
  unfold shoelace2. rewrite (cyc_sum_map det2 fst L), (cyc_sum_map det2 snd L). ring.
Qed.

(* ---------------------------------------------------------------- scaling about a centre *)
Definition orient2 (a b p : V2) : Q := det2 (sub2 b a) (sub2 p a).
Definition scale_about (k : Q) (c p : V2) : V2 := add2 c (smul2 k (sub2 p c)).

Lemma orient_scale a b c p k : orient2 a b (scale_about k c p) == (1 - k) * orient2 a b c + k * orient2 a b p.
Proof. unfold orient2, scale_about, det2, sub2, add2, smul2. vred. ring. Qed.

(* a point scaled towards a centre stays in every half-plane that contains both: convex parents contain their scaled copy *)
Theorem scale_stays_in_halfplane a b c p k : 0 <= k -> k <= 1 -> 0 <= orient2 a b c -> 0 <= orient2 a b p ->
  0 <= orient2 a b (scale_about k c p).
Proof. intros K0 K1 Hc Hp. rewrite orient_scale. nra. Qed.

Theorem scale_strictly_inside a b c p k : 0 <= k -> k < 1 -> 0 < orient2 a b c -> 0 <= orient2 a b p ->
  0 < orient2 a b (scale_about k c p).
Proof. intros K0 K1 Hc Hp. rewrite orient_scale. nra. Qed.

(* area: the generated Polygon2D.scale multiplies the shoelace sum by k*k, so k*k == ratio gives ratio times the area *)
Theorem scale_area_ratio p k o ratio : k * k == ratio ->
  shoelace2 (pg_vertices (Polygon2D_scale p k o)) == ratio * shoelace2 (pg_vertices p).
Proof. intros H. rewrite polygon_scale_area, H. reflexivity. Qed.

(* per-triangle scaling: pieces scaled by k about any centres have areas totalling k*k times the total *)
Theorem pieces_scaled_total (areas : list Q) k : Qsum (map (fun a => k * k * a) areas) == k * k * Qsum areas.
Proof.
  induction areas as [|a r IH]; [unfold Qsum; cbn; ring|]. cbn [map]. rewrite !Qsum_cons, IH. ring.
Qed.

(* ---------------------------------------------------------------- (3) sub-rectangle layouts *)
Lemma py_round_ge1 x : 1 # 2 < x -> (1 <= py_round x)%Z.
Proof.
  intros H. unfold py_round. cbv zeta.
  pose proof (Qfloor_le x) as F1. pose proof (Qlt_floor x) as F2.
  assert (F0 : (0 <= Qfloor x)%Z).
  { destruct (Z_lt_le_dec (Qfloor x) 0) as [N|N]; [|exact N]. exfalso.
    assert (E : inject_Z (Qfloor x + 1) <= inject_Z 0) by (rewrite <- Zle_Qle; lia). change (inject_Z 0) with 0 in E. lra. }
  destruct (Z.eq_dec (Qfloor x) 0) as [Z0|NZ].
  - rewrite Z0 in *. cbn [inject_Z] in *.
    assert (R1 : Qlt_bool (x - 0) (1 # 2) = false) by (apply Qlt_bool_false_iff; lra).
    assert (R2 : Qlt_bool (1 # 2) (x - 0) = true) by (apply Qlt_bool_iff; lra).
    change (inject_Z 0) with 0. rewrite R1, R2. lia.
  - destruct (Qlt_bool _ _); [lia|]. destruct (Qlt_bool _ _); [lia|]. destruct (Z.even _); lia.
Qed.

Lemma inject_Z_pos n : (1 <= n)%Z -> 0 < inject_Z n.
Proof. intros H. change 0 with (inject_Z 0). rewrite <- Zlt_Qlt. lia. Qed.

Section Ratio.
Variables base height ratio srh0 sill0 hsep vsep0 : Q.
Hypothesis Hb : 0 < base.
Hypothesis Hh : 0 < height.
Hypothesis Hr : 0 < ratio.
Hypothesis Hs : 0 < srh0.
Hypothesis Hp : 0 < hsep.

Let L := rects_ratio base height ratio srh0 sill0 hsep vsep0.

Lemma ncols_pos : (1 <= (if Qlt_bool (hsep / 2) base then py_round (base / hsep) else 1%Z))%Z.
Proof.
  destruct (Qlt_bool (hsep / 2) base) eqn:E; [|lia]. apply Qlt_bool_iff in E. apply py_round_ge1.
  apply Qlt_shift_div_l; [exact Hp|]. assert (X : hsep / 2 == hsep * (1 # 2)) by field. rewrite X in E. lra.
Qed.

Lemma srh_pos : 0 < (if Qlt_bool ((98 # 100) * height) srh0 then (98 # 100) * height else srh0).
Proof. destruct (Qlt_bool _ _); lra. Qed.

(* the rectangles' areas total ratio times the parent area: every branch *)
Theorem rects_ratio_total_area : layout_area L == ratio * base * height.
Proof.
  unfold L, rects_ratio. cbv zeta.
  pose proof ncols_pos as N. pose proof srh_pos as S.
  set (n := if Qlt_bool (hsep / 2) base then py_round (base / hsep) else 1%Z) in *.
  set (srh := if Qlt_bool ((98 # 100) * height) srh0 then (98 # 100) * height else srh0) in *.
  pose proof (inject_Z_pos n N) as NQ.
  destruct (Qlt_bool (base * height * ratio) (base * (98 # 100) * srh0)).
  - destruct (Qeq_bool (clamp_vsep _ _) 0); unfold layout_area; cbn [cols rows lw lh];
      change (inject_Z 1) with 1; change (inject_Z 2) with 2; field; split; lra.
  - destruct (Qeq_bool (clamp_vsep _ _) 0); unfold layout_area; cbn [cols rows lw lh];
      change (inject_Z 1) with 1; change (inject_Z 2) with 2; field; lra.
Qed.
End Ratio.

Section RatioInside.
Variables base height ratio srh0 sill0 hsep vsep0 : Q.
Hypothesis Hb : 0 < base.
Hypothesis Hh : 0 < height.
Hypothesis Hr : 0 < ratio.
Hypothesis Hr95 : ratio <= 95 # 100.      (* documented range of the ratio *)
Hypothesis Hs : 0 < srh0.
Hypothesis Hp : 0 < hsep.

Let L := rects_ratio base height ratio srh0 sill0 hsep vsep0.

Lemma clamp_vsep_range v m : 0 <= clamp_vsep v m /\ (~ clamp_vsep v m == 0 -> clamp_vsep v m <= m).
Proof.
  unfold clamp_vsep. destruct (Qeq_bool v 0) eqn:E0; [split; [lra| intros X; exfalso; apply X; reflexivity]|].
  destruct (Qlt_bool v 0) eqn:E1; cbn [orb]; [split; [lra| intros X; exfalso; apply X; reflexivity]|].
  destruct (Qlt_bool m 0) eqn:E2; [split; [lra| intros X; exfalso; apply X; reflexivity]|].
  apply Qlt_bool_false_iff in E1, E2.
  destruct (Qlt_bool m v) eqn:E3; [split; [exact E2| intros _; lra]|]. apply Qlt_bool_false_iff in E3. split; [exact E1| intros _; exact E3].
Qed.

Lemma div_le_of_le_mul a b c : 0 < b -> a <= c * b -> a / b <= c.
Proof. intros B H. apply Qle_shift_div_r; [exact B| exact H]. Qed.

Lemma half x : x / 2 == x * (1 # 2).
Proof. field. Qed.

Lemma inject_Z_pred n : inject_Z (n - 1) == inject_Z n - 1.
Proof. unfold Z.sub. rewrite inject_Z_plus. reflexivity. Qed.

(* the whole array lies inside the parent rectangle, columns and rows do not overlap: every branch, every parameter value *)
Theorem rects_ratio_inside :
  (0 <= layout_left L /\ layout_right L <= base /\ 0 <= layout_bottom L /\ layout_top L <= height) /\
  (lw L <= pitch L \/ cols L = 1%Z) /\ ((rows L = 1%Z) \/ (rows L = 2%Z /\ lh L <= rpitch L)).
Proof.
  unfold L, rects_ratio. cbv zeta.
  pose proof (ncols_pos base hsep Hp) as N. pose proof (srh_pos height srh0 Hh Hs) as S.
  set (n := if Qlt_bool (hsep / 2) base then py_round (base / hsep) else 1%Z) in *.
  set (srh := if Qlt_bool ((98 # 100) * height) srh0 then (98 # 100) * height else srh0) in *.
  set (sill := if Qlt_bool sill0 ((1 # 100) * height) then (1 # 100) * height else sill0).
  assert (SL : (1 # 100) * height <= sill).
  { unfold sill. destruct (Qlt_bool sill0 _) eqn:E; [lra| apply Qlt_bool_false_iff in E; exact E]. }
  assert (SH : srh <= (98 # 100) * height).
  { unfold srh. destruct (Qlt_bool _ srh0) eqn:E; [lra| apply Qlt_bool_false_iff in E; exact E]. }
  assert (BH : 0 < base * height) by nra.
  pose proof (inject_Z_pos n N) as NQ. set (nq := inject_Z n) in *.
  destruct (Qlt_bool (base * height * ratio) (base * (98 # 100) * srh0)) eqn:T.
  - apply Qlt_bool_iff in T.
    set (W := base * height * ratio / srh).
    assert (K : W <= (98 # 100) * base).
    { unfold W. apply div_le_of_le_mul; [exact S|]. unfold srh. destruct (Qlt_bool _ srh0); nra. }
    set (segw := base / nq). set (w := W / nq).
    assert (E1 : nq * segw == base) by (unfold segw; field; lra).
    assert (D : w <= segw).
    { unfold w, segw. unfold Qdiv. apply Qmult_le_compat_r; [lra|]. apply Qlt_le_weak, Qinv_lt_0_compat; exact NQ. }
    assert (SW : 0 < segw) by (unfold segw; apply Qlt_shift_div_l; [exact NQ| lra]).
    set (msh := height * (99 # 100) - srh).
    set (sy := if Qlt_bool sill msh then sill else msh).
    assert (SY : (1 # 100) * height <= sy /\ sy <= sill /\ sy <= msh).
    { unfold sy. destruct (Qlt_bool sill msh) eqn:E; [apply Qlt_bool_iff in E| apply Qlt_bool_false_iff in E]; unfold msh in *; repeat split; lra. }
    destruct SY as (SY1 & SY2 & SY3).
    pose proof (clamp_vsep_range vsep0 (height - sill - srh - (2 # 100) * height)) as [V0 V1].
    set (vs := clamp_vsep vsep0 (height - sill - srh - (2 # 100) * height)) in *.
    assert (RGT : segw / 2 + (nq - 1) * segw + w / 2 <= base).
    { assert (X : (nq - 1) * segw == base - segw) by (rewrite <- E1; ring). rewrite X, !half. lra. }
    destruct (Qeq_bool vs 0) eqn:EV.
    + unfold layout_left, layout_right, layout_bottom, layout_top. cbn [cols rows lw lh c0 pitch y0 rpitch].
      fold nq. rewrite inject_Z_pred. fold nq. change (inject_Z (1 - 1)) with 0. unfold msh in *. rewrite ?half in *.
      split; [split; [lra| split; [exact RGT| split; lra]]| split; [left; exact D| left; reflexivity]].
    + apply Qeq_bool_false_iff in EV. specialize (V1 EV).
      unfold layout_left, layout_right, layout_bottom, layout_top. cbn [cols rows lw lh c0 pitch y0 rpitch].
      rewrite inject_Z_pred. fold nq. change (inject_Z (2 - 1)) with 1. unfold msh in *. rewrite ?half in *.
      split; [split; [lra| split; [exact RGT| split; lra]]| split; [left; exact D| right; split; [reflexivity| lra]]].
  - apply Qlt_bool_false_iff in T.
    set (ht := base * height * ratio / (base * (98 # 100))).
    assert (HT : ht <= (97 # 100) * height) by (unfold ht; apply div_le_of_le_mul; nra).
    assert (HT0 : 0 < ht) by (unfold ht; apply Qlt_shift_div_l; nra).
    set (msh := height * (99 # 100) - ht).
    set (sy := if Qlt_bool sill msh then sill else msh).
    assert (SY : (1 # 100) * height <= sy /\ sy <= sill /\ sy <= msh).
    { unfold sy. destruct (Qlt_bool sill msh) eqn:E; [apply Qlt_bool_iff in E| apply Qlt_bool_false_iff in E]; unfold msh in *; repeat split; lra. }
    destruct SY as (SY1 & SY2 & SY3).
    pose proof (clamp_vsep_range vsep0 (height - sill - ht - (2 # 100) * height)) as [V0 V1].
    set (vs := clamp_vsep vsep0 (height - sill - ht - (2 # 100) * height)) in *.
    destruct (Qeq_bool vs 0) eqn:EV.
    + unfold layout_left, layout_right, layout_bottom, layout_top. cbn [cols rows lw lh c0 pitch y0 rpitch].
      change (inject_Z (1 - 1)) with 0. unfold msh in *. rewrite ?half in *.
      split; [repeat split; lra| split; [right; reflexivity| left; reflexivity]].
    + apply Qeq_bool_false_iff in EV. specialize (V1 EV).
      unfold layout_left, layout_right, layout_bottom, layout_top. cbn [cols rows lw lh c0 pitch y0 rpitch].
      change (inject_Z (1 - 1)) with 0. change (inject_Z (2 - 1)) with 1. unfold msh in *. rewrite ?half in *.
      split; [repeat split; lra| split; [right; reflexivity| right; split; [reflexivity| lra]]].
Qed.
End RatioInside.
