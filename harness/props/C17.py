"""C17  curve parametrisation, subdivision and splitting are exact."""
import math
from fractions import Fraction
from .. import core, gens as G, exact as X, build as Bd
from ..core import q, F
from ..build import P2, V2, P3, V3
from ladybug_geometry.geometry2d import LineSegment2D, Arc2D, Polyline2D, Ray2D
from ladybug_geometry.geometry3d import LineSegment3D, Arc3D, Polyline3D, Plane

RULE = ('random segments / arcs (every start/end pair incl. wrap-around and circles) / polylines; n over 1..500 (all n in thorough, '
        'a stratified sample in quick); distance lists of 1..5 entries; cutting planes/lines through the interior, end points, '
        'tangent and missing; distinct by (curve class, n or angle bucket, cut configuration)')
ASSUMPTIONS = []
TRUSTED = ['FloatLoops.v models the accumulating-parameter loops bit-exactly in PrimFloat (IEEE binary64); the finite domain '
           'n in 1..500 is enumerated completely by vm_compute']


def curve(rng):
    k = rng.choice(['seg2', 'seg3', 'arc2', 'arc3'])
    if k == 'seg2': return k, LineSegment2D(P2(G.rpt2(rng, 100)), V2(G.rvec2(rng, 50)))
    if k == 'seg3': return k, LineSegment3D(P3(G.rpt3(rng, 100)), V3(G.rvec3(rng, 50)))
    a1, a2 = Bd.arc_angles(rng)
    r = G.dy(rng.uniform(0.5, 30)) if rng.random() < 0.65 else G.dy(rng.uniform(100, 8000))      # also arcs of building / site size
    if k == 'arc2': return k, Arc2D(P2(G.rpt2(rng, 100)), r, a1, a2)
    return k, Arc3D(Bd.plane(rng), r, a1, a2)


def dist(a, b):
    return math.sqrt(sum((x - y) ** 2 for x, y in zip(a, b)))


def arc_geom(c):
    """(centre, radius) and a function point -> (on circle?, arc-length position from the start)"""
    return None


def on_curve_fraction(k, c, pt, t, sc):
    """is pt the point at arc-length fraction t?"""
    if k.startswith('seg'):
        e = tuple(c.p[i] + t * c.v[i] for i in range(len(tuple(c.p))))
        return dist(e, tuple(pt)) <= 1e-9 * sc
    # arc: on the circle and at angle a1 + t*span (span = ccw sweep)
    if k == 'arc2':
        ctr, r, a1, a2 = tuple(c.c), c.r, c.a1, c.a2
        span = (a2 - a1) % (2 * math.pi) or 2 * math.pi
        ang = a1 + t * span
        e = (ctr[0] + r * math.cos(ang), ctr[1] + r * math.sin(ang))
        return dist(e, tuple(pt)) <= 1e-9 * sc
    pl = c.plane
    span = (c.a2 - c.a1) % (2 * math.pi) or 2 * math.pi
    ang = c.a1 + t * span
    e2 = (c.radius * math.cos(ang), c.radius * math.sin(ang))
    e = tuple(pl.o[i] + e2[0] * pl.x[i] + e2[1] * pl.y[i] for i in range(3))
    return dist(e, tuple(pt)) <= 1e-9 * sc


def scale_of(c):
    pts = [c.p1, c.p2]
    return max(1.0, max(abs(x) for p in pts for x in p), c.length)


def fam_point_at(ctx, rng):
    k, c = curve(rng)
    t = rng.choice([0.0, 1.0, rng.random(), rng.random()])
    pt = c.point_at(t)
    desc = {'curve': c.to_dict(), 't': t}
    ctx.count('point_at.' + k, key=(round(t, 1),), sample=desc)
    if not on_curve_fraction(k, c, pt, t, scale_of(c)):
        inv = ':inverted' if k.startswith('arc') and c.a2 < c.a1 else ''
        ctx.violation('point_at:%s%s' % (k, inv), 'point_at(%r)=%r is not at arc-length fraction t' % (t, pt), desc)
    L = c.length
    pl = c.point_at_length(L * t)
    if dist(tuple(pl), tuple(pt)) > 1e-9 * scale_of(c) or not on_curve_fraction(k, c, pl, t, 10 * scale_of(c)):
        ctx.violation('point_at_length:%s' % k, 'point_at_length(L*t)=%r is not the point at arc-length fraction t=%r (point_at gives %r)' % (pl, t, pt), desc)


def fam_evenly(ctx, rng, n=None):
    k, c = curve(rng)
    n = n or rng.choice([1, 2, 3, 5, 7, 9, 10, 11, 18, 20, 21, 25, 49, 100, 250, 499, 500, rng.randint(1, 500)])
    pts = c.subdivide_evenly(n)
    desc = {'curve': c.to_dict(), 'n': n}
    ctx.count('evenly.' + k, key=n, sample=desc)
    sc = scale_of(c)
    if len(pts) != n + 1:
        ctx.violation('subdivide_evenly:%s:count' % k, 'subdivide_evenly(%d) returned %d points' % (n, len(pts)), desc); return
    if dist(tuple(pts[0]), tuple(c.p1)) > 1e-9 * sc or dist(tuple(pts[-1]), tuple(c.p2)) > 1e-7 * sc:
        ctx.violation('subdivide_evenly:%s:ends' % k, 'first/last point are not the end points (last is %.3g away)' % dist(tuple(pts[-1]), tuple(c.p2)), desc); return
    for i, p in enumerate(pts):
        if not on_curve_fraction(k, c, p, i / n, sc * 100 if False else sc) and dist(tuple(p), tuple(c.point_at(min(1.0, i / n)))) > 1e-7 * sc:
            ctx.violation('subdivide_evenly:%s:spacing' % k, 'point %d of %d is not at fraction %r' % (i, n, i / n), desc); return
    if k.startswith('arc') and n >= 2:      # a polyline needs 3 vertices: to_polyline(1) is outside the library's domain
        pl = c.to_polyline(n)
        if len(pl.vertices) != n + 1:
            ctx.violation('to_polyline:%s:count' % k, 'to_polyline(%d) has %d segments' % (n, len(pl.vertices) - 1), desc); return
        ctr = tuple(c.c); r = c.r if k == 'arc2' else c.radius
        for v in pl.vertices:
            if abs(dist(tuple(v), ctr) - r) > 1e-9 * sc:
                ctx.violation('to_polyline:%s:off_arc' % k, 'polyline vertex %r is not on the arc' % (v,), desc); return
        # asked again on the same arc with other division counts (and the other flag): each answer has its own count, evenly spaced
        for n2, interp in ((rng.choice([2, 3, 4, 6, 12, 30]), False), (n, True), (rng.choice([2, 5, 8, 16]), True), (n, False)):
            pl2 = c.to_polyline(n2, interp)
            if len(pl2.vertices) != n2 + 1 or pl2.interpolated is not interp:
                ctx.violation('to_polyline:%s:repeated' % k, 'after to_polyline(%d), to_polyline(%d, %r) on the same arc has %d segments, interpolated=%r' % (
                    n, n2, interp, len(pl2.vertices) - 1, pl2.interpolated), dict(desc, n2=n2)); return
            for i, v in enumerate(pl2.vertices):
                if dist(tuple(v), tuple(c.point_at(min(1.0, i / n2)))) > 1e-7 * sc:
                    ctx.violation('to_polyline:%s:repeated' % k, 'to_polyline(%d) vertex %d is not at fraction %d/%d' % (n2, i, i, n2), dict(desc, n2=n2)); return


def fam_subdivide(ctx, rng):
    k, c = curve(rng)
    L = c.length
    m = rng.randint(1, 5)
    ds = [G.dy(L * rng.uniform(0.05, 0.6)) or 0.5 for _ in range(m)]
    pts = c.subdivide(ds if m > 1 or rng.random() < 0.5 else ds[0])
    desc = {'curve': c.to_dict(), 'distances': ds}
    ctx.count('subdivide.' + k, key=(m,), sample=desc)
    # expected cumulative distances: d0, d0+d1, ..., then the last one repeated
    exp = []
    acc = ds[0]; i = 0
    while acc < L - 1e-12 * L:
        exp.append(acc)
        if i < len(ds) - 1:
            i += 1
        acc += ds[i]
    sc = scale_of(c)
    # borderline: cumulative distance equal to the length up to rounding
    near = any(abs(a - L) < 1e-9 * L for a in exp + [acc])
    if near:
        return
    if len(pts) != len(exp) + 2:
        ctx.violation('subdivide:%s:count' % k, 'expected %d points, got %d' % (len(exp) + 2, len(pts)), desc); return
    if dist(tuple(pts[0]), tuple(c.p1)) > 1e-9 * sc or dist(tuple(pts[-1]), tuple(c.p2)) > 1e-9 * sc:
        ctx.violation('subdivide:%s:ends' % k, 'first/last are not the end points', desc); return
    for e, p in zip(exp, pts[1:-1]):
        if not on_curve_fraction(k, c, p, e / L, sc) and dist(tuple(p), tuple(c.point_at(e / L))) > 1e-8 * sc:
            ctx.violation('subdivide:%s:position' % k, 'point at cumulative distance %r is misplaced' % e, desc); return


def fam_split(ctx, rng):
    which = rng.choice(['seg3', 'arc3', 'pline3', 'arc2'])
    if which == 'seg3':
        c = LineSegment3D(P3(G.rpt3(rng, 50)), V3(G.rvec3(rng, 30)))
        mode = rng.choice(['interior', 'end', 'miss'])
        t = {'interior': rng.uniform(0.1, 0.9), 'end': rng.choice([0.0, 1.0]), 'miss': rng.choice([-0.5, 1.7])}[mode]
        o = c.point_at(t)
        pl = Plane(V3(G.rvec3(rng, 1)), P3((G.dy(o.x), G.dy(o.y), G.dy(o.z))))
        parts = c.split_with_plane(pl)
        desc = {'segment': c.to_dict(), 'plane': pl.to_dict(), 'mode': mode}
        ctx.count('split.seg3', key=mode, sample=desc)
        check_pieces(ctx, 'split:seg3:' + mode, parts, c, desc, pl)
        if mode == 'interior' and len(parts) != 2:
            ctx.violation('split:seg3:interior:count', 'plane through the interior gives %d pieces' % len(parts), desc)
        if mode == 'miss' and len(parts) != 1:
            ctx.violation('split:seg3:miss:count', 'missing plane gives %d pieces' % len(parts), desc)
    elif which == 'pline3':
        vs = [G.rpt3(rng, 30) for _ in range(rng.randint(3, 8))]
        c = Polyline3D([P3(v) for v in vs])
        mid = c.segments[rng.randrange(len(c.segments))].point_at(rng.uniform(0.2, 0.8))
        pl = Plane(V3(G.rvec3(rng, 1)), P3((G.dy(mid.x), G.dy(mid.y), G.dy(mid.z))))
        through = rng.choice([None, None, None, 'first', 'last', 'inner'])
        if through:
            # the plane passes EXACTLY through a vertex of the polyline (its origin is that vertex): first, last or an inner one
            vx = c.vertices[{'first': 0, 'last': -1, 'inner': rng.randrange(1, len(vs) - 1)}[through]]
            pl = Plane(V3(G.rational_frame(rng)[2]), vx)
        parts = c.split_with_plane(pl)
        desc = {'polyline': c.to_dict(), 'plane': pl.to_dict(), 'plane_through_vertex': through}
        ctx.count('split.pline3', key=(len(parts), through), sample=desc)
        check_pieces(ctx, 'split:pline3' + (':through_%s_vertex' % through if through else ''), parts, c, desc, pl)
        # one piece more than there are proper crossings (exact side test of the vertices; skipped when a vertex is near the plane)
        fn, fo = X.fpt(pl.n), X.fpt(pl.o)
        sd = [X.dot(fn, X.sub(X.fpt(v), fo)) for v in c.vertices]
        if all(abs(float(t)) > 1e-6 * 30 for t in sd):
            crossings = sum(1 for a_, b_ in zip(sd, sd[1:]) if (a_ > 0) != (b_ > 0))
            if len(parts) != crossings + 1:
                ctx.violation('split:pline3:count', 'the plane crosses the polyline %d times but %d pieces were returned' % (crossings, len(parts)), desc)
    elif which == 'arc3':
        c = Bd.make(rng, 'Arc3D')
        if rng.random() < 0.5:
            # a wrap-around arc cut twice: the plane passes through two points of the arc (often one on each side of angle 0)
            a1 = rng.uniform(math.pi, 2 * math.pi - 0.2); a2 = rng.uniform(0.2, a1 - 0.3)
            c = Arc3D(c.plane, c.radius, a1, a2)
            q1, q2 = c.point_at(rng.uniform(0.05, 0.95)), c.point_at(rng.uniform(0.05, 0.95))
            u = q2 - q1
            if u.magnitude > 1e-3 * c.radius:
                nrm = u.cross(c.plane.n).normalize()
                t = rng.uniform(-0.5, 0.5)
                nrm = V3((nrm.x + t * c.plane.n.x, nrm.y + t * c.plane.n.y, nrm.z + t * c.plane.n.z))
                pl0 = Plane(nrm, q1)
        tgt = c.point_at(rng.uniform(0.1, 0.9))
        pl = Plane(V3(G.rvec3(rng, 1)), P3((G.dy(tgt.x), G.dy(tgt.y), G.dy(tgt.z))))
        if 'pl0' in dir():
            pl = pl0
        parts = c.split_with_plane(pl)
        desc = {'arc': c.to_dict(), 'plane': pl.to_dict()}
        inv = 'inverted' if c.a2 < c.a1 else ('circle' if c.is_circle else 'plain')
        ctx.count('split.arc3', key=(inv, len(parts)), sample=desc)
        check_arc_pieces(ctx, 'split:arc3:' + inv, parts, c, desc)
        # the pieces meet on the cutting plane, and every crossing found by intersect_plane is a joint
        sc3 = max(1.0, c.radius)
        for a_, b_ in zip(parts, parts[1:]):
            if abs(pl.n.dot(a_.p2 - pl.o)) > 1e-7 * sc3 * 50:
                ctx.violation('split:arc3:%s:cut_off_plane' % inv, 'arc pieces meet at %r, which is %r off the cutting plane' % (
                    a_.p2, abs(pl.n.dot(a_.p2 - pl.o))), desc); break
        hits = c.intersect_plane(pl) or []
        if not c.is_circle and len(parts) != len(hits) + 1 and len(hits) in (1, 2):
            ctx.violation('split:arc3:%s:count' % inv, 'intersect_plane finds %d crossings but split_with_plane returns %d pieces' % (len(hits), len(parts)), desc)
    else:
        c = Bd.make(rng, 'Arc2D')
        tgt = c.point_at(rng.uniform(0.1, 0.9))
        L = Ray2D(P2((G.dy(tgt.x), G.dy(tgt.y))), V2(G.rvec2(rng, 3)))
        if rng.random() < 0.5:
            # a wrap-around arc cut twice by the line through two of its points
            a1 = rng.uniform(math.pi, 2 * math.pi - 0.2); a2 = rng.uniform(0.2, a1 - 0.3)
            c = Arc2D(c.c, c.r, a1, a2)
            q1, q2 = c.point_at(rng.uniform(0.05, 0.95)), c.point_at(rng.uniform(0.05, 0.95))
            if q1.distance_to_point(q2) > 1e-3 * c.r:
                L = Ray2D(q1, q2 - q1)
        parts = c.split_line_infinite(L)
        desc = {'arc': c.to_dict(), 'line': L.to_dict()}
        inv = 'inverted' if c.a2 < c.a1 else ('circle' if c.is_circle else 'plain')
        ctx.count('split.arc2', key=(inv, len(parts)), sample=desc)
        check_arc_pieces(ctx, 'split:arc2:' + inv, parts, c, desc)


def check_pieces(ctx, kind, parts, c, desc, plane):
    sc = max(1.0, c.length)
    if abs(sum(p.length for p in parts) - c.length) > 1e-8 * sc:
        ctx.violation(kind + ':length', 'piece lengths sum to %r, original %r' % (sum(p.length for p in parts), c.length), desc); return
    first = parts[0].vertices[0] if hasattr(parts[0], 'vertices') else parts[0].p1
    last = parts[-1].vertices[-1] if hasattr(parts[-1], 'vertices') else parts[-1].p2
    c0 = c.vertices[0] if hasattr(c, 'vertices') else c.p1
    c1 = c.vertices[-1] if hasattr(c, 'vertices') else c.p2
    if dist(tuple(first), tuple(c0)) > 1e-9 * sc * 50 or dist(tuple(last), tuple(c1)) > 1e-9 * sc * 50:
        ctx.violation(kind + ':ends', 'pieces do not start/end at the original end points', desc); return
    for a, b in zip(parts, parts[1:]):
        ea = a.vertices[-1] if hasattr(a, 'vertices') else a.p2
        sb = b.vertices[0] if hasattr(b, 'vertices') else b.p1
        if dist(tuple(ea), tuple(sb)) > 1e-9 * sc * 50:
            ctx.violation(kind + ':gap', 'consecutive pieces do not meet', desc); return
        if abs(plane.n.dot(ea - plane.o)) > 1e-7 * sc * 50:
            ctx.violation(kind + ':cut_off_plane', 'pieces meet at %r which is off the cutting plane' % (ea,), desc); return


def check_arc_pieces(ctx, kind, parts, c, desc):
    sc = max(1.0, c.length, max(abs(x) for x in c.p1))
    if len(parts) == 1:
        return
    if abs(sum(p.length for p in parts) - c.length) > 1e-7 * sc:
        ctx.violation(kind + ':length', 'arc piece lengths sum to %r, original %r' % (sum(p.length for p in parts), c.length), desc); return
    if c.is_circle:
        return
    if dist(tuple(parts[0].p1), tuple(c.p1)) > 1e-7 * sc or dist(tuple(parts[-1].p2), tuple(c.p2)) > 1e-7 * sc:
        ctx.violation(kind + ':ends', 'arc pieces do not start/end at the original end points', desc); return
    for a, b in zip(parts, parts[1:]):
        if dist(tuple(a.p2), tuple(b.p1)) > 1e-7 * sc:
            ctx.violation(kind + ':gap', 'consecutive arc pieces do not meet', desc); return


FAMILIES = [(fam_point_at, 60), (fam_evenly, 60), (fam_subdivide, 40), (fam_split, 80)]


def explore(ctx):
    for fn, n in FAMILIES:
        for _ in range(ctx.n(n, n * 10)):
            fn(ctx, ctx.rng)
    if ctx.thorough:
        for n in range(1, 501):
            fam_evenly(ctx, ctx.rng, n)


def replay(ctx, data):
    kind = data.get('kind', '')
    c2 = core.Ctx(ctx.pid, 'quick', 29)
    for fn, _ in FAMILIES:
        for _ in range(2500):
            fn(c2, c2.rng)
            if any(v.kind == kind for v in c2.violations):
                return True
    return False


def correspond(ctx):
    """FloatLoops.v (PrimFloat, bit-exact) vs the implementation: point counts of the accumulating loops for every n in 1..500"""
    seg2 = LineSegment2D(P2((0.0, 0.0)), V2((1.0, 0.0)))
    seg3 = LineSegment3D(P3((0.0, 0.0, 0.0)), V3((1.0, 0.0, 0.0)))
    arc = Arc2D(P2((0.0, 0.0)), 1.0, 0.0, 1.0)
    ns = list(range(1, 501))
    c2 = [len(seg2.subdivide_evenly(n)) for n in ns]
    c3 = [len(seg3.subdivide_evenly(n)) for n in ns]
    ca = [len(arc.subdivide_evenly(n)) for n in ns]
    def lst(xs): return '[' + '; '.join('%d%%nat' % x for x in xs) + ']'
    cases = ['list_eqb (map seg_evenly_count (zrange 500)) %s' % lst(c2),
             'list_eqb (map seg_evenly_count (zrange 500)) %s' % lst(c3),
             'list_eqb (map arc_evenly_count (zrange 500)) %s' % lst(ca)]
    res = core.run_cases('C17_corr', ['FloatLoops'], '', cases,
                         header='From Coq Require Import ZArith List Bool.\nImport ListNotations.\nFrom LBG Require Import FloatLoops.\n')
    ctx.corr_cases += 1500
    for ok, nm in zip(res, ('LineSegment2D.subdivide_evenly', 'LineSegment3D.subdivide_evenly', 'Arc2D.subdivide_evenly')):
        if ok is not True:
            ctx.corr_fail.append({'function': nm, 'input': 'n = 1..500', 'result': 'PrimFloat loop model and implementation disagree on a point count'
                                  if ok is False else 'model evaluation failed'})
    # the generated (exact arithmetic, fuel-bounded) while loop against the implementation: same number of points, same points to 1e-9
    rng = ctx.rng
    cases, meta = [], []
    from ..core import q
    for _ in range(ctx.n(60, 300)):
        n = rng.choice([1, 2, 3, 7, 9, 11, 20, 21, 25, rng.randint(1, 120)])
        p, v = G.rpt2(rng, 50), G.rvec2(rng, 20)
        if v[0] == 0 and v[1] == 0:
            continue
        got = LineSegment2D(P2(p), V2(v)).subdivide_evenly(n)
        cases.append('v2l_close (LineSegment2D_subdivide_evenly 200 (mkLR2 %s %s) %d) %s' % (
            core.v2(p), core.v2(v), n, core.coq_list([core.v2((g.x, g.y)) for g in got])))
        meta.append(('LineSegment2D.subdivide_evenly', p, v, n))
    pre = ('Definition closeq (a b : Q) : bool := Qle_bool (Qabs (a - b)) (1 # 100000000).\n'
           'Definition v2l_close (a b : list V2) : bool := Nat.eqb (length a) (length b) && '
           'forallb (fun p => closeq (v2x (fst p)) (v2x (snd p)) && closeq (v2y (fst p)) (v2y (snd p))) (combine a b).\n')
    res = core.run_cases('C17_corr_q', ['Base', 'QGeom', 'G0_vec', 'G8_curve', 'G11_sub'], pre, cases)
    ctx.corr_cases += len(cases)
    for ok, m in zip(res, meta):
        if ok is not True:
            ctx.corr_fail.append({'function': m[0], 'input': repr(m[1:]),
                                  'result': 'generated loop and implementation differ' if ok is False else 'model evaluation failed'})
