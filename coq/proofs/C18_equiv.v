(* C18_equiv.v -- the end-point matching test used when joining segments and outlines (generated Vector2D.is_equivalent): two points match
   exactly when both coordinate differences are within the tolerance - an ABSOLUTE test, so whether two end points match does not depend
   on where in the model they lie (the same soup far from the origin is joined the same way). *)
From Coq Require Import QArith Qabs Lqa.
From LBG Require Import Base QGeom G0_vec G1_shapes G2_inter G3_poly G9_clean.
Open Scope Q_scope.

Theorem is_equivalent_spec a b tol :
  Vector2D_is_equivalent a b tol = true <-> Qabs (v2x a - v2x b) <= tol /\ Qabs (v2y a - v2y b) <= tol.
Proof.
  unfold Vector2D_is_equivalent. rewrite Bool.andb_true_iff, !Qle_bool_iff. reflexivity.
Qed.

Theorem is_equivalent_translation_invariant a b t tol :
  Vector2D_is_equivalent (mkV2 (v2x a + v2x t) (v2y a + v2y t)) (mkV2 (v2x b + v2x t) (v2y b + v2y t)) tol = Vector2D_is_equivalent a b tol.
Proof.
  apply Bool.eq_true_iff_eq. rewrite !is_equivalent_spec. cbn [v2x v2y].
  assert (E1 : v2x a + v2x t - (v2x b + v2x t) == v2x a - v2x b) by ring.
  assert (E2 : v2y a + v2y t - (v2y b + v2y t) == v2y a - v2y b) by ring.
  rewrite E1, E2. reflexivity.
Qed.

Theorem is_equivalent_symmetric a b tol : Vector2D_is_equivalent a b tol = Vector2D_is_equivalent b a tol.
Proof.
  apply Bool.eq_true_iff_eq. rewrite !is_equivalent_spec.
  assert (E1 : v2x b - v2x a == - (v2x a - v2x b)) by ring. assert (E2 : v2y b - v2y a == - (v2y a - v2y b)) by ring.
  rewrite E1, E2, !Qabs_opp. reflexivity.
Qed.
