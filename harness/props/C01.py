"""C01  area / perimeter / volume / centroid equal the exact values of the shape."""
import math
from fractions import Fraction
from .. import core, gens as G, exact as X, build as Bd
from ..core import q, v2, v3, F
from ..build import P2, V2, P3, V3
from ladybug_geometry.geometry2d import Polygon2D, Mesh2D, Arc2D
from ladybug_geometry.geometry3d import Face3D, Mesh3D, Polyface3D, Sphere, Cone, Cylinder, Plane, Arc3D

RULE = ('valid simple loops (3..60 vertices, exact-certified), 0..4 holes, x random rational plane x both vertex orders x every '
        'cyclic start; triangle/convex-quad meshes; prisms/boxes; closed forms. non-trivial = non-degenerate shape, distinct by '
        '(family, vertex count, holes, orientation, start index)')
ASSUMPTIONS = ['reference values: exact Fraction shoelace / Newell / divergence; lengths by float sqrt of exact squared lengths']
TRUSTED = []
REL = 1e-9


def centroid_region(boundary, holes):
    a2 = abs(X.shoelace2(boundary))
    c = X.centroid2(boundary)
    mx, my = c[0] * a2, c[1] * a2
    for h in holes:
        ah = abs(X.shoelace2(h))
        ch = X.centroid2(h)
        mx -= ch[0] * ah; my -= ch[1] * ah
        a2 -= ah
    return (mx / a2, my / a2), a2 / 2


def fam_polygon(ctx, rng):
    n = rng.choice([3, 4, 5, 6, 8, 12, 20, 40, 60])
    pts = G.star_polygon(rng, n=n, R=rng.choice([1.0, 10.0, 100.0, 1000.0, 10000.0]))
    k = rng.randrange(len(pts))
    pts = pts[k:] + pts[:k]
    rev = rng.random() < 0.5
    if rev:
        pts = pts[::-1]
    f = [X.fpt(p) for p in pts]
    poly = Polygon2D([P2(p) for p in pts])
    desc = {'polygon': pts}
    ctx.count('polygon2d', key=(len(pts), rev, k), sample=desc)
    ea = X.area(f)
    if not X.close(poly.area, ea, REL):
        ctx.violation('polygon2d:area', 'area %r expected %r' % (poly.area, float(ea)), desc)
    if poly.is_clockwise != (X.shoelace2(f) < 0):
        ctx.violation('polygon2d:is_clockwise', 'is_clockwise %r but signed area %r' % (poly.is_clockwise, float(X.shoelace2(f))), desc)
    ep = X.perimeter(f)
    if not X.close(poly.perimeter, ep, REL):
        ctx.violation('polygon2d:perimeter', 'perimeter %r expected %r' % (poly.perimeter, ep), desc)
    convex = all(X.orient(f[i - 2], f[i - 1], f[i]) >= 0 for i in range(len(f))) or all(X.orient(f[i - 2], f[i - 1], f[i]) <= 0 for i in range(len(f)))
    strict = all(X.orient(f[i - 2], f[i - 1], f[i]) != 0 for i in range(len(f)))
    if strict and poly.is_convex != convex:
        ctx.violation('polygon2d:is_convex', 'is_convex %r expected %r' % (poly.is_convex, convex), desc)


def fam_face(ctx, rng):
    n = rng.choice([3, 4, 5, 7, 10, 16, 30])
    b = G.star_polygon(rng, n=n, R=rng.choice([5.0, 50.0, 500.0]), center=(0.0, 0.0))
    nh = rng.choice([0, 0, 1, 2, 4])
    hs = G.holes_in(rng, b, nh) if nh else []
    k = rng.randrange(len(b))
    b = b[k:] + b[:k]
    rev = rng.random() < 0.5
    if rev:
        b = b[::-1]
    frame = G.rational_frame(rng); o = G.rpt3(rng, 1000.0)
    b3 = [P3(G.embed(frame, o, p)) for p in b]
    h3 = [[P3(G.embed(frame, o, p)) for p in h] for h in hs]
    face = Face3D(b3, holes=h3 or None)
    fb = [X.fpt(p) for p in b]; fh = [[X.fpt(p) for p in h] for h in hs]
    desc = {'boundary2d': b, 'holes2d': hs, 'frame': frame, 'origin': o}
    ctx.count('face3d', key=(len(b), len(hs), rev, k), sample=desc)
    (cx, cy), ea = centroid_region(fb, fh)
    # exact 3D area: the embedding is an isometry only up to the rounding of the frame; compare with tolerance
    if not X.close(face.area, ea, 1e-8):
        ctx.violation('face3d:area:%s' % ('holes' if hs else 'plain'), 'area %r expected %r (boundary %r - holes)' % (
            face.area, float(ea), float(X.area(fb))), desc)
    ep = X.perimeter(fb) + sum(X.perimeter(h) for h in fh)
    if not X.close(face.perimeter, ep, 1e-8):
        ctx.violation('face3d:perimeter:%s' % ('holes' if hs else 'plain'), 'perimeter %r expected %r' % (face.perimeter, ep), desc)
    c3 = G.embed(frame, o, (float(cx), float(cy)))
    sc = max(1.0, max(abs(c) for c in o), 500.0)
    got = face.centroid
    if not X.pclose(X.fpt(c3), X.fpt(got), 1e-8, sc):
        ctx.violation('face3d:centroid:%s' % ('holes' if hs else 'plain'), 'centroid %r expected %r' % (got, c3), desc)
    # the same shape placed by the library's own transforms AFTER it has answered its measures: the placed face is a valid face too,
    # and its measures must be the exact ones of ITS OWN vertices (exact reference recomputed from the placed boundary / holes)
    which = rng.choice(['move', 'rotate', 'rotate_xy', 'reflect', 'scale', 'flip', 'flip'])
    try:
        if which == 'flip':
            placed = face.flip()          # the library's own way of giving the other vertex order
        elif which == 'move':
            placed = face.move(V3(G.rvec3(rng, 100)))
        elif which == 'rotate':
            placed = face.rotate(V3(G.rvec3(rng, 1)), rng.uniform(-7, 7), P3(G.rpt3(rng, 100)))
        elif which == 'rotate_xy':
            placed = face.rotate_xy(rng.uniform(-7, 7), P3(G.rpt3(rng, 100)))
        elif which == 'reflect':
            nv = V3(G.rvec3(rng, 1)).normalize()
            placed = face.reflect(nv, P3(G.rpt3(rng, 100)))
        else:
            placed = face.scale(G.dy(rng.uniform(0.25, 4)), P3(G.rpt3(rng, 100)))
    except Exception as e:
        ctx.violation('face3d:placed:%s:raises' % which, '%r' % (e,), desc); return
    ctx.count('face3d.placed', key=(which, len(hs)), sample=dict(desc, transform=which))
    pb = [X.fpt(p) for p in placed.boundary]; phs = [[X.fpt(p) for p in h] for h in (placed.holes or ())]
    def newell_area(lp):
        nw = X.newell(lp)
        return math.sqrt(float(X.norm2(nw))) / 2
    ea3 = newell_area(pb) - sum(newell_area(h) for h in phs)
    if abs(placed.area - ea3) > 1e-8 * max(1.0, ea3):
        ctx.violation('face3d:placed:%s:area' % which, 'area %r, the placed loops enclose %r' % (placed.area, ea3), dict(desc, transform=which)); return
    # centroid: triangulate exactly by fanning each loop about its first vertex with the Newell normal (signed areas)
    nrm = X.newell(pb)
    def loop_moment(lp):
        tot = Fraction(0); mx = [Fraction(0)] * 3
        for i in range(1, len(lp) - 1):
            cr = X.cross(X.sub(lp[i], lp[0]), X.sub(lp[i + 1], lp[0]))
            a = X.dot(cr, nrm)          # proportional to the signed area (same factor for every triangle)
            c_ = tuple((lp[0][k] + lp[i][k] + lp[i + 1][k]) / 3 for k in range(3))
            tot += a
            mx = [m + a * c_[k] for k, m in enumerate(mx)]
        return tot, mx
    T, M = loop_moment(pb)
    for h in phs:
        t, m = loop_moment(h)
        sgn = -1 if t * T > 0 else 1      # holes are subtracted whatever their winding
        T += sgn * t
        M = [a + sgn * b_ for a, b_ in zip(M, m)]
    if T != 0:
        ec = tuple(float(m / T) for m in M)
        gc = placed.centroid
        scp = max(1.0, max(abs(float(c)) for p in pb for c in p))
        if max(abs(a - b_) for a, b_ in zip(ec, gc)) > 1e-8 * scp:
            ctx.violation('face3d:placed:%s:centroid' % which, 'centroid %r, the placed loops have %r' % (gc, ec), dict(desc, transform=which))


def fam_mesh(ctx, rng):
    v, faces = Bd.tri_quad_mesh2d(rng)
    d3 = rng.random() < 0.5
    fv = [X.fpt(p) for p in v]
    if d3:
        frame = G.rational_frame(rng); o = G.rpt3(rng, 100.0)
        mesh = Mesh3D([P3(G.embed(frame, o, p)) for p in v], faces)
    else:
        mesh = Mesh2D([P2(p) for p in v], faces)
    desc = {'vertices': v, 'faces': faces, '3d': d3}
    ctx.count('mesh3d' if d3 else 'mesh2d', key=(len(v), len(faces)), sample=desc)
    fam = 'mesh3d' if d3 else 'mesh2d'
    areas = [X.area([fv[i] for i in f]) for f in faces]
    fa = mesh.face_areas
    if isinstance(fa, (int, float)):
        fa = [fa] * len(faces)
    for i, (g, e) in enumerate(zip(fa, areas)):
        if not X.close(g, e, 1e-8):
            ctx.violation(fam + ':face_area:%s' % ('quad' if len(faces[i]) == 4 else 'tri'),
                          'face %d area %r expected %r' % (i, g, float(e)), desc)
            break
    if not X.close(mesh.area, sum(areas), 1e-8):
        ctx.violation(fam + ':area', 'area %r expected %r' % (mesh.area, float(sum(areas))), desc)
    # face_area_centroids are the area centroids; face_centroids are documented as the vertex means
    for i, (f, gc, gv) in enumerate(zip(faces, mesh.face_area_centroids, mesh.face_centroids)):
        ec = X.centroid2([fv[j] for j in f])
        e3 = G.embed(frame, o, (float(ec[0]), float(ec[1]))) if d3 else (float(ec[0]), float(ec[1]))
        if not X.pclose(X.fpt(e3), X.fpt(gc), 1e-8, 100.0):
            ctx.violation(fam + ':face_area_centroid:%s' % ('quad' if len(f) == 4 else 'tri'),
                          'face %d area centroid %r expected %r' % (i, gc, e3), desc)
            break
        em = (sum(fv[j][0] for j in f) / len(f), sum(fv[j][1] for j in f) / len(f))
        m3 = G.embed(frame, o, (float(em[0]), float(em[1]))) if d3 else (float(em[0]), float(em[1]))
        if not X.pclose(X.fpt(m3), X.fpt(gv), 1e-8, 100.0):
            ctx.violation(fam + ':face_centroid:%s' % ('quad' if len(f) == 4 else 'tri'),
                          'face %d vertex centroid %r expected %r' % (i, gv, m3), desc)
            break
    if not d3:
        tot = sum(areas)
        ex = sum(X.centroid2([fv[j] for j in f])[0] * a for f, a in zip(faces, areas)) / tot
        ey = sum(X.centroid2([fv[j] for j in f])[1] * a for f, a in zip(faces, areas)) / tot
        c = mesh.centroid
        if not X.pclose((ex, ey), X.fpt(c), 1e-8, 100.0):
            ctx.violation(fam + ':centroid', 'centroid %r expected %r' % (c, (float(ex), float(ey))), desc)


def quad_mesh_general(ctx, rng):
    """a single convex, non-parallelogram quad (Mesh3D and Mesh2D must report its true area)"""
    pts = G.convex_polygon(rng, n=4, R=10.0)
    fv = [X.fpt(p) for p in pts]
    ea = X.area(fv)
    m2 = Mesh2D([P2(p) for p in pts], [(0, 1, 2, 3)])
    m3 = Mesh3D([P3((p[0], p[1], 0.0)) for p in pts], [(0, 1, 2, 3)])
    desc = {'quad': pts}
    ctx.count('mesh.quad', key=tuple(pts[0]), sample=desc)
    if not X.close(m2.area, ea, 1e-8):
        ctx.violation('mesh2d:face_area:quad', 'Mesh2D quad area %r expected %r' % (m2.area, float(ea)), desc)
    if not X.close(m3.area, ea, 1e-8):
        ctx.violation('mesh3d:face_area:quad', 'Mesh3D quad area %r expected %r' % (m3.area, float(ea)), desc)


def fam_polyface(ctx, rng):
    n = rng.choice([3, 4, 5, 6, 8])
    b = G.star_polygon(rng, n=n, R=rng.choice([5.0, 20.0]), center=(0.0, 0.0))
    nh = rng.choice([0, 0, 1])
    hs = G.holes_in(rng, b, nh) if nh else []
    frame = G.rational_frame(rng); o = G.rpt3(rng, 100.0)
    face = Face3D([P3(G.embed(frame, o, p)) for p in b], holes=[[P3(G.embed(frame, o, p)) for p in h] for h in hs] or None)
    h = G.dy(rng.uniform(0.5, 12))
    pf = Polyface3D.from_offset_face(face, h)
    fb = [X.fpt(p) for p in b]; fh = [[X.fpt(p) for p in x] for x in hs]
    _, ea = centroid_region(fb, fh)
    desc = {'base': b, 'holes': hs, 'height': h, 'frame': frame, 'origin': o}
    ctx.count('polyface3d.prism', key=(len(b), len(hs)), sample=desc)
    ev = ea * F(h)
    if not X.close(pf.volume, ev, 1e-8):
        ctx.violation('polyface3d:volume:%s' % ('holes' if hs else 'plain'), 'volume %r expected %r' % (pf.volume, float(ev)), desc)
    ep = X.perimeter(fb) + sum(X.perimeter(x) for x in fh)
    earea = 2 * float(ea) + ep * h
    if not X.close(pf.area, earea, 1e-8):
        ctx.violation('polyface3d:area', 'area %r expected %r' % (pf.area, earea), desc)
    # exact divergence volume from the reported faces themselves
    vol = Fraction(0)
    for fc in pf.faces:
        vs = [X.fpt(p) for p in fc.vertices]
        nw = X.newell(vs)
        vol += X.dot(vs[0], nw)
    vol = vol / 6
    if not X.close(pf.volume, vol, 1e-8):
        ctx.violation('polyface3d:volume_divergence', 'volume %r but divergence sum of its faces %r' % (pf.volume, float(vol)), desc)


def fam_closed_forms(ctx, rng):
    r = G.dy(rng.uniform(0.1, 50)); h = G.rvec3(rng, 20)
    s = Sphere(P3(G.rpt3(rng)), r)
    ctx.count('closed_forms', key=r)
    if not X.close(s.area, 4 * math.pi * r * r, 1e-12) or not X.close(s.volume, 4 / 3 * math.pi * r ** 3, 1e-12):
        ctx.violation('sphere:measure', 'area %r volume %r for r=%r' % (s.area, s.volume, r), {'r': r})
    hl = math.sqrt(sum(c * c for c in h))
    cy = Cylinder(P3(G.rpt3(rng)), V3(h), r)
    if not X.close(cy.volume, math.pi * r * r * hl, 1e-12) or not X.close(cy.area, 2 * math.pi * r * r + 2 * math.pi * r * hl, 1e-12):
        ctx.violation('cylinder:measure', 'area %r volume %r for r=%r h=%r' % (cy.area, cy.volume, r, hl), {'r': r, 'axis': h})
    ang = G.dy(rng.uniform(0.1, 1.4))
    co = Cone(P3(G.rpt3(rng)), V3(h), ang)
    cr = hl * math.tan(ang)
    if not X.close(co.radius, cr, 1e-12) or not X.close(co.volume, math.pi * cr * cr * hl / 3, 1e-12):
        ctx.violation('cone:measure', 'radius %r volume %r for h=%r angle=%r' % (co.radius, co.volume, hl, ang), {'axis': h, 'angle': ang})
    sl = math.sqrt(cr * cr + hl * hl)
    if not X.close(co.area, math.pi * cr * cr + math.pi * cr * sl, 1e-12):
        ctx.violation('cone:area', 'area %r expected %r' % (co.area, math.pi * cr * cr + math.pi * cr * sl), {'axis': h, 'angle': ang})
    a1, a2 = Bd.arc_angles(rng)
    arc = Arc2D(P2(G.rpt2(rng)), r, a1, a2)
    span = (a2 - a1) % (2 * math.pi) or 2 * math.pi
    if not X.close(arc.length, span * r, 1e-12) or not X.close(arc.angle, span, 1e-12):
        ctx.violation('arc2d:length', 'length %r angle %r for a1=%r a2=%r r=%r' % (arc.length, arc.angle, a1, a2, r), {'a1': a1, 'a2': a2, 'r': r})
    if arc.is_circle and not X.close(arc.area, math.pi * r * r, 1e-12):
        ctx.violation('arc2d:area', 'circle area %r' % arc.area, {'r': r})


def fam_mixed_solid(ctx, rng):
    """closed solids given as a shuffled bag of faces with mixed orientations and arbitrary start vertices (concave caps included):
    the reported volume is the enclosed volume"""
    from .C07 import solid_faces, perturb, exact_volume
    fam, faces, inside = solid_faces(rng)
    pert, flips = perturb(rng, faces)
    desc = {'family': fam, 'faces': [f.to_dict() for f in pert]}
    ctx.count('polyface3d.mixed', key=(fam, len(faces), flips), sample={'family': fam, 'faces': len(faces), 'flipped': flips})
    ref = abs(exact_volume(faces))
    try:
        pf = Polyface3D.from_faces(pert, 0.01)
        v = pf.volume
    except Exception as e:
        ctx.violation('polyface3d:mixed:raises', '%r' % (e,), desc); return
    if not X.close(v, ref, 1e-8):
        ctx.violation('polyface3d:volume:mixed_orientation', 'volume %r, enclosed volume %r (%d of %d faces were given inward)' % (
            v, float(ref), flips, len(faces)), desc)
    ar = sum(f.area for f in faces)
    if not X.close(pf.area, ar, 1e-8):
        ctx.violation('polyface3d:area:mixed_orientation', 'area %r, sum of the face areas %r' % (pf.area, ar), desc)


def fam_one_reflex(ctx, rng):
    """a polygon with exactly ONE re-entrant corner, given at every cyclic start and in both orders (so the corner is in turn the
    first, the last and every other vertex): never convex; as a tilted face its area, centroid and triangulated area are exact"""
    base = G.convex_polygon(rng, n=rng.randint(4, 7), R=10.0, center=(0.0, 0.0))
    n = len(base)
    i = rng.randrange(n)
    cx = sum(p[0] for p in base) / n; cy = sum(p[1] for p in base) / n
    mx = (base[i - 1][0] + base[(i + 1) % n][0]) / 2; my = (base[i - 1][1] + base[(i + 1) % n][1]) / 2
    t = rng.choice([0.3, 0.5, 0.7])
    pts = list(base)
    pts[i] = (G.dy(mx + t * (cx - mx)), G.dy(my + t * (cy - my)))
    f0 = [X.fpt(p) for p in pts]
    turns = [X.orient(f0[k - 2], f0[k - 1], f0[k]) for k in range(n)]
    if not G.certify_polygon(pts) or sum(1 for x in turns if x < 0) != 1 or any(x == 0 for x in turns):
        return
    frame = G.rational_frame(rng); o = G.rpt3(rng, 100.0)
    (ecx, ecy), ea = centroid_region(f0, [])
    c3 = G.embed(frame, o, (float(ecx), float(ecy)))
    ctx.count('one_reflex', key=(n, i, t), sample={'polygon': pts}, nontrivial=True)
    for rev in (False, True):
        for k in range(n):
            q = pts[k:] + pts[:k]
            if rev:
                q = q[::-1]
            desc = {'polygon': q, 'frame': frame, 'origin': o}
            where = 'last' if (q[-1] == pts[i]) else ('first' if q[0] == pts[i] else 'middle')
            poly = Polygon2D([P2(p) for p in q])
            if poly.is_convex:
                ctx.violation('polygon2d:is_convex:reflex_%s' % where, 'a polygon with one re-entrant corner (%s vertex) reported convex' % where, desc); return
            face = Face3D([P3(G.embed(frame, o, p)) for p in q])
            if not X.close(face.area, ea, 1e-8):
                ctx.violation('face3d:area:reflex_%s' % where, 'area %r expected %r' % (face.area, float(ea)), desc); return
            if not X.pclose(X.fpt(c3), X.fpt(face.centroid), 1e-8, 100.0):
                ctx.violation('face3d:centroid:reflex_%s' % where, 'centroid %r expected %r' % (face.centroid, c3), desc); return
            tm = face.triangulated_mesh3d
            if not X.close(tm.area, ea, 1e-8):
                ctx.violation('face3d:triangulated_area:reflex_%s' % where, 'triangulated mesh area %r, face area %r' % (tm.area, float(ea)), desc); return


def fam_grid_mesh(ctx, rng):
    """grid meshes made by the factories (Mesh2D.from_polygon_grid, Face3D.mesh_grid) with cell sizes that do and do not divide the
    extents: the reported face areas / area are the true areas of the faces the mesh holds"""
    b = G.star_polygon(rng, n=rng.randint(4, 8), R=rng.choice([3.0, 10.0]), center=(0.0, 0.0))
    ext = min(max(p[0] for p in b) - min(p[0] for p in b), max(p[1] for p in b) - min(p[1] for p in b))
    xd = G.dy(ext / rng.choice([2.3, 3.0, 4.7, 6.1])); yd = rng.choice([xd, G.dy(xd * rng.choice([0.6, 1.0, 1.35]))])
    d3 = rng.random() < 0.5
    try:
        if d3:
            frame = G.rational_frame(rng); o = G.rpt3(rng, 100.0)
            face = Face3D([P3(G.embed(frame, o, p)) for p in b])
            mesh = face.mesh_grid(xd, yd, rng.choice([None, 0.25]), rng.random() < 0.5)
        else:
            mesh = Mesh2D.from_polygon_grid(Polygon2D([P2(p) for p in b]), xd, yd)
    except AssertionError:
        return
    desc = {'polygon': b, 'x_dim': xd, 'y_dim': yd, '3d': d3}
    ctx.count('grid_mesh', key=(len(b), xd, yd, d3), sample=desc, nontrivial=True)
    fam = 'mesh3d.grid' if d3 else 'mesh2d.grid'
    vs = [X.fpt(p) for p in mesh.vertices]
    def exact_area(f):
        lp = [vs[i] for i in f]
        if d3:
            return math.sqrt(float(X.norm2(X.newell(lp)))) / 2
        return float(X.area(lp))
    areas = [exact_area(f) for f in mesh.faces]
    fa = mesh.face_areas
    if isinstance(fa, (int, float)):
        fa = [fa] * len(mesh.faces)
    for k, (g, e) in enumerate(zip(fa, areas)):
        if abs(g - e) > 1e-8 * max(1.0, e):
            ctx.violation(fam + ':face_area', 'face %d area %r, its vertices enclose %r' % (k, g, e), desc); return
    if abs(mesh.area - sum(areas)) > 1e-8 * max(1.0, sum(areas)):
        ctx.violation(fam + ':area', 'area %r, the faces enclose %r' % (mesh.area, sum(areas)), desc); return
    for k, (f, gc) in enumerate(zip(mesh.faces, mesh.face_area_centroids)):
        em = [sum(vs[i][c] for i in f) / len(f) for c in range(3 if d3 else 2)]      # grid cells are parallelograms: area centroid = vertex mean
        if max(abs(float(a) - b_) for a, b_ in zip(em, gc)) > 1e-8 * 100:
            ctx.violation(fam + ':face_area_centroid', 'face %d area centroid %r expected %r' % (k, gc, [float(x) for x in em]), desc); return


def fam_concave_prism(ctx, rng):
    """a prism over a base with re-entrant corners; a cap (and sometimes a wall) is handed over wound inward and started at each of
    its vertices in turn - re-entrant ones included: the reported volume is the enclosed volume"""
    from .C07 import exact_volume
    frame = G.rational_frame(rng); o = G.rpt3(rng, 100.0)
    emb = lambda p: P3(G.embed(frame, o, p))
    b = rng.choice([[(0.0, 0.0), (6.0, 0.0), (6.0, 2.0), (2.0, 2.0), (2.0, 5.0), (0.0, 5.0)],
                    [(0.0, 0.0), (8.0, 0.0), (8.0, 6.0), (5.0, 6.0), (5.0, 2.0), (3.0, 2.0), (3.0, 6.0), (0.0, 6.0)],
                    G.star_polygon(rng, n=rng.randint(5, 8), R=10.0, center=(0.0, 0.0)),
                    None, None])
    if b is None:
        # a long thin arm ending at a re-entrant corner next to a short stub (the edge INTO the re-entrant corner is the long one)
        w, t, a = G.dy(rng.uniform(4, 9)), G.dy(rng.uniform(0.5, 1.5)), G.dy(rng.uniform(0.5, 1.5))
        b = [(a, t + 1.0), (0.0, t + 0.5), (0.0, 0.0), (w, 0.0), (w, t), (a, t)]
        if rng.random() < 0.5:
            b = [(-x, y) for x, y in b][::-1]
    h = G.dy(rng.uniform(1, 9))
    faces = list(Polyface3D.from_offset_face(Face3D([emb(p) for p in b]), h).faces)
    ref = abs(exact_volume(faces))
    caps = [i for i, f in enumerate(faces) if len(f.boundary) == len(b)]
    ci = rng.choice(caps[:2])
    for k in range(len(b)):
        bd = list(faces[ci].boundary); bd = bd[k:] + bd[:k]
        trial = list(faces); trial[ci] = Face3D(bd[::-1])
        desc = {'base': b, 'height': h, 'cap': ci, 'start': k, 'frame': frame, 'origin': o}
        ctx.count('polyface3d.concave_prism', key=(len(b), ci, k), sample=desc, nontrivial=True)
        try:
            v = Polyface3D.from_faces(trial, 0.01).volume
        except Exception as e:
            ctx.violation('polyface3d:concave_prism:raises', '%r' % (e,), desc); return
        if not X.close(v, ref, 1e-8):
            ctx.violation('polyface3d:volume:concave_cap', 'a cap handed over inward, starting at its vertex %d: volume %r, enclosed volume %r' % (
                k, v, float(ref)), desc); return


def hash_cell_shape(rng):
    """a face with one hole and 85 vertices (more than 80: the triangulation uses its z-order hash) whose re-entrant boundary vertex p
    sits a small fraction of a hash cell away from the far corner c of a would-be ear (a, b, c), inside that triangle"""
    jx, jy = G.dy(rng.uniform(-2, 2), 6), G.dy(rng.uniform(-2, 2), 6)
    a, b, c = (0.0, 0.0), (5000.0, -1000.0), (6000.25 + jx, 5000.25 + jy)
    step = rng.choice([0.0625, 0.09375, 0.125, 0.15625])
    pp = (c[0] - step, c[1] - 1.25 * step)
    boundary = [a, b, c, pp, (-6000.0, 7000.0)]
    for k in range(50):
        ang = math.radians(125 + 175 * k / 49)
        boundary.append((round(-3000 + 6500 * math.cos(ang), 3), round(-1500 + 6500 * math.sin(ang), 3)))
    hole = [(round(-3000 + 1500 * math.cos(2 * math.pi * k / 30), 3), round(-1500 + 1500 * math.sin(2 * math.pi * k / 30), 3)) for k in range(30)]
    # exact symmetries of the lattice: quarter turns and a mirror, a dyadic scale
    # (only the orientation in which the hashed scan walks from the ear towards larger z-order keys exercises the bound; other
    # placements of the same shape are covered by the general families)
    rot = 0; mir = False; k_ = rng.choice([1.0, 1.0, 0.5, 2.0])
    def T(q_):
        x, y = q_
        if mir: x = -x
        for _ in range(rot): x, y = -y, x
        return (x * k_, y * k_)
    boundary = [T(q_) for q_ in boundary]; hole = [T(q_) for q_ in hole]
    if mir:
        boundary = boundary[::-1]; hole = hole[::-1]
    return boundary, [hole]


def fam_hash_cell(ctx, rng):
    b, hs = hash_cell_shape(rng)
    fb = [X.fpt(p) for p in b]; fh = [[X.fpt(p) for p in h] for h in hs]
    if not G.certify_polygon(b) or not all(X.winding_inside(fb, q_) is True for h in fh for q_ in h):
        return
    z = G.dy(rng.uniform(-50, 50))
    face = Face3D([P3((p[0], p[1], z)) for p in b], holes=[[P3((p[0], p[1], z)) for p in h] for h in hs])
    (cx, cy), ea = centroid_region(fb, fh)
    desc = {'boundary2d': b, 'holes2d': hs, 'z': z}
    ctx.count('face3d.hash_cell', key=(len(b), tuple(b[2])), sample={'vertices': len(b) + len(hs[0])}, nontrivial=True)
    got = face.centroid
    sc = max(abs(float(cx)), abs(float(cy)), 1.0)
    if max(abs(got.x - float(cx)), abs(got.y - float(cy)), abs(got.z - z)) > 1e-9 * sc:
        ctx.violation('face3d:centroid:hashed_ear', 'centroid %r expected %r (85 vertices, a re-entrant vertex next to an ear corner)' % (
            got, (float(cx), float(cy), z)), desc); return
    ta = face.triangulated_mesh3d.area
    if abs(ta - float(ea)) > 1e-9 * float(ea):
        ctx.violation('face3d:triangulated_area:hashed_ear', 'triangulated mesh area %r, face area %r' % (ta, float(ea)), desc)


FAMILIES = [(fam_hash_cell, 16), (fam_concave_prism, 40), (fam_one_reflex, 12), (fam_grid_mesh, 20), (fam_polygon, 40), (fam_face, 25), (fam_mesh, 25), (quad_mesh_general, 10), (fam_polyface, 12), (fam_mixed_solid, 40),
            (fam_closed_forms, 15)]


def explore(ctx):
    for f, n in FAMILIES:
        for _ in range(ctx.n(n, n * 10)):
            f(ctx, ctx.rng)


def replay(ctx, data):
    kind = data.get('kind', '')
    c2 = core.Ctx(ctx.pid, 'quick', 777)
    for f, _ in FAMILIES:
        for _ in range(400):
            f(c2, c2.rng)
            if any(v.kind == kind for v in c2.violations):
                return True
    return False


def correspond(ctx):
    """Polygon2D_area / is_clockwise / Face3D_area models vs implementation (exact on lattice polygons)"""
    rng = ctx.rng
    cases, meta = [], []
    for _ in range(ctx.n(120, 900)):
        if rng.random() < 0.5:
            loop, _ = G.lattice_polygon(rng)
        else:
            loop = G.star_polygon(rng, R=rng.choice([10.0, 100.0]))
        if rng.random() < 0.5:
            loop = loop[::-1]
        poly = Polygon2D([P2(p) for p in loop])
        L = core.coq_list([v2(p) for p in loop])
        cases.append('Qle_bool (Qabs (Polygon2D_area (mkPolygon2 %s) - %s)) %s' % (L, q(poly.area), q(Fraction(1, 10 ** 9) * F(max(1.0, poly.area)))))
        meta.append(('Polygon2D.area', loop))
        cases.append('Bool.eqb (Polygon2D_is_clockwise (mkPolygon2 %s)) %s' % (L, core.coq_bool(poly.is_clockwise)))
        meta.append(('Polygon2D.is_clockwise', loop))
        mn, mx = poly.min, poly.max
        cases.append('Qeq_bool (v2x (Base2DIn2D_min (mkPolygon2 %s))) %s && Qeq_bool (v2y (Base2DIn2D_max (mkPolygon2 %s))) %s' % (
            L, q(mn.x), L, q(mx.y)))
        meta.append(('Polygon2D.min/max', loop))
    res = core.run_cases('C01_corr', ['Base', 'G0_vec', 'G1_shapes', 'G2_inter', 'G3_poly'], '', cases)
    ctx.corr_cases += len(cases)
    for ok, m in zip(res, meta):
        if ok is not True:
            ctx.corr_fail.append({'function': m[0], 'input': repr(m[1:]),
                                  'result': 'model and implementation differ' if ok is False else 'model evaluation failed'})
    # hole merging: the hand model HoleMerge.merge against Polygon2D._merge_boundary_and_hole for every bridge (i, j) tried
    hcases, hmeta = [], []
    for _ in range(ctx.n(40, 300)):
        b = G.star_polygon(rng, n=rng.randint(3, 9), R=10.0, center=(0.0, 0.0))
        hs = G.holes_in(rng, b, 1)
        if not hs:
            continue
        h = hs[0]
        i, j = rng.randrange(len(b)), rng.randrange(len(h))
        got = Polygon2D._merge_boundary_and_hole([P2(p) for p in b], [P2(p) for p in h], {0.0: (i, j)})
        hcases.append('v2l_eqb (merge %s %s %d %d (mkV2 0 0)) %s' % (
            core.coq_list([v2(p) for p in b]), core.coq_list([v2(p) for p in h]), i, j, core.coq_list([v2((p.x, p.y)) for p in got])))
        hmeta.append(('Polygon2D._merge_boundary_and_hole', b, h, i, j))
    pre = ('Definition v2l_eqb (a b : list V2) : bool := Nat.eqb (length a) (length b) && '
           'forallb (fun p => Qeq_bool (v2x (fst p)) (v2x (snd p)) && Qeq_bool (v2y (fst p)) (v2y (snd p))) (combine a b).\n')
    res = core.run_cases('C01_corr_hm', ['Base', 'QGeom', 'HoleMerge'], pre, hcases)
    ctx.corr_cases += len(hcases)
    for ok, m in zip(res, hmeta):
        if ok is not True:
            ctx.corr_fail.append({'function': m[0], 'input': repr(m[1:]),
                                  'result': 'model and implementation differ' if ok is False else 'model evaluation failed'})
