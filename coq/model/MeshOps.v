(* MeshOps.v -- hand model of MeshBase._remove_vertices / _remove_faces_only / _transfer_face_centroids_areas (_mesh.py):
   vertices are filtered by a boolean pattern, old indices are renumbered by a running counter (the _vdict dictionary), a face
   survives when all its vertices do (KeyError otherwise), per-face data (colours, centroids, areas) is filtered by the face
   pattern.  Tied to the implementation by the correspondence of harness/props/C20.py. *)
From Coq Require Import List Bool Arith Lia.
Import ListNotations.

Section MO.
Context {A D : Type}.

(* old index -> new index (the _vdict of the source) *)
Fixpoint renum (pattern : list bool) (c : nat) : list (option nat) :=
  match pattern with
  | [] => []
  | true :: r => Some c :: renum r (S c)
  | false :: r => None :: renum r c
  end.

Fixpoint keep {X} (pattern : list bool) (l : list X) : list X :=
  match pattern, l with
  | true :: p, x :: r => x :: keep p r
  | false :: p, _ :: r => keep p r
  | _, _ => []
  end.

Fixpoint new_face (vd : list (option nat)) (f : list nat) : option (list nat) :=
  match f with
  | [] => Some []
  | i :: r => match nth i vd None, new_face vd r with Some j, Some r' => Some (j :: r') | _, _ => None end
  end.

Definition somes {X} (l : list (option X)) : list X := flat_map (fun o => match o with Some x => [x] | None => [] end) l.
Definition is_some {X} (o : option X) : bool := match o with Some _ => true | None => false end.

(* (new vertices, new faces, face pattern) *)
Definition remove_vertices (verts : list A) (pattern : list bool) (faces : list (list nat)) : list A * list (list nat) * list bool :=
  let vd := renum pattern 0 in
  let nf := map (new_face vd) faces in
  (keep pattern verts, somes nf, map is_some nf).

Definition remove_faces_only (faces : list (list nat)) (face_pattern : list bool) : list (list nat) := keep face_pattern faces.
Definition transfer_face_data (data : list D) (face_pattern : list bool) : list D := keep face_pattern data.

(* ---------------------------------------------------------------- renumbering = position in the kept list *)
Lemma renum_nth pattern : forall (verts : list A) c i j d, length pattern = length verts ->
  nth i (renum pattern c) None = Some j -> c <= j /\ nth (j - c) (keep pattern verts) d = nth i verts d.
Proof.
  induction pattern as [|b p IH]; intros verts c i j d L H.
  - destruct i; discriminate.
  - destruct verts as [|v r]; [discriminate|]. cbn [length] in L. injection L as L. destruct b; cbn [renum keep] in *.
    + destruct i as [|i]; cbn [nth] in *.
      * injection H as <-. split; [lia|]. rewrite Nat.sub_diag. reflexivity.
      * destruct (IH r (S c) i j d L H) as [G1 G2]. split; [lia|]. replace (j - c) with (S (j - S c)) by lia. exact G2.
    + destruct i as [|i]; cbn [nth] in *; [discriminate|]. apply (IH r c i j d L H).
Qed.

(* a surviving face references the same points as before *)
Theorem surviving_face_same_points (verts : list A) pattern f f' d : length pattern = length verts ->
  new_face (renum pattern 0) f = Some f' ->
  map (fun j => nth j (keep pattern verts) d) f' = map (fun i => nth i verts d) f.
Proof.
  intros L. revert f'. induction f as [|i r IH]; intros f' H; cbn [new_face] in H.
  - injection H as <-. reflexivity.
  - destruct (nth i (renum pattern 0) None) as [j|] eqn:E; [|discriminate].
    destruct (new_face (renum pattern 0) r) as [r'|] eqn:E2; [|discriminate]. injection H as <-.
    cbn [map]. rewrite (IH r' eq_refl). destruct (renum_nth pattern verts 0 i j d L E) as [_ G]. rewrite Nat.sub_0_r in G. rewrite G. reflexivity.
Qed.

(* a face survives exactly when all its vertices do *)
Lemma renum_some pattern : forall c i, (exists j, nth i (renum pattern c) None = Some j) <-> nth i pattern false = true.
Proof.
  induction pattern as [|b p IH]; intros c i.
  - destruct i; cbn; split; [intros [j H]; discriminate| discriminate| intros [j H]; discriminate| discriminate].
  - destruct b; cbn [renum]; destruct i as [|i]; cbn [nth].
    + split; [reflexivity| intros _; exists c; reflexivity].
    + apply IH.
    + split; [intros [j H]; discriminate| discriminate].
    + apply IH.
Qed.

Theorem face_survives_iff pattern f : is_some (new_face (renum pattern 0) f) = true <-> forall i, In i f -> nth i pattern false = true.
Proof.
  induction f as [|i r IH]; cbn [new_face].
  - split; [intros _ i []| reflexivity].
  - destruct (nth i (renum pattern 0) None) as [j|] eqn:E.
    + destruct (new_face (renum pattern 0) r) as [r'|] eqn:E2; cbn [is_some] in *.
      * split; [|reflexivity]. intros _ k [<-|Hk]; [apply (renum_some pattern 0 i); exists j; exact E| apply IH; [reflexivity| exact Hk]].
      * split; [discriminate|]. intros H. exfalso. assert (X : false = true) by (apply IH; intros k Hk; apply H; right; exact Hk). discriminate.
    + split; [discriminate|]. intros H. exfalso. destruct (proj2 (renum_some pattern 0 i) (H i (or_introl eq_refl))) as [j Hj]. congruence.
Qed.

(* per-face data filtered by the face pattern stays aligned with the surviving faces *)
Theorem face_data_aligned (nf : list (option (list nat))) : forall (data : list D), length data = length nf ->
  combine (somes nf) (keep (map is_some nf) data)
  = flat_map (fun od => match fst od with Some f => [(f, snd od)] | None => [] end) (combine nf data).
Proof.
  induction nf as [|o r IH]; intros data L; [reflexivity|]. destruct data as [|x data]; [discriminate|]. cbn [length] in L. injection L as L.
  destruct o as [f|]; cbn [map is_some keep somes flat_map combine fst snd app]; unfold somes in *; rewrite <- (IH data L); reflexivity.
Qed.

Lemma keep_length {X} pattern : forall (l : list X), length pattern = length l -> length (keep pattern l) = length (filter (fun b => b) pattern).
Proof.
  induction pattern as [|b p IH]; intros l L; [reflexivity|]. destruct l as [|x r]; [discriminate|]. injection L as L.
  destruct b; cbn [keep filter length]; rewrite (IH r L); reflexivity.
Qed.

Theorem counts_agree (verts : list A) pattern faces (data : list D) : length data = length faces ->
  let '(nv, nf, fp) := remove_vertices verts pattern faces in
  length (transfer_face_data data fp) = length nf.
Proof.
  intros L. unfold remove_vertices, transfer_face_data. cbv zeta.
  rewrite keep_length by (rewrite !map_length; symmetry; exact L).
  clear L. induction faces as [|f r IH]; [reflexivity|].
  cbn [map]. unfold somes in *. destruct (new_face (renum pattern 0) f); cbn [is_some filter flat_map app length]; rewrite IH; reflexivity.
Qed.
End MO.
