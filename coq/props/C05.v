(* C05 -- triangulation: predicates and area conservation of the elementary steps.  Theorems only.
   PARTIAL: containment / non-overlap as point-set statements and earcut's control flow are validated
   by the exact tiling checker of the harness, not proved. *)
From LBG Require Import Base QGeom ListCyc G0_vec G1_shapes G2_inter G3_poly G6_tri C01_area C05_tri C05_convex.
Open Scope Q_scope.

Theorem C05_area_sign_is_orientation : forall p q r, earcut_area p q r == - det2 (sub2 q p) (sub2 r p).
Proof. exact earcut_area_is_orientation. Qed.
Print Assumptions C05_area_sign_is_orientation.

Theorem C05_point_in_triangle_iff : forall a b c p,
  earcut_point_in_triangle (v2x a) (v2y a) (v2x b) (v2y b) (v2x c) (v2y c) (v2x p) (v2y p) = true <->
  0 <= det2 (sub2 a p) (sub2 b p) /\ 0 <= det2 (sub2 b p) (sub2 c p) /\ 0 <= det2 (sub2 c p) (sub2 a p).
Proof. exact point_in_triangle_iff. Qed.
Print Assumptions C05_point_in_triangle_iff.

Theorem C05_barycentric_signs_sum_to_area : forall a b c p,
  det2 (sub2 a p) (sub2 b p) + det2 (sub2 b p) (sub2 c p) + det2 (sub2 c p) (sub2 a p) == det2 (sub2 b a) (sub2 c a).
Proof. exact barycentric_sum. Qed.
Print Assumptions C05_barycentric_signs_sum_to_area.

(* holds on the repaired tree; with the unparenthesised comparison chain of the pinned tree the generated
   definition is a different term and this theorem does not compile *)
Theorem C05_intersects_iff_proper_crossing : forall p1 q1 p2 q2,
  ~ side p1 q1 p2 == 0 -> ~ side p1 q1 q2 == 0 -> ~ side p2 q2 p1 == 0 -> ~ side p2 q2 q1 == 0 ->
  (earcut_intersects p1 q1 p2 q2 = true <->
   side p1 q1 p2 * side p1 q1 q2 < 0 /\ side p2 q2 p1 * side p2 q2 q1 < 0).
Proof. exact intersects_iff_proper_crossing. Qed.
Print Assumptions C05_intersects_iff_proper_crossing.

Theorem C05_ear_removal_conserves_area : forall a b c r,
  shoelace2 (a :: b :: c :: r) == shoelace2 (a :: c :: r) + det2 (sub2 b a) (sub2 c a).
Proof. exact ear_step_area. Qed.
Print Assumptions C05_ear_removal_conserves_area.

Theorem C05_convex_fan_sums_to_area : forall v0 l,
  shoelace2 (v0 :: l) == path_sum (fun p q => det2 (sub2 p v0) (sub2 q v0)) l.
Proof. exact fan_area_sum. Qed.
Print Assumptions C05_convex_fan_sums_to_area.

Theorem C05_diagonal_split_conserves_area : forall a l1 b l2,
  shoelace2 (a :: l1 ++ b :: l2) == shoelace2 (a :: l1 ++ [b]) + shoelace2 (b :: l2 ++ [a]).
Proof. exact split_ring_area. Qed.
Print Assumptions C05_diagonal_split_conserves_area.

(* the test that selects the fan shortcut (Polygon2D.is_convex, generated from the source): True exactly when no vertex - first and
   last included - turns against the orientation of the loop *)
Theorem C05_is_convex_checks_the_turn_at_every_vertex : forall p : Polygon2R,
  let vs := pg_vertices p in let n := length vs in
  Polygon2D_is_convex p = true <->
  (n = 3%nat \/ forall i, (i < n)%nat ->
     let t := det2 (sub2 (cnth vs i) (cnth vs (i + n - 1))) (sub2 (cnth vs (S i)) (cnth vs i)) in
     if Polygon2D_is_clockwise p then t <= 0 else 0 <= t).
Proof. exact is_convex_vertices. Qed.
Print Assumptions C05_is_convex_checks_the_turn_at_every_vertex.

Example C05_is_convex_nonvacuous :
  Polygon2D_is_convex (mkPolygon2 [mkV2 0 0; mkV2 4 0; mkV2 4 4; mkV2 0 4]) = true /\
  Polygon2D_is_convex (mkPolygon2 [mkV2 0 0; mkV2 4 0; mkV2 4 4; mkV2 2 1]) = false /\
  Polygon2D_is_convex (mkPolygon2 [mkV2 2 1; mkV2 0 0; mkV2 4 0; mkV2 4 4]) = false.
Proof. vm_compute. repeat split; reflexivity. Qed.

Example C05_nonvacuous :
  earcut_intersects (mkV2 0 0) (mkV2 2 2) (mkV2 0 2) (mkV2 2 0) = true /\
  earcut_intersects (mkV2 0 0) (mkV2 1 1) (mkV2 0 2) (mkV2 2 3) = false /\
  ~ side (mkV2 0 0) (mkV2 2 2) (mkV2 0 2) == 0.
Proof. vm_compute. repeat split; try reflexivity; discriminate. Qed.
