(* SubDims.v -- scalar layout computed by Face3D.sub_rects_from_rect_dimensions (hand model, tied by correspondence in C19) and the
   proof that the rectangles lie inside the parent and do not overlap, for every parameter value. *)
From LBG Require Import Base QGeom SubOffset.
Open Scope Q_scope.

Definition rects_dims (base height srh0 srw0 sill0 hsep0 : Q) : layout :=
  let max_height := height - (2#100) * height in
  let srh := if Qlt_bool max_height srh0 then max_height else srh0 in
  let sill1 := if Qlt_bool sill0 ((1#100) * height) then (1#100) * height else sill0 in
  let sill := if Qle_bool height (srh + sill1) then height - srh - height * (1#100) else sill1 in
  let hsep := if Qle_bool hsep0 srw0 then srw0 * (102#100) else hsep0 in
  let n0 := if Qlt_bool (hsep / 2) base then py_round (base / hsep) else 1%Z in
  if Qlt_bool srw0 (base / 2) then
    let div_dist := if (n0 =? 1)%Z then base / 2 else hsep in
    let n := if Qlt_bool base (inject_Z n0 * srw0 + inject_Z (n0 - 1) * (hsep - srw0)) then Qfloor (base / hsep) else n0 in
    let L := div_dist * inject_Z n in
    {| cols := n; rows := 1; lw := srw0; lh := srh; c0 := base / 2 - L / 2 + div_dist / 2; pitch := div_dist; y0 := sill; rpitch := 0 |}
  else
    let w := if Qle_bool base srw0 then base * (98#100) else srw0 in
    {| cols := 1; rows := 1; lw := w; lh := srh; c0 := base / 2; pitch := 0; y0 := sill; rpitch := 0 |}.

Lemma py_round_le_floor1 x : (py_round x <= Qfloor x + 1)%Z.
Proof. unfold py_round. cbv zeta. destruct (Qlt_bool _ _); [lia|]. destruct (Qlt_bool _ _); [lia|]. destruct (Z.even _); lia. Qed.

Lemma py_round_ge1' x : 1 # 2 < x -> (1 <= py_round x)%Z.
Proof.
  intros H. unfold py_round. cbv zeta.
  pose proof (Qfloor_le x) as F1. pose proof (Qlt_floor x) as F2.
  assert (F0 : (0 <= Qfloor x)%Z).
  { destruct (Z_lt_le_dec (Qfloor x) 0) as [N|N]; [|exact N]. exfalso.
    assert (E : inject_Z (Qfloor x + 1) <= inject_Z 0) by (rewrite <- Zle_Qle; lia). change (inject_Z 0) with 0 in E. lra. }
  destruct (Z.eq_dec (Qfloor x) 0) as [Z0|NZ].
  - rewrite Z0 in *. change (inject_Z 0) with 0 in *.
    assert (R1 : Qlt_bool (x - 0) (1 # 2) = false) by (apply Qlt_bool_false_iff; lra).
    assert (R2 : Qlt_bool (1 # 2) (x - 0) = true) by (apply Qlt_bool_iff; lra).
    rewrite R1, R2. lia.
  - destruct (Qlt_bool _ _); [lia|]. destruct (Qlt_bool _ _); [lia|]. destruct (Z.even _); lia.
Qed.

Lemma half' x : x / 2 == x * (1 # 2).
Proof. field. Qed.

Lemma inject_pos n : (1 <= n)%Z -> 1 <= inject_Z n.
Proof. intros H. change 1 with (inject_Z 1). rewrite <- Zle_Qle. exact H. Qed.

Section Dims.
Variables base height srh0 srw0 sill0 hsep0 : Q.
Hypothesis Hb : 0 < base.
Hypothesis Hh : 0 < height.
Hypothesis Hs : 0 < srh0.
Hypothesis Hw : 0 < srw0.
Hypothesis Hp : 0 < hsep0.

Let L := rects_dims base height srh0 srw0 sill0 hsep0.

Theorem rects_dims_inside :
  (1 <= cols L)%Z /\ 0 <= layout_left L /\ layout_right L <= base /\ 0 < layout_bottom L /\ layout_top L < height /\
  (lw L <= pitch L \/ cols L = 1%Z) /\ rows L = 1%Z.
Proof.
  unfold L, rects_dims. cbv zeta.
  set (srh := if Qlt_bool (height - (2 # 100) * height) srh0 then height - (2 # 100) * height else srh0).
  assert (S0 : 0 < srh /\ srh <= (98 # 100) * height).
  { unfold srh. destruct (Qlt_bool _ srh0) eqn:E; [apply Qlt_bool_iff in E| apply Qlt_bool_false_iff in E]; split; lra. }
  destruct S0 as [S0 S1].
  set (sill1 := if Qlt_bool sill0 ((1 # 100) * height) then (1 # 100) * height else sill0).
  assert (SL : (1 # 100) * height <= sill1).
  { unfold sill1. destruct (Qlt_bool sill0 _) eqn:E; [lra| apply Qlt_bool_false_iff in E; exact E]. }
  set (sill := if Qle_bool height (srh + sill1) then height - srh - height * (1 # 100) else sill1).
  assert (SV : 0 < sill /\ sill + srh < height).
  { unfold sill. destruct (Qle_bool height (srh + sill1)) eqn:E; [apply Qle_bool_iff in E| apply Qle_bool_false_iff in E]; split; lra. }
  destruct SV as [SV0 SV1].
  set (hsep := if Qle_bool hsep0 srw0 then srw0 * (102 # 100) else hsep0).
  assert (HS : 0 < hsep /\ srw0 < hsep).
  { unfold hsep. destruct (Qle_bool hsep0 srw0) eqn:E; [apply Qle_bool_iff in E| apply Qle_bool_false_iff in E]; split; lra. }
  destruct HS as [HS0 HS1].
  set (n0 := if Qlt_bool (hsep / 2) base then py_round (base / hsep) else 1%Z).
  assert (N0 : (1 <= n0)%Z).
  { unfold n0. destruct (Qlt_bool (hsep / 2) base) eqn:E; [|lia]. apply Qlt_bool_iff in E. apply py_round_ge1'.
    apply Qlt_shift_div_l; [exact HS0|]. rewrite half' in E. lra. }
  destruct (Qlt_bool srw0 (base / 2)) eqn:EW.
  - apply Qlt_bool_iff in EW. rewrite half' in EW.
    set (div := if (n0 =? 1)%Z then base / 2 else hsep).
    set (n := if Qlt_bool base (inject_Z n0 * srw0 + inject_Z (n0 - 1) * (hsep - srw0)) then Qfloor (base / hsep) else n0).
    unfold layout_left, layout_right, layout_bottom, layout_top. cbn [cols rows lw lh c0 pitch y0 rpitch].
    change (inject_Z (1 - 1)) with 0.
    assert (IP : inject_Z (n - 1) == inject_Z n - 1) by (unfold Z.sub; rewrite inject_Z_plus; reflexivity).
    assert (IP0 : inject_Z (n0 - 1) == inject_Z n0 - 1) by (unfold Z.sub; rewrite inject_Z_plus; reflexivity).
    (* the key facts: n >= 1, w <= div, (n-1) div + w <= base *)
    assert (K : (1 <= n)%Z /\ srw0 <= div /\ (inject_Z n - 1) * div + srw0 <= base /\ True).
    { destruct (n0 =? 1)%Z eqn:E1.
      - apply Z.eqb_eq in E1. unfold n, div. rewrite E1. change (inject_Z (1 - 1)) with 0. change (inject_Z 1) with 1.
        assert (C : Qlt_bool base (1 * srw0 + 0 * (hsep - srw0)) = false) by (apply Qlt_bool_false_iff; lra).
        rewrite C. change (inject_Z 1) with 1. rewrite half'. repeat split; try lia; lra.
      - apply Z.eqb_neq in E1. assert (N2 : (2 <= n0)%Z) by lia. unfold div.
        assert (FL : (1 <= Qfloor (base / hsep))%Z).
        { unfold n0 in N2. destruct (Qlt_bool (hsep / 2) base); [|lia]. pose proof (py_round_le_floor1 (base / hsep)). lia. }
        unfold n. destruct (Qlt_bool base _) eqn:C.
        + pose proof (Qfloor_le (base / hsep)) as FLE.
          assert (M : inject_Z (Qfloor (base / hsep)) * hsep <= base).
          { assert (Y : inject_Z (Qfloor (base / hsep)) * hsep <= base / hsep * hsep)
              by (apply Qmult_le_compat_r; [exact FLE| lra]).
            assert (Z_ : base / hsep * hsep == base) by (field; lra). rewrite Z_ in Y. exact Y. }
          repeat split; try lia; try lra; try nra.
        + apply Qlt_bool_false_iff in C. rewrite IP0 in C. repeat split; try lia; try lra; try nra. }
    destruct K as (K1 & K2 & K3 & _).
    pose proof (inject_pos n K1) as NQ.
    rewrite IP, !half'. set (nq := inject_Z n) in *.
    assert (X : (nq - 1) * div == nq * div - div) by ring.
    repeat split; try lia; try lra; try nra.
  - apply Qlt_bool_false_iff in EW. rewrite half' in EW.
    set (w := if Qle_bool base srw0 then base * (98 # 100) else srw0).
    assert (W : 0 < w /\ w <= base).
    { unfold w. destruct (Qle_bool base srw0) eqn:E; [apply Qle_bool_iff in E| apply Qle_bool_false_iff in E]; split; lra. }
    destruct W as [W0 W1].
    unfold layout_left, layout_right, layout_bottom, layout_top. cbn [cols rows lw lh c0 pitch y0 rpitch].
    change (inject_Z (1 - 1)) with 0. rewrite !half'.
    repeat split; try lia; try lra.
Qed.
End Dims.
