"""C20  grid meshes and OBJ/STL interchange are faithful to the geometry."""
import math, os, tempfile, shutil
from fractions import Fraction
from .. import core, gens as G, exact as X, build as Bd
from ..core import q, z, v2
from ..build import P2, V2, P3, V3
from ladybug_geometry.geometry2d import Polygon2D, Mesh2D
from ladybug_geometry.geometry3d import Face3D, Mesh3D, Plane

RULE = ('polygons / faces as in C01 with cell sizes from 1/40 to 2x the extent (incl. sizes that do not divide it), offsets, flip '
        'on/off, centroid generation on/off; random removal patterns; meshes of triangles, quads and mixed; OBJ / ASCII STL round '
        'trips through temporary files; distinct by (constructor, cells, options)')
ASSUMPTIONS = ['mesh colours are not exercised (ladybug.color is not installed here)']
TRUSTED = ['file I/O and text formatting are not modelled: validated by round trips only']


def check_mesh_data(ctx, kind, m, desc, d3):
    """reported face areas / centroids / normals equal those recomputed from the vertices"""
    fr = type(m)(m.vertices, m.faces)
    for nm in ('face_areas', 'face_centroids') + (('face_normals',) if d3 else ()):
        val = getattr(m, nm)
        if isinstance(val, (tuple, list)) and len(val) != len(m.faces):
            ctx.violation(kind + ':' + nm + ':length', '%d entries of %s for %d faces' % (len(val), nm, len(m.faces)), desc); return False
    fa = m.face_areas
    if isinstance(fa, (int, float)):
        fa = [fa] * len(m.faces)
    for i, (a, b) in enumerate(zip(fa, fr.face_areas)):
        if abs(a - b) > 1e-9 * max(1.0, abs(b)):
            ctx.violation(kind + ':face_area', 'face %d: reported %r recomputed %r' % (i, a, b), desc); return False
    if abs(m.area - fr.area) > 1e-9 * max(1.0, fr.area):
        ctx.violation(kind + ':area', 'area %r recomputed %r' % (m.area, fr.area), desc); return False
    for i, (a, b) in enumerate(zip(m.face_centroids, fr.face_centroids)):
        if max(abs(x - y) for x, y in zip(a, b)) > 1e-9 * 1000:
            ctx.violation(kind + ':face_centroid', 'face %d: reported %r recomputed %r' % (i, a, b), desc); return False
    if d3:
        for i, (a, b) in enumerate(zip(m.face_normals, fr.face_normals)):
            if max(abs(x - y) for x, y in zip(a, b)) > 1e-9:
                ctx.violation(kind + ':face_normal', 'face %d: reported %r recomputed %r' % (i, a, b), desc); return False
    return True


def fam_grid(ctx, rng):
    which = rng.choice(['from_grid', 'from_polygon_grid', 'mesh_grid', 'mesh_grid'])
    if which == 'from_grid':
        nx, ny = rng.randint(1, 6), rng.randint(1, 6)
        dx, dy = G.dy(rng.uniform(0.1, 5)), G.dy(rng.uniform(0.1, 5))
        bp = G.rpt2(rng, 50)
        gc = rng.random() < 0.5
        m = Mesh2D.from_grid(P2(bp), nx, ny, dx, dy, gc)
        desc = {'ctor': which, 'base': bp, 'num': (nx, ny), 'dim': (dx, dy), 'centroids': gc}
        ctx.count('grid.' + which, key=(nx, ny, gc), sample=desc)
        if len(m.faces) != nx * ny or len(m.vertices) != (nx + 1) * (ny + 1):
            ctx.violation('grid.from_grid:counts', '%d faces %d vertices' % (len(m.faces), len(m.vertices)), desc); return
        for f in m.faces:
            pts = [m.vertices[i] for i in f]
            xs = sorted({round(p.x, 9) for p in pts}); ys = sorted({round(p.y, 9) for p in pts})
            if len(xs) != 2 or len(ys) != 2 or abs(xs[1] - xs[0] - dx) > 1e-9 * 100 or abs(ys[1] - ys[0] - dy) > 1e-9 * 100:
                ctx.violation('grid.from_grid:cell', 'a face is not a %r x %r cell: %r' % (dx, dy, pts), desc); return
        check_mesh_data(ctx, 'grid.from_grid', m, desc, False)
        return
    b = G.star_polygon(rng, n=rng.randint(3, 10), R=rng.choice([5.0, 50.0]), center=(0.0, 0.0)) if rng.random() < 0.7 else G.comb_polygon(rng, teeth=3)
    if rng.random() < 0.2:
        # a rectangle turned against the axes (all four corners right angles, none of its edges along x or y)
        c_, s_, _ = G.pythagorean_angle(rng); c_, s_ = float(c_), float(s_)
        rw, rh = G.dy(rng.uniform(2, 30)), G.dy(rng.uniform(2, 30))
        b = [(c_ * x - s_ * y, s_ * x + c_ * y) for x, y in ((0.0, 0.0), (rw, 0.0), (rw, rh), (0.0, rh))]
    xs = [p[0] for p in b]; ys = [p[1] for p in b]
    ext = max(max(xs) - min(xs), max(ys) - min(ys))
    cell = ext * rng.choice([1 / 40.0, 1 / 17.0, 1 / 9.5, 1 / 4.0, 1 / 3.0, 0.7, 2.0])
    cx, cy = G.dy(cell, 16), G.dy(cell * rng.choice([1.0, 1.0, 0.6]), 16)
    fb = [X.fpt(p) for p in b]
    if which == 'from_polygon_grid':
        gc = rng.random() < 0.5
        poly = Polygon2D([P2(p) for p in b])
        try:
            m = Mesh2D.from_polygon_grid(poly, cx, cy, gc)
        except AssertionError:
            ctx.count('grid.empty', key=which, nontrivial=False); return
        desc = {'ctor': which, 'polygon': b, 'cell': (cx, cy), 'centroids': gc}
        ctx.count('grid.' + which, key=(len(b), round(ext / cell), gc), sample={'ctor': which, 'n': len(b), 'cells': len(m.faces)})
        kind = 'grid.from_polygon_grid'
        verts2 = [(v.x, v.y) for v in m.vertices]
        used = {i for f in m.faces for i in f}
        m3 = None
    else:
        fl = rng.random() < 0.5; gc = rng.random() < 0.6
        off = rng.choice([0, G.dy(rng.uniform(0.01, 1)), G.dy(rng.uniform(0.01, 1))])
        frame = G.rational_frame(rng); o = G.rpt3(rng, 50)
        nh = rng.choice([0, 0, 1])
        hs = G.holes_in(rng, b, nh) if nh else []
        upl = None
        if rng.random() < 0.4:
            # a base plane of the user's choosing: its x axis turned about the normal (not the default axis of that normal)
            c_, s_, _ = G.pythagorean_angle(rng); c_, s_ = float(c_), float(s_)
            upl = Plane(V3(frame[2]), P3(G.embed(frame, o, b[0])), V3(tuple(c_ * frame[0][i] + s_ * frame[1][i] for i in range(3))))
        face = Face3D([P3(G.embed(frame, o, p)) for p in b], upl, holes=[[P3(G.embed(frame, o, p)) for p in h] for h in hs] or None)
        try:
            m = face.mesh_grid(cx, cy, off, fl, gc)
        except AssertionError:
            ctx.count('grid.empty', key=which, nontrivial=False); return
        desc = {'ctor': which, 'boundary2d': b, 'holes': hs, 'frame': frame, 'origin': o, 'cell': (cx, cy), 'offset': off, 'flip': fl, 'centroids': gc}
        ctx.count('grid.' + which, key=(len(b), round(ext / cell), fl, gc, bool(off)), sample={'ctor': which, 'n': len(b), 'cells': len(m.faces)})
        kind = 'grid.mesh_grid'
        pl = face.plane
        verts2 = []
        for v in m.vertices:
            # remove the offset along the normal before mapping back
            n = face.normal
            sgn = -1.0 if fl else 1.0
            p = P3((v.x - n.x * off * sgn, v.y - n.y * off * sgn, v.z - n.z * off * sgn))
            d = abs(pl.n.dot(p - pl.o))
            if d > 1e-7 * 100:
                ctx.violation(kind + ':off_plane', 'grid vertex is %r off the (offset) face plane' % d, desc); return
            q2 = pl.xyz_to_xy(p); verts2.append((q2.x, q2.y))
        # the 2D frame of the face may differ from the generator's: test containment in the face's own frame
        fb = [X.fpt(tuple(pl.xyz_to_xy(p))) for p in face.boundary]
        fhs = [[X.fpt(tuple(pl.xyz_to_xy(p))) for p in h] for h in (face.holes or ())]
        used = {i for f in m.faces for i in f}
        # normals along the face normal (reversed when flipped)
        n = X.fpt(face.normal)
        for fn in m.face_normals:
            dd = float(X.dot(X.fpt(fn), n))
            if abs(dd - (-1.0 if fl else 1.0)) > 1e-9:
                ctx.violation(kind + ':normal_direction', 'face normal . face normal = %r (flip=%r)' % (dd, fl), desc); return
        m3 = m
    # congruent cells of the adjusted size
    sizes = set()
    for f in m.faces:
        ps = [verts2[i] for i in f]
        w = max(p[0] for p in ps) - min(p[0] for p in ps); h = max(p[1] for p in ps) - min(p[1] for p in ps)
        sizes.add((w, h))
        if len(f) != 4:
            ctx.violation(kind + ':cell_shape', 'a grid face is not a quad', desc); return
    if sizes:
        ws = [a for a, _ in sizes]; hs = [b for _, b in sizes]
        scale = max(1.0, max(ws), max(hs))
        if max(ws) - min(ws) > 1e-7 * scale or max(hs) - min(hs) > 1e-7 * scale:
            ctx.violation(kind + ':not_congruent', 'cells of different sizes: %r' % sorted(sizes)[:4], desc); return
        w, h = ws[0], hs[0]
        # adjusted size: extent / max(1, floor(extent / requested)) (exact; either neighbour when the ratio is within 1e-12 of an integer)
        for got, req, k, nm in ((w, cx, 0, 'x'), (h, cy, 1, 'y')):
            e = max(p[k] for p in fb) - min(p[k] for p in fb)
            ratio = e / Fraction(req)
            cands = {max(1, math.floor(ratio))}
            if abs(ratio - round(ratio)) < Fraction(1, 10 ** 12):
                cands |= {max(1, int(round(ratio))), max(1, int(round(ratio)) - 1)}
            if not any(abs(got - float(e / c)) <= 1e-6 * max(1.0, float(e)) for c in cands):
                ctx.violation(kind + ':cell_size', '%s cell size %r is not the adjusted size %r (extent %r, requested %r)' % (
                    nm, got, [float(e / c) for c in sorted(cands)], float(e), req), desc); return
    # all used corners inside the source shape (boundary counts as inside up to 1e-6 of the extent)
    for i in sorted(used):
        p = X.fpt(verts2[i])
        ins = X.winding_inside(fb, p)
        if ins is False and X.sqdist_to_boundary(fb, p) > Fraction(ext * 2e-6) ** 2:
            ctx.violation(kind + ':corner_outside', 'grid corner %r lies outside the source shape' % (verts2[i],), desc); return
        if which == 'mesh_grid':
            for hh in fhs:
                if X.winding_inside(hh, p) is True and X.sqdist_to_boundary(hh, p) > Fraction(ext * 2e-6) ** 2:
                    ctx.violation(kind + ':corner_in_hole', 'grid corner %r lies inside a hole' % (verts2[i],), desc); return
    check_mesh_data(ctx, kind, m, desc, which == 'mesh_grid')


def fam_removal(ctx, rng):
    v, f = Bd.tri_quad_mesh2d(rng)
    d3 = rng.random() < 0.5
    xm = sum(p[0] for p in v) / len(v)
    # 3D: a folded (non-planar) sheet, so that per-face normals differ from face to face
    m = Mesh3D([P3((p[0], p[1], 0.25 * p[0] + 0.6 * abs(p[0] - xm))) for p in v], f) if d3 else Mesh2D([P2(p) for p in v], f)
    m.face_areas; m.face_centroids
    if d3 and rng.random() < 0.7:
        m.face_normals; m.vertex_normals        # every per-face / per-vertex cache is filled before the removal
    desc = {'vertices': v, 'faces': [list(x) for x in f], '3d': d3}
    op = rng.choice(['remove_vertices', 'remove_faces', 'remove_faces_only', 'triangulated'])
    ctx.count('removal.' + op, key=(len(v), len(f), d3), sample={'op': op, 'faces': len(f)})
    try:
        if op == 'remove_vertices':
            pat = [rng.random() < 0.8 for _ in v]
            if sum(pat) < 3: return
            r, fpat = m.remove_vertices(pat)
            kept_faces = [fc for fc in m.faces if all(pat[i] for i in fc)]
            if [bool(x) for x in fpat] != [all(pat[i] for i in fc) for fc in m.faces]:
                ctx.violation('removal.remove_vertices:face_pattern', 'returned face pattern is not "all corners kept"', desc); return
        elif op in ('remove_faces', 'remove_faces_only'):
            pat = [rng.random() < 0.7 for _ in f]
            if sum(pat) < 1: return
            r = m.remove_faces(pat)[0] if op == 'remove_faces' else m.remove_faces_only(pat)
            kept_faces = [fc for fc, k in zip(m.faces, pat) if k]
        else:
            if not hasattr(m, 'triangulated'): return
            r = m.triangulated()
            kept_faces = None
    except AssertionError:
        return
    except Exception as e:
        ctx.violation('removal.%s:raises' % op, '%r' % (e,), desc); return
    kind = 'removal.' + op
    if kept_faces is not None:
        # surviving faces reference the same points, in the same order
        got = [[tuple(r.vertices[i]) for i in fc] for fc in r.faces]
        exp = [[tuple(m.vertices[i]) for i in fc] for fc in kept_faces]
        if got != exp:
            ctx.violation(kind + ':faces_changed', 'surviving faces do not reference the same points', desc); return
    else:
        if any(len(fc) != 3 for fc in r.faces):
            ctx.violation(kind + ':not_triangles', 'triangulated mesh has a non-triangle', desc); return
        if abs(r.area - m.area) > 1e-9 * max(1.0, m.area):
            ctx.violation(kind + ':area', 'triangulated area %r vs %r' % (r.area, m.area), desc); return
    check_mesh_data(ctx, kind, r, desc, d3)


def fam_files(ctx, rng):
    v, f = Bd.tri_quad_mesh2d(rng)
    mode = rng.choice(['tri', 'quad', 'mixed'])
    if mode == 'tri':
        f = [t for fc in f for t in ([fc] if len(fc) == 3 else [(fc[0], fc[1], fc[2]), (fc[2], fc[3], fc[0])])]
    elif mode == 'quad':
        f = [fc for fc in f if len(fc) == 4] or f
    used = sorted({i for fc in f for i in fc})
    remap = {o: n for n, o in enumerate(used)}
    v = [v[i] for i in used]; f = [tuple(remap[i] for i in fc) for fc in f]
    # full-precision coordinates; some meshes are small (all coordinates well below 1), some sit far from the origin
    k_ = rng.choice([1.0, 1.0, 0.01, 0.001, 37.0])
    pts = [P3(((p[0] * 1.0000001 + 1e-7 / 3) * k_, p[1] / 3.0 * k_, (0.1 * p[0] - 0.7 * p[1]) * k_)) for p in v]
    m = Mesh3D(pts, f)
    d = tempfile.mkdtemp(prefix='lbgverif_')
    desc = {'vertices': [tuple(p) for p in pts], 'faces': [list(x) for x in f], 'mode': mode}
    ctx.count('files.' + mode, key=(len(v), len(f)), sample={'mode': mode, 'faces': len(f)})
    try:
        try:
            p = m.to_obj(d, 'mesh')
            back = Mesh3D.from_obj(p)
            if [tuple(x) for x in back.vertices] != [tuple(x) for x in m.vertices] or [tuple(x) for x in back.faces] != [tuple(x) for x in m.faces]:
                ctx.violation('files.obj:%s:roundtrip' % mode, 'OBJ round trip changed vertices or faces', desc)
            # the writer's options: quads are split only when asked, a material file appears only when asked; vertices never change
            tq, mtl = rng.random() < 0.5, rng.random() < 0.5
            p2 = m.to_obj(d, 'mesh_opt', triangulate_quads=tq, include_mtl=mtl)
            back2 = Mesh3D.from_obj(p2)
            nq = sum(1 for fc in m.faces if len(fc) == 4)
            exp_faces = len(m.faces) + (nq if tq else 0)
            has_mtl = os.path.isfile(os.path.join(d, 'mesh_opt.mtl'))
            ctx.count('files.obj.options', key=(mode, tq, mtl), sample={'mode': mode, 'triangulate_quads': tq, 'include_mtl': mtl})
            if [tuple(x) for x in back2.vertices] != [tuple(x) for x in m.vertices]:
                ctx.violation('files.obj:%s:options:vertices' % mode, 'OBJ written with options changed the vertices', dict(desc, triangulate_quads=tq, include_mtl=mtl))
            elif len(back2.faces) != exp_faces or (tq and any(len(fc) != 3 for fc in back2.faces)) or \
                    (not tq and [tuple(x) for x in back2.faces] != [tuple(x) for x in m.faces]):
                ctx.violation('files.obj:%s:options:faces' % mode, 'to_obj(triangulate_quads=%r, include_mtl=%r): %d faces read back, %d expected' % (
                    tq, mtl, len(back2.faces), exp_faces), dict(desc, triangulate_quads=tq, include_mtl=mtl))
            elif has_mtl != mtl:
                ctx.violation('files.obj:%s:options:mtl' % mode, 'to_obj(triangulate_quads=%r, include_mtl=%r): material file %s' % (
                    tq, mtl, 'written' if has_mtl else 'missing'), dict(desc, triangulate_quads=tq, include_mtl=mtl))
        except Exception as e:
            ctx.violation('files.obj:%s:raises' % mode, '%r' % (e,), desc)
        try:
            p = m.to_stl(d, 'mesh')
            back = Mesh3D.from_stl(p)
            tris = []
            for fc in m.faces:
                vs = [m.vertices[i] for i in fc]
                tris.append((vs[0], vs[1], vs[2]))
                if len(fc) == 4:
                    tris.append((vs[2], vs[3], vs[0]))
            got = [[tuple(back.vertices[i]) for i in fc] for fc in back.faces]
            if len(got) != len(tris):
                ctx.violation('files.stl:%s:face_count' % mode, '%d triangles expected, %d read back' % (len(tris), len(got)), desc)
            else:
                sc = max(abs(c) for p in pts for c in p)            # relative to the size of the mesh itself (no floor at 1)
                for a, b in zip(got, tris):
                    if any(max(abs(x - y) for x, y in zip(p, tuple(q_))) > 2e-6 * sc for p, q_ in zip(a, b)):
                        ctx.violation('files.stl:%s:roundtrip' % mode, 'STL triangle %r expected %r' % (a, [tuple(x) for x in b]), desc); break
        except Exception as e:
            ctx.violation('files.stl:%s:raises' % mode, '%r' % (e,), desc)
    finally:
        shutil.rmtree(d, ignore_errors=True)


def fam_concave_quads(ctx, rng):
    """Mesh2D.triangulated on a mesh holding a concave (dart) quad, the re-entrant corner at each of the four positions of the face tuple
    and both windings: the two triangles cover the quad (areas add up, one orientation) and per-face colours stay aligned"""
    w, h = G.dy(rng.uniform(2, 8)), G.dy(rng.uniform(2, 8)); t = G.dy(rng.uniform(0.2, 0.7) * h); ox, oy = G.rpt2(rng, 30)
    dart = [(ox, oy), (ox + w, oy + t), (ox + 2 * w, oy), (ox + w, oy + h)]        # re-entrant corner at index 1
    extra = (ox + 3 * w, oy + h)
    for k in range(4):
        for rev in (False, True):
            q = dart[k:] + dart[:k]
            if rev:
                q = q[::-1]
            verts = q + [extra]
            # the triangle shares the dart's vertex (ox + 2w, oy) and (ox + w, oy + h)
            i2 = q.index((ox + 2 * w, oy)); i3 = q.index((ox + w, oy + h))
            faces = [(0, 1, 2, 3), (i2, 4, i3)]
            m = Mesh2D([P2(p) for p in verts], faces)
            desc = {'vertices': verts, 'faces': faces, 'reflex_position': q.index((ox + w, oy + t))}
            ctx.count('removal.triangulated.dart', key=(q.index((ox + w, oy + t)), rev), sample=desc, nontrivial=True)
            try:
                r = m.triangulated()
            except Exception as e:
                ctx.violation('removal.triangulated:dart:raises', '%r' % (e,), desc); return
            fq = [X.fpt(p) for p in q]
            quad_area = X.area(fq)
            tri_area = X.area([X.fpt(verts[i]) for i in faces[1]])
            got = [X.shoelace2([X.fpt(tuple(r.vertices[i])) for i in fc]) / 2 for fc in r.faces]
            if len(r.faces) != 3 or any(len(fc) != 3 for fc in r.faces):
                ctx.violation('removal.triangulated:dart:count', '%d faces after triangulating a quad and a triangle' % len(r.faces), desc); return
            if sum(abs(a) for a in got) != quad_area + tri_area:
                ctx.violation('removal.triangulated:dart:area', 'triangles of the concave quad (re-entrant corner at position %d) do not cover it: total %r, expected %r' % (
                    desc['reflex_position'], float(sum(abs(a) for a in got)), float(quad_area + tri_area)), desc); return
            sq = X.shoelace2(fq)
            if any((a > 0) != (sq > 0) for a in got[:2]):
                ctx.violation('removal.triangulated:dart:orientation', 'a triangle of the split quad is wound against the quad', desc); return


FAMILIES = [(fam_grid, 90), (fam_removal, 60), (fam_concave_quads, 6), (fam_files, 30)]


def explore(ctx):
    for fn, n in FAMILIES:
        for _ in range(ctx.n(n, n * 10)):
            fn(ctx, ctx.rng)


def replay(ctx, data):
    kind = data.get('kind', '')
    c2 = core.Ctx(ctx.pid, 'quick', 59)
    for fn, _ in FAMILIES:
        for _ in range(2000):
            fn(c2, c2.rng)
            if any(v.kind == kind for v in c2.violations):
                return True
    return False


def meshops_cases(ctx, rng, n):
    """MeshOps.v (vm_compute) against Mesh2D/Mesh3D.remove_vertices and remove_faces_only: same surviving vertices (by original
    index), same renumbered faces, same face pattern, per-face areas filtered alike"""
    cases, meta = [], []
    def nl(xs): return core.coq_list(['%d%%nat' % x for x in xs])
    def bl(xs): return core.coq_list(['true' if x else 'false' for x in xs])
    for _ in range(n):
        v, f = Bd.tri_quad_mesh2d(rng)
        d3 = rng.random() < 0.5
        mesh = Mesh3D([P3((p[0], p[1], 1.0)) for p in v], f) if d3 else Mesh2D([P2(p) for p in v], f)
        areas = list(mesh.face_areas)           # fills the per-face cache that has to stay aligned
        pat = [rng.random() < 0.8 for _ in v]
        if not any(pat):
            continue
        try:
            new, fp = mesh.remove_vertices(pat)
        except AssertionError:
            continue            # no face survives: the constructor rejects an empty face list
        ids = [next(i for i, p in enumerate(mesh.vertices) if p is q_ or p == q_) for q_ in new.vertices]
        if len(set(tuple(p) for p in v)) != len(v):
            continue
        faces_c = core.coq_list([nl(x) for x in f])
        exp = '(%s, %s, %s)' % (nl(ids), core.coq_list([nl(x) for x in new.faces]), bl(fp))
        cases.append('rv_eqb (remove_vertices (seq 0 %d) %s %s) %s' % (len(v), bl(pat), faces_c, exp))
        meta.append(('remove_vertices', v, f, pat))
        # per-face data stays aligned: the cached areas of the new mesh are the kept old ones
        na = new._face_areas
        if na is not None and not isinstance(na, (int, float)):
            kept = [a for a, k in zip(areas, fp) if k]
            if list(na) != kept:
                ctx.corr_fail.append({'function': 'remove_vertices face_areas', 'input': repr((v, f, pat)), 'result': 'cached areas not aligned'})
        fpat = [rng.random() < 0.7 for _ in f]
        if any(fpat):
            try:
                new2 = mesh.remove_faces_only(fpat)
            except AssertionError:
                continue
            cases.append('faces_eqb (remove_faces_only %s %s) %s' % (faces_c, bl(fpat), core.coq_list([nl(x) for x in new2.faces])))
            meta.append(('remove_faces_only', v, f, fpat))
    pre = ('Definition nl_eqb (a b : list nat) : bool := Nat.eqb (length a) (length b) && forallb (fun p => Nat.eqb (fst p) (snd p)) (combine a b).\n'
           'Definition faces_eqb (a b : list (list nat)) : bool := Nat.eqb (length a) (length b) && forallb (fun p => nl_eqb (fst p) (snd p)) (combine a b).\n'
           'Definition bl_eqb (a b : list bool) : bool := Nat.eqb (length a) (length b) && forallb (fun p => Bool.eqb (fst p) (snd p)) (combine a b).\n'
           "Definition rv_eqb (a b : list nat * list (list nat) * list bool) : bool := let '(a1, a2, a3) := a in let '(b1, b2, b3) := b in "
           'nl_eqb a1 b1 && faces_eqb a2 b2 && bl_eqb a3 b3.\n')
    res = core.run_cases('C20_corr_mo', ['MeshOps'], pre, cases,
                         header='From Coq Require Import List Bool Arith.\nImport ListNotations.\nFrom LBG Require Import MeshOps.\n')
    ctx.corr_cases += len(cases)
    for ok, m in zip(res, meta):
        if ok is not True:
            ctx.corr_fail.append({'function': 'Mesh.' + m[0], 'input': repr(m[1:]),
                                  'result': 'model and implementation differ' if ok is False else 'model evaluation failed'})


def correspond(ctx):
    """generated grid helpers (_grid_faces, _grid_vertices on dyadic data) vs the implementation"""
    rng = ctx.rng
    cases, meta = [], []
    for _ in range(ctx.n(60, 400)):
        nx, ny = rng.randint(1, 7), rng.randint(1, 7)
        faces = Mesh2D._grid_faces(nx, ny)
        exp = core.coq_list(['(%s)' % ', '.join(z(i) for i in f) for f in faces])
        cases.append('zll_eqb (Mesh2D__grid_faces %s %s) %s' % (z(nx), z(ny), exp))
        meta.append(('_grid_faces', nx, ny))
        bp = G.rpt2(rng, 20); dx, dy = G.dy(rng.uniform(0.25, 4), 4), G.dy(rng.uniform(0.25, 4), 4)
        vs = Mesh2D._grid_vertices(P2(bp), nx, ny, dx, dy)
        cases.append('v2l_eqb (Mesh2D__grid_vertices %s %s %s %s %s) %s' % (v2(bp), z(nx), z(ny), q(dx), q(dy), core.coq_list([v2((p.x, p.y)) for p in vs])))
        meta.append(('_grid_vertices', bp, nx, ny, dx, dy))
    pre = ('Definition f4_eqb (a b : Z * Z * Z * Z) : bool := let \'(a1, a2, a3, a4) := a in let \'(b1, b2, b3, b4) := b in '
           'Z.eqb a1 b1 && Z.eqb a2 b2 && Z.eqb a3 b3 && Z.eqb a4 b4.\n'
           'Definition zll_eqb (a b : list (Z * Z * Z * Z)) : bool := Nat.eqb (length a) (length b) && '
           'forallb (fun p => f4_eqb (fst p) (snd p)) (combine a b).\n'
           'Definition v2l_eqb (a b : list V2) : bool := Nat.eqb (length a) (length b) && '
           'forallb (fun p => Qeq_bool (v2x (fst p)) (v2x (snd p)) && Qeq_bool (v2y (fst p)) (v2y (snd p))) (combine a b).\n')
    res = core.run_cases('C20_corr', ['Base', 'G0_vec', 'G10_grid'], pre, cases)
    ctx.corr_cases += len(cases)
    for ok, m in zip(res, meta):
        if ok is not True:
            ctx.corr_fail.append({'function': 'Mesh2D.' + m[0], 'input': repr(m[1:]),
                                  'result': 'model and implementation differ' if ok is False else 'model evaluation failed'})
    meshops_cases(ctx, rng, ctx.n(60, 400))
