(* C06 -- Face3D plane / normal / right-hand-rule contract.  Theorems only. *)
From LBG Require Import Base QGeom ListCyc G0_vec G1_shapes G2_inter G3_poly G4_face C02_kernels C01_area C06_plane C06_face C06_planefit.
Open Scope Q_scope.

(* Plane(n, o): orthonormal right-handed frame, both branches of the "normal is +-Z" test *)
Theorem C06_plane_init_frame : forall qsqrt n o,
  Proper (Qeq ==> Qeq) qsqrt -> unit3 n -> qsqrt 1 == 1 ->
  (let m := v3y n * v3y n + v3x n * v3x n in qsqrt m * qsqrt m == m) ->
  frame_ok (Plane_init qsqrt n o).
Proof. exact plane_init_frame. Qed.
Print Assumptions C06_plane_init_frame.

Theorem C06_frame_orthonormal_right_handed : forall p, frame_ok p ->
  unit3 (pl_y p) /\ dot3 (pl_y p) (pl_n p) == 0 /\ dot3 (pl_y p) (pl_x p) == 0 /\ cross3 (pl_x p) (pl_y p) =3= pl_n p.
Proof. exact frame_orthonormal. Qed.
Print Assumptions C06_frame_orthonormal_right_handed.

Theorem C06_normalize_unit : forall qsqrt v,
  let m := v3x v * v3x v + v3y v * v3y v + v3z v * v3z v in
  qsqrt m * qsqrt m == m -> ~ m == 0 ->
  unit3 (Vector3D_normalize qsqrt v) /\ Vector3D_normalize qsqrt v =3= smul3 (/ qsqrt m) v.
Proof. exact normalize_unit. Qed.
Print Assumptions C06_normalize_unit.

(* every vertex maps through the plane's 2D coordinates and back onto itself *)
Theorem C06_vertex_roundtrip : forall p pt, frame_ok p -> dot3 (pl_n p) (sub3 pt (pl_o p)) == 0 ->
  Plane_xy_to_xyz p (Plane_xyz_to_xy p pt) =3= pt.
Proof. exact to3d_to2d. Qed.
Print Assumptions C06_vertex_roundtrip.

Theorem C06_2d_roundtrip : forall p q, frame_ok p -> Plane_xyz_to_xy p (Plane_xy_to_xyz p q) =2= q.
Proof. exact to2d_to3d. Qed.
Print Assumptions C06_2d_roundtrip.

Theorem C06_plane_map_on_plane : forall p q, frame_ok p -> dot3 (pl_n p) (sub3 (Plane_xy_to_xyz p q) (pl_o p)) == 0.
Proof. exact to3d_on_plane. Qed.
Print Assumptions C06_plane_map_on_plane.

(* never clockwise: for EVERY vertex list and EVERY (user) plane, whatever its orientation *)
Theorem C06_ctor_never_clockwise : forall b pl, Face3D_is_clockwise (Face3D_init_plane b pl) = false.
Proof. exact ctor_never_clockwise. Qed.
Print Assumptions C06_ctor_never_clockwise.

Theorem C06_ctor_keeps_data : forall b pl,
  f3_plane (Face3D_init_plane b pl) = pl /\
  (f3_boundary (Face3D_init_plane b pl) = b \/ f3_boundary (Face3D_init_plane b pl) = rev b).
Proof. exact ctor_boundary. Qed.
Print Assumptions C06_ctor_keeps_data.

(* right-hand rule: the signed area of the boundary seen in the face plane is the area (Newell) vector
   dotted with the stored normal -- for any closed loop, planar or not, any start vertex *)
Theorem C06_right_hand_rule : forall pl l, frame_ok pl ->
  shoelace2 (loop2d pl l) == dot3 (newell l) (pl_n pl).
Proof. exact projected_area_is_newell_dot_normal. Qed.
Print Assumptions C06_right_hand_rule.

Theorem C06_flip : forall qsqrt f, f3_holes f = None -> Proper (Qeq ==> Qeq) qsqrt ->
  f3_boundary (Face3D_flip qsqrt f) = rev (f3_boundary f) /\
  f3_plane (Face3D_flip qsqrt f) = Plane_flip qsqrt (f3_plane f).
Proof. exact flip_contract. Qed.
Print Assumptions C06_flip.

(* non-vacuity: the XY plane and a tilted rational plane satisfy frame_ok *)
(* ---- faces built WITHOUT a plane: Face3D._plane_from_vertices (generated from the source) ---------------------------------------
   the three numbers accumulated over the triangle fan about the first vertex are the components of the area (Newell) vector of the
   whole loop, for every vertex count and every loop (planar or not, first corners collinear or re-entrant or not) *)
Theorem C06_planeless_face_is_fitted_to_the_area_vector : forall qsqrt v0 l,
  exists n0 n1 n2, mkV3 n0 n1 n2 =3= newell (v0 :: l) /\
    Face3D_plane_from_vertices qsqrt (v0 :: l) = Plane_init qsqrt (normal_of qsqrt n0 n1 n2) v0.
Proof. exact plane_from_vertices_uses_newell. Qed.
Print Assumptions C06_planeless_face_is_fitted_to_the_area_vector.

Theorem C06_area_vector_is_start_vertex_independent : forall x l, newell (x :: l) =3= newell (l ++ [x]).
Proof. exact newell_start_vertex. Qed.
Print Assumptions C06_area_vector_is_start_vertex_independent.

(* a quadrilateral whose first three vertices are collinear (a triangle with a vertex in the middle of a side), in the XZ plane *)
Example C06_collinear_first_corner :
  pl_n (Face3D_plane_from_vertices qsqrt_exec [mkV3 0 0 0; mkV3 1 0 0; mkV3 2 0 0; mkV3 1 0 2]) =3= mkV3 0 (-1) 0 /\
  pl_n (Face3D_plane_from_vertices qsqrt_exec [mkV3 1 0 2; mkV3 0 0 0; mkV3 1 0 0; mkV3 2 0 0]) =3= mkV3 0 (-1) 0.
Proof. vm_compute. repeat split; reflexivity. Qed.

Example C06_frames_exist :
  frame_ok (mkPlane (mkV3 0 0 1) (mkV3 1 2 3) 3 (mkV3 1 0 0) (mkV3 0 1 0)) /\
  frame_ok (mkPlane (mkV3 (2#3) (1#3) (2#3)) (mkV3 0 0 0) 0 (mkV3 (1#3) (2#3) (-2#3)) (mkV3 (-2#3) (2#3) (1#3))).
Proof. split; unfold frame_ok, unit3; vm_compute; repeat split; reflexivity. Qed.
