(* C05_convex.v -- Polygon2D.is_convex (generated from the source; the `break` loops are translated as flag-guarded folds):
   it answers True exactly when no vertex of the loop - the first and the last included - turns against the loop's orientation.
   This is the test that lets triangulation take the fan shortcut. *)
From LBG Require Import Base QGeom ListCyc G0_vec G1_shapes G3_poly.
Open Scope Q_scope.

(* generic fold over the cyclic (predecessor, element) pairs, any state type *)
Fixpoint cfold {A St} (g : St -> A -> A -> St) (prev : A) (l : list A) (acc : St) : St :=
  match l with [] => acc | x :: r => cfold g x r (g acc prev x) end.

Lemma enum_fold_is_cfold {A St} (g : St -> A -> A -> St) (L : list A) d :
  forall (l : list A) (k : nat) acc, (k + length l = length L)%nat ->
    (forall j, (j < length l)%nat -> nth j l d = nth (k + j) L d) ->
    fold_left (fun a ix => g a (py_nth L (fst ix - 1) d) (snd ix)) (enum_from (Z.of_nat k) l) acc
    = cfold g (match k with O => last L d | S j => nth j L d end) l acc.
Proof.
  induction l as [|x r IH]; intros k acc Hlen Hn; [reflexivity|].
  cbn [enum_from fold_left fst snd cfold length] in *.
  rewrite (py_nth_pred L d k) by lia.
  replace (Z.of_nat k + 1)%Z with (Z.of_nat (S k)) by lia.
  rewrite (IH (S k)).
  - f_equal. specialize (Hn O ltac:(lia)). cbn [nth] in Hn. rewrite Nat.add_0_r in Hn. symmetry. exact Hn.
  - lia.
  - intros j Hj. specialize (Hn (S j) ltac:(lia)). cbn [nth] in Hn. rewrite Hn. f_equal. lia.
Qed.

Lemma enumerate_is_cfold {A St} (F : St -> Z * A -> St) (g : St -> A -> A -> St) (L : list A) d a0 :
  (forall acc i x, F acc (i, x) = g acc (py_nth L (i - 1) d) x) ->
  fold_left F (py_enumerate L) a0 = cfold g (last L d) L a0.
Proof.
  intros HF. unfold py_enumerate.
  rewrite (enum_from_fold F (fun acc i x => g acc (py_nth L (i - 1) d) x)) by exact HF.
  change 0%Z with (Z.of_nat 0).
  apply (enum_fold_is_cfold g L d L 0 a0); [reflexivity | intros; reflexivity].
Qed.

(* the consecutive pairs seen by cfold *)
Fixpoint ppairs {A} (prev : A) (l : list A) : list (A * A) :=
  match l with [] => [] | x :: r => (prev, x) :: ppairs x r end.

(* a search loop with a break flag computes existsb *)
Lemma cfold_break {A} (bad : A -> A -> bool) prev (l : list A) (brk : bool) :
  cfold (fun (st : bool * bool) p c => let '(cv, bk) := st in
           if negb bk then (if bad p c then (false, true) else (cv, bk)) else (cv, bk)) prev l (negb brk, brk)
  = (negb (brk || existsb (fun pc => bad (fst pc) (snd pc)) (ppairs prev l)),
     brk || existsb (fun pc => bad (fst pc) (snd pc)) (ppairs prev l)).
Proof.
  revert prev brk. induction l as [|x r IH]; intros prev brk; cbn [cfold ppairs existsb fst snd].
  - rewrite orb_false_r. reflexivity.
  - destruct brk; cbn [negb orb].
    + apply (IH x true).
    + destruct (bad prev x); cbn [orb].
      * apply (IH x true).
      * apply (IH x false).
Qed.

(* accumulating a list *)
Lemma cfold_collect {A B} (f : A -> A -> B) prev (l : list A) (acc : list B) :
  cfold (fun (a : list B) p c => a ++ [f p c]) prev l acc = acc ++ map (fun pc => f (fst pc) (snd pc)) (ppairs prev l).
Proof.
  revert prev acc. induction l as [|x r IH]; intros prev acc; cbn [cfold ppairs map fst snd].
  - rewrite app_nil_r. reflexivity.
  - rewrite IH, <- app_assoc. reflexivity.
Qed.

Definition seg (a b : V2) : LR2 := mkLR2 a (sub2 b a).

(* the edges: edge i runs from vertex i to vertex i+1 (cyclically) *)
Lemma segments_spec (vs : list V2) d :
  Polygon2D__segments_from_vertices vs = py_rotl (map (fun pc => seg (fst pc) (snd pc)) (ppairs (last vs d) vs)).
Proof.
  unfold Polygon2D__segments_from_vertices. cbv zeta. f_equal.
  rewrite (enumerate_is_cfold _ (fun (a : list LR2) p c => a ++ [seg p c]) vs (mkV2 0 0)).
  - rewrite cfold_collect. cbn [app]. destruct vs as [|x r]; [reflexivity|].
    rewrite (last_indep (x :: r) (mkV2 0 0) d) by congruence. reflexivity.
  - intros acc i x. reflexivity.
Qed.

(* turn at the common end of two consecutive edges *)
Definition turn (a b : LR2) : Q := det2 (lr2v a) (lr2v b).

Theorem is_convex_spec (p : Polygon2R) :
  let segs := Polygon2D_segments p in
  Polygon2D_is_convex p = true <->
  (length (pg_vertices p) = 3%nat \/
   forall a b, In (a, b) (ppairs (last segs (mkLR2 (mkV2 0 0) (mkV2 0 0))) segs) ->
     if Polygon2D_is_clockwise p then turn a b <= 0 else 0 <= turn a b).
Proof.
  cbv zeta. unfold Polygon2D_is_convex. cbv zeta.
  destruct (py_len (pg_vertices p) =? 3)%Z eqn:E3.
  - apply Z.eqb_eq in E3. unfold py_len in E3. split; [intros _; left; lia | reflexivity].
  - apply Z.eqb_neq in E3. unfold py_len in E3.
    set (segs := Polygon2D_segments p). set (d := mkLR2 (mkV2 0 0) (mkV2 0 0)).
    assert (G : forall (bad : LR2 -> LR2 -> bool) (ok : LR2 -> LR2 -> Prop),
              (forall a b, bad a b = false <-> ok a b) ->
              (fst (cfold (fun (st : bool * bool) p c => let '(cv, bk) := st in
                      if negb bk then (if bad p c then (false, true) else (cv, bk)) else (cv, bk)) (last segs d) segs (true, false)) = true
               <-> forall a b, In (a, b) (ppairs (last segs d) segs) -> ok a b)).
    { intros bad ok H. pose proof (cfold_break bad (last segs d) segs false) as CB. cbn [negb] in CB. rewrite CB. cbn [fst orb].
      rewrite negb_true_iff. split.
      - intros N a b I. apply H. destruct (bad a b) eqn:B; [|reflexivity].
        assert (X : existsb (fun pc => bad (fst pc) (snd pc)) (ppairs (last segs d) segs) = true)
          by (apply existsb_exists; exists (a, b); split; [exact I| exact B]).
        congruence.
      - intros A. destruct (existsb _ _) eqn:X; [|reflexivity]. apply existsb_exists in X. destruct X as ([a b] & I & B).
        cbn [fst snd] in B. apply A, H in I. congruence. }
    destruct (Polygon2D_is_clockwise p).
    + rewrite (enumerate_is_cfold _ (fun (st : bool * bool) p c => let '(cv, bk) := st in
                 if negb bk then (if Qlt_bool 0 (turn p c) then (false, true) else (cv, bk)) else (cv, bk)) segs d).
      2:{ intros [cv bk] i x. unfold turn, det2, Vector2D_determinant. destruct bk; cbn [negb]; [reflexivity|]. destruct (Qlt_bool _ _); reflexivity. }
      match goal with |- (let '(a, _) := ?X in a) = true <-> _ => replace (let '(a, _) := X in a) with (fst X) by (destruct X; reflexivity) end.
      rewrite (G (fun a b => Qlt_bool 0 (turn a b)) (fun a b => turn a b <= 0)).
      * split; [intros H; right; exact H | intros [H|H]; [lia| exact H]].
      * intros a b. rewrite Qlt_bool_false_iff. reflexivity.
    + rewrite (enumerate_is_cfold _ (fun (st : bool * bool) p c => let '(cv, bk) := st in
                 if negb bk then (if Qlt_bool (turn p c) 0 then (false, true) else (cv, bk)) else (cv, bk)) segs d).
      2:{ intros [cv bk] i x. unfold turn, det2, Vector2D_determinant. destruct bk; cbn [negb]; [reflexivity|]. destruct (Qlt_bool _ _); reflexivity. }
      match goal with |- (let '(a, _) := ?X in a) = true <-> _ => replace (let '(a, _) := X in a) with (fst X) by (destruct X; reflexivity) end.
      rewrite (G (fun a b => Qlt_bool (turn a b) 0) (fun a b => 0 <= turn a b)).
      * split; [intros H; right; exact H | intros [H|H]; [lia| exact H]].
      * intros a b. rewrite Qlt_bool_false_iff. reflexivity.
Qed.

(* ---- the same statement in terms of the vertices ------------------------------------------------------------------------- *)
Definition d0 : LR2 := mkLR2 (mkV2 0 0) (mkV2 0 0).
Definition cnth (vs : list V2) (i : nat) : V2 := nth (i mod length vs) vs (mkV2 0 0).

Lemma ppairs_length {A} prev (l : list A) : length (ppairs prev l) = length l.
Proof. revert prev. induction l as [|x r IH]; intros prev; cbn [ppairs length]; [reflexivity| rewrite IH; reflexivity]. Qed.

Lemma ppairs_nth {A} prev (l : list A) d i : (i < length l)%nat ->
  nth i (ppairs prev l) (d, d) = (match i with O => prev | S j => nth j l d end, nth i l d).
Proof.
  revert prev i. induction l as [|x r IH]; intros prev i Hi; cbn [length] in Hi; [lia|].
  destruct i as [|i]; [reflexivity|]. cbn [ppairs nth]. rewrite IH by lia. destruct i; reflexivity.
Qed.

Lemma ppairs_In {A} prev (l : list A) d a b :
  In (a, b) (ppairs prev l) <-> exists i, (i < length l)%nat /\ a = match i with O => prev | S j => nth j l d end /\ b = nth i l d.
Proof.
  split.
  - intros I. apply (In_nth _ _ (d, d)) in I. destruct I as (i & Hi & E). rewrite ppairs_length in Hi.
    rewrite ppairs_nth in E by exact Hi. exists i. split; [exact Hi|]. inversion E. split; reflexivity.
  - intros (i & Hi & -> & ->). rewrite <- (ppairs_nth prev l d i Hi). apply nth_In. rewrite ppairs_length. exact Hi.
Qed.

Lemma rotl_nth {A} (l : list A) d i : (i < length l)%nat -> nth i (py_rotl l) d = nth (S i mod length l) l d.
Proof.
  intros Hi. destruct l as [|x r]; [cbn in Hi; lia|]. cbn [py_rotl length] in *.
  destruct (Nat.eq_dec i (length r)) as [->|N].
  - rewrite Nat.mod_same by lia. rewrite app_nth2 by lia. rewrite Nat.sub_diag. reflexivity.
  - rewrite Nat.mod_small by lia. rewrite app_nth1 by lia. reflexivity.
Qed.

Lemma rotl_length {A} (l : list A) : length (py_rotl l) = length l.
Proof. destruct l as [|x r]; [reflexivity|]. cbn [py_rotl length]. rewrite app_length. cbn. lia. Qed.

Lemma segments_length vs : length (Polygon2D__segments_from_vertices vs) = length vs.
Proof. rewrite (segments_spec vs (mkV2 0 0)), rotl_length, map_length, ppairs_length. reflexivity. Qed.

Lemma last_nth {A} (l : list A) d : last l d = nth (length l - 1) l d.
Proof. symmetry. apply nth_last. Qed.

Lemma segments_nth vs i : (i < length vs)%nat ->
  nth i (Polygon2D__segments_from_vertices vs) d0 = seg (cnth vs i) (cnth vs (S i)).
Proof.
  intros Hi. set (n := length vs). set (d := mkV2 0 0).
  unfold d0. fold d. rewrite (segments_spec vs d). rewrite rotl_nth by (rewrite map_length, ppairs_length; exact Hi).
  rewrite map_length, ppairs_length. fold n.
  assert (Hm : (S i mod n < n)%nat) by (apply Nat.mod_upper_bound; lia).
  replace (mkLR2 d d) with ((fun pc : V2 * V2 => seg (fst pc) (snd pc)) (d, d)) by (unfold seg, sub2, d; cbn [fst snd v2x v2y]; reflexivity).
  rewrite (map_nth (fun pc : V2 * V2 => seg (fst pc) (snd pc))). rewrite ppairs_nth by exact Hm. cbn [fst snd]. unfold cnth. fold n. fold d.
  destruct (Nat.eq_dec (S i) n) as [E|N].
  - rewrite E, Nat.mod_same by lia. rewrite last_nth. fold n. rewrite (Nat.mod_small i n) by lia.
    replace (n - 1)%nat with i by lia. reflexivity.
  - rewrite (Nat.mod_small (S i) n) by lia. rewrite (Nat.mod_small i n) by lia. reflexivity.
Qed.

Theorem is_convex_vertices (p : Polygon2R) :
  let vs := pg_vertices p in let n := length vs in
  Polygon2D_is_convex p = true <->
  (n = 3%nat \/ forall i, (i < n)%nat ->
     let t := det2 (sub2 (cnth vs i) (cnth vs (i + n - 1))) (sub2 (cnth vs (S i)) (cnth vs i)) in
     if Polygon2D_is_clockwise p then t <= 0 else 0 <= t).
Proof.
  cbv zeta. rewrite is_convex_spec. cbv zeta.
  set (vs := pg_vertices p). set (n := length vs). change (mkLR2 (mkV2 0 0) (mkV2 0 0)) with d0. set (d := d0).
  unfold Polygon2D_segments. cbv zeta. fold vs. set (segs := Polygon2D__segments_from_vertices vs).
  assert (LS : length segs = n) by apply segments_length.
  assert (SN : forall k, (k < n)%nat -> nth k segs d0 = seg (cnth vs k) (cnth vs (S k))) by (intros k Hk; apply segments_nth; exact Hk).
  assert (T : forall i, (i < n)%nat ->
     turn (match i with O => last segs d | S j => nth j segs d end) (nth i segs d)
     = det2 (sub2 (cnth vs i) (cnth vs (i + n - 1))) (sub2 (cnth vs (S i)) (cnth vs i))).
  { intros i Hi. unfold d. rewrite (SN i Hi).
    assert (P : (match i with O => last segs d0 | S j => nth j segs d0 end) = seg (cnth vs (i + n - 1)) (cnth vs i)).
    { destruct i as [|j].
      - rewrite last_nth, LS. rewrite SN by lia.
        replace (S (n - 1)) with n by lia. replace (0 + n - 1)%nat with (n - 1)%nat by lia.
        unfold cnth. fold n. rewrite Nat.mod_same by lia. rewrite (Nat.mod_0_l n) by lia. reflexivity.
      - rewrite SN by lia.
        replace (S j + n - 1)%nat with (j + 1 * n)%nat by lia. unfold cnth at 3. fold n. rewrite Nat.mod_add by lia.
        unfold cnth. fold n. reflexivity. }
    rewrite P. unfold turn, seg. cbn [lr2v]. reflexivity. }
  split; (intros [H|H]; [left; exact H|right]).
  - intros i Hi. rewrite <- (T i Hi). apply H. apply (ppairs_In _ _ d). exists i. rewrite LS. repeat split; exact Hi || reflexivity.
  - intros a b I. apply (ppairs_In _ _ d) in I. destruct I as (i & Hi & -> & ->). rewrite LS in Hi. rewrite (T i Hi). apply H. exact Hi.
Qed.
