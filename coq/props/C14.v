(* C14 -- purity / determinism.  PARTIAL: lives partly in the runtime.  A Gallina model is pure by construction,
   so "no public call mutates its arguments" cannot be a theorem about a functional model; it is enforced dynamically
   by the introspected API sweep.  What is logic is proved here. *)
From Coq Require Import String List ZArith Bool Permutation.
From LBG Require Import A_audit Cache C14_pure.
Import ListNotations.

Theorem C14_no_clock_or_random_calls : clock_calls = [].
Proof. exact no_clock_or_random_calls. Qed.
Print Assumptions C14_no_clock_or_random_calls.

Theorem C14_set_iterations_audited : length set_iterations = 4%nat.
Proof. rewrite set_iterations_audited. reflexivity. Qed.
Print Assumptions C14_set_iterations_audited.

(* no state survives a call except memo slots filled by parameter-free members (generated audit of every assignment / in-place mutation
   whose target is the receiver of a parameterised member, a class attribute, a module-level name, or an argument of a public function) *)
Theorem C14_no_parameterised_member_stores_on_its_receiver : receiver_writes_in_parameterised_members = [].
Proof. exact no_parameterised_member_stores_on_its_receiver. Qed.
Print Assumptions C14_no_parameterised_member_stores_on_its_receiver.

Theorem C14_no_class_or_module_state_is_written : class_state_writes = [] /\ module_state_writes = [].
Proof. exact no_class_or_module_state_is_written. Qed.
Print Assumptions C14_no_class_or_module_state_is_written.

Theorem C14_public_functions_write_only_the_documented_argument :
  public_argument_writes = [("geometry2d/polygon.py", "Polygon2D", "intersect_polygon_segments", "polygon_list")]%string.
Proof. exact public_functions_write_only_the_documented_argument. Qed.
Print Assumptions C14_public_functions_write_only_the_documented_argument.

Theorem C14_sort_after_set_is_order_free : forall l l', Permutation l l' -> isort l = isort l'.
Proof. exact sort_after_set_is_order_free. Qed.
Print Assumptions C14_sort_after_set_is_order_free.

Theorem C14_counter_tie_break_is_clock_free : forall (A : Type) (l : list (Z * A)),
  map (fun e => snd (fst e)) (stamped l) = seq 0 (length l).
Proof. exact @counter_stamps_are_positions. Qed.
Print Assumptions C14_counter_tie_break_is_clock_free.

Theorem C14_reading_a_memo_is_benign : forall (D V : Type) (fresh : D -> V) (d : D) (slot : option V),
  fst (run D V [read_step D V] (d, slot)) = d /\
  (forall v, slot = Some v -> observe D V fresh (run D V [read_step D V] (d, slot)) = v) /\
  (slot = None -> observe D V fresh (run D V [read_step D V] (d, slot)) = fresh d).
Proof. exact read_does_not_change_observation. Qed.
Print Assumptions C14_reading_a_memo_is_benign.
