#!/usr/bin/env python3
"""regen.py [repo_root] [out_dir] -- rewrite coq/gen/*.v from the working tree.
Only files whose text changes are touched (so make rebuilds only what changed).
Prints one line per untranslatable root; exit status 0 either way."""
import os, sys
sys.path.insert(0, os.path.dirname(os.path.abspath(__file__)))
import py2coq, roots, tables, xfer, keys, audit, sortkeys


def regen(root='/repo', out=None):
    out = out or os.path.join(os.path.dirname(os.path.abspath(__file__)), '..', 'coq', 'gen')
    files, failed = py2coq.generate(root, roots.LAYERS)
    ttext, tfailed = tables.gen_tables(root)
    files['T_tables'] = ttext
    failed.update(tfailed)
    xtext, xfailed = xfer.gen_xfer(root)
    files['X_xfer'] = xtext
    failed.update(xfailed)
    ktext, kfailed = keys.gen_keys(root)
    files['K_keys'] = ktext
    failed.update(kfailed)
    atext, afailed = audit.gen_audit(root)
    files['A_audit'] = atext
    failed.update(afailed)
    stext, sfailed = sortkeys.gen_sortkeys(root)
    files['S_sortkeys'] = stext
    failed.update(sfailed)
    os.makedirs(out, exist_ok=True)
    changed = []
    for stem, text in files.items():
        p = os.path.join(out, stem + '.v')
        if not os.path.exists(p) or open(p).read() != text:
            open(p, 'w').write(text)
            changed.append(stem)
    return changed, failed


if __name__ == '__main__':
    ch, failed = regen(*(sys.argv[1:3]))
    for k, v in failed.items():
        print('UNTRANSLATABLE', k, ':', v)
    print('changed:', ch)
