"""C09  coplanar face booleans and splits partition the face region.

The sweep, the graph splitter and the hole merger are NOT modelled: the implementation's result faces, mapped back to the
lattice frame exactly, are read as unit-cell sets and compared with the Coq specification CellSpec (set algebra, partition
and area laws proved there); the general-position family uses exact point membership and area identities."""
import math
from fractions import Fraction
from .. import core, gens as G, exact as X, build as Bd
from ..core import z
from ..build import P2, P3, V3
from ladybug_geometry.geometry2d import Polygon2D
from ladybug_geometry.geometry3d import Face3D, Plane, LineSegment3D, Polyline3D

RULE = ('lattice family: integer-coordinate rectangles / L / T / U / polyomino shapes (scaled x3, optional rectangular holes) mapped '
        'into random rational planes, operands random / nested / edge-sharing / corner-touching / equal / crossing / touching a '
        'reflex corner, judged exactly by unit-cell sets; splitting lines, line sets and polylines along lattice lines through the '
        'interior, through vertices, along edges and through holes; general-position star polygons judged by exact membership at '
        'points >= 10 tol from every edge plus area identities. tolerance 0.01, angle tolerance 1 degree; distinct by (operation, '
        'relation, sizes, holes)')
ASSUMPTIONS = ['the 2D sweep, the graph splitter (network.py) and the hole merger are validated, not modelled',
               'coplanar_union documents None for operands that do not overlap: None is accepted exactly when the union is not one region']
TRUSTED = ['CellSpec.v is the specification; the plane map round trip and area preservation are proved in C06/C16']
TOL = 0.01
ATOL = math.radians(1.0)


# ------------------------------------------------------------------ lattice shapes
def scale3(cells):
    return {(3 * i + a, 3 * j + b) for i, j in cells for a in range(3) for b in range(3)}


def base_cells(rng):
    m = rng.choice(['rect', 'L', 'T', 'U', 'poly', 'poly'])
    if m == 'rect':
        c = G.rect_cells(0, 0, rng.randint(1, 4), rng.randint(1, 4))
    elif m == 'L':
        a, b = rng.randint(2, 4), rng.randint(2, 4)
        c = G.rect_cells(0, 0, a, 1) | G.rect_cells(0, 0, 1, b)
    elif m == 'T':
        a = rng.randint(3, 5); k = rng.randint(1, a - 2)
        c = G.rect_cells(0, 2, a, 3) | G.rect_cells(k, 0, k + 1, 3)
    elif m == 'U':
        a = rng.randint(3, 5)
        c = G.rect_cells(0, 0, a, 1) | G.rect_cells(0, 0, 1, 3) | G.rect_cells(a - 1, 0, a, 3)
    else:
        c = G.polyomino(rng, ncells=rng.randint(2, 7), w=4, h=4)
    return m, c


def dilate(cells):
    return {(i + a, j + b) for i, j in cells for a in (-1, 0, 1) for b in (-1, 0, 1)}


def punch_holes(rng, cells, n):
    """up to n rectangular holes strictly inside (one-cell margin to the boundary and to each other): (cells minus holes, hole rects)"""
    holes = []
    taken = set()
    cl = sorted(cells)
    for _ in range(n * 8):
        if len(holes) >= n:
            break
        i, j = rng.choice(cl)
        w, h = rng.choice([(1, 1), (1, 1), (2, 1), (1, 2), (2, 2)])
        r = G.rect_cells(i, j, i + w, j + h)
        d = dilate(r)
        if d <= cells and not (d & taken):
            holes.append((i, j, i + w, j + h)); taken |= dilate(r)   # margin of one cell between holes
    out = set(cells)
    for (x0, y0, x1, y1) in holes:
        out -= G.rect_cells(x0, y0, x1, y1)
    return out, holes


def rect_loop(r):
    x0, y0, x1, y1 = r
    return [(float(x0), float(y0)), (float(x1), float(y0)), (float(x1), float(y1)), (float(x0), float(y1))]


class Shape(object):
    def __init__(self, rng, filled, nholes=0, shift=(0, 0)):
        filled = {(i + shift[0], j + shift[1]) for i, j in filled}
        self.filled = filled
        self.cells, self.holes = punch_holes(rng, filled, nholes) if nholes else (set(filled), [])
        lp = G.cells_boundary(filled)[0]
        if rng.random() < 0.5: lp = lp[::-1]
        k = rng.randrange(len(lp)); lp = lp[k:] + lp[:k]
        self.outer = lp
        self.hole_loops = []
        for h in self.holes:
            hl = rect_loop(h)
            if rng.random() < 0.5: hl = hl[::-1]
            self.hole_loops.append(hl)

    def face(self, frame, origin):
        b = [P3(G.embed(frame, origin, p)) for p in self.outer]
        hs = [[P3(G.embed(frame, origin, p)) for p in h] for h in self.hole_loops]
        return Face3D(b, holes=hs) if hs else Face3D(b)

    def desc(self):
        return {'boundary': self.outer, 'holes': self.hole_loops}


def to_lattice(frame, origin, p):
    x, y, n = frame
    d = (p.x - origin[0], p.y - origin[1], p.z - origin[2])
    return (sum(d[i] * x[i] for i in range(3)), sum(d[i] * y[i] for i in range(3))), sum(d[i] * n[i] for i in range(3))


def face_cells(frame, origin, face, box):
    """(cells of the face region read even-odd over boundary+holes, cells of the boundary alone, max off-plane distance)"""
    from .C04 import cells_of_result
    loops = [face.boundary] + list(face.holes or ())
    l2 = []
    off = 0.0
    for lp in loops:
        pts = []
        for p in lp:
            q2, h = to_lattice(frame, origin, p)
            off = max(off, abs(h)); pts.append(q2)
        l2.append(Polygon2D([P2(p) for p in pts]))
    reg = cells_of_result(l2, *box)
    outer = cells_of_result(l2[:1], *box)
    holes = [cells_of_result([h], *box) for h in l2[1:]]
    return reg, outer, holes, off


def read_faces(ctx, kind, frame, origin, faces, box, normal, desc):
    """list of per-face cell sets, or None after reporting a violation"""
    out = []
    for f in faces:
        reg, outer, holes, off = face_cells(frame, origin, f, box)
        if reg is None or outer is None or any(h is None for h in holes):
            ctx.violation(kind + ':edge_through_cell', 'a result edge passes through a unit-cell centre', desc); return None
        if off > 1e-9 * 100:
            ctx.violation(kind + ':off_plane', 'a result vertex is %r off the plane of the operands' % off, desc); return None
        nd = max(f.normal.dot(nn) for nn in (normal if isinstance(normal, (list, tuple)) else [normal]))
        if nd < 1 - 1e-9:
            ctx.violation(kind + ':normal', 'result normal . operand normal = %r' % nd, desc); return None
        for h in holes:
            if not h <= outer:
                ctx.violation(kind + ':hole_outside_boundary', 'a hole of a result face is not inside its boundary', desc); return None
        if sum(len(h) for h in holes) != len(outer) - len(reg):
            ctx.violation(kind + ':holes_overlap', 'holes of a result face overlap one another', desc); return None
        if abs(f.area - len(reg)) > 1e-6 * max(1, len(reg)):
            ctx.violation(kind + ':face_area', 'face.area %r but its region has %d unit cells' % (f.area, len(reg)), desc); return None
        out.append(reg)
    return out


def check_region(ctx, kind, frame, origin, faces, box, normal, exp, desc, partition_of=None):
    per = read_faces(ctx, kind, frame, origin, faces, box, normal, desc)
    if per is None:
        return None
    tot = set()
    for r in per:
        tot |= r
    if sum(len(r) for r in per) != len(tot):
        ctx.violation(kind + ':faces_overlap', 'result faces overlap one another', desc); return None
    if tot != exp:
        ctx.violation(kind + ':wrong_region', 'region differs from the exact set operation: extra %s missing %s' % (
            sorted(tot - exp)[:6], sorted(exp - tot)[:6]), desc); return None
    return per


def connected(cells):
    """edge-connected components of a cell set"""
    rem = set(cells); comps = []
    while rem:
        s = rem.pop(); comp = {s}; todo = [s]
        while todo:
            i, j = todo.pop()
            for d in ((1, 0), (-1, 0), (0, 1), (0, -1)):
                q = (i + d[0], j + d[1])
                if q in rem:
                    rem.discard(q); comp.add(q); todo.append(q)
        comps.append(comp)
    return comps


def pair(rng):
    mode = rng.choice(['random', 'random', 'nested', 'share_edge', 'share_corner', 'equal', 'disjoint', 'cross', 'reflex_corner',
                       'in_hole', 'in_hole', 'over_hole', 'under_hole', 'under_hole', 'b_holed', 'b_holed', 'b_holed', 'corner_nested', 'corner_nested'])
    if mode == 'b_holed':
        # the second operand carries the holes (its own plane frame starts at another vertex than the first operand's)
        A = G.rect_cells(0, 0, rng.randint(6, 9), rng.randint(6, 9))
        x, y = rng.randint(-3, 4), rng.randint(-3, 4)
        B = G.rect_cells(x, y, x + rng.randint(6, 9), y + rng.randint(6, 9))
        return mode, Shape(rng, A, rng.choice([0, 1])), Shape(rng, B, rng.choice([1, 2]))
    nh_a = nh_b = 0
    if mode == 'random':
        _, ca = base_cells(rng); _, cb = base_cells(rng)
        A = scale3(ca); B = scale3(cb)
        sh = (rng.randint(-4, 6), rng.randint(-4, 6))
        nh_a = rng.choice([0, 0, 1, 2]); nh_b = rng.choice([0, 0, 1])
        return mode, Shape(rng, A, nh_a), Shape(rng, B, nh_b, sh)
    if mode == 'nested':
        A = G.rect_cells(0, 0, 9, 9); x, y = rng.randint(1, 4), rng.randint(1, 4)
        B = G.rect_cells(x, y, x + rng.randint(1, 4), y + rng.randint(1, 4))
        return mode, Shape(rng, A), Shape(rng, B)
    if mode == 'corner_nested':
        # B sits in a corner of A: two of its edges run along two edges of A and end at the same corner
        wa, ha = rng.randint(5, 9), rng.randint(5, 9); k = rng.randint(1, 4); l = rng.randint(1, 4)
        x0 = rng.choice([0, wa - k]); y0 = rng.choice([0, ha - l])
        ca_, cb_ = G.rect_cells(0, 0, wa, ha), G.rect_cells(x0, y0, x0 + k, y0 + l)
        if rng.random() < 0.5:
            return mode, Shape(rng, cb_), Shape(rng, ca_)
        return mode, Shape(rng, ca_), Shape(rng, cb_)
    if mode == 'share_edge':
        w = rng.randint(2, 5)
        A = G.rect_cells(0, 0, w, 4); B = G.rect_cells(w, rng.randint(-2, 1), w + rng.randint(1, 4), 4 + rng.randint(-2, 3))
        return mode, Shape(rng, A), Shape(rng, B)
    if mode == 'share_corner':
        return mode, Shape(rng, G.rect_cells(0, 0, 3, 3)), Shape(rng, G.rect_cells(3, 3, 5, 6))
    if mode == 'equal':
        _, c = base_cells(rng); A = scale3(c)
        return mode, Shape(rng, A), Shape(rng, set(A))
    if mode == 'disjoint':
        return mode, Shape(rng, G.rect_cells(0, 0, 3, 3)), Shape(rng, G.rect_cells(5, rng.randint(-1, 3), 8, 6))
    if mode == 'cross':
        return mode, Shape(rng, G.rect_cells(0, 3, 9, 6)), Shape(rng, G.rect_cells(3, 0, 6, 9))
    if mode == 'reflex_corner':
        # L-shape and a rectangle inside it touching the reflex corner of the L at one vertex
        a, b, t = rng.randint(3, 6), rng.randint(3, 6), rng.randint(2, 3)
        A = G.rect_cells(0, 0, a + t, t) | G.rect_cells(0, 0, t, b + t)
        w, h = rng.randint(1, t - 1), rng.randint(1, t - 1)
        B = G.rect_cells(t - w, t - h, t, t)
        return mode, Shape(rng, A), Shape(rng, B)
    if mode == 'in_hole':
        # B lies in the hole of A (island): strictly inside, or filling it
        A = G.rect_cells(0, 0, 9, 9)
        s = Shape(rng, A)
        s.holes = [(2, 2, 7, 7)]; s.cells = A - G.rect_cells(2, 2, 7, 7)
        hl = rect_loop(s.holes[0]); s.hole_loops = [hl[::-1] if rng.random() < 0.5 else hl]
        B = G.rect_cells(3, 3, 6, 6) if rng.random() < 0.6 else G.rect_cells(2, 2, 7, 7)
        return mode, s, Shape(rng, B)
    # over_hole: B overlaps part of the hole of A and part of A
    A = G.rect_cells(0, 0, 9, 9)
    s = Shape(rng, A)
    s.holes = [(3, 3, 6, 6)]; s.cells = A - G.rect_cells(3, 3, 6, 6)
    hl = rect_loop(s.holes[0]); s.hole_loops = [hl[::-1] if rng.random() < 0.5 else hl]
    x = rng.randint(1, 7); y = rng.randint(1, 7)
    B = G.rect_cells(x, y, x + rng.randint(1, 3), y + rng.randint(1, 3))
    if mode == 'under_hole':
        x, y = rng.randint(2, 5), rng.randint(2, 5)
        B = G.rect_cells(x, y, x + rng.randint(2, 3), y + rng.randint(2, 3))
        return mode, Shape(rng, B), s       # the FIRST operand is the small one, inside the outline of the holed second operand
    return mode, s, Shape(rng, B)


def box_of(*sets):
    xs = [c[0] for s in sets for c in s]; ys = [c[1] for s in sets for c in s]
    return min(xs) - 1, min(ys) - 1, max(xs) + 2, max(ys) + 2


def one_region(cells):
    """a cell set is a single face region iff it is edge-connected (corner contacts allowed inside one face are excluded)"""
    return len(connected(cells)) == 1


def fam_lattice(ctx, rng):
    mode, sa, sb = pair(rng)
    frame = G.rational_frame(rng); origin = G.rpt3(rng, 20)
    fa, fb = sa.face(frame, origin), sb.face(frame, origin)
    A, B = sa.cells, sb.cells
    op = rng.choice(['union', 'intersection', 'difference', 'split', 'union_all'] + (['difference'] * 4 if mode == 'under_hole' else []) + (['intersection'] * 3 if mode in ('in_hole', 'over_hole') else []))
    desc = {'op': op, 'relation': mode, 'a': sa.desc(), 'b': sb.desc(), 'frame': frame, 'origin': origin}
    box = box_of(sa.filled, sb.filled)
    holes = bool(sa.holes or sb.holes)
    ctx.count('lattice.' + op, key=(mode, len(A), len(B), holes), sample=desc, nontrivial=mode != 'disjoint')
    kind = 'lattice.%s:%s' % (op, mode)
    n = fa.normal
    try:
        if op == 'union':
            r = Face3D.coplanar_union(fa, fb, TOL, ATOL)
            exp = A | B
            if r is None:
                if one_region(exp) and (A & B):
                    ctx.violation(kind + ':none', 'overlapping operands but coplanar_union returned None', desc)
                return
            check_region(ctx, kind, frame, origin, [r], box, n, exp, desc)
        elif op == 'intersection':
            r = Face3D.coplanar_intersection(fa, fb, TOL, ATOL)
            exp = A & B
            if r is None:
                if exp:
                    ctx.violation(kind + ':none', 'overlapping operands but coplanar_intersection returned None', desc)
                return
            check_region(ctx, kind, frame, origin, r, box, n, exp, desc)
        elif op == 'difference':
            r = fa.coplanar_difference([fb], TOL, ATOL)
            check_region(ctx, kind, frame, origin, r, box, n, A - B, desc)
        elif op == 'split':
            r1, r2 = Face3D.coplanar_split(fa, fb, TOL, ATOL)
            for nm, r, S, O in (('first', r1, A, B), ('second', r2, B, A)):
                # pieces of the second face are rebuilt in the first face's plane: either operand's normal is accepted for them
                per = check_region(ctx, kind + ':' + nm, frame, origin, r, box, n if nm == 'first' else [n, fb.normal], S, desc)
                if per is None:
                    return
                for reg in per:
                    if not (reg <= (S & O) or reg <= (S - O)):
                        ctx.violation(kind + ':' + nm + ':piece_straddles', 'a split piece lies partly inside and partly outside the other face', desc)
                        return
        else:
            extra = []
            for _ in range(rng.randint(0, 2)):
                _, c = base_cells(rng)
                s = Shape(rng, scale3(c), 0, (rng.randint(-3, 6), rng.randint(-3, 6)))
                extra.append(s)
            faces = [fa, fb] + [s.face(frame, origin) for s in extra]
            desc['extra'] = [s.desc() for s in extra]
            box = box_of(sa.filled, sb.filled, *[s.filled for s in extra])
            r = Face3D.coplanar_union_all(faces, TOL, ATOL)
            exp = set(A) | B
            for s in extra:
                exp |= s.cells
            if r is None:
                ctx.violation(kind + ':none', 'coplanar faces but coplanar_union_all returned None', desc); return
            check_region(ctx, kind, frame, origin, r, box, n, exp, desc)
    except Exception as e:
        ctx.violation(kind + ':raises', '%r' % (e,), desc)


# ------------------------------------------------------------------ splits
def cut_components(cells, cuts):
    """components of the cell set after removing the adjacencies that cross a cut unit edge;
    cuts: set of unit lattice edges ((x,y),(x+1,y)) or ((x,y),(x,y+1))"""
    rem = set(cells); comps = []
    while rem:
        s = rem.pop(); comp = {s}; todo = [s]
        while todo:
            i, j = todo.pop()
            for (di, dj), e in (((1, 0), ((i + 1, j), (i + 1, j + 1))), ((-1, 0), ((i, j), (i, j + 1))),
                                ((0, 1), ((i, j + 1), (i + 1, j + 1))), ((0, -1), ((i, j), (i + 1, j)))):
                q = (i + di, j + dj)
                if q in rem and e not in cuts:
                    rem.discard(q); comp.add(q); todo.append(q)
        comps.append(comp)
    return comps


def unit_edges(a, b):
    (x0, y0), (x1, y1) = a, b
    out = set()
    if x0 == x1:
        for y in range(min(y0, y1), max(y0, y1)):
            out.add(((x0, y), (x0, y + 1)))
    else:
        for x in range(min(x0, x1), max(x0, x1)):
            out.add(((x, y0), (x + 1, y0)))
    return out


def cells_from_loops(outer, holes):
    """cell set of a lattice region given by float lattice loops (even-odd at centres)"""
    from .C04 import cells_of_result
    xs = [int(p[0]) for p in outer]; ys = [int(p[1]) for p in outer]
    box = (min(xs) - 1, min(ys) - 1, max(xs) + 1, max(ys) + 1)
    filled = cells_of_result([Polygon2D([P2(p) for p in outer])], *box)
    cells = cells_of_result([Polygon2D([P2(p) for p in lp]) for lp in [outer] + list(holes)], *box)
    return filled, cells


def face_of(desc_face, frame, origin):
    b = [P3(G.embed(frame, origin, p)) for p in desc_face['boundary']]
    hs = [[P3(G.embed(frame, origin, p)) for p in h] for h in desc_face['holes']]
    return Face3D(b, holes=hs) if hs else Face3D(b)


def fam_split(ctx, rng):
    _, c = base_cells(rng)
    s = Shape(rng, scale3(c), rng.choice([0, 0, 1, 2]))
    frame = G.rational_frame(rng); origin = G.rpt3(rng, 20)
    x0, y0, x1, y1 = box_of(s.filled)
    which = rng.choice(['line', 'line', 'lines', 'polyline'])
    def full_line():
        if rng.random() < 0.5:
            k = rng.randint(x0 + 1, x1 - 1); return ((k, y0 - 1), (k, y1 + 1))
        k = rng.randint(y0 + 1, y1 - 1); return ((x0 - 1, k), (x1 + 1, k))
    if which == 'line':
        segs = [full_line()]
    elif which == 'lines':
        segs = [full_line() for _ in range(rng.randint(2, 3))]
        # distinct and not overlapping collinear copies
        if len({(a, b) for a, b in segs}) != len(segs):
            return
    else:
        # an L- or Z-shaped lattice path from outside to outside
        kx = rng.randint(x0 + 1, x1 - 1); ky = rng.randint(y0 + 1, y1 - 1)
        if rng.random() < 0.5:
            path = [(kx, y0 - 1), (kx, ky), (x1 + 1, ky)]
        else:
            kx2 = rng.randint(x0 + 1, x1 - 1)
            if kx2 == kx:
                return
            path = [(kx, y0 - 1), (kx, ky), (kx2, ky), (kx2, y1 + 1)]
        segs = list(zip(path, path[1:]))
    judge_split(ctx, {'op': 'split_with_' + which, 'face': s.desc(), 'segments': segs, 'frame': frame, 'origin': origin})


def judge_split(ctx, desc):
    """run one split on an explicit input (also the deterministic replay of a recorded witness)"""
    which = desc['op'][len('split_with_'):]
    frame = tuple(tuple(v) for v in desc['frame']); origin = tuple(desc['origin'])
    segs = [(tuple(a), tuple(b)) for a, b in desc['segments']]
    path = [segs[0][0]] + [b for _, b in segs]
    outer = [tuple(p) for p in desc['face']['boundary']]; hole_loops = [[tuple(p) for p in h] for h in desc['face']['holes']]
    filled, cells = cells_from_loops(outer, hole_loops)
    f = face_of(desc['face'], frame, origin)
    x0, y0, x1, y1 = box_of(filled)
    cuts = set()
    for a, b in segs:
        cuts |= unit_edges(a, b)
    comps = cut_components(cells, cuts)
    # classify the cut exactly: along an edge of the face / leaving and re-entering the face (gaps, holes) / face has holes
    cfg = []
    def adj(e):
        (ax, ay), (bx, by) = e
        return ((ax - 1, ay), (ax, ay)) if ax == bx else ((ax, ay - 1), (ax, ay))
    if any(((adj(e)[0] in cells) != (adj(e)[1] in cells)) for e in cuts): cfg.append('along_edge')
    for a, b in segs:
        es = sorted(unit_edges(a, b))
        inside = [adj(e)[0] in cells and adj(e)[1] in cells for e in es]
        runs = sum(1 for i, v in enumerate(inside) if v and (i == 0 or not inside[i - 1]))
        if runs > 1 and 'reenters' not in cfg: cfg.append('reenters')
    if hole_loops: cfg.append('holes')
    if desc.get('finite'): cfg.append('finite_' + desc['finite'])
    hverts = {(int(p[0]), int(p[1])) for h in hole_loops for p in h}
    if which == 'polyline' and any(tuple(p) in hverts for p in path[1:-1]): cfg.append('corner_on_hole')
    tags = list(cfg)
    bverts = {(int(p[0]), int(p[1])) for p in outer}
    for a, b in segs:
        if any((v[0] == a[0] == b[0]) or (v[1] == a[1] == b[1]) for v in bverts): tags.append('vertex')
    desc = dict(desc, configuration=sorted(set(tags)))
    ctx.count('split.' + which, key=(len(cells), len(comps), tuple(sorted(set(tags)))), sample=desc, nontrivial=len(comps) > 1)
    # the dominant configuration names the kind: corner_on_hole > along_edge > reenters > holes > plain
    kind = 'split.%s:%s' % (which, ([t for t in ['finite_hole_to_hole', 'finite_boundary_to_hole', 'finite_dangling', 'finite_closed_square', 'corner_on_hole', 'along_edge', 'reenters', 'holes'] if t in cfg] + ['plain'])[0])
    def seg3(a, b):
        return LineSegment3D.from_end_points(P3(G.embed(frame, origin, (float(a[0]), float(a[1])))), P3(G.embed(frame, origin, (float(b[0]), float(b[1])))))
    try:
        with core.time_limit(20):
            if which == 'line':
                r = f.split_with_line(seg3(*segs[0]), TOL)
            elif which == 'lines':
                r = f.split_with_lines([seg3(a, b) for a, b in segs], TOL)
            else:
                r = f.split_with_polyline(Polyline3D([P3(G.embed(frame, origin, (float(p[0]), float(p[1])))) for p in path]), TOL)
    except core.Timeout as e:
        ctx.violation(kind + ':does_not_terminate', '%s' % e, desc); return
    except Exception as e:
        ctx.violation(kind + ':raises', '%r' % (e,), desc); return
    if r is None:
        if len(comps) > 1:
            ctx.violation(kind + ':not_split', 'the cut separates the face into %d parts but None was returned' % len(comps), desc)
        return
    sub = core.Ctx(ctx.pid, ctx.tier, 0)
    per = check_region(sub, 'x', frame, origin, r, (x0, y0, x1, y1), f.normal, cells, desc)
    if per is None:
        v = sub.violations[0]
        what = v.kind.split(':')[-1]
        ctx.violation(kind + (':not_a_partition' if what not in ('off_plane', 'normal') else ':' + what),
                      '%s: %s' % (what, v.detail), desc)
        return
    got = sorted(sorted(p) for p in per); exp = sorted(sorted(p) for p in comps)
    if got != exp:
        ctx.violation(kind + ':not_split', 'parts %s, expected the %d components cut by the line(s)' % (
            [len(p) for p in per], len(comps)), desc)


def fam_split_finite(ctx, rng):
    """finite cutting segments: hole to hole, boundary to hole, dangling from the boundary, and a closed square of four segments
    strictly inside the face (the only one that separates it)"""
    mode = rng.choice(['hole_to_hole', 'boundary_to_hole', 'dangling', 'closed_square'])
    W, H = rng.randint(10, 14), rng.randint(8, 12)
    filled = G.rect_cells(0, 0, W, H)
    frame = G.rational_frame(rng); origin = G.rpt3(rng, 20)
    outer = [(0.0, 0.0), (float(W), 0.0), (float(W), float(H)), (0.0, float(H))]
    if rng.random() < 0.5: outer = outer[::-1]
    holes = []
    if mode == 'hole_to_hole':
        y = rng.randint(2, H - 4)
        h1 = (1, y, 3, y + 2); h2 = (W - 4, y - 1, W - 2, y + 2)
        holes = [h1, h2]
        yy = y + 1
        segs = [((3, yy), (W - 4, yy))]
    elif mode == 'boundary_to_hole':
        hx, hy = rng.randint(3, W - 5), rng.randint(3, H - 5)
        holes = [(hx, hy, hx + 2, hy + 2)]
        segs = [((0, hy + 1), (hx, hy + 1))] if rng.random() < 0.5 else [((hx + 1, 0), (hx + 1, hy))]
    elif mode == 'dangling':
        k = rng.randint(2, W - 2)
        segs = [((k, 0), (k, rng.randint(2, H - 2)))]
        if rng.random() < 0.5:
            holes = [(1, 1, 2, 2)] if k > 3 else [(W - 3, 1, W - 2, 2)]
    else:
        a, b = rng.randint(2, 4), rng.randint(2, 3); c, d = rng.randint(a + 2, W - 2), rng.randint(b + 2, H - 2)
        segs = [((a, b), (c, b)), ((c, b), (c, d)), ((c, d), (a, d)), ((a, d), (a, b))]
        rng.shuffle(segs)
    hole_loops = []
    for h in holes:
        hl = rect_loop(h)
        if rng.random() < 0.5: hl = hl[::-1]
        hole_loops.append(hl)
    op = 'split_with_line' if len(segs) == 1 and rng.random() < 0.5 else 'split_with_lines'
    judge_split(ctx, {'op': op, 'face': {'boundary': outer, 'holes': hole_loops}, 'segments': segs, 'frame': frame, 'origin': origin,
                      'finite': mode})


def fam_through_holes(ctx, rng):
    _, c = base_cells(rng)
    s = Shape(rng, scale3(c), rng.randint(1, 5))
    if not s.holes:
        return
    frame = G.rational_frame(rng); origin = G.rpt3(rng, 20)
    judge_through_holes(ctx, {'op': 'split_through_holes', 'face': s.desc(), 'frame': frame, 'origin': origin})


def judge_through_holes(ctx, desc):
    frame = tuple(tuple(v) for v in desc['frame']); origin = tuple(desc['origin'])
    outer = [tuple(p) for p in desc['face']['boundary']]; hole_loops = [[tuple(p) for p in h] for h in desc['face']['holes']]
    filled, cells = cells_from_loops(outer, hole_loops)
    f = face_of(desc['face'], frame, origin)
    class S(object): pass
    s = S(); s.cells = cells; s.filled = filled
    ctx.count('split.through_holes', key=(len(cells), len(hole_loops)), sample=desc)
    kind = 'split.through_holes'
    try:
        with core.time_limit(10):
            r = f.split_through_holes()
    except core.Timeout as e:
        ctx.violation(kind + ':does_not_terminate', 'split_through_holes: %s (the triangle-grouping fallback re-queues a triangle forever)' % e, desc); return
    except Exception as e:
        ctx.violation(kind + ':raises', '%r' % (e,), desc); return
    if any(x.has_holes for x in r):
        ctx.violation(kind + ':still_holes', 'a returned face still has holes', desc); return
    if len(r) > 2:
        kind += ':fallback'       # more than two parts: the triangle-grouping fallback produced them
    # the bridges between holes and boundary are diagonal: judge exactly by areas and by membership at off-centre cell points
    loops = []
    for x in r:
        lp = []
        for p in x.boundary:
            q2, h = to_lattice(frame, origin, p)
            if abs(h) > 1e-7 or max(abs(c - round(c)) for c in q2) > 1e-7:
                ctx.violation(kind + ':new_vertex', 'a returned vertex %r is not a vertex of the face' % (q2,), desc); return
            lp.append((Fraction(int(round(q2[0]))), Fraction(int(round(q2[1])))))
        if x.normal.dot(f.normal) < 1 - 1e-9:
            ctx.violation(kind + ':normal', 'result normal differs from the face normal', desc); return
        loops.append(lp)
    tot = sum(X.area(lp) for lp in loops)
    if tot != len(s.cells):
        ctx.violation(kind + ':area', 'parts total %s, the face has area %d' % (tot, len(s.cells)), desc); return
    if abs(sum(x.area for x in r) - len(s.cells)) > 1e-6 * len(s.cells):
        ctx.violation(kind + ':reported_area', 'reported areas total %r, the face has area %d' % (sum(x.area for x in r), len(s.cells)), desc); return
    x0, y0, x1, y1 = box_of(s.filled)
    for i in range(x0, x1):
        for j in range(y0, y1):
            pt = (Fraction(3 * i + 1, 3), Fraction(5 * j + 1, 5))
            ks = [X.winding_inside(lp, pt) for lp in loops]
            if any(k is None for k in ks):
                continue
            if sum(1 for k in ks if k) != (1 if (i, j) in s.cells else 0):
                ctx.violation(kind + ':not_a_partition', 'point %s of cell %s lies in %d parts' % (
                    (float(pt[0]), float(pt[1])), (i, j), sum(1 for k in ks if k)), desc); return


# ------------------------------------------------------------------ general position
def face_from_loop(frame, origin, loop, holes=()):
    b = [P3(G.embed(frame, origin, p)) for p in loop]
    hs = [[P3(G.embed(frame, origin, p)) for p in h] for h in holes]
    return Face3D(b, holes=hs) if hs else Face3D(b)


def faces_contain(frame, origin, faces, pt):
    """number of faces whose region contains pt (None if on an edge)"""
    n = 0
    for f in faces:
        b = [X.fpt(to_lattice(frame, origin, p)[0]) for p in f.boundary]
        hs = [[X.fpt(to_lattice(frame, origin, p)[0]) for p in h] for h in (f.holes or ())]
        r = X.region_contains(b, hs, pt)
        if r is None:
            return None
        n += 1 if r else 0
    return n


def fam_general(ctx, rng):
    R = rng.choice([5.0, 50.0])
    la = G.star_polygon(rng, n=rng.randint(3, 10), R=R, center=(0.0, 0.0), bits=12)
    lb = G.star_polygon(rng, n=rng.randint(3, 10), R=R, center=(G.dy(rng.uniform(-R, R)), G.dy(rng.uniform(-R, R))), bits=12)
    if rng.random() < 0.5: la = la[::-1]
    if rng.random() < 0.5: lb = lb[::-1]
    qa, qb = [X.fpt(p) for p in la], [X.fpt(p) for p in lb]
    m = Fraction(10 * TOL) ** 2
    if any(X.sqdist_to_boundary(qb, p) < m for p in qa) or any(X.sqdist_to_boundary(qa, p) < m for p in qb):
        return
    ha = G.holes_in(rng, la, rng.choice([0, 0, 1]))
    if any(X.sqdist_to_boundary(qb, X.fpt(p)) < m for h in ha for p in h) or \
            any(X.sqdist_to_boundary([X.fpt(q) for q in h], p) < m for h in ha for p in qb):
        ha = []
    frame = G.rational_frame(rng); origin = G.rpt3(rng, 20)
    fa, fb = face_from_loop(frame, origin, la, ha), face_from_loop(frame, origin, lb)
    op = rng.choice(['union', 'intersection', 'difference', 'split', 'split_line'])
    desc = {'op': op, 'a': la, 'a_holes': ha, 'b': lb, 'frame': frame, 'origin': origin}
    inter = X.winding_inside(qb, qa[0]) or X.winding_inside(qa, qb[0]) or any(
        X.segs_intersect(qa[i - 1], qa[i], qb[j - 1], qb[j]) for i in range(len(qa)) for j in range(len(qb)))
    ctx.count('general.' + op, key=(len(la), len(lb), len(ha), bool(inter)), sample=desc, nontrivial=bool(inter) or op == 'split_line')
    kind = 'general.' + op
    qha = [[X.fpt(p) for p in h] for h in ha]
    area_a = X.area(qa) - sum(X.area(h) for h in qha)
    per = float(X.perimeter(qa) + X.perimeter(qb))
    slack = 4 * TOL * per + 1e-6
    try:
        if op == 'split_line':
            # a line through the face in general position (end points far outside)
            c = (G.dy(rng.uniform(-R / 3, R / 3), 12), G.dy(rng.uniform(-R / 3, R / 3), 12))
            ang = rng.uniform(0, math.pi)
            d = (G.dy(math.cos(ang) * 4 * R, 12), G.dy(math.sin(ang) * 4 * R, 12))
            p1 = (c[0] - d[0], c[1] - d[1]); p2 = (c[0] + d[0], c[1] + d[1])
            q1, q2 = X.fpt(p1), X.fpt(p2)
            loops = [qa] + qha
            if any(X.sqdist_point_segment(v, q1, q2) < m for lp in loops for v in lp):
                return
            seg = LineSegment3D.from_end_points(P3(G.embed(frame, origin, p1)), P3(G.embed(frame, origin, p2)))
            desc['line'] = (p1, p2)
            r = fa.split_with_line(seg, TOL)
            crosses = any(X.segs_intersect(q1, q2, lp[i - 1], lp[i]) for lp in loops for i in range(len(lp)))
            if r is None:
                if crosses and X.region_contains(qa, qha, X.fpt(c)) is True:
                    ctx.violation(kind + ':none', 'the line passes through an interior point of the face but None was returned', desc)
                return
            tot = sum(x.area for x in r)
            if abs(tot - float(area_a)) > slack:
                ctx.violation(kind + ':area', 'split parts total %r, face area %r' % (tot, float(area_a)), desc); return
            for _ in range(30):
                pt = (Fraction(G.dy(rng.uniform(-R, R), 16)), Fraction(G.dy(rng.uniform(-R, R), 16)))
                if any(X.sqdist_to_boundary(lp, pt) < m for lp in loops) or X.sqdist_point_segment(pt, q1, q2) < m:
                    continue
                ina = X.region_contains(qa, qha, pt)
                k = faces_contain(frame, origin, r, pt)
                if k is None:
                    continue
                if k != (1 if ina else 0):
                    ctx.violation(kind + ':membership', 'point %s: in face=%s but in %d split parts' % ((float(pt[0]), float(pt[1])), ina, k), desc); return
            # no part straddles the line
            for x in r:
                sides = set()
                for p in x.boundary:
                    q2d = X.fpt(to_lattice(frame, origin, p)[0])
                    o = X.orient(q1, q2, q2d)
                    if X.sqdist_point_segment(q2d, q1, q2) > m:
                        sides.add(o > 0)
                if len(sides) > 1:
                    ctx.violation(kind + ':part_straddles', 'a split part has vertices on both sides of the splitting line', desc); return
            return
        if op == 'union':
            r = Face3D.coplanar_union(fa, fb, TOL, ATOL); res = None if r is None else [r]
        elif op == 'intersection':
            res = Face3D.coplanar_intersection(fa, fb, TOL, ATOL)
        elif op == 'difference':
            res = fa.coplanar_difference([fb], TOL, ATOL)
        else:
            r1, r2 = Face3D.coplanar_split(fa, fb, TOL, ATOL)
            t1 = sum(x.area for x in r1); t2 = sum(x.area for x in r2)
            if abs(t1 - float(area_a)) > slack or abs(t2 - float(X.area(qb))) > slack:
                ctx.violation(kind + ':area', 'split parts total %r / %r, faces %r / %r' % (t1, t2, float(area_a), float(X.area(qb))), desc)
                return
            res = None
            for nm, rr, own in (('first', r1, 'a'), ('second', r2, 'b')):
                for _ in range(20):
                    pt = (Fraction(G.dy(rng.uniform(-2 * R, 2 * R), 16)), Fraction(G.dy(rng.uniform(-2 * R, 2 * R), 16)))
                    if any(X.sqdist_to_boundary(lp, pt) < m for lp in [qa, qb] + qha):
                        continue
                    ino = X.region_contains(qa, qha, pt) if own == 'a' else X.winding_inside(qb, pt)
                    k = faces_contain(frame, origin, rr, pt)
                    if k is not None and k != (1 if ino else 0):
                        ctx.violation(kind + ':membership', 'point %s: in %s face=%s but in %d of its split parts' % (
                            (float(pt[0]), float(pt[1])), nm, ino, k), desc); return
            return
    except Exception as e:
        ctx.violation(kind + ':raises', '%r' % (e,), desc); return
    if res is None:
        if op != 'difference' and inter and op == 'intersection':
            # overlapping in general position: an intersection exists
            if any(X.segs_intersect(qa[i - 1], qa[i], qb[j - 1], qb[j]) for i in range(len(qa)) for j in range(len(qb))):
                ctx.violation(kind + ':none', 'boundaries cross but None was returned', desc)
        return
    nrm = fa.normal
    for x in res:
        if x.normal.dot(nrm) < 1 - 1e-9:
            ctx.violation(kind + ':normal', 'result normal differs from the operand normal', desc); return
    for _ in range(40):
        pt = (Fraction(G.dy(rng.uniform(-2 * R, 2 * R), 16)), Fraction(G.dy(rng.uniform(-2 * R, 2 * R), 16)))
        if any(X.sqdist_to_boundary(lp, pt) < m for lp in [qa, qb] + qha):
            continue
        ina, inb = X.region_contains(qa, qha, pt), X.winding_inside(qb, pt)
        exp = {'union': ina or inb, 'intersection': ina and inb, 'difference': ina and not inb}[op]
        k = faces_contain(frame, origin, res, pt)
        if k is None:
            continue
        if k != (1 if exp else 0):
            ctx.violation(kind + ':membership', 'point %s: in A=%s in B=%s but in %d result faces' % (
                (float(pt[0]), float(pt[1])), ina, inb, k), desc); return
    # area identity: difference = A - intersection ; union + intersection = A + B
    try:
        ri = Face3D.coplanar_intersection(fa, fb, TOL, ATOL) or []
    except Exception:
        return
    ai = sum(x.area for x in ri)
    tot = sum(x.area for x in res)
    if op == 'difference' and abs(tot - (float(area_a) - ai)) > slack:
        ctx.violation(kind + ':area', 'area(A - B) %r != area(A) %r - area(A n B) %r' % (tot, float(area_a), ai), desc)
    if op == 'union' and abs(tot + ai - float(area_a) - float(X.area(qb))) > slack:
        ctx.violation(kind + ':area', 'area(A u B) %r + area(A n B) %r != %r + %r' % (tot, ai, float(area_a), float(X.area(qb))), desc)


FAMILIES = [(fam_lattice, 320), (fam_split, 80), (fam_split_finite, 40), (fam_through_holes, 30), (fam_general, 60)]


def explore(ctx):
    for fn, n in FAMILIES:
        for _ in range(ctx.n(n, n * 10)):
            fn(ctx, ctx.rng)


def replay(ctx, data):
    kind = data.get('kind', '')
    d = data.get('data') or {}
    c2 = core.Ctx(ctx.pid, 'quick', 47)
    if isinstance(d, dict) and d.get('op', '').startswith('split_with_') and 'segments' in d:
        judge_split(c2, d)
        return any(v.kind == kind for v in c2.violations)
    if isinstance(d, dict) and d.get('op') == 'split_through_holes':
        judge_through_holes(c2, d)
        return any(v.kind == kind for v in c2.violations)
    for fn, _ in FAMILIES:
        for _ in range(1500):
            fn(c2, c2.rng)
            if any(v.kind == kind for v in c2.violations):
                return True
    return False


# ------------------------------------------------------------------ loop classification (LoopGroup.v)
def nested_rects(rng):
    """a laminar family of axis-parallel rectangles with pairwise distinct areas: list of (x0, y0, x1, y1), random nesting up to
    depth 4, siblings disjoint with a margin; returned in random order"""
    out = []
    def fill(x0, y0, x1, y1, depth):
        out.append((x0, y0, x1, y1))
        if depth >= 4 or (x1 - x0) < 12 or (y1 - y0) < 6:
            return
        k = rng.choice([0, 1, 1, 2, 3])
        if k == 0:
            return
        # split the interior (margin 1) into k vertical strips, one child per strip (possibly skipped)
        w = (x1 - x0 - 2) // k
        for i in range(k):
            if rng.random() < 0.2 or w < 5:
                continue
            cx0 = x0 + 1 + i * w + rng.randint(0, 1)
            cx1 = x0 + 1 + (i + 1) * w - 1 - rng.randint(0, 1)
            cy0 = y0 + 1 + rng.randint(0, 1); cy1 = y1 - 1 - rng.randint(0, 1)
            if cx1 - cx0 >= 2 and cy1 - cy0 >= 2:
                fill(cx0, cy0, cx1, cy1, depth + 1)
    for t in range(rng.randint(1, 3)):
        W, H = rng.randint(8, 60), rng.randint(6, 30)
        fill(100 * t, 0, 100 * t + W, H, 0)
    # distinct areas (the implementation sorts by area)
    areas = [(r[2] - r[0]) * (r[3] - r[1]) for r in out]
    if len(set(areas)) != len(areas):
        return None
    rng.shuffle(out)
    return out


def loopgroup_cases(ctx, rng, n):
    """_from_bool_poly against LoopGroup.classify: same faces, same holes, in the same order"""
    import ladybug_geometry.boolean as pb
    cases, meta = [], []
    for _ in range(n):
        rects = nested_rects(rng)
        if rects is None or len(rects) < 2:
            continue
        regions = []
        for (x0, y0, x1, y1) in rects:
            lp = [(float(x0), float(y0)), (float(x1), float(y0)), (float(x1), float(y1)), (float(x0), float(y1))]
            if rng.random() < 0.5: lp = lp[::-1]
            regions.append(lp)
        order = sorted(range(len(rects)), key=lambda i: -(rects[i][2] - rects[i][0]) * (rects[i][3] - rects[i][1]))
        rank = {i: k for k, i in enumerate(order)}
        def contains(a, b):
            return a[0] < b[0] and a[1] < b[1] and a[2] > b[2] and a[3] > b[3]
        pairs = [(rank[i], rank[j]) for i in range(len(rects)) for j in range(len(rects)) if i != j and contains(rects[i], rects[j])]
        frame = G.rational_frame(rng); origin = G.rpt3(rng, 20)
        pl = Plane(V3(frame[2]), P3(origin), V3(frame[0]))
        try:
            faces = Face3D._from_bool_poly(pb.BooleanPolygon(regions), pl, TOL)
        except Exception as e:
            ctx.corr_fail.append({'function': 'Face3D._from_bool_poly', 'input': repr(rects), 'result': 'raised %r' % (e,)}); continue
        def which(loop3d):
            xs = [pl.xyz_to_xy(p).x for p in loop3d]; ys = [pl.xyz_to_xy(p).y for p in loop3d]
            key = (round(min(xs)), round(min(ys)), round(max(xs)), round(max(ys)))
            for i, r in enumerate(rects):
                if tuple(r) == key:
                    return rank[i]
            return -1
        got = [[which(f.boundary)] + [which(h) for h in (f.holes or ())] for f in faces]
        tab = core.coq_list(['(%d, %d)%%nat' % p for p in pairs])
        G_ = core.coq_list([core.coq_list(['%d%%nat' % x for x in g]) for g in got])
        cases.append('groups_eqb (classify (inside_of %s) %d) %s' % (tab, len(rects), G_))
        meta.append(('Face3D._from_bool_poly vs LoopGroup.classify', rects))
    pre = ('Definition inside_of (t : list (nat * nat)) (a b : nat) : bool := existsb (fun p => Nat.eqb (fst p) a && Nat.eqb (snd p) b) t.\n'
           'Definition groups_eqb (a b : list (list nat)) : bool := Nat.eqb (length a) (length b) && '
           'forallb (fun p => Nat.eqb (length (fst p)) (length (snd p)) && forallb (fun q => Nat.eqb (fst q) (snd q)) (combine (fst p) (snd p))) (combine a b).\n')
    res = core.run_cases('C09_corr_lg', ['LoopGroup'], pre, cases,
                         header='From Coq Require Import List Bool Arith.\nImport ListNotations.\nFrom LBG Require Import LoopGroup.\n')
    ctx.corr_cases += len(cases)
    for ok, m in zip(res, meta):
        if ok is not True:
            ctx.corr_fail.append({'function': m[0], 'input': repr(m[1:]),
                                  'result': 'model and implementation differ' if ok is False else 'model evaluation failed'})


def cells_coq(s):
    return core.coq_list(['(%s, %s)' % (z(i), z(j)) for i, j in sorted(s)])


def correspond(ctx):
    """CellSpec.v (Coq, vm_compute) vs the implementation on lattice operand pairs: the cell set of the implementation's result
    equals the specification's set (same_set), and the pieces of a split are pairwise disjoint with the specified union"""
    rng = ctx.rng
    cases, meta = [], []
    from .C04 import cells_of_result
    for _ in range(ctx.n(60, 400)):
        mode, sa, sb = pair(rng)
        if mode in ('reflex_corner', 'in_hole'):
            continue    # covered by explore (known classification issues would only repeat here)
        frame = G.rational_frame(rng); origin = G.rpt3(rng, 20)
        fa, fb = sa.face(frame, origin), sb.face(frame, origin)
        box = box_of(sa.filled, sb.filled)
        op = rng.choice(['cinter', 'cdiff', 'cunion'])
        try:
            if op == 'cinter':
                r = Face3D.coplanar_intersection(fa, fb, TOL, ATOL) or []
            elif op == 'cdiff':
                r = fa.coplanar_difference([fb], TOL, ATOL)
            else:
                r = Face3D.coplanar_union_all([fa, fb], TOL, ATOL) or []
        except Exception:
            continue
        got = set()
        bad = False
        for f in r:
            reg = face_cells(frame, origin, f, box)[0]
            if reg is None:
                bad = True; break
            got |= reg
        if bad:
            continue
        cases.append('same_set (%s %s %s) %s' % (op, cells_coq(sa.cells), cells_coq(sb.cells), cells_coq(got)))
        meta.append((op, mode, sa.desc(), sb.desc()))
    pre = ('Definition same_set (a b : list cell) : bool := forallb (fun c => mem c b) a && forallb (fun c => mem c a) b.\n')
    res = core.run_cases('C09_corr', ['CellSpec'], pre, cases,
                         header='From Coq Require Import ZArith List Bool.\nImport ListNotations.\nFrom LBG Require Import CellSpec.\nOpen Scope Z_scope.\n')
    ctx.corr_cases += len(cases)
    for ok, m in zip(res, meta):
        if ok is not True:
            ctx.corr_fail.append({'function': 'Face3D.coplanar_%s' % m[0], 'input': repr(m[1:]),
                                  'result': 'specification and implementation differ' if ok is False else 'specification evaluation failed'})
    loopgroup_cases(ctx, rng, ctx.n(60, 400))
