(* C11 -- intersection results lie on both operands, none are missed, operands swap.
   Property theorems only (proved in proofs/C11_inter2d.v, C11_inter3d.v) about the
   definitions generated from intersection2d.py / intersection3d.py. *)
From LBG Require Import Base QGeom G0_vec G1_shapes G2_inter S_sortkeys C11_inter2d C12_closest C11_inter3d C11_sortkey.
Open Scope Q_scope.

Theorem C11_seg_seg_sound : forall a b p, intersect_line2d_seg_seg a b = Some p ->
  exists ua ub, in_seg ua /\ in_seg ub /\ p =2= on2 a ua /\ p =2= on2 b ub.
Proof. exact seg_seg_sound. Qed.
Print Assumptions C11_seg_seg_sound.

Theorem C11_seg_ray_sound : forall a b p, intersect_line2d_seg_ray a b = Some p ->
  exists ua ub, in_seg ua /\ in_ray ub /\ p =2= on2 a ua /\ p =2= on2 b ub.
Proof. exact seg_ray_sound. Qed.
Print Assumptions C11_seg_ray_sound.

Theorem C11_ray_ray_sound : forall a b p, intersect_line2d_ray_ray a b = Some p ->
  exists ua ub, in_ray ua /\ in_ray ub /\ p =2= on2 a ua /\ p =2= on2 b ub.
Proof. exact ray_ray_sound. Qed.
Print Assumptions C11_ray_ray_sound.

(* completeness: every transversal common point with admissible parameters is returned *)
Theorem C11_seg_seg_complete : forall a b ua ub, ~ det_lr a b == 0 -> on2 a ua =2= on2 b ub -> in_seg ua -> in_seg ub ->
  exists p, intersect_line2d_seg_seg a b = Some p /\ p =2= on2 a ua.
Proof. exact seg_seg_complete. Qed.
Print Assumptions C11_seg_seg_complete.

Theorem C11_seg_ray_complete : forall a b ua ub, ~ det_lr a b == 0 -> on2 a ua =2= on2 b ub -> in_seg ua -> in_ray ub ->
  exists p, intersect_line2d_seg_ray a b = Some p /\ p =2= on2 a ua.
Proof. exact seg_ray_complete. Qed.
Print Assumptions C11_seg_ray_complete.

Theorem C11_ray_ray_complete : forall a b ua ub, ~ det_lr a b == 0 -> on2 a ua =2= on2 b ub -> in_ray ua -> in_ray ub ->
  exists p, intersect_line2d_ray_ray a b = Some p /\ p =2= on2 a ua.
Proof. exact ray_ray_complete. Qed.
Print Assumptions C11_ray_ray_complete.

Theorem C11_seg_seg_separated_none : forall a b,
  (forall ua ub, in_seg ua -> in_seg ub -> ~ on2 a ua =2= on2 b ub) -> intersect_line2d_seg_seg a b = None.
Proof. exact seg_seg_none_when_separated. Qed.
Print Assumptions C11_seg_seg_separated_none.

Theorem C11_seg_seg_swap : forall a b p, intersect_line2d_seg_seg a b = Some p ->
  exists p', intersect_line2d_seg_seg b a = Some p' /\ p' =2= p.
Proof. exact seg_seg_swap. Qed.
Print Assumptions C11_seg_seg_swap.

Theorem C11_seg_ray_swap : forall a b p, intersect_line2d_seg_ray a b = Some p ->
  exists p', intersect_line2d_ray_seg b a = Some p' /\ p' =2= p.
Proof. exact seg_ray_swap. Qed.
Print Assumptions C11_seg_ray_swap.

Theorem C11_ray_ray_swap : forall a b p, intersect_line2d_ray_ray a b = Some p ->
  exists p', intersect_line2d_ray_ray b a = Some p' /\ p' =2= p.
Proof. exact ray_ray_swap. Qed.
Print Assumptions C11_ray_ray_swap.

Theorem C11_segment_isclose_guard_never_rejects : forall a b,
  intersect_line_segment2d a b = intersect_line2d_seg_seg a b.
Proof. exact segment2d_guard_never_rejects. Qed.
Print Assumptions C11_segment_isclose_guard_never_rejects.

Theorem C11_exists_iff_intersects : forall a b,
  does_intersection_exist_line2d_seg_ray a b = true <-> exists p, intersect_line2d_seg_ray a b = Some p.
Proof. exact exists_iff_some_seg_ray. Qed.
Print Assumptions C11_exists_iff_intersects.

Theorem C11_segment_plane_sound : forall l pl p, intersect_line3d_plane_seg l pl = Some p ->
  exists u, in_seg u /\ p = on3 l u /\ on_plane pl p.
Proof. exact line3d_plane_seg_sound. Qed.
Print Assumptions C11_segment_plane_sound.

Theorem C11_segment_plane_complete : forall l pl u, ~ dot3 (pl_n pl) (lr3v l) == 0 -> in_seg u -> on_plane pl (on3 l u) ->
  exists p, intersect_line3d_plane_seg l pl = Some p /\ p =3= on3 l u.
Proof. exact line3d_plane_seg_complete. Qed.
Print Assumptions C11_segment_plane_complete.

Theorem C11_ray_plane_sound : forall l pl p, intersect_line3d_plane_ray l pl = Some p ->
  exists u, in_ray u /\ p = on3 l u /\ on_plane pl p.
Proof. exact line3d_plane_ray_sound. Qed.
Print Assumptions C11_ray_plane_sound.

Theorem C11_ray_plane_complete : forall l pl u, ~ dot3 (pl_n pl) (lr3v l) == 0 -> in_ray u -> on_plane pl (on3 l u) ->
  exists p, intersect_line3d_plane_ray l pl = Some p /\ p =3= on3 l u.
Proof. exact line3d_plane_ray_complete. Qed.
Print Assumptions C11_ray_plane_complete.

Theorem C11_plane_plane_sound : forall a b p v, intersect_plane_plane a b = Some (p, v) ->
  on_plane a p /\ on_plane b p /\ dot3 (pl_n a) v == 0 /\ dot3 (pl_n b) v == 0.
Proof. exact plane_plane_sound. Qed.
Print Assumptions C11_plane_plane_sound.

Theorem C11_plane_plane_complete : forall a b,
  ~ dot3 (pl_n a) (pl_n a) * dot3 (pl_n b) (pl_n b) - dot3 (pl_n a) (pl_n b) * dot3 (pl_n a) (pl_n b) == 0 ->
  exists pv, intersect_plane_plane a b = Some pv.
Proof. exact plane_plane_complete. Qed.
Print Assumptions C11_plane_plane_complete.

Theorem C11_plane_plane_swap : forall a b p v p' v',
  intersect_plane_plane a b = Some (p, v) -> intersect_plane_plane b a = Some (p', v') ->
  p' =3= p /\ v' =3= smul3 (-1) v.
Proof. exact plane_plane_swap_direction. Qed.
Print Assumptions C11_plane_plane_swap.

Theorem C11_plane_sphere_circle : forall qsqrt pl s c n cr,
  let nn := Vector3D_normalize qsqrt (pl_n pl) in
  dot3 nn nn == 1 -> (forall x, 0 <= x -> qsqrt x * qsqrt x == x) ->
  intersect_plane_sphere qsqrt pl s = Some (inl (c, n, cr)) ->
  let d := dot3 (sub3 (pl_o pl) (sp_c s)) nn in
  cr * cr + d * d == sp_r s * sp_r s /\ dot3 (sub3 c (pl_o pl)) nn == 0 /\ n = nn.
Proof. exact plane_sphere_sound. Qed.
Print Assumptions C11_plane_sphere_circle.

(* hypotheses are satisfiable: two crossing unit segments *)
(* line / sphere (generated intersect_line3d_sphere): |point at u - centre|^2 - r^2 is the quadratic the routine solves, and when both roots
   are in range the two points it returns lie on the sphere (root exact at the discriminant) *)
Theorem C11_line_sphere_quadratic : forall l s u,
  sqd3 (on3u l u) (sp_c s) - sp_r s * sp_r s == sph_a l * u * u + sph_b l s * u + sph_c l s.
Proof. exact sphere_quadratic. Qed.
Print Assumptions C11_line_sphere_quadratic.

Theorem C11_line_sphere_two_points_on_the_sphere : forall qsqrt l s,
  let a := sph_a l in let b := sph_b l s in let c := sph_c l s in let det := b * b - 4 * a * c in
  let u1 := (- b + qsqrt det) / (2 * a) in let u2 := (- b - qsqrt det) / (2 * a) in
  ~ a == 0 -> Qlt_bool det 0 = false -> qsqrt det * qsqrt det == det ->
  LineSegment3D__u_in l u1 = true -> LineSegment3D__u_in l u2 = true -> Qeq_bool u1 u2 = false ->
  intersect_line3d_sphere_seg qsqrt l s = Some (inr (on3u l u1, on3u l u2)) /\
  sqd3 (on3u l u1) (sp_c s) == sp_r s * sp_r s /\ sqd3 (on3u l u2) (sp_c s) == sp_r s * sp_r s.
Proof. exact line_sphere_two_points_on_sphere. Qed.
Print Assumptions C11_line_sphere_two_points_on_the_sphere.

(* Face3D.intersect_plane pairs the crossings of the cut line with the face outline after sorting them by the generated key: along the
   line p + t v the key is strictly increasing in t (for every direction of the line in the plane's axes, also along its y axis), ties
   only at equal parameters, and the direction in the key is the direction of the ray whose crossings are sorted *)
Theorem C11_face_plane_crossings_sorted_along_the_cut_line : forall px py vx vy t1 t2,
  ~ (vx == 0 /\ vy == 0) ->
  (t1 < t2 <-> Face3D_intersect_plane_key vx vy (px + t1 * vx) (py + t1 * vy) < Face3D_intersect_plane_key vx vy (px + t2 * vx) (py + t2 * vy)).
Proof. exact key_orders_crossings_along_the_line. Qed.
Print Assumptions C11_face_plane_crossings_sorted_along_the_cut_line.

Theorem C11_face_plane_sort_key_has_no_ties : forall px py vx vy t1 t2,
  ~ (vx == 0 /\ vy == 0) ->
  Face3D_intersect_plane_key vx vy (px + t1 * vx) (py + t1 * vy) == Face3D_intersect_plane_key vx vy (px + t2 * vx) (py + t2 * vy) -> t1 == t2.
Proof. exact key_ties_only_at_equal_parameters. Qed.
Print Assumptions C11_face_plane_sort_key_has_no_ties.

Theorem C11_face_plane_sort_key_direction : Face3D_intersect_plane_key_dir_is_ray_dir = true.
Proof. exact key_direction_is_the_ray_direction. Qed.
Print Assumptions C11_face_plane_sort_key_direction.

Example C11_nonvacuous :
  let a := mkLR2 (mkV2 0 0) (mkV2 2 2) in let b := mkLR2 (mkV2 0 2) (mkV2 2 (-2)) in
  ~ det_lr a b == 0 /\ on2 a (1#2) =2= on2 b (1#2) /\ in_seg (1#2) /\
  exists p, intersect_line2d_seg_seg a b = Some p /\ p =2= mkV2 1 1.
Proof.
  cbv zeta. split; [vm_compute; discriminate|]. split; [split; vm_compute; reflexivity|].
  split; [unfold in_seg; lra|]. eexists; split; [vm_compute; reflexivity| split; vm_compute; reflexivity].
Qed.
