(* ListCyc.v -- cyclic sums over vertex loops, and the bridge from the Python
   idiom  `for i, pt in enumerate(vs): acc += f(vs[i - 1], pt)`  (as the
   translator emits it: fold_left over py_enumerate with py_nth (i-1)). *)
From LBG Require Import Base.
Open Scope Q_scope.

Section Cyc.
Context {A : Type}.

(* sum of f over consecutive pairs of an open path *)
Fixpoint path_sum (f : A -> A -> Q) (l : list A) : Q :=
  match l with
  | [] => 0
  | x :: r => match r with [] => 0 | y :: _ => f x y + path_sum f r end
  end.

(* sum over the closed loop: the pair (last, first) plus the path *)
Definition cyc_sum (f : A -> A -> Q) (l : list A) : Q :=
  match l with [] => 0 | x :: _ => f (last l x) x + path_sum f l end.

Lemma path_sum_cons f x y r : path_sum f (x :: y :: r) = f x y + path_sum f (y :: r).
Proof. reflexivity. Qed.

Lemma path_sum_app1 f l x y : path_sum f ((l ++ [x]) ++ [y]) == path_sum f (l ++ [x]) + f x y.
Proof.
  induction l as [|a l IH]; cbn [app].
  - cbn. ring.
  - destruct l as [|b l].
    + cbn. ring.
    + cbn [app] in *. rewrite !path_sum_cons. rewrite IH. ring.
Qed.

Lemma path_sum_snoc f l x d : l <> [] -> path_sum f (l ++ [x]) == path_sum f l + f (last l d) x.
Proof.
  intros H. destruct (exists_last H) as (l' & y & ->).
  rewrite path_sum_app1. rewrite last_last. reflexivity.
Qed.

Lemma last_cons_ne (x : A) l d : l <> [] -> last (x :: l) d = last l d.
Proof. destruct l; [congruence|reflexivity]. Qed.

Lemma last_indep (l : list A) d d' : l <> [] -> last l d = last l d'.
Proof. induction l as [|a l IH]; [congruence|]. intros _. destruct l; [reflexivity|]. cbn [last] in *. apply IH. congruence. Qed.

(* the start vertex of a closed loop does not matter *)
Lemma cyc_sum_shift f x l : cyc_sum f (x :: l) == cyc_sum f (l ++ [x]).
Proof.
  destruct l as [|y l].
  - cbn. ring.
  - unfold cyc_sum. cbn [app]. 
    assert (E1 : last (x :: y :: l) x = last (y :: l) x) by reflexivity.
    rewrite E1. rewrite path_sum_cons.
    change ((y :: l) ++ [x]) with (y :: (l ++ [x])).
    assert (E2 : last (y :: l ++ [x]) y = x).
    { change (y :: l ++ [x]) with ((y :: l) ++ [x]). apply last_last. }
    rewrite E2.
    change (y :: l ++ [x]) with ((y :: l) ++ [x]).
    rewrite (path_sum_snoc f (y :: l) x x) by congruence. ring.
Qed.

Lemma path_sum_ext f g l : (forall a b, f a b == g a b) -> path_sum f l == path_sum g l.
Proof.
  intros H. induction l as [|x r IH]; [reflexivity|]. destruct r as [|y r]; [reflexivity|].
  rewrite !path_sum_cons, H, IH. reflexivity.
Qed.

Lemma cyc_sum_ext f g l : (forall a b, f a b == g a b) -> cyc_sum f l == cyc_sum g l.
Proof. intros H. destruct l; [reflexivity|]. unfold cyc_sum. rewrite H, (path_sum_ext f g); auto. reflexivity. Qed.

Lemma path_sum_plus f g l : path_sum (fun a b => f a b + g a b) l == path_sum f l + path_sum g l.
Proof.
  induction l as [|x r IH]; [cbn; ring|]. destruct r as [|y r]; [cbn; ring|].
  rewrite !path_sum_cons, IH. ring.
Qed.

Lemma cyc_sum_plus f g l : cyc_sum (fun a b => f a b + g a b) l == cyc_sum f l + cyc_sum g l.
Proof. destruct l; [cbn; ring|]. unfold cyc_sum. rewrite path_sum_plus. ring. Qed.

Lemma path_sum_scale k f l : path_sum (fun a b => k * f a b) l == k * path_sum f l.
Proof.
  induction l as [|x r IH]; [cbn; ring|]. destruct r as [|y r]; [cbn; ring|].
  rewrite !path_sum_cons, IH. ring.
Qed.

Lemma cyc_sum_scale k f l : cyc_sum (fun a b => k * f a b) l == k * cyc_sum f l.
Proof. destruct l; [cbn; ring|]. unfold cyc_sum. rewrite path_sum_scale. ring. Qed.

(* telescoping: a difference of a vertex function sums to zero around a loop *)
Lemma path_sum_telescope (g : A -> Q) l d : l <> [] ->
  path_sum (fun a b => g b - g a) l == g (last l d) - g (hd d l).
Proof.
  induction l as [|x r IH]; [congruence|]. intros _. destruct r as [|y r].
  - cbn. ring.
  - rewrite path_sum_cons, IH by congruence. cbn [hd]. rewrite (last_cons_ne x (y :: r)) by congruence. ring.
Qed.

Lemma cyc_sum_telescope (g : A -> Q) l : cyc_sum (fun a b => g b - g a) l == 0.
Proof.
  destruct l as [|x r]; [reflexivity|]. unfold cyc_sum.
  rewrite (path_sum_telescope g (x :: r) x) by congruence. cbn [hd]. ring.
Qed.

(* reversal *)
Lemma path_sum_rev f l : path_sum f (rev l) == path_sum (fun a b => f b a) l.
Proof.
  induction l as [|x r IH]; [reflexivity|]. destruct r as [|y r]; [reflexivity|].
  cbn [rev] in *. rewrite path_sum_cons.
  rewrite (path_sum_snoc f (rev r ++ [y]) x x).
  - rewrite last_last. cbn [rev] in IH. rewrite IH. ring.
  - destruct (rev r); discriminate.
Qed.

Lemma cyc_sum_rev f l : cyc_sum f (rev l) == cyc_sum (fun a b => f b a) l.
Proof.
  destruct l as [|x r]; [reflexivity|].
  destruct r as [|y r]; [cbn; ring|].
  (* rev (x::y::r) = rev r ++ [y] ++ [x]: shift x to the front *)
  cbn [rev]. rewrite <- cyc_sum_shift.
  unfold cyc_sum at 1. 
  assert (E : last (x :: rev r ++ [y]) x = y).
  { change (x :: rev r ++ [y]) with ((x :: rev r) ++ [y]). apply last_last. }
  rewrite E.
  change (x :: rev r ++ [y]) with (x :: rev (y :: r)).
  assert (P : path_sum f (x :: rev (y :: r)) == f x (last (y :: r) y) + path_sum f (rev (y :: r))).
  { cbn [rev]. destruct (rev r) eqn:Er.
    - cbn [app]. rewrite path_sum_cons. 
      assert (r = []) by (destruct r; [reflexivity| cbn in Er; destruct (rev r); discriminate]). subst. reflexivity.
    - cbn [app]. rewrite path_sum_cons.
      assert (Hl : last (y :: r) y = a).
      { rewrite <- (rev_involutive r). rewrite Er. cbn [rev]. 
        change (y :: rev l ++ [a]) with ((y :: rev l) ++ [a]). apply last_last. }
      rewrite Hl. reflexivity. }
  rewrite P. rewrite (path_sum_rev f (y :: r)).
  unfold cyc_sum. rewrite path_sum_cons.
  assert (L : last (x :: y :: r) x = last (y :: r) y).
  { rewrite last_cons_ne by congruence. apply last_indep. congruence. }
  rewrite L. ring.
Qed.
End Cyc.

(* -------------------------------------------------------------------------
   bridge from the translated loop to cyc_sum *)
Lemma enum_from_fold {A B} (F : B -> Z * A -> B) (G : B -> Z -> A -> B) l k b :
  (forall acc i x, F acc (i, x) = G acc i x) ->
  fold_left F (enum_from k l) b = fold_left (fun acc ix => G acc (fst ix) (snd ix)) (enum_from k l) b.
Proof.
  intros H. revert k b. induction l as [|x r IH]; intros k b; [reflexivity|].
  cbn [enum_from fold_left fst snd]. rewrite H. apply IH.
Qed.

Lemma nth_last {A} (l : list A) d : nth (length l - 1) l d = last l d.
Proof.
  induction l as [|x r IH]; [reflexivity|]. destruct r as [|y r]; [reflexivity|].
  cbn [length] in *. rewrite Nat.sub_succ, Nat.sub_0_r in *.
  change (nth (S (length r)) (x :: y :: r) d) with (nth (length r) (y :: r) d).
  rewrite IH. reflexivity.
Qed.

(* vs[i-1] for the i-th element of enumerate(vs): the cyclic predecessor *)
Lemma py_nth_pred {A} (l : list A) d (i : nat) : (i < length l)%nat ->
  py_nth l (Z.of_nat i - 1) d = match i with O => last l d | S j => nth j l d end.
Proof.
  intros Hi. unfold py_nth. destruct i as [|j].
  - cbn [Z.of_nat]. replace (0 - 1 <? 0)%Z with true by reflexivity.
    replace (Z.to_nat (Z.of_nat (length l) + (0 - 1))) with (length l - 1)%nat by lia.
    apply nth_last.
  - replace (Z.of_nat (S j) - 1 <? 0)%Z with false by (symmetry; apply Z.ltb_ge; lia).
    replace (Z.to_nat (Z.of_nat (S j) - 1)) with j by lia. reflexivity.
Qed.

(* generic accumulation over the cyclic pairs, in index form *)
Fixpoint cyc_fold_from {A} (g : Q -> A -> A -> Q) (prev : A) (l : list A) (acc : Q) : Q :=
  match l with [] => acc | x :: r => cyc_fold_from g x r (g acc prev x) end.

Lemma enum_fold_is_cyc_fold {A} (g : Q -> A -> A -> Q) (L : list A) d :
  forall (l : list A) (k : nat) acc, (k + length l = length L)%nat ->
    (forall j, (j < length l)%nat -> nth j l d = nth (k + j) L d) ->
    fold_left (fun a ix => g a (py_nth L (fst ix - 1) d) (snd ix)) (enum_from (Z.of_nat k) l) acc
    = cyc_fold_from g (match k with O => last L d | S j => nth j L d end) l acc.
Proof.
  induction l as [|x r IH]; intros k acc Hlen Hn; [reflexivity|].
  cbn [enum_from fold_left fst snd cyc_fold_from length] in *.
  rewrite (py_nth_pred L d k) by lia.
  replace (Z.of_nat k + 1)%Z with (Z.of_nat (S k)) by lia.
  rewrite (IH (S k)).
  - f_equal. specialize (Hn O ltac:(lia)). cbn [nth] in Hn. rewrite Nat.add_0_r in Hn. symmetry. exact Hn.
  - lia.
  - intros j Hj. specialize (Hn (S j) ltac:(lia)). cbn [nth] in Hn. rewrite Hn. f_equal. lia.
Qed.

Lemma cyc_fold_from_sum {A} (f : A -> A -> Q) prev (l : list A) acc :
  cyc_fold_from (fun a p c => a + f p c) prev l acc == acc + path_sum f (prev :: l).
Proof.
  revert prev acc. induction l as [|x r IH]; intros prev acc; cbn [cyc_fold_from].
  - cbn. ring.
  - rewrite IH. rewrite path_sum_cons. ring.
Qed.

(* THE bridge: the translated shoelace-style loop is a cyc_sum *)
Theorem enumerate_loop_is_cyc_sum {A} (f : A -> A -> Q) (F : Q -> Z * A -> Q) (L : list A) d a0 :
  (forall acc i x, F acc (i, x) = acc + f (py_nth L (i - 1) d) x) ->
  fold_left F (py_enumerate L) a0 == a0 + cyc_sum f L.
Proof.
  intros HF. unfold py_enumerate.
  rewrite (enum_from_fold F (fun acc i x => acc + f (py_nth L (i - 1) d) x)) by exact HF.
  change 0%Z with (Z.of_nat 0).
  rewrite (enum_fold_is_cyc_fold (fun a p c => a + f p c) L d L 0 a0); [| reflexivity | intros; reflexivity].
  rewrite cyc_fold_from_sum. unfold cyc_sum. destruct L as [|x r].
  - cbn. ring.
  - rewrite path_sum_cons. rewrite (last_indep (x :: r) d x) by congruence. ring.
Qed.

Lemma path_sum_map {A B} (f : B -> B -> Q) (T : A -> B) l :
  path_sum f (map T l) = path_sum (fun a b => f (T a) (T b)) l.
Proof.
  induction l as [|x r IH]; [reflexivity|]. destruct r as [|y r]; [reflexivity|].
  cbn [map] in *. rewrite !path_sum_cons. rewrite IH. reflexivity.
Qed.

Lemma last_map {A B} (T : A -> B) l d : last (map T l) (T d) = T (last l d).
Proof. induction l as [|x r IH]; [reflexivity|]. destruct r; [reflexivity|]. cbn [map last] in *. exact IH. Qed.

Lemma cyc_sum_map {A B} (f : B -> B -> Q) (T : A -> B) l :
  cyc_sum f (map T l) = cyc_sum (fun a b => f (T a) (T b)) l.
Proof.
  destruct l as [|x r]; [reflexivity|]. unfold cyc_sum. cbn [map].
  change (T x :: map T r) with (map T (x :: r)). rewrite last_map, path_sum_map. reflexivity.
Qed.

Lemma last_app_ne {A} (l r : list A) d : r <> [] -> last (l ++ r) d = last r d.
Proof.
  intros H. induction l as [|x l IH]; [reflexivity|]. cbn [app].
  destruct (l ++ r) eqn:E; [destruct l; [cbn in E; congruence| discriminate]|]. rewrite <- E in *. cbn [last].
  rewrite E. rewrite <- E. exact IH.
Qed.
