"""C05  triangulation exactly tiles a polygon with holes."""
import math
from fractions import Fraction
from .. import core, gens as G, exact as X, build as Bd
from ..core import q, v2, F
from ..build import P2, P3
from ladybug_geometry.geometry2d import Polygon2D, Mesh2D
from ladybug_geometry.geometry3d import Face3D
from ladybug_geometry import triangulation as T

RULE = ('boundaries with 3..120 vertices (convex, star, comb, spiral, rectilinear lattice), 0..6 certified holes, both vertex orders '
        'for boundary and holes, through earcut / Mesh2D.from_polygon_triangulated / Face3D.triangulated_mesh2d,3d; >80 vertices '
        'exercise the z-order hashed path. non-trivial = concave or with holes; distinct by (family, vertex count, holes, entry point)')
ASSUMPTIONS = ['input validity certified with exact rational predicates before use']
TRUSTED = []


def make_shape(rng):
    fam = rng.choice(['convex', 'star', 'star', 'comb', 'spiral', 'lattice', 'bigstar', 'lobes', 'lobes', 'lobes', 'dart', 'dart'])
    if fam == 'convex': b = G.convex_polygon(rng, n=rng.randint(3, 12))
    elif fam == 'star': b = G.star_polygon(rng, n=rng.randint(4, 30), R=rng.choice([10.0, 100.0]))
    elif fam == 'bigstar': b = G.star_polygon(rng, n=rng.randint(81, 120), R=1000.0, bits=12)
    elif fam == 'comb':
        b = G.comb_polygon(rng, teeth=rng.choice([2, 3, 5, 9, 20, 25, 29]))
        if rng.random() < 0.5:
            b = [(y, x) for x, y in b][::-1]        # the same comb standing upright (taller than wide), still counter-clockwise
    elif fam == 'spiral': b = G.spiral_polygon(rng)
    elif fam == 'lobes': b = G.lobed_polygon(rng)
    elif fam == 'dart':
        # concave quadrilateral (and pentagon with one reflex vertex), the reflex vertex at every position of the list
        w, h = G.dy(rng.uniform(2, 9)), G.dy(rng.uniform(2, 9)); t = G.dy(rng.uniform(0.2, 0.8) * h)
        ox, oy = G.rpt2(rng, 50)
        b = [(ox, oy), (ox + w, oy + t), (ox + 2 * w, oy), (ox + w, oy + h)]      # reflex at index 1
        if rng.random() < 0.3:
            b = [(ox, oy), (ox + w, oy + t), (ox + 2 * w, oy), (ox + 2 * w, oy + h), (ox + w, oy + h + t)]
        k = rng.randrange(len(b)); b = b[k:] + b[:k]
    else: b = G.lattice_polygon(rng, ncells=rng.randint(3, 16), w=7, h=7)[0]
    nh = rng.choice([0, 1, 2, 4, 6]) if fam in ('convex', 'star', 'bigstar') else (rng.choice([1, 2, 3]) if fam == 'lobes' else 0)
    hs = G.holes_in(rng, b, nh) if nh else []
    if rng.random() < 0.5: b = b[::-1]
    return fam, b, hs


def check_tiling(ctx, kind, verts, faces, b, hs, desc, fam='grid'):
    """verts: list of (x,y) floats; faces: index triples; b, hs: input loops (floats)"""
    fb = [X.fpt(p) for p in b]; fh = [[X.fpt(p) for p in h] for h in hs]
    fv = [X.fpt(p) for p in verts]
    inputs = set(fb) | {p for h in fh for p in h}
    if any(p not in inputs for p in fv):
        ctx.violation(kind + ':new_vertex', 'triangulation uses a vertex that is not an input vertex', desc); return
    if any(len(f) != 3 for f in faces):
        ctx.violation(kind + ':non_triangle', 'a face is not a triangle', desc); return
    areas2 = [X.det2(X.sub(fv[f[1]], fv[f[0]]), X.sub(fv[f[2]], fv[f[0]])) for f in faces]
    if any(a == 0 for a in areas2):
        ctx.violation(kind + ':zero_area', 'a triangle has zero area', desc); return
    if not (all(a > 0 for a in areas2) or all(a < 0 for a in areas2)):
        ctx.violation(kind + ':mixed_orientation', 'triangles do not have a uniform orientation', desc); return
    exp = X.area(fb) - sum(X.area(h) for h in fh)
    got = sum(abs(a) for a in areas2) / 2
    if got != exp:
        ctx.violation(kind + ':area_sum', 'triangle areas sum to %r, the shape has %r' % (float(got), float(exp)), desc); return
    # edge conditions
    directed = {}
    for f in faces:
        for i in range(3):
            e = (fv[f[i]], fv[f[(i + 1) % 3]])
            directed[e] = directed.get(e, 0) + 1
    in_edges = set()
    for lp in [fb] + fh:
        for i in range(len(lp)):
            in_edges.add(frozenset((lp[i - 1], lp[i])))
    def edge_fault(kind_, msg):
        # is the fault ONLY that some triangle edges pass through input vertices lying exactly on them?
        tj = t_junction_only(directed, in_edges, inputs)
        if tj:
            # one kind for every shape family and both ear tests (the known finding), except for the family built so that the unchanged
            # library gives a conforming triangulation: a T-junction there is a regression of the bridge choice
            ctx.violation(kind.replace(':hashed', '') + (':t_junction:' + fam if fam == 'collinear_candidates' else ':t_junction'),
                          'the triangles tile the shape exactly, but the triangle edge %s - %s passes through the input vertex %s '
                          '(collinear with it): it is not shared edge-to-edge' % tuple(tuple(float(c) for c in x) for x in tj), desc)
        else:
            ctx.violation(kind_, msg, desc)
    for (p, q_), n in directed.items():
        und = frozenset((p, q_))
        rev = directed.get((q_, p), 0)
        if und in in_edges:
            if n + rev != 1:
                edge_fault(kind + ':input_edge_use', 'an input edge is used by %d triangles' % (n + rev)); return
        elif n != 1 or rev != 1:
            edge_fault(kind + ':interior_edge_use', 'an interior edge is used %d+%d times' % (n, rev)); return
    for e in in_edges:
        p, q_ = tuple(e)
        if directed.get((p, q_), 0) + directed.get((q_, p), 0) != 1:
            edge_fault(kind + ':input_edge_missing', 'an input edge is not an edge of exactly one triangle'); return
    # containment: every triangle centroid inside the region
    for f in faces:
        c = tuple(sum(fv[i][k] for i in f) / 3 for k in range(2))
        if X.region_contains(fb, fh, c) is not True:
            ctx.violation(kind + ':outside', 'a triangle centroid lies outside the shape (or in a hole)', desc); return


def t_junction_only(directed, in_edges, inputs):
    """if the edge conditions fail ONLY because some triangle edges pass through input vertices lying exactly on them (and hold once
    those edges are cut at these vertices), return one such (edge start, edge end, vertex); otherwise None"""
    def between(a, b, r):
        return r != a and r != b and X.orient(a, b, r) == 0 and min(a[0], b[0]) <= r[0] <= max(a[0], b[0]) and min(a[1], b[1]) <= r[1] <= max(a[1], b[1])
    witness = None
    refined = {}
    for (a, b), n in directed.items():
        mids = [r for r in inputs if between(a, b, r)]
        if mids and witness is None:
            witness = (a, b, mids[0])
        chain = [a] + sorted(mids, key=lambda r: X.sqd(a, r)) + [b]
        for u, v in zip(chain, chain[1:]):
            refined[(u, v)] = refined.get((u, v), 0) + n
    if witness is None:
        return None
    for (u, v), n in refined.items():
        rev = refined.get((v, u), 0)
        if frozenset((u, v)) in in_edges:
            if n + rev != 1:
                return None
        elif n != 1 or rev != 1:
            return None
    for e in in_edges:
        u, v = tuple(e)
        if refined.get((u, v), 0) + refined.get((v, u), 0) != 1:
            return None
    return witness


def grid_shape(rng):
    """integer-coordinate star boundary with 2..5 integer star holes in separate cells (so vertices of different loops are often
    exactly collinear or level with each other); certified exactly"""
    for _ in range(50):
        nb = rng.randint(10, 30)
        def star(n, cx, cy, rmin, rmax):
            pts = []
            for k in range(n):
                a = 2 * math.pi * (k + rng.uniform(-0.3, 0.3)) / n
                r = rng.uniform(rmin, rmax)
                pts.append((float(round(cx + r * math.cos(a))), float(round(cy + r * math.sin(a)))))
            return pts
        b = star(nb, 0, 0, 60, 100)
        cells = [(i, j) for i in (-1, 0, 1) for j in (-1, 0, 1)]
        rng.shuffle(cells)
        hs = []
        for (i, j) in cells[:rng.randint(2, 5)]:
            h = star(rng.randint(3, 8), 24 * i, 24 * j, 3, 10)
            if rng.random() < 0.5:
                h.reverse()
            hs.append(h)
        loops = [b] + hs
        ok = all(G.certify_polygon(l) for l in loops)
        ok = ok and all(X.orient(X.fpt(l[i - 2]), X.fpt(l[i - 1]), X.fpt(l[i])) != 0 for l in loops for i in range(len(l)))
        if not ok:
            continue
        fb = [X.fpt(q_) for q_ in b]
        if not all(X.winding_inside(fb, X.fpt(q_)) is True for h in hs for q_ in h):
            continue
        if any(X.segs_intersect(X.fpt(h[i - 1]), X.fpt(h[i]), fb[j - 1], fb[j]) for h in hs for i in range(len(h)) for j in range(len(fb))):
            continue
        boxes = [(min(q_[0] for q_ in h), max(q_[0] for q_ in h), min(q_[1] for q_ in h), max(q_[1] for q_ in h)) for h in hs]
        if any(not (a[1] < c[0] or c[1] < a[0] or a[3] < c[2] or c[3] < a[2]) for i, a in enumerate(boxes) for c in boxes[i + 1:]):
            continue
        if rng.random() < 0.5:
            b = b[::-1]
        return b, hs
    return None


def fam_grid_holes(ctx, rng):
    g = grid_shape(rng)
    if g is None:
        return
    b, hs = g
    entry = rng.choice(['earcut', 'mesh2d', 'face3d'])
    run_entry(ctx, 'grid', entry, b, hs)


def fam_staggered_holes(ctx, rng):
    """two or three holes with overlapping x-extents, one of them a slanted band that reaches further LEFT than its neighbour at the
    neighbour's level and further RIGHT elsewhere (so the order in which holes are bridged matters); every start vertex / winding"""
    sy = rng.choice([1, -1])                      # mirrored vertically or not
    j = lambda: G.dy(rng.uniform(-0.25, 0.25), 6)
    band = [(-6.0 + j(), sy * (-4.0 + j())), (-4.0 + j(), sy * (-4.0 + j())), (6.0 + j(), sy * (4.0 + j())), (4.0 + j(), sy * (4.0 + j()))]
    cx, cy = 3.0 + j(), sy * (-2.0 + j())
    k = rng.randint(3, 5); r = rng.choice([0.5, 0.75, 1.0]); a0 = rng.uniform(0, 6.28)
    small = [(G.dy(cx + r * math.cos(a0 + 2 * math.pi * i / k), 6), G.dy(cy + r * math.sin(a0 + 2 * math.pi * i / k), 6)) for i in range(k)]
    hs = [band, small]
    if rng.random() < 0.5:
        cx2, cy2 = -3.0 + j(), sy * (2.5 + j())
        hs.append([(G.dy(cx2 + 0.75 * math.cos(a0 + 2 * math.pi * i / 4), 6), G.dy(cy2 + 0.75 * math.sin(a0 + 2 * math.pi * i / 4), 6)) for i in range(4)])
    b = [(-9.0 + j(), -7.0 + j()), (9.0 + j(), -7.0 + j()), (10.0 + j(), 0.0 + j()), (9.0 + j(), 7.0 + j()), (-9.0 + j(), 7.0 + j())]
    out = []
    for h in hs:
        st = rng.randrange(len(h)); h = h[st:] + h[:st]
        if rng.random() < 0.5:
            h = h[::-1]
        out.append(h)
    hs = out
    if rng.random() < 0.5:
        b = b[::-1]
    fb = [X.fpt(p) for p in b]
    if not all(G.certify_polygon(l) for l in [b] + hs) or not all(X.winding_inside(fb, X.fpt(p)) is True for h in hs for p in h):
        return
    fhs = [[X.fpt(p) for p in h] for h in hs]
    for i in range(len(fhs)):
        for k2 in range(i + 1, len(fhs)):
            if any(X.segs_intersect(fhs[i][u - 1], fhs[i][u], fhs[k2][v - 1], fhs[k2][v]) for u in range(len(fhs[i])) for v in range(len(fhs[k2]))) \
                    or X.winding_inside(fhs[i], fhs[k2][0]) is not False or X.winding_inside(fhs[k2], fhs[i][0]) is not False:
                return
    run_entry(ctx, 'staggered', rng.choice(['earcut', 'mesh2d', 'face3d']), b, hs)


def fam_split_hashed(ctx, rng):
    """a concave quadrilateral with a triangular hole close to its re-entrant corner (ear clipping gets stuck and has to split the ring
    by a diagonal), one long edge carrying an outward sawtooth so that the vertex count is above (or just below) the threshold of
    the z-order hashed ear test; placed by exact similarities"""
    quad = [(-38.0, 21.0), (-28.0, 28.0), (21.0, 92.0), (53.0, 13.0)]
    hole = [(-16.0, 40.0), (-22.0, 35.0), (-13.0, 23.0)]
    teeth = rng.choice([60, 70, 74, 75, 76, 80, 90, 110])
    (ax, ay), (cx, cy) = quad[2], quad[3]
    dx, dy = cx - ax, cy - ay
    L = math.hypot(dx, dy); nx, ny = -dy / L, dx / L
    extra = []
    amp = rng.choice([1.0, 1.0, 0.5, 1.5])
    for k in range(1, teeth + 1):
        t = k / (teeth + 1.0)
        d = ((4.0 if k % 2 else 1.2) + 6.0 * t * (1.0 - t)) * amp
        extra.append((G.dy(ax + t * dx + nx * d, 8), G.dy(ay + t * dy + ny * d, 8)))
    b = quad[:3] + extra + quad[3:]
    # exact similarity: optional mirror, quarter turns, dyadic scale, translation
    mir = rng.random() < 0.3; rot = rng.choice([0, 0, 0, 1, 2, 3]); k_ = rng.choice([1.0, 1.0, 0.5, 2.0, 8.0]); tx, ty = G.rpt2(rng, 100)
    def T(p):
        x, y = p
        if mir: x = -x
        for _ in range(rot): x, y = -y, x
        return (x * k_ + tx, y * k_ + ty)
    b = [T(p) for p in b]; hs = [[T(p) for p in hole]]
    if rng.random() < 0.5: b = b[::-1]
    if rng.random() < 0.5: hs = [hs[0][::-1]]
    st = rng.randrange(3); hs = [hs[0][st:] + hs[0][:st]]
    fb = [X.fpt(p) for p in b]
    if not G.certify_polygon(b) or not all(X.winding_inside(fb, X.fpt(p)) is True for p in hs[0]) \
            or any(X.orient(fb[i - 2], fb[i - 1], fb[i]) == 0 for i in range(len(fb))):
        return
    run_entry(ctx, 'split_hashed', rng.choice(['earcut', 'mesh2d', 'face3d']), b, hs)


def fam_collinear_candidates(ctx, rng):
    """a hole whose leftmost vertex is exactly in line with two re-entrant notch tips of the boundary on its left (both subtend the same
    angle when the hole is bridged): the nearer tip must be chosen.  Exact similarities (dyadic scale, translation, mirror in y) and
    every start vertex / winding of hole and boundary"""
    sy = rng.choice([1, -1]); k_ = rng.choice([1.0, 0.5, 2.0, 4.0]); tx, ty = G.rpt2(rng, 50)
    slope = rng.choice([(2, 1), (3, 1), (1, 1), (4, 1)])          # run, rise of the line through the tips and the hole vertex
    run, rise = slope
    hx, hy = 10.0, 0.0
    t1 = (hx - 2 * run, hy - 2 * rise); t2 = (hx - 4 * run, hy - 4 * rise)         # nearer and farther tip on one line
    if t2[0] <= 0.5 or t2[1] <= -9.5:
        t1 = (hx - run, hy - rise); t2 = (hx - 2 * run, hy - 2 * rise)
    b = [(0.0, -10.0), (t2[0] - 1.0, -10.0), t2, (t2[0] + 1.0, -10.0), (t1[0] - 1.0, -10.0), t1, (t1[0] + 1.0, -10.0), (20.0, -10.0),
         (20.0, 10.0), (0.0, 10.0)]
    hole = [(hx, hy), (hx + 3.0, hy - 1.0), (hx + 3.0, hy + 1.0)]
    T = lambda p: (p[0] * k_ + tx, sy * p[1] * k_ + ty)
    b = [T(p) for p in b]; hole = [T(p) for p in hole]
    if sy < 0:
        b = b[::-1]; hole = hole[::-1]
    st = rng.randrange(len(b)); b = b[st:] + b[:st]
    st = rng.randrange(3); hole = hole[st:] + hole[:st]
    if rng.random() < 0.5: b = b[::-1]
    if rng.random() < 0.5: hole = hole[::-1]
    fb = [X.fpt(p) for p in b]
    if not G.certify_polygon(b) or not all(X.winding_inside(fb, X.fpt(p)) is True for p in hole):
        return
    run_entry(ctx, 'collinear_candidates', rng.choice(['earcut', 'mesh2d', 'face3d']), b, [hole])


def fam_tall_hashed(ctx, rng):
    """combs with more than 80 vertices (z-order hashed ear test) standing upright - several times taller than wide - or lying flat;
    mirrored and re-started"""
    if rng.random() < 0.5:
        b = G.comb_polygon(rng, teeth=rng.randint(21, 30))
    else:
        # teeth of alternating heights standing on a base strip, the gaps between them reaching down to alternating depths
        # (re-entrant gap corners then lie inside candidate ears spanned by neighbouring tooth corners)
        teeth = rng.randint(21, 30); w = rng.choice([0.5, 1.0, 2.0])
        heights = [G.dy(rng.uniform(1, 4), 3) for _ in range(rng.choice([2, 3]))]; roots = [G.dy(rng.uniform(0.5, 2.5), 3) for _ in range(rng.choice([2, 3]))]
        b = [(0.0, 0.0)]; x = 0.0
        for t in range(teeth):
            top = 3.0 + heights[t % len(heights)]; root = roots[t % len(roots)]
            b += [(x, top), (x + w, top), (x + w, root)]
            x += 2 * w
            if t < teeth - 1:
                b.append((x, root))
        b.append((x - w, 0.0))
        b = b[::-1]
    upright = rng.random() < 0.75
    if upright:
        b = [(y, x) for x, y in b][::-1]
    if rng.random() < 0.5:
        b = [(-x, y) for x, y in b][::-1]
    k = rng.randrange(len(b)); b = b[k:] + b[:k]
    if rng.random() < 0.5:
        b = b[::-1]
    if rng.random() < 0.6:
        # somewhere in a site model: far along one axis and near the other, or far along both (|coordinates| <= 1e4)
        ox = float(rng.choice([1, 1, -1]) * rng.randint(1000, 9000)); oy = float(rng.choice([0, 0, rng.randint(-9000, 9000)]))
        if rng.random() < 0.25:
            ox, oy = oy, ox
        b = [(x + ox, y + oy) for x, y in b]
    if not G.certify_polygon(b):
        return
    run_entry(ctx, 'tall_comb' if upright else 'flat_comb', rng.choice(['earcut', 'mesh2d', 'face3d']), b, [])


def fam_right_of_diagonal(ctx, rng):
    """upright combs of more than 80 vertices (alternating tooth heights and gap depths) far along +x and near y = 0 - every x
    coordinate exceeds every y coordinate, the shape is several times taller than wide: the z-order normalisation has to use the
    larger of the two extents"""
    teeth = rng.randint(21, 30); w = rng.choice([0.5, 1.0, 2.0])
    heights = [G.dy(rng.uniform(1, 4), 3) for _ in range(rng.choice([2, 3]))]; roots = [G.dy(rng.uniform(0.5, 2.5), 3) for _ in range(rng.choice([2, 3]))]
    b = [(0.0, 0.0)]; x = 0.0
    for t in range(teeth):
        top = 3.0 + heights[t % len(heights)]; root = roots[t % len(roots)]
        b += [(x, top), (x + w, top), (x + w, root)]
        x += 2 * w
        if t < teeth - 1:
            b.append((x, root))
    b.append((x - w, 0.0))
    b = [(y_, x_) for x_, y_ in b]                      # stand it upright (a reflection: the order is now counter-clockwise)
    if rng.random() < 0.5:
        b = [(-x_, y_) for x_, y_ in b][::-1]
    ox = float(rng.randint(1000, 9000))
    b = [(x_ + ox, y_) for x_, y_ in b]
    k = rng.randrange(len(b)); b = b[k:] + b[:k]
    if rng.random() < 0.5:
        b = b[::-1]
    if not G.certify_polygon(b):
        return
    run_entry(ctx, 'right_of_diagonal', rng.choice(['earcut', 'mesh2d']), b, [])


def fam_earcut(ctx, rng):
    fam, b, hs = make_shape(rng)
    entry = rng.choice(['earcut', 'mesh2d', 'face3d'])
    run_entry(ctx, fam, entry, b, hs)


def run_entry(ctx, fam, entry, b, hs):
    n = len(b) + sum(len(h) for h in hs)
    desc = {'family': fam, 'boundary': b, 'holes': hs, 'entry': entry}
    ctx.count('tri.%s.%s' % (entry, fam), key=(len(b), len(hs)), sample={'family': fam, 'n': len(b), 'holes': len(hs), 'entry': entry},
              nontrivial=fam != 'convex' or bool(hs))
    kind = 'tri.%s:%s%s' % (entry, 'holes' if hs else 'plain', ':hashed' if n > 80 else '')
    try:
        if entry == 'earcut':
            data = [c for p in b for c in p]
            hidx = []
            for h in hs:
                hidx.append(len(data) // 2)
                data += [c for p in h for c in p]
            tri = T.earcut(data, hidx or None, 2)
            allv = b + [p for h in hs for p in h]
            faces = [tuple(tri[i:i + 3]) for i in range(0, len(tri), 3)]
            check_tiling(ctx, kind, allv, faces, b, hs, desc, fam)
        elif entry == 'mesh2d':
            m = Mesh2D.from_polygon_triangulated(Polygon2D([P2(p) for p in b]), [Polygon2D([P2(p) for p in h]) for h in hs] or None)
            check_tiling(ctx, kind, [(v.x, v.y) for v in m.vertices], [tuple(f) for f in m.faces], b, hs, desc, fam)
        else:
            face = Face3D([P3((p[0], p[1], 0.0)) for p in b], holes=[[P3((p[0], p[1], 0.0)) for p in h] for h in hs] or None)
            m = face.triangulated_mesh3d
            vs = [(v.x, v.y) for v in m.vertices]
            if face.normal.z < 0:
                # the XY embedding may be seen from below: compare in the face's own 2D frame instead
                m2 = face.triangulated_mesh2d
                pl = face.plane
                b2 = [tuple(pl.xyz_to_xy(P3((p[0], p[1], 0.0)))) for p in b]
                h2 = [[tuple(pl.xyz_to_xy(P3((p[0], p[1], 0.0)))) for p in h] for h in hs]
                check_tiling(ctx, kind, [(v.x, v.y) for v in m2.vertices], [tuple(f) for f in m2.faces], b2, h2, desc, fam)
            else:
                check_tiling(ctx, kind, vs, [tuple(f) for f in m.faces], b, hs, desc, fam)
    except Exception as e:
        ctx.violation(kind + ':raises', '%r' % (e,), desc)


def fam_predicates(ctx, rng):
    """_intersects / _point_in_triangle / _area against exact predicates (integer points: float evaluation is exact)"""
    N = T._Node
    pts = [(rng.randint(-6, 6), rng.randint(-6, 6)) for _ in range(4)]
    a, b, c, d = [N(i, float(p[0]), float(p[1])) for i, p in enumerate(pts)]
    fa, fb_, fc, fd = [X.fpt(p) for p in pts]
    got = T._intersects(a, b, c, d)
    o1, o2, o3, o4 = X.orient(fa, fb_, fc), X.orient(fa, fb_, fd), X.orient(fc, fd, fa), X.orient(fc, fd, fb_)
    proper = (o1 * o2 < 0) and (o3 * o4 < 0)
    general = 0 not in (o1, o2, o3, o4)
    desc = {'p1': pts[0], 'q1': pts[1], 'p2': pts[2], 'q2': pts[3]}
    ctx.count('tri.pred.intersects', key=(proper, general), sample=desc, nontrivial=proper)
    if general and bool(got) != proper:
        ctx.violation('tri.pred:intersects', '_intersects=%r but the segments %s cross properly' % (got, 'do' if proper else 'do not'), desc)
    p = (rng.randint(-6, 6), rng.randint(-6, 6))
    inside = T._point_in_triangle(float(pts[0][0]), float(pts[0][1]), float(pts[1][0]), float(pts[1][1]), float(pts[2][0]), float(pts[2][1]), float(p[0]), float(p[1]))
    tri = [fa, fb_, fc]
    o = X.orient(fa, fb_, fc)
    if o > 0:       # the predicate is written for counter-clockwise triangles (how earcut calls it)
        fp = X.fpt(p)
        s = [X.orient(tri[i], tri[(i + 1) % 3], fp) for i in range(3)]
        exp = all(x >= 0 for x in s)
        ctx.count('tri.pred.point_in_triangle', key=exp, nontrivial=exp)
        if bool(inside) != exp:
            ctx.violation('tri.pred:point_in_triangle', '_point_in_triangle=%r expected %r' % (inside, exp), dict(desc, p=p))


FAMILIES = [(fam_grid_holes, 40), (fam_staggered_holes, 40), (fam_split_hashed, 16), (fam_collinear_candidates, 16), (fam_tall_hashed, 12), (fam_right_of_diagonal, 26), (fam_earcut, 220), (fam_predicates, 200)]


def explore(ctx):
    for f, n in FAMILIES:
        for _ in range(ctx.n(n, n * 10)):
            f(ctx, ctx.rng)


def replay(ctx, data):
    kind = data.get('kind', '')
    w = data.get('data') or data.get('witness') or {}
    if isinstance(w, dict) and 'boundary' in w and 'entry' in w:
        c2 = core.Ctx(ctx.pid, 'quick', 3)
        run_entry(c2, 'grid', w['entry'], [tuple(p) for p in w['boundary']], [[tuple(p) for p in h] for h in w['holes']])
        return any(v.kind == kind for v in c2.violations)
    c2 = core.Ctx(ctx.pid, 'quick', 3)
    for f, _ in FAMILIES:
        for _ in range(2500):
            f(c2, c2.rng)
            if any(v.kind == kind for v in c2.violations):
                return True
    return False


def correspond(ctx):
    """generated earcut predicates vs the implementation on integer points (float evaluation exact)"""
    rng = ctx.rng
    N = T._Node
    cases, meta = [], []
    for _ in range(ctx.n(300, 2500)):
        pts = [(rng.randint(-5, 5), rng.randint(-5, 5)) for _ in range(4)]
        nodes = [N(i, float(p[0]), float(p[1])) for i, p in enumerate(pts)]
        r = T._intersects(*nodes)
        cases.append('Bool.eqb (earcut_intersects %s %s %s %s) %s' % (v2(pts[0]), v2(pts[1]), v2(pts[2]), v2(pts[3]), core.coq_bool(bool(r))))
        meta.append(('_intersects', pts))
        a = T._area(nodes[0], nodes[1], nodes[2])
        cases.append('Qeq_bool (earcut_area %s %s %s) %s' % (v2(pts[0]), v2(pts[1]), v2(pts[2]), q(a)))
        meta.append(('_area', pts[:3]))
        args = [float(c) for p in pts for c in p]
        r = T._point_in_triangle(*args)
        cases.append('Bool.eqb (earcut_point_in_triangle %s) %s' % (' '.join(q(c) for c in args), core.coq_bool(bool(r))))
        meta.append(('_point_in_triangle', pts))
    # Polygon2D.is_convex (generated, break loops as flag folds) on dyadic polygons: convex ones, one re-entrant corner at every
    # position of the list, both orders
    for _ in range(ctx.n(40, 300)):
        base = G.convex_polygon(rng, n=rng.randint(3, 8), R=10.0, center=(0.0, 0.0))
        pts = list(base)
        if len(pts) > 3 and rng.random() < 0.6:
            i = rng.randrange(len(pts)); n_ = len(pts)
            cx = sum(p[0] for p in pts) / n_; cy = sum(p[1] for p in pts) / n_
            mx = (pts[i - 1][0] + pts[(i + 1) % n_][0]) / 2; my = (pts[i - 1][1] + pts[(i + 1) % n_][1]) / 2
            pts[i] = (G.dy(mx + 0.5 * (cx - mx)), G.dy(my + 0.5 * (cy - my)))
        k = rng.randrange(len(pts)); pts = pts[k:] + pts[:k]
        if rng.random() < 0.5: pts = pts[::-1]
        r = Polygon2D([P2(p_) for p_ in pts]).is_convex
        cases.append('Bool.eqb (Polygon2D_is_convex (mkPolygon2 %s)) %s' % (core.coq_list([v2(p_) for p_ in pts]), core.coq_bool(bool(r))))
        meta.append(('Polygon2D.is_convex', pts))
    res = core.run_cases('C05_corr', ['Base', 'G6_tri', 'G3_poly'], '', cases)
    ctx.corr_cases += len(cases)
    for ok, m in zip(res, meta):
        if ok is not True:
            ctx.corr_fail.append({'function': m[0] if '.' in m[0] else 'triangulation.' + m[0], 'input': repr(m[1:]),
                                  'result': 'model and implementation differ' if ok is False else 'model evaluation failed'})
