"""Shared machinery of the checks: context, exact-rational helpers, Coq runners,
violations / known findings / evidence.  Python 3.12 (/venv/bin/python)."""
import json, os, random, re, subprocess, sys, time, hashlib, shutil
from fractions import Fraction

VERIF = os.path.dirname(os.path.dirname(os.path.abspath(__file__)))
COQ = os.path.join(VERIF, 'coq')
REPO = os.environ.get('LBG_REPO', '/repo')
WORK = os.path.join(VERIF, 'work')
NPROC = int(os.environ.get('VERIF_JOBS', '8'))


def F(x):
    """exact rational value of a python float / int"""
    if isinstance(x, Fraction):
        return x
    if isinstance(x, float):
        return Fraction(*x.as_integer_ratio())
    return Fraction(x)


def q(x):
    """Coq Q literal of an exact rational (or float/int)"""
    x = F(x)
    if x.denominator == 1:
        return '(%d)' % x.numerator if x.numerator < 0 else '%d' % x.numerator
    return '(%d # %d)' % (x.numerator, x.denominator)


def z(i):
    return '(%d)%%Z' % i


def v2(p):
    return '(mkV2 %s %s)' % (q(p[0]), q(p[1]))


def v3(p):
    return '(mkV3 %s %s %s)' % (q(p[0]), q(p[1]), q(p[2]))


def coq_list(items):
    return '[' + '; '.join(items) + ']'


def coq_bool(b):
    return 'true' if b else 'false'


class Violation:
    def __init__(self, kind, detail, data):
        self.kind, self.detail, self.data = kind, detail, data


class Ctx:
    def __init__(self, pid, tier, seed):
        self.pid, self.tier, self.seed = pid, tier, seed
        self.rng = random.Random(seed * 1000003 + int(hashlib.sha1(pid.encode()).hexdigest()[:6], 16))
        self.t0 = time.time()
        self.evaluations = 0
        self.nontrivial = set()
        self.samples = []
        self.dist = {}
        self.violations = []
        self.corr_cases = 0
        self.corr_fail = []
        self.notes = []
        self.scale = 1
        self.thorough = tier == 'thorough'

    def n(self, quick, thorough=None):
        """case count for this tier"""
        base = quick if not self.thorough else (thorough if thorough is not None else quick * 10)
        return int(base * self.scale)

    def count(self, family, key=None, sample=None, nontrivial=True):
        self.evaluations += 1
        self.dist[family] = self.dist.get(family, 0) + 1
        if nontrivial and key is not None:
            self.nontrivial.add((family, key))
        if sample is not None and sum(1 for s in self.samples if s.get('family') == family) < 2 and len(self.samples) < 40:
            self.samples.append({'family': family, 'case': sample})

    def violation(self, kind, detail, data):
        self.violations.append(Violation(kind, detail, data))

    def note(self, s):
        self.notes.append(s)


# ------------------------------------------------------------------ Coq side
class Timeout(Exception):
    pass


class time_limit(object):
    """with time_limit(5): ...   raises Timeout in the main thread if the block runs longer (SIGALRM; pure-Python loops)"""
    def __init__(self, seconds):
        self.seconds = seconds

    def _fire(self, *_):
        raise Timeout('no result after %s s' % self.seconds)

    def __enter__(self):
        import signal
        self.old = signal.signal(signal.SIGALRM, self._fire)
        signal.setitimer(signal.ITIMER_REAL, self.seconds)

    def __exit__(self, *exc):
        import signal
        signal.setitimer(signal.ITIMER_REAL, 0)
        signal.signal(signal.SIGALRM, self.old)
        return False


def sh(cmd, timeout, cwd=None, env=None):
    try:
        p = subprocess.run(cmd, shell=isinstance(cmd, str), cwd=cwd, env=env, stdout=subprocess.PIPE,
                           stderr=subprocess.STDOUT, timeout=timeout, text=True)
        return p.returncode, p.stdout
    except subprocess.TimeoutExpired as e:
        out = e.stdout.decode() if isinstance(e.stdout, bytes) else (e.stdout or '')
        return 124, out + '\nTIMEOUT after %ss' % timeout


def regen():
    sys.path.insert(0, os.path.join(VERIF, 'tools'))
    import importlib, fcntl
    import regen as rg
    importlib.reload(rg)
    with open(os.path.join(COQ, '.build.lock'), 'w') as lk:
        fcntl.flock(lk, fcntl.LOCK_EX)
        changed, failed = rg.regen(REPO, os.path.join(COQ, 'gen'))
    return changed, failed


def ensure_makefile():
    mk = os.path.join(COQ, 'Makefile')
    cp = os.path.join(COQ, '_CoqProject')
    if not os.path.exists(mk) or os.path.getmtime(mk) < os.path.getmtime(cp):
        sh('coq_makefile -f _CoqProject -o Makefile', 120, cwd=COQ)


def make(targets, timeout=1800, jobs=None):
    # one build at a time in coq/ (checks of different properties may run concurrently)
    ensure_makefile()
    cmd = 'flock %s make -k -j%d %s' % (os.path.join(COQ, '.build.lock'), jobs or NPROC, ' '.join(targets))
    return sh(cmd, timeout, cwd=COQ)


def changed_defs():
    """names of generated definitions whose text differs from coq/gen_baseline"""
    out = []
    base = os.path.join(VERIF, 'baseline', 'gen')
    gen = os.path.join(COQ, 'gen')
    if not os.path.isdir(base):
        return out
    def defs(p):
        d = {}
        if not os.path.exists(p):
            return d
        txt = open(p).read()
        for m in re.finditer(r'(?:Definition|Fixpoint) (\S+)(.*?)\.\n\n', txt, re.S):
            d[m.group(1)] = m.group(2)
        for m in re.finditer(r'\(\* UNTRANSLATABLE (\S+?):', txt):
            d[m.group(1)] = 'UNTRANSLATABLE'
        return d
    for f in sorted(os.listdir(base)):
        if f.endswith('.v'):
            a, b = defs(os.path.join(base, f)), defs(os.path.join(gen, f))
            for k in sorted(set(a) | set(b)):
                if a.get(k) != b.get(k):
                    out.append(k)
    return out


def parse_props(pid):
    """theorem names in props/<pid>.v"""
    p = os.path.join(COQ, 'props', pid + '.v')
    txt = open(p).read()
    return re.findall(r'^(?:Theorem|Example) (\S+)', txt, re.M)


FORBIDDEN = re.compile(r'\b(Admitted|admit|Axiom|Axioms|Parameter|Parameters|Conjecture|Conjectures|bypass_check)\b|'
                       r'Admit\s+Obligations|Unset\s+Guard\s+Checking|Unset\s+Positivity\s+Checking|Unset\s+Universe\s+Checking|'
                       r'type-in-type|impredicative-set')


def strip_coq_comments(txt):
    out, depth, i = [], 0, 0
    while i < len(txt):
        if txt.startswith('(*', i):
            depth += 1; i += 2
        elif txt.startswith('*)', i) and depth:
            depth -= 1; i += 2
        else:
            if depth == 0:
                out.append(txt[i])
            i += 1
    return ''.join(out)


def forbidden_gate():
    """no Admitted / admit / Axiom / Parameter / Conjecture / switched-off kernel checks anywhere in the development
    (comments are ignored; Variable / Hypothesis are legal inside sections and every section is closed: checked too)"""
    hits = []
    for sub in ('lib', 'model', 'proofs', 'props', 'gen'):
        d = os.path.join(COQ, sub)
        for fn in sorted(os.listdir(d)) if os.path.isdir(d) else []:
            if not fn.endswith('.v'):
                continue
            txt = strip_coq_comments(open(os.path.join(d, fn)).read())
            for m in FORBIDDEN.finditer(txt):
                hits.append('%s/%s: %s' % (sub, fn, m.group(0)))
            # libraries that bring the real-number / classical / extensionality axioms into the loaded context (Lqa is the Q version
            # of lra / nra and loads none): the trusted base states that none of them is loaded, so importing one is refused
            for m in re.finditer(r'Require\s+(?:Import|Export)?[^.]*\b(Lra|Psatz|Reals|Rbase|Fourier|Classical\w*|FunctionalExtensionality|ProofIrrelevance|Epsilon|ChoiceFacts)\b', txt):
                hits.append('%s/%s: imports %s (loads axioms)' % (sub, fn, m.group(1)))
            # Variable / Hypothesis outside a section
            depth = 0
            for line in txt.splitlines():
                t = line.strip()
                if re.match(r'Section\s+\w+\s*\.', t): depth += 1
                elif re.match(r'End\s+\w+\s*\.', t) and depth: depth -= 1
                elif re.match(r'(Variable|Variables|Hypothesis|Hypotheses|Context)\b', t) and depth == 0:
                    hits.append('%s/%s: %s outside a section' % (sub, fn, t.split()[0]))
    for fn in ('_CoqProject',):
        p = os.path.join(COQ, fn)
        if os.path.exists(p) and re.search(r'type-in-type|impredicative-set|-vos\b', open(p).read()):
            hits.append('_CoqProject: forbidden flag')
    return hits


def prove(pid, timeout=1500):
    """build props/<pid>.vo; returns dict(ok, obligations, discharged, failed, assumptions, log)"""
    names = parse_props(pid)
    thms = [n for n in names]
    gate = forbidden_gate()
    if gate:
        return dict(ok=False, obligations=len(thms), discharged=0, failed=['forbidden construct: ' + g for g in gate[:10]],
                    assumptions={}, log='', rc=1, errors=['forbidden construct: ' + g for g in gate[:10]])
    rc, log = make(['props/%s.vo' % pid], timeout)
    res = dict(ok=False, obligations=len(thms), discharged=0, failed=[], assumptions={}, log=log[-6000:], rc=rc)
    vo = os.path.join(COQ, 'props', pid + '.vo')
    src = os.path.join(COQ, 'props', pid + '.v')
    # always re-run coqc on the props file to capture Print Assumptions (needs deps built)
    rc2, out = sh('flock %s coqc -Q . LBG props/%s.v' % (os.path.join(COQ, '.build.lock'), pid), 900, cwd=COQ)
    res['props_out'] = out[-6000:]
    if rc2 == 0 and rc == 0:
        res['ok'] = True
        res['discharged'] = len(thms)
        # parse Print Assumptions blocks
        cur = None
        blocks = re.split(r'\n(?=Closed under the global context|Axioms:)', '\n' + out)
        res['assumptions_raw'] = out.strip()[-4000:]
        ax = set()
        for m in re.finditer(r'^(\S+)\s*:', out, re.M):
            nm = m.group(1)
            if nm not in ('Axioms', 'Warning'):
                ax.add(nm)
        res['axioms'] = sorted(ax)
        res['closed'] = out.count('Closed under the global context')
    else:
        # which obligations are still fine?  find the failing file
        failing = re.findall(r'File "\./([^"]+)", line (\d+)', log + out)
        res['failed'] = sorted(set('%s:%s' % f for f in failing)) or ['props/%s.v' % pid]
        missing = re.findall(r'UNTRANSLATABLE[^\n]*', log)
        res['failed'] += missing[:5]
        errs = re.findall(r'(File "\./[^\n]+\n(?:[^\n]*\n){0,6}?Error:[^\n]*(?:\n[^\n]+){0,3})', log + out)
        res['errors'] = errs[:6]
    return res


def run_cases(stem, imports, preamble, cases, chunk=400, timeout=900, header=None):
    """evaluate boolean Gallina expressions with vm_compute inside Coq.
    cases: list of Coq terms of type bool.  returns list of bools (None = Coq error)."""
    work = os.path.join(WORK, '%s_%d' % (stem, os.getpid()))
    os.makedirs(work, exist_ok=True)
    files = []
    for ci in range(0, len(cases), chunk):
        part = cases[ci:ci + chunk]
        name = '%s_%d' % (stem, ci // chunk)
        path = os.path.join(work, name + '.v')
        with open(path, 'w') as f:
            f.write((header or 'From LBG Require Import %s.\nOpen Scope Q_scope.\n' % ' '.join(imports)) + preamble + '\n')
            f.write('Definition cases : list bool := [\n' + ';\n'.join(part) + '\n].\n')
            f.write('Eval vm_compute in cases.\n')
        files.append((name, path, len(part)))
    results = []
    procs = []
    for name, path, n in files:
        procs.append((n, subprocess.Popen('ulimit -s unlimited 2>/dev/null; timeout %d coqc -Q %s LBG -Q %s LBGW %s' % (
            timeout, COQ, work, path), shell=True, stdout=subprocess.PIPE, stderr=subprocess.STDOUT, text=True, cwd=work)))
        if len(procs) >= NPROC:
            results += _collect(procs); procs = []
    results += _collect(procs)
    if not os.environ.get('VERIF_KEEP_WORK'):
        shutil.rmtree(work, ignore_errors=True)
    return results


def _collect(procs):
    out = []
    for n, p in procs:
        txt, _ = p.communicate()
        if p.returncode != 0:
            out += [None] * n
            sys.stderr.write(txt[-2000:] + '\n')
            continue
        toks = re.findall(r'\b(true|false)\b', txt.split('=', 1)[1] if '=' in txt else '')
        vals = [t == 'true' for t in toks[:n]]
        if len(vals) != n:
            vals = [None] * n
        out += vals
    return out


# ------------------------------------------------------- findings / evidence
def load_known():
    p = os.path.join(VERIF, 'known_findings.json')
    if not os.path.exists(p):
        return []
    return json.load(open(p)).get('findings', [])


def write_replay(pid, seed, payload):
    d = os.path.join(VERIF, 'replays')
    os.makedirs(d, exist_ok=True)
    h = hashlib.sha1(json.dumps(payload, sort_keys=True, default=str).encode()).hexdigest()[:8]
    p = os.path.join(d, '%s-%s-%s.json' % (pid, seed, h))
    json.dump(payload, open(p, 'w'), indent=1, default=str)
    return p


def write_evidence(pid, ev):
    d = os.path.join(VERIF, 'evidence')
    os.makedirs(d, exist_ok=True)
    json.dump(ev, open(os.path.join(d, pid + '.json'), 'w'), indent=1, default=str)
