#!/venv/bin/python
"""seeded.py -- seeded-defect bookkeeping.

  seeded.py add <prop> <name> <patch.diff> <demo.py> [--note TEXT]   store a confirmed seeded change under seeded/<prop>/<name>/
  seeded.py confirm <prop> <name>      apply the patch to a scratch worktree under /tmp, run the test suite and the demo there
  seeded.py run [<prop> [<name>]] [--tier quick] [--seeds 0,1,2]   apply each patch to /repo, run ./check <prop> per seed, undo, record
  seeded.py table                       print seeded/RESULTS.md from the recorded outcomes

/repo is always restored with `git -C /repo checkout -- .` (also on errors).  Nothing here is registered in MANIFEST.json."""
import json, os, subprocess, sys, shutil, time

ROOT = os.path.dirname(os.path.dirname(os.path.abspath(__file__)))
SEEDED = os.path.join(ROOT, 'seeded')
REPO = '/repo'


def sh(cmd, cwd=None, timeout=3600, env=None):
    p = subprocess.run(cmd, shell=True, cwd=cwd, stdout=subprocess.PIPE, stderr=subprocess.STDOUT, text=True, timeout=timeout, env=env)
    return p.returncode, p.stdout


def entries(prop=None, name=None):
    out = []
    for p in sorted(os.listdir(SEEDED)) if os.path.isdir(SEEDED) else []:
        d = os.path.join(SEEDED, p)
        if not os.path.isdir(d) or (prop and p != prop):
            continue
        for n in sorted(os.listdir(d)):
            if os.path.isfile(os.path.join(d, n, 'patch.diff')) and (not name or n == name):
                out.append((p, n, os.path.join(d, n)))
    return out


def add(prop, name, patch, demo, note=''):
    d = os.path.join(SEEDED, prop, name)
    os.makedirs(d, exist_ok=True)
    shutil.copy(patch, os.path.join(d, 'patch.diff'))
    shutil.copy(demo, os.path.join(d, 'demo.py'))
    meta = {'property': prop, 'name': name, 'note': note, 'origin': 'sub-agent given only the property text and a scratch worktree',
            'files': sorted({l[6:].strip() for l in open(patch) if l.startswith('+++ b/')})}
    json.dump(meta, open(os.path.join(d, 'meta.json'), 'w'), indent=1)
    print('stored', d)


def confirm(prop, name):
    (_, _, d), = entries(prop, name)
    wt = '/tmp/seeded_confirm_%d' % os.getpid()
    sh('git -C %s worktree add -q --detach %s HEAD' % (REPO, wt))
    try:
        env = dict(os.environ, PYTHONPATH=wt, PYTHONHASHSEED='0')
        rc0, out0 = sh('/venv/bin/python %s' % os.path.join(d, 'demo.py'), cwd=wt, env=env, timeout=600)
        rc, out = sh('git apply %s' % os.path.join(d, 'patch.diff'), cwd=wt)
        if rc != 0:
            print('patch does not apply:', out); return False
        rct, outt = sh('/venv/bin/python -m pytest -q -p no:cacheprovider --timeout=900 -x tests 2>&1 | tail -1', cwd=wt, timeout=1800)
        rc1, out1 = sh('/venv/bin/python %s' % os.path.join(d, 'demo.py'), cwd=wt, env=env, timeout=600)
        ok = ('HOLDS' in out0 and 'VIOLATED' not in out0) and 'VIOLATED' in out1 and ' passed' in outt and 'failed' not in outt
        meta = json.load(open(os.path.join(d, 'meta.json')))
        meta.update({'confirmed': ok, 'demo_pristine': out0.strip()[-300:], 'demo_mutated': out1.strip()[-300:], 'tests_with_patch': outt.strip()})
        json.dump(meta, open(os.path.join(d, 'meta.json'), 'w'), indent=1)
        open(os.path.join(d, 'demonstration.txt'), 'w').write(
            '== pristine tree ==\n%s\n== with patch.diff applied ==\n%s\n== test suite with patch.diff applied ==\n%s\n' % (out0, out1, outt))
        print(prop, name, 'confirmed' if ok else 'NOT CONFIRMED', '|', out0.strip()[-80:], '|', out1.strip()[-80:], '|', outt.strip())
        return ok
    finally:
        sh('git -C %s worktree remove --force %s' % (REPO, wt))


def run(prop=None, name=None, tier='quick', props_to_check=None, seeds=(0,)):
    rc, st = sh('git -C %s status --porcelain' % REPO)
    if st.strip():
        print('refusing: /repo has local changes:\n' + st); sys.exit(2)
    for p, n, d in entries(prop, name):
        t0 = time.time()
        rc, out = sh('git -C %s apply %s' % (REPO, os.path.join(d, 'patch.diff')))
        if rc != 0:
            print(p, n, 'patch does not apply', out); continue
        try:
            res = {}
            per_seed = {}
            for sd in seeds:
                for cp in (props_to_check or [p]):
                    rc, out = sh('./check %s --tier %s' % (cp, tier), cwd=ROOT, timeout=7200, env=dict(os.environ, VERIF_SEED=str(sd)))
                    lines = [l for l in out.splitlines() if l.startswith('VIOLATION') or l.startswith('    ')]
                    per_seed[str(sd)] = rc != 0
                    if cp not in res or (rc != 0 and res[cp]['exit'] == 0):
                        res[cp] = {'exit': rc, 'lines': lines[:8], 'tail': out.splitlines()[-1] if out.splitlines() else ''}
        finally:
            sh('git -C %s checkout -- .' % REPO)
        meta = json.load(open(os.path.join(d, 'meta.json')))
        meta.setdefault('outcomes', {})[tier] = res
        meta['detected_' + tier] = all(per_seed.values())
        meta['detected_by_seed_' + tier] = per_seed
        json.dump(meta, open(os.path.join(d, 'meta.json'), 'w'), indent=1)
        print('%s %-6s %s %s  (%.0fs)  %s' % (p, n, 'DETECTED' if meta['detected_' + tier] else 'MISSED on some seed', per_seed, time.time() - t0,
                                           '; '.join(l.strip()[:110] for r in res.values() for l in r['lines'][1:2])))


def table():
    rows = ['| property | seeded change | files | detected (quick) | by |', '|---|---|---|---|---|']
    for p, n, d in entries():
        m = json.load(open(os.path.join(d, 'meta.json')))
        oc = (m.get('outcomes') or {}).get('quick', {})
        by = '; '.join(l.strip().split(':', 1)[0] if not l.startswith('VIOLATION') else '' for r in oc.values() for l in r['lines'][1:2])
        nf = any('no-failing-input-found' in l for r in oc.values() for l in r['lines'])
        rows.append('| %s | %s | %s | %s | %s |' % (p, n, ', '.join(os.path.basename(f) for f in m.get('files', [])),
                                                   'yes' if m.get('detected_quick') else ('NO' if 'detected_quick' in m else '-'),
                                                   (by + (' (proof/correspondence, no failing input)' if nf else ''))[:120]))
    txt = '\n'.join(rows) + '\n'
    open(os.path.join(SEEDED, 'RESULTS.md'), 'w').write(txt)
    print(txt)


if __name__ == '__main__':
    a = sys.argv[1:]
    if not a:
        print(__doc__); sys.exit(0)
    if a[0] == 'add':
        note = a[a.index('--note') + 1] if '--note' in a else ''
        add(a[1], a[2], a[3], a[4], note)
    elif a[0] == 'confirm':
        sys.exit(0 if confirm(a[1], a[2]) else 1)
    elif a[0] == 'run':
        tier = a[a.index('--tier') + 1] if '--tier' in a else 'quick'
        pos = [x for i, x in enumerate(a[1:]) if not x.startswith('--') and (i == 0 or a[i] != '--tier')]
        seeds = tuple(int(x) for x in a[a.index('--seeds') + 1].split(',')) if '--seeds' in a else (0,)
        pos = [x for x in pos if x != (a[a.index('--seeds') + 1] if '--seeds' in a else None)]
        run(pos[0] if pos else None, pos[1] if len(pos) > 1 else None, tier, seeds=seeds)
    elif a[0] == 'table':
        table()
