"""XFER emitter: which memo slot every copying / transforming operation carries over to the new
object, and how (Copy, negated, multiplied by factor**k ...).  Fail-closed: an expression that is not
recognised becomes `Other "<text>"`, which is compatible with no law, so the C03 theorem fails."""
import ast, os

CLASSES = [
    ('Polygon2D', 'geometry2d/polygon.py'), ('Polyline2D', 'geometry2d/polyline.py'), ('Polyline3D', 'geometry3d/polyline.py'),
    ('Mesh2D', 'geometry2d/mesh.py'), ('Mesh3D', 'geometry3d/mesh.py'), ('Face3D', 'geometry3d/face.py'),
    ('Polyface3D', 'geometry3d/polyface.py'),
]
BASES = {'Mesh2D': [('MeshBase', '_mesh.py')], 'Mesh3D': [('MeshBase', '_mesh.py')]}
OPS = ['__copy__', 'reverse', 'flip', 'move', 'rotate', 'rotate_xy', 'reflect', 'scale', 'remove_colinear_vertices',
       'remove_duplicate_vertices', 'triangulated']
# slots that are part of the VALUE of the object (not memo): assignments to them are not transfers
DEFINING_COMMON = {'_vertices', '_boundary', '_holes', '_plane', '_interpolated', '_colors', '_is_color_by_face',
                   '_face_indices', '_is_solid'}
DEFINING = {c: set(DEFINING_COMMON) for c, _ in CLASSES}
DEFINING['Mesh2D'].add('_faces'); DEFINING['Mesh3D'].add('_faces')      # for meshes _faces is the connectivity


def load(root):
    out = {}
    for cls, rel in CLASSES + [b for bs in BASES.values() for b in bs]:
        tree = ast.parse(open(os.path.join(root, 'ladybug_geometry', rel)).read())
        for n in tree.body:
            if isinstance(n, ast.ClassDef) and n.name == cls:
                out[cls] = {f.name: f for f in n.body if isinstance(f, ast.FunctionDef)}
    return out


def find_method(defs, cls, name):
    if name in defs.get(cls, {}):
        return defs[cls][name]
    for b, _ in BASES.get(cls, []):
        if name in defs.get(b, {}):
            return defs[b][name]
    return None


def classify(expr, slot, factor_names, params=()):
    """action of `new._slot = expr`"""
    u = ast.unparse(expr)
    if isinstance(expr, ast.Constant) and expr.value is None:
        return 'Reset'
    if isinstance(expr, ast.Constant) and isinstance(expr.value, bool):
        return 'SetBool %s' % ('true' if expr.value else 'false')
    if isinstance(expr, ast.Attribute) and isinstance(expr.value, ast.Name) and expr.value.id == 'self':
        return 'Copy' if expr.attr == slot else 'CopyFrom "%s"' % expr.attr
    if isinstance(expr, ast.UnaryOp) and isinstance(expr.op, ast.Not) and u == 'not self.%s' % slot:
        return 'NegBool'
    if isinstance(expr, ast.UnaryOp) and isinstance(expr.op, ast.USub) and u == '-self.%s' % slot:
        return 'Neg'
    for f in factor_names:
        if u == 'self.%s * %s' % (slot, f):
            return 'Mul 1'
        for k in (2, 3):
            if u == 'self.%s * %s ** %d' % (slot, f, k):
                return 'Mul %d' % k
        if u == 'tuple((a * %s for a in self.%s))' % (f, slot):
            return 'MulEach 1'
        if u == 'tuple((a * %s ** 2 for a in self.%s))' % (f, slot):
            return 'MulEach 2'
        if u == 'self.%s * %s ** 3 if self.%s is not None else None' % (slot, f, slot):
            return 'Mul 3'
    # the same operation mapped over a cached tuple of sub-objects (Polyface3D._faces)
    if isinstance(expr, ast.Call) and isinstance(expr.func, ast.Name) and expr.func.id == 'tuple' and expr.args \
            and isinstance(expr.args[0], ast.GeneratorExp):
        g = expr.args[0]
        if len(g.generators) == 1 and ast.unparse(g.generators[0].iter) == 'self.%s' % slot and isinstance(g.elt, ast.Call) \
                and isinstance(g.elt.func, ast.Attribute) and isinstance(g.elt.func.value, ast.Name) \
                and g.elt.func.value.id == g.generators[0].target.id:
            # ... called with exactly the parameters of the enclosing operation, in order (a dropped or swapped argument
            # transforms the cached sub-objects differently from the object itself)
            if [ast.unparse(a) for a in g.elt.args] == list(params) and not g.elt.keywords:
                return 'Lifted "%s"' % g.elt.func.attr
    return 'Other "%s"' % u.replace('"', "'").replace('\n', ' ')[:120]


def analyze(defs, cls, fn, newvars=None, factor_names=None, depth=0):
    """slot -> action for the object returned by method fn"""
    res = {}
    newvars = set(newvars or [])
    factor_names = list(factor_names or [a.arg for a in fn.args.args if a.arg in ('factor',)])
    def walk(stmts):
        for st in stmts:
            if isinstance(st, ast.Assign) and len(st.targets) == 1:
                t = st.targets[0]
                if isinstance(t, ast.Name) and isinstance(st.value, ast.Call):
                    f = st.value.func
                    if isinstance(f, ast.Name) and (f.id == cls or f.id == 'cls'):
                        newvars.add(t.id)
                    elif isinstance(f, ast.Attribute) and isinstance(f.value, ast.Name) and f.value.id == 'self' and depth < 3:
                        callee = find_method(defs, cls, f.attr)
                        if callee is not None and returns_new(defs, cls, callee):
                            newvars.add(t.id)
                            # map the callee's factor parameter to the actual argument
                            cf = []
                            params = [a.arg for a in callee.args.args][1:]
                            for p, a in zip(params, st.value.args):
                                if isinstance(a, ast.Name) and a.id in factor_names:
                                    cf.append(p)
                            sub = analyze(defs, cls, callee, factor_names=cf or factor_names, depth=depth + 1)
                            res.update(sub)
                elif isinstance(t, ast.Attribute) and isinstance(t.value, ast.Name) and t.value.id in newvars:
                    if t.attr not in DEFINING.get(cls, DEFINING_COMMON):
                        res[t.attr] = classify(st.value, t.attr, factor_names, [a.arg for a in fn.args.args][1:])
            elif isinstance(st, ast.Expr) and isinstance(st.value, ast.Call) and isinstance(st.value.func, ast.Attribute) \
                    and isinstance(st.value.func.value, ast.Name) and st.value.func.value.id == 'self' and depth < 3:
                callee = find_method(defs, cls, st.value.func.attr)
                args = st.value.args
                if callee is not None and args and isinstance(args[0], ast.Name) and args[0].id in newvars:
                    params = [a.arg for a in callee.args.args][1:]
                    cf = [p for p, a in zip(params, args) if isinstance(a, ast.Name) and a.id in factor_names]
                    sub = analyze(defs, cls, callee, newvars=[params[0]], factor_names=cf, depth=depth + 1)
                    res.update(sub)
            elif isinstance(st, ast.If):
                walk(st.body); walk(st.orelse)
            elif isinstance(st, ast.Return) and isinstance(st.value, ast.Call) and depth < 3:
                f = st.value.func
                if isinstance(f, ast.Attribute) and isinstance(f.value, ast.Name) and f.value.id == 'self':
                    callee = find_method(defs, cls, f.attr)
                    if callee is not None and returns_new(defs, cls, callee):
                        params = [a.arg for a in callee.args.args][1:]
                        cf = [p for p, a in zip(params, st.value.args) if isinstance(a, ast.Name) and a.id in factor_names]
                        res.update(analyze(defs, cls, callee, factor_names=cf or factor_names, depth=depth + 1))
    walk(fn.body)
    return res


def returns_new(defs, cls, fn):
    for n in ast.walk(fn):
        if isinstance(n, ast.Assign) and isinstance(n.value, ast.Call) and isinstance(n.value.func, ast.Name) \
                and n.value.func.id in (cls, 'cls'):
            return True
    return False


def gen_xfer(root):
    defs = load(root)
    failed = {}
    lines = ['(* GENERATED by tools/xfer.py from %s -- do not edit.  Memo-slot transfer tables. *)' % root,
             'From Coq Require Import String List ZArith.', 'Import ListNotations.', 'Open Scope string_scope.', '',
             'Inductive action := Copy | CopyFrom (s : string) | NegBool | Neg | Mul (k : nat) | MulEach (k : nat) | Reset',
             '  | SetBool (b : bool) | Lifted (op : string) | Other (txt : string).', '',
             'Definition xfer_table : list (string * string * list (string * action)) := [']
    rows = []
    for cls, _ in CLASSES:
        for op in OPS:
            fn = find_method(defs, cls, op)
            if fn is None:
                continue
            try:
                tab = analyze(defs, cls, fn)
            except Exception as e:
                failed['xfer %s.%s' % (cls, op)] = repr(e)
                rows.append('  ("%s", "%s", [("?", Other "analysis failed")])' % (cls, op))
                continue
            ents = '; '.join('("%s", %s)' % (s, a) for s, a in sorted(tab.items()))
            rows.append('  ("%s", "%s", [%s])' % (cls, op.strip('_') if op == '__copy__' else op, ents))
    lines.append(';\n'.join(rows))
    lines.append('].')
    return '\n'.join(lines) + '\n', failed


if __name__ == '__main__':
    import sys
    t, f = gen_xfer(sys.argv[1] if len(sys.argv) > 1 else '/repo')
    print(t)
    print(f)
