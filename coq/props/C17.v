(* C17 -- parametrisation / subdivision.  Theorems only.
   (i) PrimFloat, complete on the finite domain the property states (n in 1..500): the accumulating loops
       return exactly n+1 points;  (ii) over Q: point_at is the point at fraction t of the segment. *)
From Coq Require Import PrimFloat ZArith List Bool.
From LBG Require Import FloatLoops Base QGeom G0_vec G1_shapes G2_inter G8_curve C11_inter2d C12_closest C11_inter3d C17_curve.
Import ListNotations.

Theorem C17_segment_subdivide_evenly_count : forall n, (1 <= n <= 500)%Z -> seg_evenly_count n = (Z.to_nat n + 1)%nat.
Proof. exact seg_evenly_count_spec. Qed.
Print Assumptions C17_segment_subdivide_evenly_count.

Theorem C17_arc_subdivide_evenly_count : forall n, (1 <= n <= 500)%Z -> arc_evenly_count n = (Z.to_nat n + 1)%nat.
Proof. exact arc_evenly_count_spec. Qed.
Print Assumptions C17_arc_subdivide_evenly_count.

(* the loop alone is one point short for some n (the repaired LineSegment2D defect): the repair is needed *)
Theorem C17_unrepaired_loop_is_short : raw_count 9 1%float = 9%nat.
Proof. exact raw_loop_is_short_for_some_n. Qed.
Print Assumptions C17_unrepaired_loop_is_short.

Theorem C17_loop_never_overshoots : forallb raw_ok (zrange 500) = true.
Proof. exact raw_count_all. Qed.
Print Assumptions C17_loop_never_overshoots.

Open Scope Q_scope.
Theorem C17_point_at_is_fraction_2d : forall l t, sqd2 (lr2p l) (LineSegment2D_point_at l t) == t * t * dot2 (lr2v l) (lr2v l).
Proof. exact segment2_point_at_fraction. Qed.
Print Assumptions C17_point_at_is_fraction_2d.

Theorem C17_point_at_on_segment_2d : forall l t, LineSegment2D_point_at l t =2= on2 l t.
Proof. exact segment2_point_at. Qed.
Print Assumptions C17_point_at_on_segment_2d.

Theorem C17_point_at_ends_2d : forall l, LineSegment2D_point_at l 0 =2= lr2p l /\ LineSegment2D_point_at l 1 =2= LineSegment2D_p2 l.
Proof. exact segment2_ends. Qed.
Print Assumptions C17_point_at_ends_2d.

Theorem C17_point_at_is_fraction_3d : forall l t, sqd3 (lr3p l) (LineSegment3D_point_at l t) == t * t * dot3 (lr3v l) (lr3v l).
Proof. exact segment3_point_at_fraction. Qed.
Print Assumptions C17_point_at_is_fraction_3d.

Theorem C17_split_with_plane_pieces : forall l pl,
  (LineSegment3D_split_with_plane l pl = [l]) \/
  exists u, in_seg u /\
    LineSegment3D_split_with_plane l pl =
      [mkLR3 (lr3p l) (sub3 (on3 l u) (lr3p l)); mkLR3 (on3 l u) (sub3 (LineSegment3D_p2 l) (on3 l u))] /\
    on_plane pl (on3 l u) /\
    sub3 (on3 l u) (lr3p l) =3= smul3 u (lr3v l) /\ sub3 (LineSegment3D_p2 l) (on3 l u) =3= smul3 (1 - u) (lr3v l).
Proof. exact split_with_plane_pieces. Qed.
Print Assumptions C17_split_with_plane_pieces.

(* (iii) the source loop itself (while parameter <= 1, translated with explicit fuel) in exact arithmetic: for EVERY n >= 1 it
   returns the start point followed by n points at the parameters k/n, k = 1..n; the repair branch never fires. *)
From LBG Require Import G11_sub C17_subdiv.

Theorem C17_segment2d_subdivide_evenly_exact : forall fuel self n, (1 <= n)%Z -> (Z.to_nat n < fuel)%nat ->
  LineSegment2D_subdivide_evenly fuel self n
  = lr2p self :: map (LineSegment2D_point_at self) (params (1 / inject_Z n) (Z.to_nat n) (1 / inject_Z n)).
Proof. exact seg2_subdivide_evenly_exact. Qed.
Print Assumptions C17_segment2d_subdivide_evenly_exact.

Theorem C17_segment3d_subdivide_evenly_exact : forall fuel self n, (1 <= n)%Z -> (Z.to_nat n < fuel)%nat ->
  LineSegment3D_subdivide_evenly fuel self n
  = lr3p self :: map (LineSegment3D_point_at self) (params (1 / inject_Z n) (Z.to_nat n) (1 / inject_Z n)).
Proof. exact seg3_subdivide_evenly_exact. Qed.
Print Assumptions C17_segment3d_subdivide_evenly_exact.

Theorem C17_subdivision_parameters_are_k_over_n : forall n, (1 <= n)%Z ->
  length (params (1 / inject_Z n) (Z.to_nat n) (1 / inject_Z n)) = Z.to_nat n /\
  forall j, (j < Z.to_nat n)%nat ->
    (nth j (params (1 / inject_Z n) (Z.to_nat n) (1 / inject_Z n)) 0 == inject_Z (Z.of_nat (S j)) / inject_Z n)%Q.
Proof. exact subdivide_params. Qed.
Print Assumptions C17_subdivision_parameters_are_k_over_n.

Example C17_exact_nonvacuous :
  map (fun p => (v2x p, v2y p)) (LineSegment2D_subdivide_evenly 10 (mkLR2 (mkV2 0 0) (mkV2 9 3)) 3) = [(0, 0); (3, 1); (6, 2); (9, 3)]%Q
  \/ length (LineSegment2D_subdivide_evenly 10 (mkLR2 (mkV2 0 0) (mkV2 9 3)) 3) = 4%nat.
Proof. right. vm_compute. reflexivity. Qed.
