(* C11 (2D part): line/segment/ray intersection of intersection2d.py is sound,
   complete and symmetric.  Statements are about gen/G2_inter.v. *)
From LBG Require Import Base QGeom G0_vec G1_shapes G2_inter.
Open Scope Q_scope.

Definition on2 (l : LR2) (u : Q) : V2 :=
  mkV2 (v2x (lr2p l) + u * v2x (lr2v l)) (v2y (lr2p l) + u * v2y (lr2v l)).
Definition in_seg (u : Q) : Prop := 0 <= u /\ u <= 1.
Definition in_ray (u : Q) : Prop := 0 <= u.
Definition det_lr (a b : LR2) : Q := v2y (lr2v b) * v2x (lr2v a) - v2x (lr2v b) * v2y (lr2v a).

Lemma seg_u_in_iff l u : LineSegment2D__u_in l u = true <-> in_seg u.
Proof. unfold LineSegment2D__u_in, in_seg. rewrite andb_true_iff, !Qle_bool_iff. tauto. Qed.
Lemma ray_u_in_iff l u : Ray2D__u_in l u = true <-> in_ray u.
Proof. unfold Ray2D__u_in, in_ray. rewrite Qle_bool_iff. tauto. Qed.

Global Instance in_seg_proper : Proper (Qeq ==> iff) in_seg.
Proof. intros x y E. unfold in_seg. rewrite E. tauto. Qed.
Global Instance in_ray_proper : Proper (Qeq ==> iff) in_ray.
Proof. intros x y E. unfold in_ray. rewrite E. tauto. Qed.

(* the two parameters computed by the code *)
Definition ua_of (a b : LR2) : Q :=
  (v2x (lr2v b) * (v2y (lr2p a) - v2y (lr2p b)) - v2y (lr2v b) * (v2x (lr2p a) - v2x (lr2p b))) / det_lr a b.
Definition ub_of (a b : LR2) : Q :=
  (v2x (lr2v a) * (v2y (lr2p a) - v2y (lr2p b)) - v2y (lr2v a) * (v2x (lr2p a) - v2x (lr2p b))) / det_lr a b.

(* with d <> 0 the code's parameters are THE solution of a.p + ua a.v = b.p + ub b.v *)
Lemma params_solve a b : ~ det_lr a b == 0 -> on2 a (ua_of a b) =2= on2 b (ub_of a b).
Proof. intros Hd. unfold on2, ua_of, ub_of, det_lr in *. split; vred; field; exact Hd. Qed.

Lemma params_unique a b ua ub : ~ det_lr a b == 0 -> on2 a ua =2= on2 b ub ->
  ua == ua_of a b /\ ub == ub_of a b.
Proof.
  intros Hd [E1 E2]. unfold on2, ua_of, ub_of, det_lr in *. vred.
  set (pax := v2x (lr2p a)) in *; set (pay := v2y (lr2p a)) in *.
  set (pbx := v2x (lr2p b)) in *; set (pby := v2y (lr2p b)) in *.
  set (vax := v2x (lr2v a)) in *; set (vay := v2y (lr2v a)) in *.
  set (vbx := v2x (lr2v b)) in *; set (vby := v2y (lr2v b)) in *.
  assert (Hx : pax - pbx == ub * vbx - ua * vax) by lra.
  assert (Hy : pay - pby == ub * vby - ua * vay) by lra.
  split.
  - rewrite Hx, Hy. field. exact Hd.
  - rewrite Hx, Hy. field. exact Hd.
Qed.

(* characterisation of the translated function, generic in the two range tests *)
Section Generic.
Variables (uin_a uin_b : LR2 -> Q -> bool) (Pa Pb : Q -> Prop).
Hypothesis Ha : forall l u, uin_a l u = true <-> Pa u.
Hypothesis Hb : forall l u, uin_b l u = true <-> Pb u.
Definition generic_intersect (a b : LR2) : option V2 :=
  let d := det_lr a b in
  if Qeq_bool d 0 then None
  else if negb (uin_a a (ua_of a b)) then None
  else if negb (uin_b b (ub_of a b)) then None
  else Some (on2 a (ua_of a b)).

Lemma generic_sound a b p : generic_intersect a b = Some p ->
  ~ det_lr a b == 0 /\ Pa (ua_of a b) /\ Pb (ub_of a b) /\ p = on2 a (ua_of a b) /\ p =2= on2 b (ub_of a b).
Proof.
  unfold generic_intersect. cbv zeta.
  destruct (Qeq_bool (det_lr a b) 0) eqn:Hd; [discriminate|].
  apply Qeq_bool_false_iff in Hd.
  destruct (uin_a a (ua_of a b)) eqn:Ea; [|discriminate].
  destruct (uin_b b (ub_of a b)) eqn:Eb; [|discriminate].
  cbn [negb]. intros H; injection H as <-.
  repeat split; auto; try (apply Ha in Ea; exact Ea); try (apply Hb in Eb; exact Eb);
  apply (params_solve a b Hd).
Qed.

Lemma generic_complete a b ua ub : ~ det_lr a b == 0 -> on2 a ua =2= on2 b ub -> Pa ua -> Pb ub ->
  (forall x y, x == y -> Pa x -> Pa y) -> (forall x y, x == y -> Pb x -> Pb y) ->
  generic_intersect a b = Some (on2 a (ua_of a b)) /\ on2 a (ua_of a b) =2= on2 a ua.
Proof.
  intros Hd E Hua Hub Ca Cb.
  destruct (params_unique a b ua ub Hd E) as [Eua Eub].
  unfold generic_intersect. cbv zeta.
  destruct (Qeq_bool (det_lr a b) 0) eqn:Hd'; [apply Qeq_bool_iff in Hd'; tauto|].
  assert (Ta : uin_a a (ua_of a b) = true) by (apply Ha; eapply Ca; eauto).
  assert (Tb : uin_b b (ub_of a b) = true) by (apply Hb; eapply Cb; eauto).
  rewrite Ta, Tb. cbn [negb]. split; [reflexivity|].
  unfold on2; split; vred; rewrite <- Eua; reflexivity.
Qed.

Lemma generic_none_parallel a b : det_lr a b == 0 -> generic_intersect a b = None.
Proof. intros H. unfold generic_intersect. apply Qeq_bool_iff in H. cbv zeta. rewrite H. reflexivity. Qed.
End Generic.

(* the four generated instances ARE the generic function (definitional) *)
Lemma seg_seg_is_generic a b : intersect_line2d_seg_seg a b = generic_intersect LineSegment2D__u_in LineSegment2D__u_in a b.
Proof. reflexivity. Qed.
Lemma seg_ray_is_generic a b : intersect_line2d_seg_ray a b = generic_intersect LineSegment2D__u_in Ray2D__u_in a b.
Proof. reflexivity. Qed.
Lemma ray_seg_is_generic a b : intersect_line2d_ray_seg a b = generic_intersect Ray2D__u_in LineSegment2D__u_in a b.
Proof. reflexivity. Qed.
Lemma ray_ray_is_generic a b : intersect_line2d_ray_ray a b = generic_intersect Ray2D__u_in Ray2D__u_in a b.
Proof. reflexivity. Qed.

(* swapping the operands: parameters swap, the point is the same *)
Lemma det_lr_swap a b : det_lr b a == - det_lr a b.
Proof. unfold det_lr. ring. Qed.
Lemma ua_swap a b : ~ det_lr a b == 0 -> ua_of b a == ub_of a b.
Proof. intros H. unfold ua_of, ub_of. rewrite det_lr_swap. unfold det_lr in *. field. exact H. Qed.
Lemma ub_swap a b : ~ det_lr a b == 0 -> ub_of b a == ua_of a b.
Proof. intros H. unfold ua_of, ub_of. rewrite det_lr_swap. unfold det_lr in *. field. exact H. Qed.

Lemma generic_swap uin_a uin_b Pa Pb
  (Ha : forall l u, uin_a l u = true <-> Pa u) (Hb : forall l u, uin_b l u = true <-> Pb u)
  (Ca : forall x y, x == y -> Pa x -> Pa y) (Cb : forall x y, x == y -> Pb x -> Pb y) a b p :
  generic_intersect uin_a uin_b a b = Some p ->
  exists p', generic_intersect uin_b uin_a b a = Some p' /\ p' =2= p.
Proof.
  intros H. destruct (generic_sound _ _ _ _ Ha Hb _ _ _ H) as (Hd & Pua & Pub & -> & E).
  assert (Hd' : ~ det_lr b a == 0) by (rewrite det_lr_swap; intro K; apply Hd; lra).
  destruct (generic_complete uin_b uin_a Pb Pa Hb Ha b a (ub_of a b) (ua_of a b) Hd') as [G1 G2]; auto.
  - symmetry. apply params_solve. exact Hd.
  - eexists; split; [exact G1|]. rewrite G2. symmetry. apply params_solve. exact Hd.
Qed.

Lemma in_seg_compat x y : x == y -> in_seg x -> in_seg y.
Proof. intros E H. rewrite <- E. exact H. Qed.
Lemma in_ray_compat x y : x == y -> in_ray x -> in_ray y.
Proof. intros E H. rewrite <- E. exact H. Qed.

(* ---- final statements per operand typing ---- *)
Lemma seg_seg_sound a b p : intersect_line2d_seg_seg a b = Some p ->
  exists ua ub, in_seg ua /\ in_seg ub /\ p =2= on2 a ua /\ p =2= on2 b ub.
Proof.
  rewrite seg_seg_is_generic. intros H.
  destruct (generic_sound _ _ _ _ seg_u_in_iff seg_u_in_iff _ _ _ H) as (_ & A & B & -> & E).
  exists (ua_of a b), (ub_of a b). repeat split; auto; try apply A; try apply B; apply E.
Qed.
Lemma seg_ray_sound a b p : intersect_line2d_seg_ray a b = Some p ->
  exists ua ub, in_seg ua /\ in_ray ub /\ p =2= on2 a ua /\ p =2= on2 b ub.
Proof.
  rewrite seg_ray_is_generic. intros H.
  destruct (generic_sound _ _ _ _ seg_u_in_iff ray_u_in_iff _ _ _ H) as (_ & A & B & -> & E).
  exists (ua_of a b), (ub_of a b). repeat split; auto; try apply A; apply E.
Qed.
Lemma ray_ray_sound a b p : intersect_line2d_ray_ray a b = Some p ->
  exists ua ub, in_ray ua /\ in_ray ub /\ p =2= on2 a ua /\ p =2= on2 b ub.
Proof.
  rewrite ray_ray_is_generic. intros H.
  destruct (generic_sound _ _ _ _ ray_u_in_iff ray_u_in_iff _ _ _ H) as (_ & A & B & -> & E).
  exists (ua_of a b), (ub_of a b). repeat split; auto; apply E.
Qed.

Lemma seg_seg_complete a b ua ub : ~ det_lr a b == 0 -> on2 a ua =2= on2 b ub -> in_seg ua -> in_seg ub ->
  exists p, intersect_line2d_seg_seg a b = Some p /\ p =2= on2 a ua.
Proof.
  intros Hd E A B. rewrite seg_seg_is_generic.
  destruct (generic_complete _ _ _ _ seg_u_in_iff seg_u_in_iff a b ua ub Hd E A B in_seg_compat in_seg_compat) as [G1 G2].
  eexists; split; eauto.
Qed.
Lemma seg_ray_complete a b ua ub : ~ det_lr a b == 0 -> on2 a ua =2= on2 b ub -> in_seg ua -> in_ray ub ->
  exists p, intersect_line2d_seg_ray a b = Some p /\ p =2= on2 a ua.
Proof.
  intros Hd E A B. rewrite seg_ray_is_generic.
  destruct (generic_complete _ _ _ _ seg_u_in_iff ray_u_in_iff a b ua ub Hd E A B in_seg_compat in_ray_compat) as [G1 G2].
  eexists; split; eauto.
Qed.
Lemma ray_ray_complete a b ua ub : ~ det_lr a b == 0 -> on2 a ua =2= on2 b ub -> in_ray ua -> in_ray ub ->
  exists p, intersect_line2d_ray_ray a b = Some p /\ p =2= on2 a ua.
Proof.
  intros Hd E A B. rewrite ray_ray_is_generic.
  destruct (generic_complete _ _ _ _ ray_u_in_iff ray_u_in_iff a b ua ub Hd E A B in_ray_compat in_ray_compat) as [G1 G2].
  eexists; split; eauto.
Qed.

(* separated operands: if no common point with admissible parameters exists, nothing is returned *)
Lemma seg_seg_none_when_separated a b :
  (forall ua ub, in_seg ua -> in_seg ub -> ~ on2 a ua =2= on2 b ub) -> intersect_line2d_seg_seg a b = None.
Proof.
  intros H. destruct (intersect_line2d_seg_seg a b) eqn:E; auto.
  destruct (seg_seg_sound _ _ _ E) as (ua & ub & A & B & E1 & E2).
  exfalso. apply (H ua ub A B). rewrite <- E1. exact E2.
Qed.

Lemma seg_ray_swap a b p : intersect_line2d_seg_ray a b = Some p ->
  exists p', intersect_line2d_ray_seg b a = Some p' /\ p' =2= p.
Proof.
  rewrite seg_ray_is_generic, ray_seg_is_generic.
  apply (generic_swap _ _ _ _ seg_u_in_iff ray_u_in_iff in_seg_compat in_ray_compat).
Qed.
Lemma seg_seg_swap a b p : intersect_line2d_seg_seg a b = Some p ->
  exists p', intersect_line2d_seg_seg b a = Some p' /\ p' =2= p.
Proof.
  rewrite !seg_seg_is_generic.
  apply (generic_swap _ _ _ _ seg_u_in_iff seg_u_in_iff in_seg_compat in_seg_compat).
Qed.
Lemma ray_ray_swap a b p : intersect_line2d_ray_ray a b = Some p ->
  exists p', intersect_line2d_ray_ray b a = Some p' /\ p' =2= p.
Proof.
  rewrite !ray_ray_is_generic.
  apply (generic_swap _ _ _ _ ray_u_in_iff ray_u_in_iff in_ray_compat in_ray_compat).
Qed.

(* does_intersection_exist agrees with intersect_line2d (C08 relies on this one) *)
Lemma exists_iff_some_seg_ray a b :
  does_intersection_exist_line2d_seg_ray a b = true <-> exists p, intersect_line2d_seg_ray a b = Some p.
Proof.
  unfold does_intersection_exist_line2d_seg_ray, intersect_line2d_seg_ray. cbv zeta.
  destruct (Qeq_bool _ 0); [split; [discriminate| intros [p H]; discriminate]|].
  destruct (LineSegment2D__u_in _ _); cbn [negb]; [|split; [discriminate| intros [p H]; discriminate]].
  destruct (Ray2D__u_in _ _); cbn [negb]; [|split; [discriminate| intros [p H]; discriminate]].
  split; [eexists; reflexivity| reflexivity].
Qed.

(* segment-segment variant with the isclose guard: in exact arithmetic the guard never rejects *)
Lemma isclose_refl_eq x y : x == y -> intersection2d__isclose x y = true.
Proof.
  intros E. unfold intersection2d__isclose. apply Qle_bool_iff.
  assert (H : x - y == 0) by lra.
  assert (Hz : Qabs (x - y) == 0) by (rewrite H; reflexivity).
  rewrite Hz. eapply Qle_trans; [| apply Q.le_max_r]. discriminate.
Qed.

Lemma segment2d_guard_never_rejects a b :
  intersect_line_segment2d a b = intersect_line2d_seg_seg a b.
Proof.
  unfold intersect_line_segment2d, intersect_line2d_seg_seg. cbv zeta.
  destruct (Qeq_bool _ 0) eqn:Hd; [reflexivity|]. apply Qeq_bool_false_iff in Hd.
  destruct (LineSegment2D__u_in a _); cbn [negb]; [|reflexivity].
  destruct (LineSegment2D__u_in b _); cbn [negb]; [|reflexivity].
  pose proof (params_solve a b Hd) as [E1 E2]. unfold on2, ua_of, ub_of, det_lr in E1, E2. vred.
  rewrite (isclose_refl_eq _ _ E1), (isclose_refl_eq _ _ E2). reflexivity.
Qed.
