#!/bin/sh
# refresh baseline/gen (the committed copy of the generated models, used only to NAME the definitions that changed when a proof
# breaks): regenerate from /repo first, and refuse when /repo has local changes, so that a seeded change can never be recorded.
set -e
cd "$(dirname "$0")/.."
[ -z "$(git -C /repo status --porcelain)" ] || { echo "/repo has local changes: not refreshing"; exit 1; }
PYTHONHASHSEED=0 PYTHONPATH=/repo /venv/bin/python tools/regen.py /repo coq/gen | tail -1
cp coq/gen/*.v baseline/gen/
