(* C18: maximality of the chains returned by the hand model JoinSeg.v (exact end-point matching). *)
From Coq Require Import ZArith List Bool Lia.
From LBG Require Import JoinSeg.
Import ListNotations.
Open Scope Z_scope.

(* a segment "touches an end" of a chain when one of its end points equals the chain's first or last vertex *)
Definition touches_end (poly : list pt) (s : seg) : bool :=
  match poly with
  | [] => false
  | h :: _ => let l := last poly h in peq l (fst s) || peq h (snd s) || peq l (snd s) || peq h (fst s)
  end.

Lemma connect_none_iff poly s : poly <> [] -> (connect poly s = None <-> touches_end poly s = false).
Proof.
  intros Hne. unfold connect, touches_end. destruct poly as [|h r]; [congruence|].
  destruct (peq (last (h :: r) h) (fst s)); cbn [orb]; [split; discriminate|].
  destruct (peq h (snd s)); cbn [orb]; [split; discriminate|].
  destruct (peq (last (h :: r) h) (snd s)); cbn [orb]; [split; discriminate|].
  destruct (peq h (fst s)); cbn [orb]; split; auto; discriminate.
Qed.

Lemma try_first_none poly others : poly <> [] -> try_first poly others = None -> forall s, In s others -> touches_end poly s = false.
Proof.
  intros Hne. induction others as [|x r IH]; intros H s Hs; [destruct Hs|].
  cbn [try_first] in H. destruct (connect poly x) eqn:C; [discriminate|].
  destruct (try_first poly r) as [[p' r']|] eqn:T; [discriminate|].
  destruct Hs as [<-|Hs]; [apply connect_none_iff; assumption| apply IH; auto].
Qed.

Lemma try_first_nonempty poly others p' o' : try_first poly others = Some (p', o') -> p' <> [].
Proof.
  revert o'. induction others as [|x r IH]; intros o' H; [discriminate|]. cbn [try_first] in H.
  destruct (connect poly x) eqn:C; [injection H as <- <-; eapply connect_nonempty; eauto|].
  destruct (try_first poly r) as [[q r']|] eqn:T; [|discriminate]. injection H as <- <-. eapply IH; eauto.
Qed.

Lemma try_first_subset poly others p' o' : try_first poly others = Some (p', o') -> forall s, In s o' -> In s others.
Proof.
  revert o'. induction others as [|x r IH]; intros o' H s Hs; [discriminate|]. cbn [try_first] in H.
  destruct (connect poly x) eqn:C; [injection H as <- <-; right; exact Hs|].
  destruct (try_first poly r) as [[q r']|] eqn:T; [|discriminate]. injection H as <- <-.
  destruct Hs as [<-|Hs]; [left; reflexivity| right; eapply IH; eauto].
Qed.

(* with enough fuel the chain is grown until no remaining segment touches one of its ends *)
Lemma build_maximal fuel : forall poly others, poly <> [] -> (length others <= fuel)%nat ->
  let '(p, rest) := build fuel poly others in
  p <> [] /\ (forall s, In s rest -> touches_end p s = false) /\ (forall s, In s rest -> In s others).
Proof.
  induction fuel as [|f IH]; intros poly others Hne Hf.
  - destruct others; [|cbn in Hf; lia]. cbn. repeat split; auto; intros s [].
  - cbn [build]. destruct (try_first poly others) as [[p' o']|] eqn:T.
    + pose proof (try_first_nonempty _ _ _ _ T) as Hp.
      destruct (try_first_cnt _ _ _ _ poly_dummy_key T) as [_ L].
      specialize (IH p' o' Hp ltac:(lia)). destruct (build f p' o') as [p rest]. destruct IH as (A & B & C).
      repeat split; auto. intros s Hs. eapply try_first_subset; eauto.
    + repeat split; auto. intros s Hs. eapply try_first_none; eauto.
Qed.

(* ---------------------------------------------------------------- from one chain to the list of chains *)
Lemma touches_end_swap p a b : touches_end p (b, a) = touches_end p (a, b).
Proof.
  unfold touches_end. destruct p as [|h r]; [reflexivity|]. cbn [fst snd].
  destruct (peq (last (h :: r) h) a), (peq h b), (peq (last (h :: r) h) b), (peq h a); reflexivity.
Qed.

Lemma same_und_touches p k s : same_und k s = true -> touches_end p k = touches_end p s.
Proof.
  unfold same_und, seq_b. intros H. apply orb_true_iff in H. destruct k as [k1 k2], s as [s1 s2]. cbn [fst snd] in H.
  destruct H as [H|H]; apply andb_true_iff in H; destruct H as [A B]; apply peq_eq in A, B; subst.
  - reflexivity.
  - apply touches_end_swap.
Qed.

Lemma cnt_pos_in k l : (1 <= cnt k l)%nat -> exists s, In s l /\ same_und k s = true.
Proof.
  unfold cnt. induction l as [|x r IH]; cbn [filter length]; [lia|]. destruct (same_und k x) eqn:E.
  - intros _. exists x. split; [left; reflexivity| exact E].
  - intros H. destruct (IH H) as (s & Hs & Es). exists s. split; [right; exact Hs| exact Es].
Qed.

Lemma same_und_refl k : same_und k k = true.
Proof. unfold same_und, seq_b. destruct k as [a b]. cbn. assert (peq a a = true) by (apply peq_eq; reflexivity). assert (peq b b = true) by (apply peq_eq; reflexivity). rewrite H, H0. reflexivity. Qed.

Lemma in_cnt_pos k l : In k l -> (1 <= cnt k l)%nat.
Proof.
  unfold cnt. induction l as [|x r IH]; intros H; [destruct H|]. cbn [filter]. destruct H as [->|H].
  - rewrite same_und_refl. cbn. lia.
  - destruct (same_und k x); cbn [length]; specialize (IH H); lia.
Qed.

(* every edge of the grown chain is (up to direction) an edge of the start chain or one of the offered segments *)
Lemma build_edges_from fuel poly others e : In e (edges (fst (build fuel poly others))) ->
  exists s, (In s (edges poly) \/ In s others) /\ same_und e s = true.
Proof.
  intros H. pose proof (build_cnt fuel poly others e) as B. apply in_cnt_pos in H.
  assert (C : (1 <= cnt e (edges poly) + cnt e others)%nat) by lia.
  destruct (Nat.eq_dec (cnt e (edges poly)) 0) as [Z|NZ].
  - destruct (cnt_pos_in e others ltac:(lia)) as (s & Hs & Es). exists s. split; [right; exact Hs| exact Es].
  - destruct (cnt_pos_in e (edges poly) ltac:(lia)) as (s & Hs & Es). exists s. split; [left; exact Hs| exact Es].
Qed.

Definition no_touch (c d : list pt) : Prop := forall e, In e (edges d) -> touches_end c e = false.
(* later chains never touch an end of an earlier chain *)
Fixpoint ordered (L : list (list pt)) : Prop :=
  match L with [] => True | c :: r => (forall d, In d r -> no_touch c d) /\ ordered r end.

Lemma ordered_snoc L x : ordered L -> (forall c, In c L -> no_touch c x) -> ordered (L ++ [x]).
Proof.
  induction L as [|c r IH]; intros O H; [cbn; split; [intros d []| exact I]|].
  destruct O as [O1 O2]. cbn [app ordered]. split.
  - intros d Hd. apply in_app_or in Hd. destruct Hd as [Hd|[<-|[]]]; [apply O1; exact Hd| apply H; left; reflexivity].
  - apply IH; [exact O2| intros c' Hc'; apply H; right; exact Hc'].
Qed.

Definition free_of (acc : list (list pt)) (F : list seg) : Prop := forall c, In c acc -> forall s, In s F -> touches_end c s = false.

Lemma edges_two a b : edges [a; b] = [(a, b)].
Proof. reflexivity. Qed.

Lemma group_ordered fuel : forall base remain acc, remain <> [] -> (length remain <= fuel)%nat ->
  ordered acc -> free_of acc (base :: remain) -> ordered (group fuel base remain acc).
Proof.
  induction fuel as [|f IH]; intros base remain acc Hne Hf O F; [destruct remain; [congruence| cbn in Hf; lia]|].
  cbn [group]. destruct remain as [|s0 r0] eqn:ER; [congruence|]. rewrite <- ER in *.
  pose proof (build_maximal (length remain) [fst base; snd base] remain ltac:(discriminate) (le_n _)) as BM.
  pose proof (fun e => build_edges_from (length remain) [fst base; snd base] remain e) as BE.
  destruct (build (length remain) [fst base; snd base] remain) as [poly rest] eqn:EB. cbn [fst] in BE.
  destruct BM as (Pne & Pfree & Psub).
  assert (Hpoly : forall c, In c acc -> no_touch c poly).
  { intros c Hc e He. destruct (BE e He) as (s & Hs & Es). rewrite (same_und_touches c e s Es).
    destruct Hs as [Hs|Hs].
    - rewrite edges_two in Hs. destruct Hs as [<-|[]]. destruct base as [b1 b2]. apply (F c Hc). left. reflexivity.
    - apply (F c Hc). right. exact Hs. }
  assert (O' : ordered (acc ++ [poly])) by (apply ordered_snoc; assumption).
  assert (F' : free_of (acc ++ [poly]) rest).
  { intros c Hc s Hs. apply in_app_or in Hc. destruct Hc as [Hc|[<-|[]]].
    - apply (F c Hc). right. apply Psub. exact Hs.
    - apply Pfree. exact Hs. }
  assert (Hlen : (length rest <= length remain)%nat).
  { pose proof (build_len (length remain) [fst base; snd base] remain) as BL. rewrite EB in BL. exact BL. }
  destruct rest as [|s [|s2 r2]].
  - exact O'.
  - apply ordered_snoc; [exact O'|]. intros c Hc e He. rewrite edges_two in He. destruct He as [<-|[]].
    destruct s as [a b]. apply (F' c Hc). left. reflexivity.
  - apply IH; [discriminate| cbn [length] in *; lia| exact O'| exact F'].
Qed.

(* maximality: in the returned list no edge of a later chain touches an end of an earlier chain; together with
   build_maximal (no unused segment touches the ends of a finished chain) no two returned chains could have been joined *)
Theorem group_vertices_maximal segs : (2 <= length segs)%nat -> ordered (group_vertices segs).
Proof.
  intros H. destruct segs as [|b r]; [cbn in H; lia|]. destruct r as [|s r]; [cbn in H; lia|].
  unfold group_vertices. apply group_ordered; [discriminate| lia| exact I| intros c []].
Qed.
