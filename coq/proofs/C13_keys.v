(* C13: equality keys and dictionary fields of the 21 types (gen/K_keys.v, regenerated from the source). *)
From Coq Require Import String List Bool ZArith.
From LBG Require Import K_keys.
Import ListNotations.
Open Scope string_scope.

Definition mem_s (x : string) (l : list string) : bool := existsb (String.eqb x) l.
Definition subset_s (a b : list string) : bool := forallb (fun x => mem_s x b) a.

(* every field written by to_dict (other than the type tag) is read back by from_dict and vice versa;
   the type tag is the class name *)
Definition fields_ok (r : kinfo) : bool :=
  subset_s (filter (fun k => negb (String.eqb k "type")) (k_to_dict r)) (k_from_dict r) &&
  subset_s (k_from_dict r) (k_to_dict r) && mem_s "type" (k_to_dict r) && String.eqb (k_type_tag r) (k_class r).

Theorem dict_roundtrip_fields : forallb fields_ok key_table = true.
Proof. vm_compute. reflexivity. Qed.

(* the dispatcher knows exactly the 21 type tags and maps each to the class of that name *)
Theorem dispatcher_registry_complete :
  forallb (fun r => existsb (fun e => String.eqb (fst e) (k_type_tag r) && String.eqb (snd e) (k_class r)) dispatcher_registry) key_table = true /\
  length dispatcher_registry = length key_table /\ length key_table = 21%nat.
Proof. vm_compute. repeat split; reflexivity. Qed.

(* == only between objects of the same class (points and vectors of equal dimension are equal by design) *)
Definition eq_guard_ok (r : kinfo) : bool :=
  mem_s (k_class r) (k_eq_classes r) &&
  (if mem_s (k_class r) ["Vector2D"; "Point2D"] then subset_s (k_eq_classes r) ["Vector2D"; "Point2D"]
   else if mem_s (k_class r) ["Vector3D"; "Point3D"] then subset_s (k_eq_classes r) ["Vector3D"; "Point3D"]
   else Nat.eqb (length (k_eq_classes r)) 1).
Theorem eq_respects_class : forallb eq_guard_ok key_table = true.
Proof. vm_compute. reflexivity. Qed.

(* which classes compare raw coordinates and which compare hash() values of them *)
Definition raw_only (r : kinfo) : bool :=
  forallb (fun a => match a with Raw _ | RawEach _ => true | _ => false end) (k_key r).
Definition no_unknown (r : kinfo) : bool := forallb (fun a => match a with Unknown _ => false | _ => true end) (k_key r).

Theorem keys_recognised : forallb no_unknown key_table = true.
Proof. vm_compute. reflexivity. Qed.

(* every class keys its equality and hash on the defining values themselves (since the repair of the hash-keyed __key methods) *)
Theorem raw_key_classes : map k_class (filter raw_only key_table) = map k_class key_table.
Proof. vm_compute. reflexivity. Qed.

Theorem hashed_key_classes : map k_class (filter (fun r => negb (raw_only r)) key_table) = [].
Proof. vm_compute. reflexivity. Qed.

(* model of the two kinds of key over coordinate lists.  CPython: hash of an integer-valued float n is n, except
   hash(-1.0) = -2 (CPython reserves -1 as the error code), so -1.0 and -2.0 collide *)
Open Scope Z_scope.
Definition py_hash_int (n : Z) : Z := if n =? -1 then -2 else n.
Definition raw_key (coords : list Z) : list Z := coords.
Definition hashed_key (coords : list Z) : list Z := map py_hash_int coords.

Theorem raw_key_injective : forall a b, raw_key a = raw_key b <-> a = b.
Proof. unfold raw_key. tauto. Qed.

Theorem equal_coordinates_equal_hashed_key : forall a b, a = b -> hashed_key a = hashed_key b.
Proof. intros a b ->. reflexivity. Qed.

(* why a key made of hash() values would be wrong (the defect repaired in /repo): it identifies different coordinates *)
Theorem hashed_key_collision : exists a b, a <> b /\ hashed_key a = hashed_key b.
Proof. exists [0; 0; 4; 0; 4; -1], [0; 0; 4; 0; 4; -2]. split; [discriminate| reflexivity]. Qed.
