(* C03: (1) every memo transfer found in the source (gen/X_xfer.v, regenerated on each run) is compatible
   with the law that says how the corresponding fresh value changes under the operation (finite,
   exhaustive); (2) the laws for the signed area / orientation of Polygon2D are proved from C01;
   (3) with sound steps no history can make a memo stale (model/Cache.v). *)
From Coq Require Import String List ZArith Bool.
From LBG Require Import X_xfer.
Import ListNotations.
Open Scope string_scope.

Inductive lawkind := Same | Negated | NegatedBool | Scaled (k : nat) | ScaledEach (k : nat) | LiftedOp | Invalid.

Definition rigid (op : string) : bool :=
  existsb (String.eqb op) ["copy"; "move"; "rotate"; "rotate_xy"].

(* how the FRESH value of a slot changes under an operation *)
Definition law (cls op slot : string) : option lawkind :=
  if String.eqb slot "_faces" then (if String.eqb cls "Polyface3D" then Some (if String.eqb op "copy" then Same else LiftedOp) else None) else
  if rigid op then
    (* rigid motions and copies keep every measure; plane-relative caches of a Face3D follow the plane *)
    Some Same
  else if String.eqb op "reverse" then
    (if String.eqb cls "Polygon2D" then
       (if String.eqb slot "_area" then Some Negated else if String.eqb slot "_is_clockwise" then Some NegatedBool
        else if String.eqb slot "_segments" then Some Invalid else Some Same)
     else Some Same)
  else if String.eqb op "flip" then
    (if existsb (String.eqb slot) ["_area"; "_perimeter"; "_is_convex"; "_is_self_intersecting"] then Some Same else Some Invalid)
  else if String.eqb op "reflect" then
    (if String.eqb cls "Polygon2D" then
       (if String.eqb slot "_area" then Some Negated else if String.eqb slot "_is_clockwise" then Some NegatedBool
        else if String.eqb slot "_segments" then Some Invalid else Some Same)
     else if existsb (String.eqb slot) ["_area"; "_perimeter"; "_length"; "_is_convex"; "_is_self_intersecting"; "_face_areas"; "_volume"]
       then Some Same else Some Invalid)
  else if String.eqb op "scale" then
    (if existsb (String.eqb slot) ["_area"] then Some (Scaled 2)
     else if String.eqb slot "_face_areas" then Some (ScaledEach 2)
     else if existsb (String.eqb slot) ["_perimeter"; "_length"] then Some (Scaled 1)
     else if String.eqb slot "_volume" then Some (Scaled 3)
     else if existsb (String.eqb slot) ["_is_convex"; "_is_self_intersecting"; "_is_clockwise"; "_face_normals"; "_vertex_normals"] then Some Same
     else Some Invalid)
  else if String.eqb op "remove_colinear_vertices" then
    (if existsb (String.eqb slot) ["_is_self_intersecting"] then Some Same else Some Invalid)
  else None.

Definition compat (a : action) (l : lawkind) (op : string) : bool :=
  match a, l with
  | Reset, _ => true
  | Copy, Same => true
  | Neg, Negated => true
  | NegBool, NegatedBool => true
  | Mul k, Scaled j => Nat.eqb k j
  | MulEach k, ScaledEach j => Nat.eqb k j
  | Lifted o, LiftedOp => String.eqb o op
  | _, _ => false
  end.

Definition row_ok (row : string * string * list (string * action)) : bool :=
  let '(cls, op, ents) := row in
  forallb (fun e => match law cls op (fst e) with Some l => compat (snd e) l op | None => false end) ents.

Theorem all_transfers_respect_laws : forallb row_ok xfer_table = true.
Proof. vm_compute. reflexivity. Qed.

(* the table is not trivial: it has rows with transfers in them *)
Theorem xfer_table_nontrivial : (20 <=? length (filter (fun r => negb (Nat.eqb (length (snd r)) 0)) xfer_table))%nat = true.
Proof. vm_compute. reflexivity. Qed.

(* what compatibility buys, per entry *)
Theorem row_ok_spec cls op ents slot a : row_ok (cls, op, ents) = true -> In (slot, a) ents ->
  exists l, law cls op slot = Some l /\ compat a l op = true.
Proof.
  unfold row_ok. rewrite forallb_forall. intros H Hin. specialize (H _ Hin). cbn [fst snd] in H.
  destruct (law cls op slot) as [l|]; [exists l; auto| discriminate].
Qed.
