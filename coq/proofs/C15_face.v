(* C15_face.v -- Face3D._remove_colinear (generated) is Polygon2D.remove_colinear_vertices (generated) run on the face's 2D polygon, with
   the 3D vertex kept wherever the 2D routine keeps the 2D vertex: for 3D points that are the images of the 2D points under any map,
   the result is the image of the 2D result.  Every decision (the triangle test, the tolerance clamp, the seam patch) is the 2D one. *)
From Coq Require Import ZArith List Bool Lia.
From LBG Require Import Base QGeom ListCyc G0_vec G1_shapes G2_inter G3_poly G4_face G9_clean C15_clean.
Import ListNotations.

Lemma fold_left_rel {A B C} (R : A -> B -> Prop) (f : A -> C -> A) (g : B -> C -> B) (l : list C) :
  (forall a b x, In x l -> R a b -> R (f a x) (g b x)) -> forall a b, R a b -> R (fold_left f l a) (fold_left g l b).
Proof.
  induction l as [|x r IH]; intros H a b Rab; cbn [fold_left]; [exact Rab|].
  apply IH; [intros a' b' y Hy; apply H; right; exact Hy | apply H; [left; reflexivity | exact Rab]].
Qed.

Lemma py_nth_map {A B} (f : A -> B) (l : list A) (i : Z) dA dB :
  (- Z.of_nat (length l) <= i < Z.of_nat (length l))%Z -> py_nth (map f l) i dB = f (py_nth l i dA).
Proof.
  intros H. unfold py_nth. rewrite map_length. destruct (i <? 0)%Z eqn:E.
  - apply Z.ltb_lt in E. rewrite (nth_indep _ dB (f dA)) by (rewrite map_length; lia). apply map_nth.
  - apply Z.ltb_ge in E. rewrite (nth_indep _ dB (f dA)) by (rewrite map_length; lia). apply map_nth.
Qed.

Section Face.
Variable qsqrt : Q -> Q.
Variable emb : V2 -> V3.

Definition rel (s3 : list V3 * Z * bool * Z) (s2 : list V2 * Z * bool * Z) : Prop :=
  let '(a3, k3, f3, g3) := s3 in let '(a2, k2, f2, g2) := s2 in a3 = map emb a2 /\ k3 = k2 /\ f3 = f2 /\ g3 = g2.

Theorem face_remove_colinear_is_the_2d_routine (self : Face3R) (p : Polygon2R) (tol : Q) : pg_vertices p <> [] ->
  Face3D__remove_colinear qsqrt self (map emb (pg_vertices p)) p tol
  = map emb (pg_vertices (Polygon2D_remove_colinear_vertices qsqrt p tol)).
Proof.
  intros NE. set (L := pg_vertices p) in *.
  assert (HL : (0 < Z.of_nat (length L))%Z) by (destruct L; [contradiction NE; reflexivity | cbn [length]; lia]).
  unfold Face3D__remove_colinear, Polygon2D_remove_colinear_vertices. cbv zeta. fold L.
  match goal with |- context [fold_left ?F3 (py_enumerate L) ?I3] =>
    match goal with |- context [fold_left ?F2 (py_enumerate L) (?a2, ?k2, ?f2, ?g2)] =>
      assert (R : rel (fold_left F3 (py_enumerate L) I3) (fold_left F2 (py_enumerate L) (a2, k2, f2, g2))) end end.
  { apply fold_left_rel; [|cbn; repeat split; reflexivity].
    intros [[[a3 k3] f3] g3] [[[a2 k2] f2] g2] [i v] Hin (Ea & Ek & Ef & Eg). subst a3 k3 f3 g3.
    apply enum_from_In in Hin. destruct Hin as [Hi _].
    assert (N : py_nth (map emb L) (i - 1) (mkV3 0 0 0) = emb (Base2DIn2D_op_getitem p (i - 1)))
      by (rewrite getitem_is_py_nth; fold L; apply py_nth_map; lia).
    cbn beta iota. destruct (Qle_bool _ _); [|cbn; repeat split; reflexivity].
    rewrite N. destruct f2; cbn; rewrite map_app; cbn [map]; repeat split; reflexivity. }
  destruct (fold_left _ (py_enumerate L) (_ : list V3 * Z * bool * Z)) as [[[a3 k3] f3] g3].
  destruct (fold_left _ (py_enumerate L) (_ : list V2 * Z * bool * Z)) as [[[a2 k2] f2] g2].
  destruct R as (Ea & Ek & Ef & Eg). subst a3 k3 f3 g3.
  unfold Polygon2D_op_init, Base2DIn2D__check_vertices_input. cbn [pg_vertices].
  destruct (negb (k2 =? 0)%Z && negb (g2 =? -1)%Z); [|reflexivity].
  destruct (Qle_bool _ _); [|reflexivity].
  rewrite map_app. cbn [map]. f_equal. f_equal. rewrite getitem_is_py_nth. fold L. apply py_nth_map. lia.
Qed.
End Face.
