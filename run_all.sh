#!/bin/bash
# run every registered quick (or thorough) check; usage: ./run_all.sh [quick|thorough] [seed]
cd "$(dirname "$0")"
tier=${1:-quick}; seed=${2:-0}
rc=0
for id in C01 C02 C03 C04 C05 C06 C07 C08 C09 C10 C11 C12 C13 C14 C15 C16 C17 C18 C19 C20; do
  VERIF_SEED=$seed ./check $id --tier $tier > work_all_$id.log 2>&1; r=$?
  echo "$id exit=$r $(tail -1 work_all_$id.log)"
  grep -E "^VIOLATION|^KNOWN-FINDING" work_all_$id.log | cut -c1-200
  [ $r -ne 0 ] && rc=1
done
exit $rc
