(* C06_planefit.v -- Face3D._plane_from_vertices (generated from the source): the three numbers it accumulates over the triangle
   fan (v0, v_{i+1}, v_{i+2}), i = 0 .. n-3, are the components of the area (Newell) vector of the WHOLE loop - for every vertex
   count, planar or not, whichever vertex the loop starts at.  So the plane given to a face built without one is normal to the
   loop's area vector, and a fan that stops early (or starts late) breaks this theorem. *)
From LBG Require Import Base QGeom ListCyc G0_vec G1_shapes G2_inter G3_poly G4_face C02_kernels C01_area C06_plane C06_face C05_convex.
Open Scope Q_scope.

Definition n3 (p1 p2 p3 : V3) : V3 := cross3 (sub3 p2 p1) (sub3 p3 p1).
Definition t3 (t : Q * Q * Q) : V3 := let '(a, b, c) := t in mkV3 a b c.

Lemma normal_from_3pts_is_cross p1 p2 p3 : t3 (Face3D_normal_from_3pts p1 p2 p3) =3= n3 p1 p2 p3.
Proof. unfold Face3D_normal_from_3pts, n3, t3, cross3, sub3, v3eq. cbv zeta. cbn [v3x v3y v3z]. repeat split; ring. Qed.

Lemma skipn_cons_next {A} (l : list A) : forall k x r, skipn k l = x :: r -> skipn (S k) l = r.
Proof.
  induction l as [|a l IH]; intros k x r E; [destruct k; discriminate|].
  destruct k as [|k]; [cbn in E; inversion E; reflexivity|]. cbn [skipn] in *. apply (IH k x r E).
Qed.

(* a list-building loop over a range is a map *)
Lemma range_collect {B} (g : Z -> B) n : forall a acc,
  fold_left (fun (c : list B) i => c ++ [g i]) (zrange_aux n a) acc = acc ++ map g (zrange_aux n a).
Proof.
  induction n as [|n IH]; intros a acc; cbn [zrange_aux fold_left map]; [rewrite app_nil_r; reflexivity|].
  rewrite IH, <- app_assoc. reflexivity.
Qed.

(* indices i+1, i+2 of the list walk its consecutive pairs from position 1 on *)
Lemma range_pairs {B} (G : V3 -> V3 -> B) (L : list V3) d : forall (r : list V3) (x : V3) (a : nat),
  skipn (a + 1) L = x :: r ->
  map (fun i => G (py_nth L (i + 1) d) (py_nth L (i + 2) d)) (zrange_aux (length r) (Z.of_nat a))
  = map (fun pq => G (fst pq) (snd pq)) (ppairs x r).
Proof.
  induction r as [|y r IH]; intros x a E; [reflexivity|].
  cbn [length zrange_aux map ppairs fst snd].
  assert (E1 : skipn (S a + 1) L = y :: r) by (replace (S a + 1)%nat with (S (a + 1)) by lia; apply (skipn_cons_next L (a + 1) x (y :: r) E)).
  f_equal.
  - assert (X : py_nth L (Z.of_nat a + 1) d = x).
    { unfold py_nth. replace (Z.of_nat a + 1 <? 0)%Z with false by (symmetry; apply Z.ltb_ge; lia).
      replace (Z.to_nat (Z.of_nat a + 1)) with (a + 1)%nat by lia.
      rewrite <- (firstn_skipn (a + 1) L) at 1. rewrite E.
      assert (LL : (a + 1 <= length L)%nat).
      { destruct (le_lt_dec (a + 1) (length L)) as [h|h]; [exact h|]. rewrite skipn_all2 in E by lia. discriminate. }
      rewrite app_nth2 by (rewrite firstn_length; lia). rewrite firstn_length.
      replace (a + 1 - Nat.min (a + 1) (length L))%nat with 0%nat by lia. reflexivity. }
    assert (Y : py_nth L (Z.of_nat a + 2) d = y).
    { unfold py_nth. replace (Z.of_nat a + 2 <? 0)%Z with false by (symmetry; apply Z.ltb_ge; lia).
      replace (Z.to_nat (Z.of_nat a + 2)) with (S a + 1)%nat by lia.
      rewrite <- (firstn_skipn (S a + 1) L) at 1. rewrite E1.
      assert (LL : (S a + 1 <= length L)%nat).
      { destruct (le_lt_dec (S a + 1) (length L)) as [h|h]; [exact h|]. rewrite skipn_all2 in E1 by lia. discriminate. }
      rewrite app_nth2 by (rewrite firstn_length; lia). rewrite firstn_length.
      replace (S a + 1 - Nat.min (S a + 1) (length L))%nat with 0%nat by lia. reflexivity. }
    rewrite X, Y. reflexivity.
  - replace (Z.of_nat a + 1)%Z with (Z.of_nat (S a)) by lia. apply (IH y (S a) E1).
Qed.

(* the component sums *)
Definition sum3 (l : list (Q * Q * Q)) : Q * Q * Q :=
  fold_left (fun (acc : Q * Q * Q) c => let '(n0, n1, n2) := acc in
             ((n0 + (let '(x_, _, _) := c in x_)), (n1 + (let '(_, x_, _) := c in x_)), (n2 + (let '(_, _, x_) := c in x_)))) l (0, 0, 0).

Lemma sum3_spec l : forall a b c,
  t3 (fold_left (fun '(n0, n1, n2) (c : Q * Q * Q) =>
             ((n0 + (let '(x_, _, _) := c in x_)), (n1 + (let '(_, x_, _) := c in x_)), (n2 + (let '(_, _, x_) := c in x_)))) l (a, b, c))
  =3= add3 (mkV3 a b c) (fold_right (fun c acc => add3 (t3 c) acc) (mkV3 0 0 0) l).
Proof.
  induction l as [|[[x y] z] l IH]; intros a b c; cbn [fold_left fold_right].
  - unfold t3, add3, v3eq. cbn [v3x v3y v3z]. repeat split; ring.
  - rewrite IH. unfold t3, add3, v3eq. cbn [v3x v3y v3z]. repeat split; ring.
Qed.

(* sum of the fan cross products over the consecutive pairs of l = the area vector of v0 :: l *)
Lemma fan_is_newell v0 l :
  fold_right (fun pq acc => add3 (n3 v0 (fst pq) (snd pq)) acc) (mkV3 0 0 0) (match l with [] => [] | x :: r => ppairs x r end)
  =3= newell (v0 :: l).
Proof.
  assert (G : forall (sel : V3 -> Q), (forall u v, sel (add3 u v) == sel u + sel v) -> Proper (v3eq ==> Qeq) sel -> sel (mkV3 0 0 0) == 0 ->
              sel (fold_right (fun pq acc => add3 (n3 v0 (fst pq) (snd pq)) acc) (mkV3 0 0 0) (match l with [] => [] | x :: r => ppairs x r end))
              == cyc_sum (fun a b => sel (cross3 a b)) (v0 :: l)).
  { intros sel selx P sel0.
    rewrite <- (cyc_cross_translate sel selx P v0 (v0 :: l)).
    assert (Zr : forall p, sel (cross3 (sub3 p v0) (sub3 v0 v0)) == 0).
    { intros p. rewrite <- sel0. apply P. unfold cross3, sub3, v3eq. cbn [v3x v3y v3z]. repeat split; ring. }
    assert (Zl : forall p, sel (cross3 (sub3 v0 v0) (sub3 p v0)) == 0).
    { intros p. rewrite <- sel0. apply P. unfold cross3, sub3, v3eq. cbn [v3x v3y v3z]. repeat split; ring. }
    unfold cyc_sum. rewrite Zr. destruct l as [|x r]; [cbn [fold_right path_sum]; rewrite sel0; ring|].
    rewrite path_sum_cons, Zl.
    assert (PS : forall r x, sel (fold_right (fun pq acc => add3 (n3 v0 (fst pq) (snd pq)) acc) (mkV3 0 0 0) (ppairs x r))
                             == path_sum (fun a b => sel (cross3 (sub3 a v0) (sub3 b v0))) (x :: r)).
    { intros r0. induction r0 as [|y r0 IH]; intros x0; cbn [ppairs fold_right]; [cbn [path_sum]; exact sel0|].
      rewrite selx, IH, path_sum_cons. unfold n3. cbn [fst snd]. reflexivity. }
    rewrite PS. ring. }
  unfold newell, v3eq. cbn [v3x v3y v3z].
  repeat split; apply G; try typeclasses eauto; try reflexivity; intros; unfold add3; cbn [v3x v3y v3z]; reflexivity.
Qed.

Lemma fold_right_n3 v0 (pairs : list (V3 * V3)) :
  fold_right (fun c acc => add3 (t3 c) acc) (mkV3 0 0 0) (map (fun pq => Face3D_normal_from_3pts v0 (fst pq) (snd pq)) pairs)
  =3= fold_right (fun pq acc => add3 (n3 v0 (fst pq) (snd pq)) acc) (mkV3 0 0 0) pairs.
Proof.
  induction pairs as [|pq pairs IH]; cbn [map fold_right]; [apply v3eq_refl|].
  destruct IH as (I1 & I2 & I3). destruct (normal_from_3pts_is_cross v0 (fst pq) (snd pq)) as (N1 & N2 & N3).
  unfold add3, v3eq. cbn [v3x v3y v3z]. rewrite I1, I2, I3, N1, N2, N3. repeat split; reflexivity.
Qed.

Definition normal_of (qsqrt : Q -> Q) (n0 n1 n2 : Q) : V3 :=
  if negb (Qeq_bool n0 0 && Qeq_bool n1 0 && Qeq_bool n2 0)
  then let ds := qsqrt (n0 * n0 + n1 * n1 + n2 * n2) in mkV3 (n0 / ds) (n1 / ds) (n2 / ds)
  else mkV3 0 0 1.

Theorem plane_from_vertices_uses_newell qsqrt v0 l :
  exists n0 n1 n2, mkV3 n0 n1 n2 =3= newell (v0 :: l) /\
    Face3D_plane_from_vertices qsqrt (v0 :: l) = Plane_init qsqrt (normal_of qsqrt n0 n1 n2) v0.
Proof.
  unfold Face3D_plane_from_vertices. cbv zeta.
  set (verts := v0 :: l). set (d := mkV3 0 0 0).
  change (py_nth verts 0 d) with v0.
  unfold py_range. rewrite (range_collect (fun i => Face3D_normal_from_3pts v0 (py_nth verts (i + 1) d) (py_nth verts (i + 2) d))).
  cbn [app].
  set (pairs := match l with [] => [] | x :: r => ppairs x r end).
  assert (EP : map (fun i => Face3D_normal_from_3pts v0 (py_nth verts (i + 1) d) (py_nth verts (i + 2) d))
                   (zrange_aux (Z.to_nat (py_len verts - 2 - 0)) 0)
               = map (fun pq => Face3D_normal_from_3pts v0 (fst pq) (snd pq)) pairs).
  { unfold pairs, verts, py_len. destruct l as [|x r]; [reflexivity|]. cbn [length].
    replace (Z.to_nat (Z.of_nat (S (S (length r))) - 2 - 0)) with (length r) by lia.
    change 0%Z with (Z.of_nat 0).
    apply (range_pairs (fun a b => Face3D_normal_from_3pts v0 a b) (v0 :: x :: r) d r x 0). reflexivity. }
  rewrite EP.
  match goal with |- context [fold_left ?F ?L (0, 0, 0)] => destruct (fold_left F L (0, 0, 0)) as [[n0 n1] n2] eqn:EF end.
  exists n0, n1, n2. split; [|reflexivity].
  assert (S3 : mkV3 n0 n1 n2 =3= add3 (mkV3 0 0 0) (fold_right (fun c acc => add3 (t3 c) acc) (mkV3 0 0 0)
                 (map (fun pq => Face3D_normal_from_3pts v0 (fst pq) (snd pq)) pairs))).
  { change (mkV3 n0 n1 n2) with (t3 (n0, n1, n2)). rewrite <- EF. exact (sum3_spec _ 0 0 0). }
  eapply v3eq_trans; [exact S3|].
  eapply v3eq_trans; [| apply (fan_is_newell v0 l)].
  pose proof (fold_right_n3 v0 pairs) as (F1 & F2 & F3). fold pairs.
  set (R1 := fold_right (fun c acc => add3 (t3 c) acc) (mkV3 0 0 0) _) in *.
  set (R2 := fold_right (fun pq acc => add3 (n3 v0 (fst pq) (snd pq)) acc) (mkV3 0 0 0) pairs) in *.
  unfold add3, v3eq. cbn [v3x v3y v3z]. rewrite F1, F2, F3. repeat split; ring.
Qed.

Lemma newell_start_vertex x l : newell (x :: l) =3= newell (l ++ [x]).
Proof. unfold newell, v3eq. cbn [v3x v3y v3z]. rewrite !cyc_sum_shift. repeat split; reflexivity. Qed.
