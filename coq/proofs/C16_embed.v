(* C16: the plane embedding (Plane.xy_to_xyz, generated) commutes with the primitives the 2D and 3D siblings
   are built from; hence closest point on a segment / point_at / subdivision parameters agree. *)
From LBG Require Import Base QGeom G0_vec G1_shapes G2_inter G8_curve C11_inter2d C12_closest C06_plane.
Open Scope Q_scope.

Definition embv (pl : PlaneR) (v : V2) : V3 :=
  mkV3 (v3x (pl_x pl) * v2x v + v3x (pl_y pl) * v2y v) (v3y (pl_x pl) * v2x v + v3y (pl_y pl) * v2y v)
       (v3z (pl_x pl) * v2x v + v3z (pl_y pl) * v2y v).
Definition emb (pl : PlaneR) (p : V2) : V3 := Plane_xy_to_xyz pl p.
Definition emb_lr (pl : PlaneR) (l : LR2) : LR3 := mkLR3 (emb pl (lr2p l)) (embv pl (lr2v l)).

Lemma emb_is pl p : emb pl p =3= add3 (pl_o pl) (embv pl p).
Proof. unfold emb, Plane_xy_to_xyz, embv, add3. cbv zeta. repeat split; vred; ring. Qed.

Section Frame.
Variable pl : PlaneR.
Hypothesis F : frame_ok pl.

Lemma embv_dot u v : dot3 (embv pl u) (embv pl v) == dot2 u v.
Proof.
  destruct (frame_orthonormal pl F) as (Uy & Yn & Yx & _). destruct F as (Hn & Hx & Hd & Y & _).
  unfold unit3, dot3, dot2, embv in *. vred.
  set (xa := v3x (pl_x pl)) in *; set (xb := v3y (pl_x pl)) in *; set (xc := v3z (pl_x pl)) in *.
  set (ya := v3x (pl_y pl)) in *; set (yb := v3y (pl_y pl)) in *; set (yc := v3z (pl_y pl)) in *.
  transitivity (v2x u * v2x v * (xa*xa + xb*xb + xc*xc) + v2y u * v2y v * (ya*ya + yb*yb + yc*yc)
                + (v2x u * v2y v + v2y u * v2x v) * (ya*xa + yb*xb + yc*xc)); [ring|].
  rewrite Hx, Uy, Yx. ring.
Qed.

Lemma emb_sub a b : sub3 (emb pl a) (emb pl b) =3= embv pl (sub2 a b).
Proof. unfold emb, Plane_xy_to_xyz, embv, sub3, sub2. cbv zeta. repeat split; vred; ring. Qed.

(* the embedding is an isometry: distances of the 2D object are distances of the 3D sibling *)
Theorem emb_isometry a b : sqd3 (emb pl a) (emb pl b) == sqd2 a b.
Proof.
  unfold sqd3, sqd2. rewrite (emb_sub a b). apply embv_dot.
Qed.

Lemma emb_on l t : on3 (emb_lr pl l) t =3= emb pl (on2 l t).
Proof. unfold on3, on2, emb_lr, emb, Plane_xy_to_xyz, embv. cbv zeta. repeat split; vred; ring. Qed.

(* the projection parameter of a query onto a segment is the same in 2D and in 3D *)
Lemma param_agrees q l :
  dot3 (sub3 (emb pl q) (lr3p (emb_lr pl l))) (lr3v (emb_lr pl l)) / dot3 (lr3v (emb_lr pl l)) (lr3v (emb_lr pl l))
  == dot2 (sub2 q (lr2p l)) (lr2v l) / dot2 (lr2v l) (lr2v l).
Proof.
  unfold emb_lr. vred. rewrite (emb_sub q (lr2p l)), !embv_dot. reflexivity.
Qed.

(* closest point on a segment: the 3D routine applied to the embedded data returns the embedded 2D result *)
Theorem closest_point_segment_agrees q l : ~ dot2 (lr2v l) (lr2v l) == 0 ->
  closest_point3d_on_line3d_seg (emb pl q) (emb_lr pl l) =3= emb pl (closest_point2d_on_line2d_seg q l).
Proof.
  intros Hd.
  assert (Hd3 : ~ dot3 (lr3v (emb_lr pl l)) (lr3v (emb_lr pl l)) == 0) by (unfold emb_lr; vred; rewrite embv_dot; exact Hd).
  rewrite (closest_seg3_is _ _ Hd3), (closest_seg2_is _ _ Hd). cbv zeta.
  pose proof (param_agrees q l) as P.
  set (u3 := dot3 _ _ / dot3 _ _) in *. set (u2 := dot2 _ _ / dot2 _ _) in *.
  assert (B : LineSegment3D__u_in (emb_lr pl l) u3 = LineSegment2D__u_in l u2).
  { unfold LineSegment3D__u_in, LineSegment2D__u_in. rewrite P. reflexivity. }
  rewrite B. destruct (LineSegment2D__u_in l u2); cbn [negb].
  - rewrite <- emb_on. unfold on3. repeat split; vred; rewrite P; reflexivity.
  - rewrite <- emb_on. unfold on3, clamp01. repeat split; vred; rewrite P; reflexivity.
Qed.

(* point_at and the end point agree *)
Theorem point_at_agrees l t : LineSegment3D_point_at (emb_lr pl l) t =3= emb pl (LineSegment2D_point_at l t).
Proof.
  unfold LineSegment3D_point_at, LineSegment2D_point_at, Vector3D_op_add, Vector3D_op_mul, Vector2D_op_add, Vector2D_op_mul,
    emb_lr, emb, Plane_xy_to_xyz, embv. cbv zeta. repeat split; vred; ring.
Qed.
End Frame.
