(* C20_remove.v -- Mesh2D / Mesh3D.remove_faces_only (generated): the vertices are untouched and the faces that remain are exactly the
   faces whose pattern entry is True, in their original order (so per-face data filtered by the same pattern stays aligned with them). *)
From Coq Require Import ZArith List Bool Lia.
From LBG Require Import Base QGeom G0_vec G1_shapes G3_poly G4_face G12_mesh.
Import ListNotations.
Local Open Scope Z_scope.

Section Keep.
Variable A : Type.
Variable d : A.

(* the faces kept by a pattern: those at the positions of the True entries (positions beyond the list give the default, as py_nth does) *)
Fixpoint kept_from (i : nat) (faces : list A) (pat : list bool) : list A :=
  match pat with
  | [] => []
  | b :: r => (if b then [nth i faces d] else []) ++ kept_from (S i) faces r
  end.

Lemma py_nth_nat (l : list A) (k : nat) : py_nth l (Z.of_nat k) d = nth k l d.
Proof. unfold py_nth. destruct (Z.of_nat k <? 0) eqn:E; [apply Z.ltb_lt in E; lia|]. rewrite Nat2Z.id. reflexivity. Qed.

Lemma keep_fold (faces : list A) (pat : list bool) : forall (i : nat) acc,
  fold_left (fun (acc : list A) '(j, b) => if (b : bool) then acc ++ [py_nth faces j d] else acc) (enum_from (Z.of_nat i) pat) acc
  = acc ++ kept_from i faces pat.
Proof.
  induction pat as [|b r IH]; intros i acc; cbn [enum_from fold_left kept_from]; [rewrite app_nil_r; reflexivity|].
  replace (Z.of_nat i + 1) with (Z.of_nat (S i)) by lia. rewrite IH. destruct b; [rewrite py_nth_nat, <- app_assoc; reflexivity | reflexivity].
Qed.

(* with a pattern as long as the face list this is the usual filter *)
Lemma kept_is_filter (pre faces : list A) (pat : list bool) : length pat = length faces ->
  kept_from (length pre) (pre ++ faces) pat = map fst (filter snd (combine faces pat)).
Proof.
  revert pre faces; induction pat as [|b r IH]; intros pre faces H; destruct faces as [|f fs]; try discriminate H; [reflexivity|].
  cbn [kept_from combine filter snd]. injection H as H.
  assert (N : nth (length pre) (pre ++ f :: fs) d = f) by (rewrite app_nth2 by lia; rewrite Nat.sub_diag; reflexivity).
  specialize (IH (pre ++ [f]) fs H). rewrite app_length, Nat.add_1_r, <- app_assoc in IH. cbn [app] in IH.
  destruct b; cbn [map fst app]; rewrite IH; [rewrite N|]; reflexivity.
Qed.
End Keep.

Lemma fold_left_ext2 {A B} (f g : A -> B -> A) l : (forall a b, f a b = g a b) -> forall a, fold_left f l a = fold_left g l a.
Proof. intros E. induction l as [|x r IH]; intros a; cbn [fold_left]; [reflexivity|]. rewrite E. apply IH. Qed.

Theorem mesh3_remove_faces_only_spec (m : Mesh3R) (pat : list bool) :
  m3_vertices (Mesh3D_remove_faces_only m pat) = m3_vertices m /\
  m3_faces (Mesh3D_remove_faces_only m pat) = kept_from (list Z) [] 0 (m3_faces m) pat.
Proof.
  unfold Mesh3D_remove_faces_only, MeshBase__remove_faces_only, MeshBase__transfer_face_centroids_areas. cbv zeta.
  unfold Mesh3D_op_init_2, Face3D__check_vertices_input, MeshBase__check_faces_input. cbn [m3_vertices m3_faces].
  split; [reflexivity|]. change (py_enumerate pat) with (enum_from (Z.of_nat 0) pat).
  rewrite <- (app_nil_l (kept_from (list Z) [] 0 (m3_faces m) pat)), <- (keep_fold (list Z) [] (m3_faces m) pat 0 []).
  apply fold_left_ext2. intros a [j b]. reflexivity.
Qed.

Theorem mesh2_remove_faces_only_spec (m : Mesh2R) (pat : list bool) :
  m2_vertices (Mesh2D_remove_faces_only m pat) = m2_vertices m /\
  m2_faces (Mesh2D_remove_faces_only m pat) = kept_from (list Z) [] 0 (m2_faces m) pat.
Proof.
  unfold Mesh2D_remove_faces_only, MeshBase__remove_faces_only_2, MeshBase__transfer_face_centroids_areas_2. cbv zeta.
  unfold Mesh2D_op_init_2, Base2DIn2D__check_vertices_input, MeshBase__check_faces_input. cbn [m2_vertices m2_faces].
  split; [reflexivity|]. change (py_enumerate pat) with (enum_from (Z.of_nat 0) pat).
  rewrite <- (app_nil_l (kept_from (list Z) [] 0 (m2_faces m) pat)), <- (keep_fold (list Z) [] (m2_faces m) pat 0 []).
  apply fold_left_ext2. intros a [j b]. reflexivity.
Qed.

(* with a pattern as long as the face list: exactly the faces flagged True, in order; per-face data filtered the same way stays aligned *)
Theorem mesh3_remove_faces_only_is_filter (m : Mesh3R) (pat : list bool) : length pat = length (m3_faces m) ->
  m3_faces (Mesh3D_remove_faces_only m pat) = map fst (filter snd (combine (m3_faces m) pat)) /\
  length (m3_faces (Mesh3D_remove_faces_only m pat)) = length (filter (fun b => b) pat).
Proof.
  intros H. rewrite (proj2 (mesh3_remove_faces_only_spec m pat)).
  pose proof (kept_is_filter (list Z) [] [] (m3_faces m) pat H) as K. cbn [length app] in K. rewrite K. split; [reflexivity|].
  rewrite map_length. clear K. revert H. generalize (m3_faces m). induction pat as [|b r IH]; intros fs H; destruct fs as [|f fs]; try discriminate H; [reflexivity|].
  injection H as H. cbn [combine filter snd]. destruct b; cbn [length]; rewrite (IH fs H); reflexivity.
Qed.
