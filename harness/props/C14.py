"""C14  operations are pure: no mutation of inputs, deterministic results.

explore(): introspected sweep over every public method / classmethod / staticmethod of the 21 geometry classes and
the public module-level functions, with arguments generated from parameter names; deep value snapshot of receiver and
arguments (including caller-owned lists and their elements) before/after; call repeated; a digest of a fixed workload is
compared across PYTHONHASHSEED in {0, 1, 2, random} and under a monkey-patched clock."""
import copy, hashlib, inspect, math, os, subprocess, sys, json, time
from .. import core, gens as G, build as Bd
from ..build import P2, V2, P3, V3
import ladybug_geometry.geometry2d as g2
import ladybug_geometry.geometry3d as g3
from ladybug_geometry.geometry2d import *   # noqa
from ladybug_geometry.geometry3d import *   # noqa
from ladybug_geometry import intersection2d, intersection3d, bounding, triangulation

RULE = ('every public callable of the 21 classes and of intersection2d/3d, bounding (introspected), arguments generated from '
        'parameter names (valid shapes, tolerances, planes, lists of objects); receiver, arguments and list arguments snapshotted '
        'deeply before/after; call repeated; non-trivial = the call returned normally; distinct by (class, method)')
ASSUMPTIONS = ['calls that raise for the generated arguments are counted but not judged', 'filling memo slots is not a mutation: '
               'snapshots compare the observable value (to_dict / vertices / public scalars), not private caches']
TRUSTED = ['a Gallina function is pure by construction: purity of the implementation is the assumption under which every model is '
           'meaningful, so it is enforced dynamically here']
TOL = 0.01
SKIP = {'ToString', 'from_dict', 'from_array', 'to_dict', 'to_array', 'duplicate', 'from_stl', 'to_stl', 'from_obj', 'to_obj',
        'from_file', 'to_file', 'extract_all_from_stl'}


def snap(v, depth=0):
    """observable value of an argument / receiver"""
    if depth > 6:
        return '...'
    if v is None or isinstance(v, (bool, int, float, str)):
        return v
    if isinstance(v, (list, tuple)):
        return (type(v).__name__, [snap(x, depth + 1) for x in v])
    if isinstance(v, dict):
        return {k: snap(x, depth + 1) for k, x in sorted(v.items(), key=lambda kv: str(kv[0]))}
    if hasattr(v, 'to_dict'):
        try:
            return (type(v).__name__, json.dumps(v.to_dict(), sort_keys=True, default=str))
        except Exception:
            pass
    if hasattr(v, 'to_array'):
        try:
            return (type(v).__name__, repr(v.to_array()))
        except Exception:
            pass
    return repr(v)


def value_of(name, rng, cls, is3d):
    """argument value for a parameter name"""
    n = name.lower()
    P, V = (P3, V3) if is3d else (P2, V2)
    rp = (lambda: G.rpt3(rng, 20)) if is3d else (lambda: G.rpt2(rng, 20))
    rv = (lambda: G.rvec3(rng, 5)) if is3d else (lambda: G.rvec2(rng, 5))
    if n in ('tolerance', 'tol'): return TOL
    if n == 'angle_tolerance': return math.radians(1)
    if n in ('angle', 'axis_angle'): return rng.uniform(-3, 3)
    if n in ('factor', 'ratio'): return rng.choice([0.5, 0.3, 2.0]) if n == 'factor' else 0.4
    if n in ('distance', 'offset', 'x_dim', 'y_dim', 'length', 'max_distance', 'min_separation', 'grid_increment', 'height', 'base',
             'width', 'depth', 'radius', 'sub_rect_height', 'sill_height', 'horizontal_separation', 'vertical_separation',
             'breakup_height', 'window_height', 'rect_height', 'sub_rect_width'): return rng.choice([0.5, 1.0, 2.0])
    if n in ('number', 'divisions', 'number_of_sides', 'num_x', 'num_y', 'contour_count', 'fin_count', 'count'): return rng.randint(3, 6)
    if n in ('parameter',): return rng.random()
    if n in ('distances',): return [0.5, 1.0]
    if n in ('point', 'origin', 'base_point', 'pt', 'o', 'p', 'p1', 'p2', 'p3', 'm', 'point1', 'point2', 'test_point', 'corner_pt',
             'start', 'end', 'vertex', 'center'): return P(rp())
    if n in ('moving_vec', 'vector', 'direction', 'axis', 'v', 'test_vector', 'extrusion_vector', 'direction_vector',
             'height_vector', 'projection_direction', 'extru_vec'): return V(rv())
    if n == 'normal' or n == 'n':
        if is3d: return V3(G.rational_frame(rng)[2])
        c, s, _ = G.pythagorean_angle(rng); return V2((float(c), float(s)))
    if n in ('plane',): return Bd.plane(rng)
    if n in ('line_ray', 'ray', 'line', 'line_ray_a', 'line_ray_b', 'line_a', 'line_b', 'segment', 'line_segment'):
        return Bd.make(rng, 'LineSegment3D' if is3d else 'LineSegment2D')
    if n in ('polygon', 'polygon1', 'polygon2', 'boundary_polygon', 'other', 'polygon_1', 'polygon_2'):
        if is3d and n == 'other': return Bd.make(rng, cls)
        return Bd.make(rng, 'Polygon2D')
    if n in ('polygons', 'polygon_list'): return [Bd.make(rng, 'Polygon2D') for _ in range(3)]
    if n in ('hole_polygons',): return None
    if n in ('face', 'face1', 'face2', 'sub_face'): return Bd.face3d(rng)
    if n in ('faces', 'sub_faces'): return [Bd.face3d(rng) for _ in range(2)]
    if n in ('meshes',): return [Bd.make(rng, cls if 'Mesh' in cls else 'Mesh3D') for _ in range(2)]
    if n in ('geometries',): return [Bd.make(rng, 'Polygon2D') for _ in range(3)]
    if n in ('segments',): return [Bd.make(rng, 'LineSegment3D' if is3d else 'LineSegment2D') for _ in range(3)]
    if n in ('points', 'vertices', 'boundary'):
        base = G.star_polygon(rng, n=5, R=8.0)
        return [P3((p[0], p[1], 0.0)) if is3d else P2(p) for p in base]
    if n in ('hole',): return [P2(p) for p in [(1.0, 1.0), (2.0, 1.0), (2.0, 2.0)]]
    if n in ('holes',):
        return [[P2(p) for p in [(0.5, 0.5), (1.0, 0.5), (1.0, 1.0)]]]
    if n in ('pattern',): return None
    if n in ('arc',): return Bd.make(rng, 'Arc3D' if is3d else 'Arc2D')
    if n in ('sphere',): return Bd.make(rng, 'Sphere')
    if n in ('interpolated', 'flip', 'generate_centroids', 'circle', 'purge', 'include_edge_information', 'split',
             'check_intersection', 'raise_exception', 'enforce_right_hand'): return False
    if n in ('mesh', 'mesh_2d'): return Bd.make(rng, 'Mesh2D')
    if n in ('polyline',): return Bd.make(rng, 'Polyline3D' if is3d else 'Polyline2D')
    if n in ('z',): return 1.0
    if n in ('k',): return 2.0
    if n in ('x', 'y'): return rng.uniform(-5, 5)
    return inspect.Parameter.empty


def plain(v, depth=0):
    """value as nested lists / dicts / scalars (for comparison with a float tolerance)"""
    if depth > 8 or v is None or isinstance(v, (bool, int, float, str)):
        return v
    if isinstance(v, (list, tuple)):
        return [plain(x, depth + 1) for x in v]
    if isinstance(v, dict):
        return {str(k): plain(x, depth + 1) for k, x in v.items()}
    if hasattr(v, 'to_dict'):
        try:
            return plain(v.to_dict(), depth + 1)
        except Exception:
            pass
    if hasattr(v, 'to_array'):
        try:
            return plain(v.to_array(), depth + 1)
        except Exception:
            pass
    return repr(v)


def loose_eq(a, b):
    if isinstance(a, float) or isinstance(b, float):
        return isinstance(a, (int, float)) and isinstance(b, (int, float)) and not isinstance(a, bool) and not isinstance(b, bool) \
            and abs(a - b) <= 1e-9 * max(1.0, abs(a), abs(b))
    if isinstance(a, list) and isinstance(b, list):
        return len(a) == len(b) and all(loose_eq(x, y) for x, y in zip(a, b))
    if isinstance(a, dict) and isinstance(b, dict):
        return set(a) == set(b) and all(loose_eq(a[k], b[k]) for k in a)
    return a == b


def callables_of(cls):
    out = []
    for name in sorted(dir(cls)):
        if name.startswith('_') or name in SKIP:
            continue
        raw = inspect.getattr_static(cls, name)
        if isinstance(raw, property):
            out.append((name, 'property', None))
        elif isinstance(raw, staticmethod):
            out.append((name, 'static', raw.__func__))
        elif isinstance(raw, classmethod):
            out.append((name, 'class', raw.__func__))
        elif inspect.isfunction(raw):
            out.append((name, 'method', raw))
    return out


def build_args(fn, kind, rng, clsname, is3d):
    sig = inspect.signature(fn)
    params = list(sig.parameters.values())
    if kind in ('method', 'class'):
        params = params[1:]
    args = []
    for p in params:
        if p.kind in (p.VAR_POSITIONAL, p.VAR_KEYWORD):
            continue
        v = value_of(p.name, rng, clsname, is3d)
        if v is inspect.Parameter.empty:
            if p.default is not inspect.Parameter.empty:
                break
            return None
        args.append(v)
    return args


def run_one(ctx, rng, clsname, name, kind, fn):
    cls = getattr(g2, clsname, None) or getattr(g3, clsname)
    is3d = clsname not in Bd.CLASSES_2D
    try:
        recv = Bd.make(rng, clsname)
    except Exception:
        return
    if kind == 'property':
        before = snap(recv)
        try:
            r1 = getattr(recv, name); r2 = getattr(recv, name)
        except Exception:
            return
        ctx.count('api.%s' % clsname, key=name, nontrivial=True)
        if snap(recv) != before:
            ctx.violation('%s.%s:mutates_receiver' % (clsname, name), 'reading the property changed the observable value of the object', {'class': clsname, 'member': name})
        if snap(r1) != snap(r2):
            ctx.violation('%s.%s:not_repeatable' % (clsname, name), 'two reads gave different values', {'class': clsname, 'member': name})
        # a read leaves no trace: after reading some OTHER property first, this one has the value it has on an untouched equal object
        others = [n for n, k, _ in callables_of(cls) if k == 'property' and n != name]
        for mode in (['all', 'all', 'one', 'one'] if others else []):
            firsts = [rng.choice(others)] if mode == 'one' else rng.sample(others, len(others))
            try:
                a_ = Bd.make(rng, clsname); b_ = copy.deepcopy(a_)
            except Exception:
                return
            for first in firsts:
                try:
                    getattr(a_, first)
                except Exception:
                    pass
            try:
                va, vb = getattr(a_, name), getattr(b_, name)
            except Exception:
                continue
            if not loose_eq(plain(va), plain(vb)):
                ctx.violation('%s.%s:depends_on_earlier_read' % (clsname, name), 'after reading %s first the property is %s, on an untouched equal object %s' % (
                    firsts[0] if mode == 'one' else 'every other property', repr(snap(va))[:200], repr(snap(vb))[:200]),
                    {'class': clsname, 'member': name, 'first': firsts, 'object': a_.to_dict() if hasattr(a_, 'to_dict') else repr(a_)})
                break
        return
    args = build_args(fn, kind, rng, clsname, is3d)
    if args is None:
        ctx.count('api.unbuildable', key=(clsname, name), nontrivial=False)
        return
    target = recv if kind == 'method' else cls
    before_r = snap(recv) if kind == 'method' else None
    before_a = [snap(a) for a in args]
    args2 = copy.deepcopy(args)
    try:
        r1 = getattr(target, name)(*args)
    except Exception:
        ctx.count('api.raised', key=(clsname, name), nontrivial=False)
        return
    ctx.count('api.%s' % clsname, key=name, sample={'class': clsname, 'member': name, 'args': [type(a).__name__ for a in args]}, nontrivial=True)
    desc = {'class': clsname, 'member': name, 'args': [repr(b)[:200] for b in before_a]}
    if kind == 'method' and snap(recv) != before_r:
        ctx.violation('%s.%s:mutates_receiver' % (clsname, name), 'the receiver changed its observable value', desc); return
    after_a = [snap(a) for a in args]
    for i, (b, a) in enumerate(zip(before_a, after_a)):
        if a != b:
            pname = list(inspect.signature(fn).parameters)[i + (1 if kind in ('method', 'class') else 0)]
            if (clsname, name, pname) in RETURNED_UPDATED:
                continue
            ctx.violation('%s.%s:mutates_argument:%s' % (clsname, name, pname), 'argument %r changed from %s to %s' % (
                pname, repr(b)[:160], repr(a)[:160]), desc); return
    # repeat on the same (deep-copied, equal) arguments
    try:
        recv2 = recv if kind == 'method' else cls
        r2 = getattr(recv2, name)(*args2)
    except Exception as e:
        ctx.violation('%s.%s:not_repeatable' % (clsname, name), 'second call on equal arguments raised %r' % (e,), desc); return
    if snap(r1) != snap(r2):
        ctx.violation('%s.%s:not_repeatable' % (clsname, name), 'second call on equal arguments returned a different value', desc)


def module_functions():
    out = []
    for mod in (intersection2d, intersection3d, bounding):
        for name, fn in sorted(vars(mod).items()):
            if inspect.isfunction(fn) and not name.startswith('_') and fn.__module__ == mod.__name__:
                out.append((mod.__name__.split('.')[-1], name, fn))
    return out


def run_module_fn(ctx, rng, modname, name, fn):
    is3d = '3d' in name or modname == 'intersection3d'
    args = build_args(fn, 'static', rng, 'LineSegment3D' if is3d else 'LineSegment2D', is3d)
    if args is None:
        ctx.count('api.unbuildable', key=(modname, name), nontrivial=False); return
    before = [snap(a) for a in args]
    args2 = copy.deepcopy(args)
    try:
        r1 = fn(*args)
    except Exception:
        ctx.count('api.raised', key=(modname, name), nontrivial=False); return
    ctx.count('api.' + modname, key=name, sample={'module': modname, 'function': name}, nontrivial=True)
    desc = {'module': modname, 'function': name, 'args': [repr(b)[:200] for b in before]}
    if [snap(a) for a in args] != before:
        ctx.violation('%s.%s:mutates_argument' % (modname, name), 'an argument changed', desc); return
    try:
        r2 = fn(*args2)
    except Exception as e:
        ctx.violation('%s.%s:not_repeatable' % (modname, name), 'second call raised %r' % (e,), desc); return
    if snap(r1) != snap(r2):
        ctx.violation('%s.%s:not_repeatable' % (modname, name), 'second call returned a different value', desc)


def caller_lists(ctx, rng):
    """the constructors that take caller-owned lists"""
    b = [P2(p) for p in G.star_polygon(rng, n=6, R=10.0, center=(0.0, 0.0))]
    hs_raw = G.holes_in(rng, [(p.x, p.y) for p in b], 2)
    if not hs_raw:
        return
    holes = [[P2(p) for p in h] for h in hs_raw]
    for name in ('from_shape_with_holes', 'from_shape_with_holes_fast', 'from_shape_with_hole'):
        bb, hh = list(b), [list(h) for h in holes]
        before = (snap(bb), snap(hh))
        try:
            if name == 'from_shape_with_hole':
                Polygon2D.from_shape_with_hole(bb, hh[0])
            else:
                getattr(Polygon2D, name)(bb, hh)
        except Exception:
            continue
        ctx.count('api.caller_lists', key=name, sample={'method': name})
        if (snap(bb), snap(hh)) != before:
            ctx.violation('Polygon2D.%s:mutates_argument:lists' % name, 'the caller\'s boundary / holes lists were changed (boundary %d -> %d points, holes %d -> %d)' % (
                len(b), len(bb), len(holes), len(hh)), {'method': name})
    # Face3D with holes given as lists
    b3 = [P3((p.x, p.y, 0.0)) for p in b]; h3 = [[P3((p.x, p.y, 0.0)) for p in h] for h in holes]
    bb, hh = list(b3), [list(h) for h in h3]
    before = (snap(bb), snap(hh))
    Face3D(bb, None, hh)
    if (snap(bb), snap(hh)) != before:
        ctx.violation('Face3D.__init__:mutates_argument:lists', 'the caller\'s boundary / holes lists were changed', {})
    # a holed face cut by lines / a polyline: the face's own list of hole polygons (handed to the graph builder) and a caller's holes list
    # given to DirectedGraphNetwork.from_shape_to_split keep their values
    from ladybug_geometry.geometry3d import LineSegment3D
    from ladybug_geometry.network import DirectedGraphNetwork
    face = Face3D(list(b3), None, [list(h) for h in h3])
    hp_before = snap([list(hp.vertices) for hp in face.hole_polygon2d]); holes_before = snap([list(h) for h in face.holes])
    xs = [p.x for p in b]; ys = [p.y for p in b]
    cut = LineSegment3D.from_end_points(P3((min(xs) - 1.0, (min(ys) + max(ys)) / 2 + 0.37, 0.0)), P3((max(xs) + 1.0, (min(ys) + max(ys)) / 2 - 0.41, 0.0)))
    for name, call in (('split_with_line', lambda: face.split_with_line(cut, 0.01)), ('split_with_lines', lambda: face.split_with_lines([cut], 0.01))):
        try:
            call()
        except Exception:
            continue
        ctx.count('api.caller_lists', key=name, sample={'method': name})
        if snap([list(hp.vertices) for hp in face.hole_polygon2d]) != hp_before or snap([list(h) for h in face.holes]) != holes_before:
            ctx.violation('Face3D.%s:mutates_receiver:hole_polygon2d' % name, 'after the split the face reports different hole polygons (vertex order / count) than before', {'method': name}); break
    hpolys = [Polygon2D(list(h)) for h in holes]
    hp_snap = snap([list(hp.vertices) for hp in hpolys]); ids = [id(hp) for hp in hpolys]
    try:
        from ladybug_geometry.geometry2d import LineSegment2D
        DirectedGraphNetwork.from_shape_to_split(Polygon2D(list(b)), hpolys, [LineSegment2D.from_end_points(P2((cut.p1.x, cut.p1.y)), P2((cut.p2.x, cut.p2.y)))], 0.01)
        ctx.count('api.caller_lists', key='from_shape_to_split', sample={'method': 'DirectedGraphNetwork.from_shape_to_split'})
        if snap([list(hp.vertices) for hp in hpolys]) != hp_snap or [id(hp) for hp in hpolys] != ids:
            ctx.violation('DirectedGraphNetwork.from_shape_to_split:mutates_argument:holes', 'the caller\'s list of hole polygons was changed', {})
    except Exception:
        pass
    # caller-owned list of faces of a solid, some of them wound inward (the routines re-orient faces: on copies only)
    from .C07 import solid_faces, perturb
    fam, faces, _ip = solid_faces(rng)
    pert, flips = perturb(rng, faces)
    for name in ('get_outward_faces', 'from_faces'):
        lst = list(pert)
        before = snap(lst); ids = [id(f) for f in lst]
        try:
            r = getattr(Polyface3D, name)(lst, 0.01)
        except Exception:
            continue
        ctx.count('api.caller_lists', key=(name, flips > 0), sample={'method': name, 'inward_faces': flips})
        if snap(lst) != before or [id(f) for f in lst] != ids:
            ctx.violation('Polyface3D.%s:mutates_argument:faces' % name, 'the caller\'s list of faces was changed (%d of %d faces were given inward)' % (
                flips, len(lst)), {'method': name, 'family': fam})
        elif name == 'get_outward_faces' and r is lst:
            ctx.violation('Polyface3D.get_outward_faces:returns_argument', 'the returned list is the caller\'s own list object', {'method': name})


WORKLOAD = r'''
import sys, json, hashlib, random
sys.path.insert(0, %r); sys.path.insert(0, %r)
%s
from harness import gens as G, build as Bd
from ladybug_geometry.geometry2d import Polygon2D, Polyline2D, LineSegment2D
from ladybug_geometry.geometry3d import Face3D, Polyface3D, Polyline3D
rng = random.Random(12345)
out = []
for _ in range(6):
    a, b = Bd.make(rng, 'Polygon2D'), Bd.make(rng, 'Polygon2D')
    out.append([p.to_array() for p in a.boolean_union(b, 0.01)])
    out.append([p.to_array() for p in Polygon2D.boolean_split(a, b, 0.01)[0]])
    out.append(a.pole_of_inaccessibility(0.01).to_array())
    f = Bd.face3d(rng, nholes=1)
    out.append([tuple(fc) for fc in f.triangulated_mesh3d.faces])
    pf = Bd.prism(rng)
    out.append([e.to_array() for e in pf.naked_edges] + [e.to_array() for e in pf.internal_edges])
    segs = [s for s in Bd.make(rng, 'Polygon2D').segments] + [s for s in Bd.make(rng, 'Polygon2D').segments]
    rng.shuffle(segs)
    out.append([x.to_array() for x in Polyline2D.join_segments(segs, 0.01)])
    faces = list(pf.faces)
    out.append([fc.to_array() if hasattr(fc, 'to_array') else repr(fc) for fc in Face3D.join_coplanar_faces(faces[:2], 0.01)] if hasattr(Face3D, 'join_coplanar_faces') else 0)
    out.append(Polygon2D.group_by_overlap([a, b, Bd.make(rng, 'Polygon2D')], 0.01).__len__())
    # the graph used by the face splitters: adjacency ORDER after editing a node with several links, and what is derived from it
    from ladybug_geometry.network import DirectedGraphNetwork
    from ladybug_geometry.geometry2d import Point2D
    net = DirectedGraphNetwork.from_polygon(a, 0.01)
    nodes = net.ordered_nodes
    n0 = nodes[0]; nx = n0.adj_lst[0]
    net.add_adj(n0, [nodes[2].pt, nodes[len(nodes) // 2 + 1].pt, nodes[-2].pt])
    net.insert_node(n0, Point2D((n0.pt.x + nx.pt.x) / 2, (n0.pt.y + nx.pt.y) / 2), nx, exterior=True)
    net.remove_adj(n0, [nodes[-2].key])
    out.append([[m.key for m in nd.adj_lst] for nd in net.ordered_nodes])
    try:
        out.append([[str(m.pt) for m in cyc] for cyc in net.exterior_cycles()])
    except Exception as e:
        out.append(repr(type(e)))
    out.append(str(DirectedGraphNetwork.next_exterior_node(n0)))
    sq = Face3D.from_rectangle(8.0, 6.0)
    from ladybug_geometry.geometry3d import LineSegment3D, Point3D
    cuts = [LineSegment3D.from_end_points(Point3D(-1, 2, 0), Point3D(9, 3, 0)), LineSegment3D.from_end_points(Point3D(3, -1, 0), Point3D(4, 7, 0))]
    out.append([fc.to_array() for fc in (sq.split_with_lines(cuts, 0.01) or [])])
print(hashlib.sha1(json.dumps(out, sort_keys=True, default=str).encode()).hexdigest())
'''


def digest(seed_env, clock_patch=''):
    code = WORKLOAD % (core.REPO, core.VERIF, clock_patch)
    env = dict(os.environ, PYTHONHASHSEED=seed_env, PYTHONPATH=core.REPO)
    p = subprocess.run([sys.executable, '-c', code], env=env, stdout=subprocess.PIPE, stderr=subprocess.PIPE, text=True, timeout=600)
    return p.stdout.strip() or ('ERROR ' + p.stderr.strip()[-300:])


def hash_seed_determinism(ctx):
    ds = {s: digest(s) for s in ('0', '1', '2', 'random')}
    ctx.count('determinism.hashseed', key=tuple(sorted(set(ds.values()))), sample=ds)
    if any(v.startswith('ERROR') for v in ds.values()):
        ctx.note('workload error: %r' % ds)
        ctx.violation('determinism:workload_raises', 'the fixed workload (public operations on generated valid inputs) raised: %s' % (
            [v for v in ds.values() if v.startswith('ERROR')][0][-300:],), ds)
        return
    if len(set(ds.values())) != 1:
        ctx.violation('determinism:hash_seed', 'results differ across PYTHONHASHSEED: %r' % ds, ds)
    # the wall clock: time.time() frozen, and running backwards
    froz = digest('0', 'import time as _t\n_t.time = lambda: 0.0\n')
    back = digest('0', 'import time as _t, itertools as _i\n_c = _i.count()\n_t.time = lambda: -float(next(_c))\n')
    ctx.count('determinism.clock', key=(froz == ds['0'], back == ds['0']), sample={'normal': ds['0'], 'frozen': froz, 'backwards': back})
    if froz != ds['0'] or back != ds['0']:
        ctx.violation('determinism:wall_clock', 'results depend on time.time(): normal %s frozen %s backwards %s' % (ds['0'], froz, back),
                      {'normal': ds['0'], 'frozen': froz, 'backwards': back})


def explore(ctx):
    rng = ctx.rng
    reps = ctx.n(1, 6)
    for _ in range(reps):
        for clsname in Bd.ALL_CLASSES:
            cls = getattr(g2, clsname, None) or getattr(g3, clsname)
            for name, kind, fn in callables_of(cls):
                try:
                    run_one(ctx, rng, clsname, name, kind, fn)
                except Exception as e:
                    ctx.note('harness error on %s.%s: %r' % (clsname, name, e))
        for modname, name, fn in module_functions():
            try:
                run_module_fn(ctx, rng, modname, name, fn)
            except Exception as e:
                ctx.note('harness error on %s.%s: %r' % (modname, name, e))
        caller_lists(ctx, rng)
    hash_seed_determinism(ctx)


# lists the library documents as returned updated (the property exempts exactly these)
RETURNED_UPDATED = {('Polygon2D', 'intersect_polygon_segments', 'polygon_list')}


def replay(ctx, data):
    kind = data.get('kind', '')
    c2 = core.Ctx(ctx.pid, 'quick', 43)
    for _ in range(3):
        explore(c2)
        if any(v.kind == kind for v in c2.violations):
            return True
    return False


def correspond(ctx):
    pass
