(* C17 (Q part): point_at is the point at fraction t; splitting by a plane gives consecutive pieces that
   meet on the plane and whose direction vectors add up to the original (so lengths add, being collinear). *)
From LBG Require Import Base QGeom G0_vec G1_shapes G2_inter G8_curve C11_inter2d C12_closest C11_inter3d.
Open Scope Q_scope.

Theorem segment2_point_at l t : LineSegment2D_point_at l t =2= on2 l t.
Proof. unfold LineSegment2D_point_at, Vector2D_op_add, Vector2D_op_mul, on2. split; vred; ring. Qed.

Theorem segment2_point_at_fraction l t : sqd2 (lr2p l) (LineSegment2D_point_at l t) == t * t * dot2 (lr2v l) (lr2v l).
Proof. unfold LineSegment2D_point_at, Vector2D_op_add, Vector2D_op_mul, sqd2, dot2, sub2. vred. ring. Qed.

Theorem segment2_ends l : LineSegment2D_point_at l 0 =2= lr2p l /\ LineSegment2D_point_at l 1 =2= LineSegment2D_p2 l.
Proof. unfold LineSegment2D_point_at, LineSegment2D_p2, Vector2D_op_add, Vector2D_op_mul. repeat split; vred; ring. Qed.

Theorem segment3_point_at l t : LineSegment3D_point_at l t =3= on3 l t.
Proof. unfold LineSegment3D_point_at, Vector3D_op_add, Vector3D_op_mul, on3. repeat split; vred; ring. Qed.

Theorem segment3_point_at_fraction l t : sqd3 (lr3p l) (LineSegment3D_point_at l t) == t * t * dot3 (lr3v l) (lr3v l).
Proof. unfold LineSegment3D_point_at, Vector3D_op_add, Vector3D_op_mul, sqd3, dot3, sub3. vred. ring. Qed.

(* splitting a segment with a plane *)
Theorem split_with_plane_pieces l pl :
  (LineSegment3D_split_with_plane l pl = [l]) \/
  exists u, in_seg u /\
    LineSegment3D_split_with_plane l pl =
      [mkLR3 (lr3p l) (sub3 (on3 l u) (lr3p l)); mkLR3 (on3 l u) (sub3 (LineSegment3D_p2 l) (on3 l u))] /\
    on_plane pl (on3 l u) /\
    (* the two direction vectors are u*v and (1-u)*v: consecutive, collinear, and they add up to v *)
    sub3 (on3 l u) (lr3p l) =3= smul3 u (lr3v l) /\ sub3 (LineSegment3D_p2 l) (on3 l u) =3= smul3 (1 - u) (lr3v l).
Proof.
  unfold LineSegment3D_split_with_plane, Base1DIn3D_intersect_plane. cbv zeta.
  destruct (intersect_line3d_plane_seg l pl) as [p|] eqn:E; [right| left; reflexivity].
  destruct (line3d_plane_seg_sound _ _ _ E) as (u & Hu & -> & Hp).
  exists u. split; [exact Hu|]. split; [reflexivity|]. split; [exact Hp|].
  unfold sub3, on3, smul3, LineSegment3D_p2. split; repeat split; vred; ring.
Qed.
