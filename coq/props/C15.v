(* C15 -- vertex clean-up.  PARTIAL: "only original vertices, original order, exact criterion" are proved
   for the generated Polygon2D code; corner preservation, redundancy removal across the seam and idempotence
   are validated on decorated loops over every rotation and both orientations. *)
From LBG Require Import Base QGeom ListCyc G0_vec G1_shapes G2_inter G3_poly G9_clean C15_clean C15_polyline.
Open Scope Q_scope.

Theorem C15_remove_duplicates_keeps_order : forall p tol,
  sublist (pg_vertices (Polygon2D_remove_duplicate_vertices p tol)) (pg_vertices p).
Proof. exact remove_duplicates_sublist. Qed.
Print Assumptions C15_remove_duplicates_keeps_order.

Theorem C15_remove_duplicates_criterion : forall p tol i v, In (i, v) (py_enumerate (pg_vertices p)) ->
  (In (i, v) (filter (fun ip => negb (Vector2D_is_equivalent (snd ip) (py_nth (pg_vertices p) (fst ip - 1) (mkV2 0 0)) tol))
                     (py_enumerate (pg_vertices p)))
   <-> ~ (Qabs (v2x v - v2x (py_nth (pg_vertices p) (i - 1) (mkV2 0 0))) <= tol /\
          Qabs (v2y v - v2y (py_nth (pg_vertices p) (i - 1) (mkV2 0 0))) <= tol)).
Proof. exact remove_duplicates_criterion. Qed.
Print Assumptions C15_remove_duplicates_criterion.

Theorem C15_remove_duplicates_is_that_filter : forall p tol,
  pg_vertices (Polygon2D_remove_duplicate_vertices p tol) =
  map snd (filter (fun ip => negb (Vector2D_is_equivalent (snd ip) (py_nth (pg_vertices p) (fst ip - 1) (mkV2 0 0)) tol))
                  (py_enumerate (pg_vertices p))).
Proof. exact remove_duplicates_is_filter. Qed.
Print Assumptions C15_remove_duplicates_is_that_filter.

Theorem C15_remove_colinear_only_original_vertices : forall qsqrt p tol v, pg_vertices p <> [] ->
  In v (pg_vertices (Polygon2D_remove_colinear_vertices qsqrt p tol)) -> In v (pg_vertices p).
Proof. exact remove_colinear_only_original_vertices. Qed.
Print Assumptions C15_remove_colinear_only_original_vertices.

(* an exactly collinear mid-edge vertex and a duplicate are removed, the corners stay (square with extras) *)
(* ---- open polylines: Polyline2D.remove_colinear_vertices, generated from the source (index loop with a `skip` counter) ---------- *)
Theorem C15_polyline2d_remove_colinear_is_the_scan : forall (p : Polyline2R) tol,
  let L := pl2_vertices p in (3 <= length L)%nat ->
  (length L = 3%nat -> Polyline2D_remove_colinear_vertices p tol = p) /\
  (length L <> 3%nat ->
   pl2_vertices (Polyline2D_remove_colinear_vertices p tol)
   = hd (mkV2 0 0) L :: scan tol (hd (mkV2 0 0) L) (tl L) ++ [last L (mkV2 0 0)]).
Proof. exact polyline_remove_colinear_spec. Qed.
Print Assumptions C15_polyline2d_remove_colinear_is_the_scan.

Theorem C15_polyline2d_remove_colinear_keeps_the_interpolated_flag : forall (p : Polyline2R) tol,
  pl2_interp (Polyline2D_remove_colinear_vertices p tol) = pl2_interp p.
Proof. exact polyline_remove_colinear_keeps_flag. Qed.
Print Assumptions C15_polyline2d_remove_colinear_keeps_the_interpolated_flag.

(* the scan keeps only original interior vertices; it keeps all of them when every one is a corner whatever vertex precedes it *)
Theorem C15_polyline_scan_keeps_only_original_vertices : forall tol l prev v, In v (scanp tol prev l) -> In v (map fst l).
Proof. exact scanp_sub. Qed.
Print Assumptions C15_polyline_scan_keeps_only_original_vertices.

Theorem C15_polyline_scan_keeps_every_corner : forall tol l prev,
  (forall v n, In (v, n) l -> forall a, tol <= Qabs (tri2 a v n)) -> scanp tol prev l = map fst l.
Proof. exact scanp_keeps_corners. Qed.
Print Assumptions C15_polyline_scan_keeps_every_corner.

Example C15_polyline_nonvacuous :
  pl2_vertices (Polyline2D_remove_colinear_vertices
    (mkPolyline2 [mkV2 0 0; mkV2 1 0; mkV2 2 0; mkV2 2 1; mkV2 2 2; mkV2 0 2] false) (1 # 100))
  = [mkV2 0 0; mkV2 2 0; mkV2 2 2; mkV2 0 2].
Proof. vm_compute. reflexivity. Qed.

Example C15_nonvacuous :
  let p := mkPolygon2 [mkV2 0 0; mkV2 2 0; mkV2 4 0; mkV2 4 0; mkV2 4 4; mkV2 0 4] in
  map (fun v => (v2x v, v2y v)) (pg_vertices (Polygon2D_remove_colinear_vertices qsqrt_exec p (1 # 100)))
    = [(0, 4); (0, 0); (4, 0); (4, 4)] /\
  length (pg_vertices (Polygon2D_remove_duplicate_vertices p (1 # 100))) = 5%nat.
Proof. vm_compute. split; reflexivity. Qed.

(* Face3D's vertex clean-up (generated Face3D._remove_colinear, used for the boundary and every hole, and by extract_rectangle before
   sub_faces_by_ratio_rectangle) IS Polygon2D.remove_colinear_vertices run on the loop's 2D polygon: for 3D vertices that are the images of
   the 2D ones under any map, it keeps exactly the images of the vertices the 2D routine keeps - same test, same clamp, same seam patch *)
From Coq Require Import List.
From LBG Require Import Base G0_vec G3_poly G4_face G9_clean C15_face.
Theorem C15_face_cleanup_is_the_polygon_cleanup : forall (qsqrt : Q -> Q) (emb : V2 -> V3) (self : Face3R) (p : Polygon2R) (tol : Q),
  pg_vertices p <> nil ->
  Face3D__remove_colinear qsqrt self (map emb (pg_vertices p)) p tol
  = map emb (pg_vertices (Polygon2D_remove_colinear_vertices qsqrt p tol)).
Proof. exact face_remove_colinear_is_the_2d_routine. Qed.
Print Assumptions C15_face_cleanup_is_the_polygon_cleanup.
