"""C07  closed polyfaces are solid, outward-facing, with correct edge classes."""
import math
from fractions import Fraction
from .. import core, gens as G, exact as X, build as Bd
from ..core import q, z, F
from ..build import P2, V2, P3, V3
from ladybug_geometry.geometry2d import Mesh2D
from ladybug_geometry.geometry3d import Face3D, Polyface3D, Mesh3D, Plane

RULE = ('prisms over random simple polygons (with/without holes), pyramids, boxes, L-extrusions in random rigid placement, faces '
        'shuffled, randomly flipped and re-started; open variants with 1..2 faces removed / duplicated; random tri/quad meshes. '
        'non-trivial = faces were permuted or flipped; distinct by (solid family, face count, perturbation)')
ASSUMPTIONS = ['outwardness checked by the sign of the exact divergence volume of the returned faces and a known interior point']
TRUSTED = ['EdgeInfo.v is a hand model of the edge loop, tied by vm_compute correspondence on random meshes']
TOL = 0.01


def solid_faces(rng):
    """(family, list of Face3D forming a closed 2-manifold, interior point)"""
    fam = rng.choice(['prism', 'prism', 'prism_hole', 'pyramid', 'box', 'lextrusion'])
    frame = G.rational_frame(rng); o = G.rpt3(rng, 100.0)
    emb = lambda p, h=0.0: P3(tuple(o[i] + p[0] * frame[0][i] + p[1] * frame[1][i] + h * frame[2][i] for i in range(3)))
    if fam in ('prism', 'prism_hole', 'lextrusion'):
        if fam == 'lextrusion':
            b = [(0.0, 0.0), (6.0, 0.0), (6.0, 2.0), (2.0, 2.0), (2.0, 5.0), (0.0, 5.0)]
        else:
            b = G.star_polygon(rng, n=rng.randint(3, 8), R=10.0, center=(0.0, 0.0))
        hs = G.holes_in(rng, b, rng.choice([1, 2, 2, 3])) if fam == 'prism_hole' else []
        h = G.dy(rng.uniform(1, 9))
        base = Face3D([emb(p) for p in b], holes=[[emb(p) for p in x] for x in hs] or None)
        pf = Polyface3D.from_offset_face(base, h)
        faces = list(pf.faces)
        # interior point: centroid of a base triangle, lifted
        c2 = base.triangulated_mesh3d.face_centroids[0]
        n = base.normal
        inside = (c2.x + n.x * h / 2, c2.y + n.y * h / 2, c2.z + n.z * h / 2)
        return fam, faces, inside
    if fam == 'pyramid':
        b = G.convex_polygon(rng, n=rng.randint(3, 7), R=8.0, center=(0.0, 0.0))
        h = G.dy(rng.uniform(2, 9))
        apex = emb((0.0, 0.0), h)
        faces = [Face3D([emb(p) for p in b[::-1]])]
        for i in range(len(b)):
            faces.append(Face3D([emb(b[i]), emb(b[(i + 1) % len(b)]), apex]))
        ip = emb((G.dy(rng.uniform(-0.3, 0.3)), G.dy(rng.uniform(-0.3, 0.3))), h / 4 * rng.uniform(0.5, 1.5))
        return fam, faces, tuple(ip)
    pl = Bd.plane(rng)
    w, d, h = G.dy(rng.uniform(1, 9)), G.dy(rng.uniform(1, 9)), G.dy(rng.uniform(1, 9))
    pf = Polyface3D.from_box(w, d, h, pl)
    c = pf.center
    return fam, list(pf.faces), tuple(c)


def perturb(rng, faces):
    faces = list(faces)
    rng.shuffle(faces)
    out = []
    flips = 0
    for f in faces:
        if rng.random() < 0.5:
            f = f.flip(); flips += 1
        if f.holes is None and rng.random() < 0.5:
            k = rng.randrange(len(f.boundary))
            f = Face3D(f.boundary[k:] + f.boundary[:k])
        out.append(f)
    return out, flips


def exact_volume(faces):
    vol = Fraction(0)
    for fc in faces:
        vs = [X.fpt(p) for p in fc.vertices]
        vol += X.dot(vs[0], X.newell(vs))
    return vol / 6


def independent_edge_count(vertices, face_loops):
    """undirected edge -> number of (face, position) incidences"""
    cnt = {}
    for loops in face_loops:
        for lp in loops:
            for i in range(len(lp)):
                a, b = lp[i - 1], lp[i]
                if a != b:
                    k = (min(a, b), max(a, b))
                    cnt[k] = cnt.get(k, 0) + 1
    return cnt


def check_edges(ctx, kind, obj, face_loops, desc):
    cnt = independent_edge_count(obj.vertices, face_loops)
    got = {}
    if not hasattr(obj, 'edge_indices'):
        obj.edges       # meshes compute their edge information lazily
        e_i, e_t = obj._edge_indices, obj._edge_types
    else:
        e_i, e_t = obj.edge_indices, obj.edge_types
    for e, t in zip(e_i, e_t):
        k = (min(e), max(e))
        if k in got:
            ctx.violation(kind + ':edge_listed_twice', 'edge %r listed twice' % (k,), desc); return False
        got[k] = t
    if set(got) != set(cnt):
        ctx.violation(kind + ':edge_set', 'edge set differs from the independent count: extra %s missing %s' % (
            sorted(set(got) - set(cnt))[:4], sorted(set(cnt) - set(got))[:4]), desc); return False
    for k in cnt:
        if got[k] + 1 != cnt[k]:
            ctx.violation(kind + ':edge_type', 'edge %r type %d but %d faces use it' % (k, got[k], cnt[k]), desc); return False
    n_naked = sum(1 for v in cnt.values() if v == 1); n_int = sum(1 for v in cnt.values() if v == 2); n_nm = sum(1 for v in cnt.values() if v > 2)
    if (len(obj.naked_edges), len(obj.internal_edges), len(obj.non_manifold_edges)) != (n_naked, n_int, n_nm):
        ctx.violation(kind + ':edge_lists', 'naked/internal/non-manifold = %r, independent count %r' % (
            (len(obj.naked_edges), len(obj.internal_edges), len(obj.non_manifold_edges)), (n_naked, n_int, n_nm)), desc); return False
    return True


def fam_solid(ctx, rng):
    fam, faces, inside = solid_faces(rng)
    pert, flips = perturb(rng, faces)
    desc = {'family': fam, 'faces': [f.to_dict() for f in pert], 'interior_point': inside}
    ctx.count('solid.' + fam, key=(len(faces), flips), sample={'family': fam, 'faces': len(faces), 'flipped': flips}, nontrivial=True)
    try:
        pf = Polyface3D.from_faces(pert, TOL)
    except Exception as e:
        ctx.violation('solid.%s:raises' % fam, '%r' % (e,), desc); return
    kind = 'solid.' + fam
    if not pf.is_solid:
        ctx.violation(kind + ':not_solid', 'closed manifold reported as not solid (edge types %r)' % (pf.edge_types,), desc); return
    if len(pf.naked_edges) or len(pf.non_manifold_edges):
        ctx.violation(kind + ':edge_classes', 'naked %d, non-manifold %d on a closed manifold' % (len(pf.naked_edges), len(pf.non_manifold_edges)), desc); return
    if not check_edges(ctx, kind, pf, pf.face_indices, desc):
        return
    vol = exact_volume(pf.faces)
    ref = abs(exact_volume(faces))
    if vol <= 0:
        ctx.violation(kind + ':not_outward', 'faces do not all point outward: exact divergence volume %r' % float(vol), desc); return
    if not X.close(vol, ref, 1e-8) or not X.close(pf.volume, ref, 1e-8):
        ctx.violation(kind + ':volume', 'volume %r (faces give %r), enclosed volume %r' % (pf.volume, float(vol), float(ref)), desc); return
    # every face normal points away from the interior point
    ip = X.fpt(inside)
    for f in pf.faces:
        d = X.dot(X.fpt(f.normal), X.sub(X.fpt(f.vertices[0]), ip))
        if fam in ('pyramid', 'box') and d <= 0:
            ctx.violation(kind + ':normal_inward', 'a face normal points towards the interior point', desc); return
    if not pf.is_point_inside(P3(inside)):
        ctx.violation(kind + ':interior_point', 'known interior point reported outside', desc)


def fam_factory(ctx, rng):
    """polyfaces as the factories make them (from_offset_face with and without holes, from_box): their own edge lists - written by the
    factory, not counted - agree with the independent incidence count of their face_indices"""
    frame = G.rational_frame(rng); o = G.rpt3(rng, 100.0)
    emb = lambda p, h=0.0: P3(tuple(o[i] + p[0] * frame[0][i] + p[1] * frame[1][i] + h * frame[2][i] for i in range(3)))
    which = rng.choice(['offset', 'offset_holes', 'offset_holes', 'box'])
    if which == 'box':
        pf = Polyface3D.from_box(G.dy(rng.uniform(1, 9)), G.dy(rng.uniform(1, 9)), G.dy(rng.uniform(1, 9)), Bd.plane(rng))
        desc = {'factory': 'from_box', 'polyface': pf.to_dict()}
    else:
        b = G.star_polygon(rng, n=rng.randint(3, 8), R=10.0, center=(0.0, 0.0))
        hs = G.holes_in(rng, b, rng.choice([1, 2, 3])) if which == 'offset_holes' else []
        base = Face3D([emb(p) for p in b], holes=[[emb(p) for p in x] for x in hs] or None)
        h = G.dy(rng.uniform(1, 9))
        pf = Polyface3D.from_offset_face(base, h)
        desc = {'factory': 'from_offset_face', 'face': base.to_dict(), 'height': h}
        which = 'offset_holes' if hs else 'offset'
    kind = 'factory.' + which
    ctx.count(kind, key=(len(pf.vertices), len(pf.faces)), sample={'factory': which, 'faces': len(pf.faces)}, nontrivial=True)
    if not pf.is_solid:
        ctx.violation(kind + ':not_solid', 'factory solid reported as not solid', desc); return
    if not check_edges(ctx, kind, pf, pf.face_indices, desc):
        return
    # every reported edge segment joins the two vertices its indices name
    for (i, j), sg in zip(pf.edge_indices, pf.edges):
        a, b = pf.vertices[i], pf.vertices[j]
        if min(sg.p1.distance_to_point(a) + sg.p2.distance_to_point(b), sg.p1.distance_to_point(b) + sg.p2.distance_to_point(a)) > 1e-9 * 200:
            ctx.violation(kind + ':edge_geometry', 'edge %r does not join its two vertices' % ((i, j),), desc); return


def fam_placed_by_library(ctx, rng):
    """a solid built at the origin, then placed with the library's OWN transforms (rotate about a general axis, then move; or move,
    rotate_xy, scale ...), its faces shuffled and partly flipped before Polyface3D.from_faces: solid, outward, enclosed volume"""
    b = rng.choice([[(0.0, 0.0), (6.0, 0.0), (6.0, 2.0), (2.0, 2.0), (2.0, 5.0), (0.0, 5.0)],
                    G.star_polygon(rng, n=rng.randint(4, 7), R=8.0, center=(0.0, 0.0))])
    hs = G.holes_in(rng, b, 1) if rng.random() < 0.3 else []
    h = G.dy(rng.uniform(1, 6))
    base = Face3D([P3((p[0], p[1], 0.0)) for p in b], holes=[[P3((p[0], p[1], 0.0)) for p in x] for x in hs] or None)
    pf0 = Polyface3D.from_offset_face(base, h)
    ref = abs(exact_volume(pf0.faces))
    seq = rng.choice([('rotate', 'move'), ('rotate', 'move'), ('rotate_xy', 'move'), ('move', 'rotate'), ('rotate', 'scale', 'move'), ('reflect', 'move')])
    faces = list(pf0.faces)
    k_tot = 1.0
    for op in seq:
        if op == 'rotate':
            ax, ang, og = V3(G.rvec3(rng, 3)), rng.uniform(0.3, 2.8), P3(G.rpt3(rng, 10))
            faces = [f.rotate(ax, ang, og) for f in faces]
        elif op == 'rotate_xy':
            ang, og = rng.uniform(0.3, 2.8), P3(G.rpt3(rng, 10))
            faces = [f.rotate_xy(ang, og) for f in faces]
        elif op == 'move':
            mv = V3(G.rvec3(rng, 20))
            faces = [f.move(mv) for f in faces]
        elif op == 'scale':
            k = rng.choice([0.5, 2.0]); og = P3(G.rpt3(rng, 10)); k_tot *= k
            faces = [f.scale(k, og) for f in faces]
        else:
            nrm, og = V3(G.rational_frame(rng)[2]), P3(G.rpt3(rng, 10))
            faces = [f.reflect(nrm, og) for f in faces]
    pert, flips = perturb(rng, faces)
    desc = {'base': b, 'holes': hs, 'height': h, 'placement': list(seq), 'faces': [f.to_dict() for f in pert]}
    ctx.count('solid.placed', key=(seq, len(faces), flips), sample={'placement': list(seq), 'faces': len(faces), 'flipped': flips}, nontrivial=True)
    kind = 'solid.placed:' + '+'.join(seq)
    try:
        pf = Polyface3D.from_faces(pert, TOL)
    except Exception as e:
        ctx.violation(kind + ':raises', '%r' % (e,), desc); return
    if not pf.is_solid:
        ctx.violation(kind + ':not_solid', 'placed closed solid reported as not solid', desc); return
    vol = exact_volume(pf.faces)
    want = float(ref) * k_tot ** 3
    if vol <= 0:
        ctx.violation(kind + ':not_outward', 'faces do not all point outward after placement by %s: exact divergence volume %r (enclosed %r)' % (
            '+'.join(seq), float(vol), want), desc); return
    if abs(float(vol) - want) > 1e-7 * max(1.0, want) or abs(pf.volume - want) > 1e-7 * max(1.0, want):
        ctx.violation(kind + ':volume', 'volume %r (faces give %r), enclosed volume %r' % (pf.volume, float(vol), want), desc)


def fam_concave_caps(ctx, rng):
    """a prism over a concave base, one cap given wound inward and started at EVERY one of its vertices in turn (reflex corners
    included): the re-oriented solid is outward and has the enclosed volume"""
    frame = G.rational_frame(rng); o = G.rpt3(rng, 100.0)
    emb = lambda p, h=0.0: P3(tuple(o[i] + p[0] * frame[0][i] + p[1] * frame[1][i] + h * frame[2][i] for i in range(3)))
    if rng.random() < 0.5:
        b = [(0.0, 0.0), (6.0, 0.0), (6.0, 2.0), (2.0, 2.0), (2.0, 5.0), (0.0, 5.0)]
    else:
        b = G.star_polygon(rng, n=rng.randint(5, 8), R=10.0, center=(0.0, 0.0))
    h = G.dy(rng.uniform(1, 9))
    base = Face3D([emb(p) for p in b])
    faces = list(Polyface3D.from_offset_face(base, h).faces)
    ref = abs(exact_volume(faces))
    # the two caps are the faces with as many vertices as the base
    caps = [i for i, f in enumerate(faces) if len(f.boundary) == len(b)]
    for ci in caps[:2]:
        cap = faces[ci]
        for k in range(len(b)):
            bd = list(cap.boundary)
            bd = bd[k:] + bd[:k]
            inward = Face3D(bd[::-1])
            trial = list(faces); trial[ci] = inward
            desc = {'base': b, 'height': h, 'cap': ci, 'start': k, 'frame': frame, 'origin': o}
            ctx.count('solid.concave_cap', key=(len(b), ci, k), sample=desc)
            try:
                pf = Polyface3D.from_faces(trial, TOL)
                vol = exact_volume(pf.faces)
            except Exception as e:
                ctx.violation('solid.concave_cap:raises', '%r' % (e,), desc); return
            if vol <= 0 or not X.close(vol, ref, 1e-8) or not X.close(pf.volume, ref, 1e-8):
                ctx.violation('solid.concave_cap:not_outward', 'cap given inward from vertex %d: volume %r (faces give %r), enclosed volume %r' % (
                    k, pf.volume, float(vol), float(ref)), desc); return


def fam_open(ctx, rng):
    fam, faces, inside = solid_faces(rng)
    mode = rng.choice(['remove1', 'remove2', 'duplicate', 'remove_and_duplicate'])
    faces = list(faces)
    if mode == 'remove_and_duplicate':
        # one face missing AND another one (same vertex count when there is one) given twice: naked and non-manifold edges together
        gone = faces.pop(rng.randrange(len(faces)))
        removed = [gone]
        alike = [f for f in faces if len(f.vertices) == len(gone.vertices)] or faces
        faces.append(rng.choice(alike))
    elif mode == 'remove1':
        removed = [faces.pop(rng.randrange(len(faces)))]
    elif mode == 'remove2' and len(faces) > 4:
        removed = [faces.pop(rng.randrange(len(faces))), faces.pop(rng.randrange(len(faces)))]
    else:
        mode = 'duplicate'
        removed = []
        faces.append(faces[rng.randrange(len(faces))])
    desc = {'family': fam, 'mode': mode, 'faces': [f.to_dict() for f in faces]}
    ctx.count('open.' + mode, key=(fam, len(faces)), sample={'family': fam, 'mode': mode, 'faces': len(faces)})
    try:
        pf = Polyface3D.from_faces(faces, TOL)
    except Exception as e:
        ctx.violation('open.%s:raises' % mode, '%r' % (e,), desc); return
    kind = 'open.' + mode
    if pf.is_solid:
        ctx.violation(kind + ':solid', 'polyface with a %s face reported solid' % ('missing' if removed else 'duplicated'), desc); return
    if not check_edges(ctx, kind, pf, pf.face_indices, desc):
        return
    if mode in ('duplicate', 'remove_and_duplicate') and not pf.non_manifold_edges:
        ctx.violation(kind + ':no_non_manifold', 'duplicate face but no non-manifold edge', desc)
    if mode != 'duplicate' and not pf.naked_edges:
        ctx.violation(kind + ':no_naked', 'face removed but no naked edge', desc)


def fam_mesh(ctx, rng):
    v, f = Bd.tri_quad_mesh2d(rng)
    if rng.random() < 0.3 and len(f) > 1:
        f = list(f) + [f[0]]        # duplicated face: non-manifold edges
    if rng.random() < 0.5:
        m = Mesh2D([P2(p) for p in v], f)
    else:
        m = Mesh3D([P3((p[0], p[1], 0.5)) for p in v], f)
    desc = {'vertices': v, 'faces': [list(x) for x in f]}
    ctx.count('mesh.edges', key=(len(v), len(f)), sample=desc)
    check_edges(ctx, 'mesh', m, [[tuple(face)] for face in m.faces], desc)


FAMILIES = [(fam_factory, 30), (fam_placed_by_library, 30), (fam_concave_caps, 8), (fam_solid, 60), (fam_open, 40), (fam_mesh, 100)]


def explore(ctx):
    for fn, n in FAMILIES:
        for _ in range(ctx.n(n, n * 10)):
            fn(ctx, ctx.rng)


def replay(ctx, data):
    kind = data.get('kind', '')
    c2 = core.Ctx(ctx.pid, 'quick', 17)
    for fn, _ in FAMILIES:
        for _ in range(600):
            fn(c2, c2.rng)
            if any(v.kind == kind for v in c2.violations):
                return True
    return False


def correspond(ctx):
    """EdgeInfo.v (hand model of the edge loop) vs MeshBase._compute_edge_info / Polyface3D.__init__"""
    rng = ctx.rng
    cases, meta = [], []
    for _ in range(ctx.n(300, 2000)):
        nv = rng.randint(4, 9)
        faces = []
        for _ in range(rng.randint(1, 7)):
            k = rng.choice([3, 3, 4])
            faces.append(tuple(rng.sample(range(nv), k)))
        if rng.random() < 0.3:
            faces.append(faces[0])
        m = Mesh3D([P3((float(i), float(i * i % 5), float(i % 3))) for i in range(nv)], faces)
        m.edges
        ei, et = m._edge_indices, m._edge_types
        fl = core.coq_list([core.coq_list([z(i) for i in f]) for f in faces])
        exp = core.coq_list(['((%s, %s), %d%%nat)' % (z(a), z(b), t) for (a, b), t in zip(ei, et)])
        cases.append('edge_state_eqb (edge_info %s) %s' % (fl, exp))
        meta.append(('_compute_edge_info', faces))
    res = core.run_cases('C07_corr', ['EdgeInfo'], '', cases,
                         header='From Coq Require Import ZArith List Bool.\nImport ListNotations.\nFrom LBG Require Import EdgeInfo.\n')
    ctx.corr_cases += len(cases)
    for ok, m in zip(res, meta):
        if ok is not True:
            ctx.corr_fail.append({'function': m[0], 'input': repr(m[1:]),
                                  'result': 'model and implementation differ' if ok is False else 'model evaluation failed'})
    volume_cases(ctx)


def model_loops(face):
    """the loops the Volume.v model takes for a face: boundary as stored, then the holes wound against it"""
    b = [X.fpt(p) for p in face.boundary]
    nb = X.newell(b)
    loops = [b]
    for h in face.holes or []:
        hp = [X.fpt(p) for p in h]
        if X.dot(X.newell(hp), nb) > 0:
            hp = hp[::-1]
        loops.append(hp)
    return loops


def volume_cases(ctx):
    """Volume.v (hand model: sum of p0 . area_vector / 6) vs Polyface3D.volume on solids whose faces were shuffled, flipped and
    re-started before construction (so get_outward_faces did the orienting); agreement to 1e-9 relative"""
    rng = ctx.rng
    cases, meta = [], []
    for _ in range(ctx.n(40, 300)):
        fam, faces, _ = solid_faces(rng)
        pert, flips = perturb(rng, faces)
        try:
            pf = Polyface3D.from_faces(pert, TOL)
        except Exception:
            continue
        v = pf.volume
        fl = core.coq_list([core.coq_list([core.coq_list(['mkV3 %s %s %s' % (q(a), q(b), q(c)) for a, b, c in lp]) for lp in model_loops(f)])
                            for f in pf.faces])
        eps = Fraction(1, 10 ** 9) * max(1, abs(F(v)))
        cases.append('Qle_bool (Qabs (volume %s - %s)) %s' % (fl, q(v), q(eps)))
        meta.append(('Polyface3D.volume', fam, len(faces), flips, [f.to_dict() for f in pert]))
    res = core.run_cases('C07_vol', ['Base', 'QGeom', 'Volume'], '', cases, chunk=10)
    ctx.corr_cases += len(cases)
    for ok, m in zip(res, meta):
        if ok is not True:
            ctx.corr_fail.append({'function': m[0], 'input': repr(m[1:]),
                                  'result': 'model and implementation differ' if ok is False else 'model evaluation failed'})
