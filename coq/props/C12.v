(* C12 -- closest points lie on the object and minimise the distance (squared form). *)
From LBG Require Import Base QGeom G0_vec G1_shapes G2_inter C11_inter2d C12_closest.
Open Scope Q_scope.

Theorem C12_segment2d : forall p l, ~ dot2 (lr2v l) (lr2v l) == 0 ->
  (exists u, in_seg u /\ closest_point2d_on_line2d_seg p l = on2 l u) /\
  (forall t, in_seg t -> sqd2 p (closest_point2d_on_line2d_seg p l) <= sqd2 p (on2 l t)).
Proof. exact closest_point2d_segment_correct. Qed.
Print Assumptions C12_segment2d.

Theorem C12_ray2d : forall p l, ~ dot2 (lr2v l) (lr2v l) == 0 ->
  (exists u, in_ray u /\ closest_point2d_on_line2d_ray p l = on2 l u) /\
  (forall t, in_ray t -> sqd2 p (closest_point2d_on_line2d_ray p l) <= sqd2 p (on2 l t)).
Proof. exact closest_point2d_ray_correct. Qed.
Print Assumptions C12_ray2d.

Theorem C12_line2d : forall p l, ~ dot2 (lr2v l) (lr2v l) == 0 ->
  forall t, sqd2 p (closest_point2d_on_line2d_infinite_seg p l) <= sqd2 p (on2 l t).
Proof. exact closest_point2d_line_correct. Qed.
Print Assumptions C12_line2d.

Theorem C12_query_on_segment_has_distance_zero : forall l t, ~ dot2 (lr2v l) (lr2v l) == 0 -> in_seg t ->
  sqd2 (on2 l t) (closest_point2d_on_line2d_seg (on2 l t) l) == 0.
Proof. exact closest_point2d_segment_on_object. Qed.
Print Assumptions C12_query_on_segment_has_distance_zero.

Theorem C12_segment3d : forall p l, ~ dot3 (lr3v l) (lr3v l) == 0 ->
  forall t, in_seg t -> sqd3 p (closest_point3d_on_line3d_seg p l) <= sqd3 p (on3 l t).
Proof. exact closest_point3d_segment_correct. Qed.
Print Assumptions C12_segment3d.

Theorem C12_ray3d : forall p l, ~ dot3 (lr3v l) (lr3v l) == 0 ->
  forall t, in_ray t -> sqd3 p (closest_point3d_on_line3d_ray p l) <= sqd3 p (on3 l t).
Proof. exact closest_point3d_ray_correct. Qed.
Print Assumptions C12_ray3d.

Theorem C12_plane : forall pl p, dot3 (pl_n pl) (pl_n pl) == 1 ->
  dot3 (pl_n pl) (closest_point3d_on_plane p pl) == pl_k pl /\
  forall x, dot3 (pl_n pl) x == pl_k pl -> sqd3 p (closest_point3d_on_plane p pl) <= sqd3 p x.
Proof. exact closest_point3d_on_plane_correct. Qed.
Print Assumptions C12_plane.

(* closest points between a segment and a plane (generated closest_point3d_between_line3d_plane): the returned segment point has the least
   |height| above the plane among all points of the segment, and the second point is its projection on the plane *)
From LBG Require Import C12_lineplane.
Theorem C12_segment_plane_closest_points : forall l pl a b,
  closest_point3d_between_line3d_plane_seg l pl = Some (a, b) ->
  b = closest_point3d_on_plane a pl /\
  exists u, in_seg u /\ a =3= on3 l u /\ forall t, in_seg t -> Qabs (height l pl u) <= Qabs (height l pl t).
Proof. exact closest_segment_plane_correct. Qed.
Print Assumptions C12_segment_plane_closest_points.

(* Polygon2D.distance_to_point (generated): for a query the inside test rejects, the value is the least distance to ALL edges - no point of
   any edge is closer, and some edge point is exactly that far (the root only needs to be monotone); inside it is zero *)
From Coq Require Import List.
From LBG Require Import G3_poly G7_contain C12_polygon.
Theorem C12_polygon_distance_is_the_least_over_all_edges : forall qsqrt,
  (forall a b, 0 <= a -> a <= b -> qsqrt a <= qsqrt b) ->
  forall (pg : Polygon2R) (p : V2),
  Polygon2D_is_point_inside_bound_rect_2 pg p = false -> Polygon2D_segments pg <> nil ->
  (forall s, In s (Polygon2D_segments pg) -> ~ dot2 (lr2v s) (lr2v s) == 0) ->
  (forall s t, In s (Polygon2D_segments pg) -> in_seg t -> Polygon2D_distance_to_point qsqrt pg p <= qsqrt (sqd2 p (on2 s t))) /\
  (exists s u, In s (Polygon2D_segments pg) /\ in_seg u /\ Polygon2D_distance_to_point qsqrt pg p == qsqrt (sqd2 p (on2 s u))).
Proof. exact distance_to_point_outside_spec. Qed.
Print Assumptions C12_polygon_distance_is_the_least_over_all_edges.

Theorem C12_polygon_distance_inside_is_zero : forall qsqrt (pg : Polygon2R) (p : V2),
  Polygon2D_is_point_inside_bound_rect_2 pg p = true -> Polygon2D_distance_to_point qsqrt pg p = 0.
Proof. exact distance_to_point_inside. Qed.
Print Assumptions C12_polygon_distance_inside_is_zero.

Example C12_polygon_distance_concrete :
  Polygon2D_distance_to_point qsqrt_exec (mkPolygon2 (mkV2 0 0 :: mkV2 10 0 :: mkV2 6 1 :: mkV2 0 4 :: nil)) (mkV2 5 (-3)) == 3.
Proof. vm_compute. reflexivity. Qed.

Example C12_nonvacuous :
  let l := mkLR2 (mkV2 0 0) (mkV2 4 0) in
  ~ dot2 (lr2v l) (lr2v l) == 0 /\ in_seg (1#4) /\
  closest_point2d_on_line2d_seg (mkV2 7 3) l =2= mkV2 4 0 /\
  closest_point2d_on_line2d_seg (mkV2 1 3) l =2= mkV2 1 0.
Proof. vm_compute. repeat split; try discriminate; reflexivity. Qed.
