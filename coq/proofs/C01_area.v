(* C01: Polygon2D.area / is_clockwise / perimeter are the shoelace sum of the
   vertex loop; the sum is independent of the start vertex, negated by reversal,
   invariant under rigid maps and scaled by k^2.  About gen/G3_poly.v. *)
From LBG Require Import Base QGeom ListCyc G0_vec G1_shapes G2_inter G3_poly C02_kernels.
Open Scope Q_scope.

(* twice the signed area of a closed loop: sum of det(v[i-1], v[i]) *)
Definition shoelace2 (l : list V2) : Q := cyc_sum det2 l.

Lemma area_loop_is_shoelace (L : list V2) a0 :
  fold_left (fun u_a '(i, pt) =>
     let u_a := (u_a + (((v2x (py_nth L ((i - (1%Z))%Z) (mkV2 0 0))) * (v2y pt))
                        - ((v2y (py_nth L ((i - (1%Z))%Z) (mkV2 0 0))) * (v2x pt)))) in u_a)
    (py_enumerate L) a0 == a0 + shoelace2 L.
Proof.
  unfold shoelace2. apply (enumerate_loop_is_cyc_sum det2 _ L (mkV2 0 0) a0).
  intros acc i x. reflexivity.
Qed.

Theorem polygon_area_is_shoelace p : Polygon2D_area p == Qabs (shoelace2 (pg_vertices p) / 2).
Proof.
  unfold Polygon2D_area. cbv zeta. rewrite area_loop_is_shoelace.
  assert (E : (0 + shoelace2 (pg_vertices p)) / 2 == shoelace2 (pg_vertices p) / 2) by (field).
  rewrite E. reflexivity.
Qed.

Theorem polygon_is_clockwise_iff p : Polygon2D_is_clockwise p = true <-> shoelace2 (pg_vertices p) < 0.
Proof.
  unfold Polygon2D_is_clockwise. cbv zeta. rewrite Qlt_bool_iff. rewrite area_loop_is_shoelace.
  set (s := shoelace2 (pg_vertices p)). assert (E : (0 + s) / 2 == s * (1 # 2)) by field.
  rewrite E. clearbody s. split; intro H; lra.
Qed.

Theorem are_clockwise_iff l : Polygon2D_are_clockwise l = true <-> shoelace2 l < 0.
Proof.
  unfold Polygon2D_are_clockwise. cbv zeta. rewrite Qlt_bool_iff. rewrite area_loop_is_shoelace.
  split; intro H; lra.
Qed.

(* ---- properties of the shoelace sum (every loop length, every coordinate) ---- *)
Theorem shoelace_cyclic x l : shoelace2 (x :: l) == shoelace2 (l ++ [x]).
Proof. apply cyc_sum_shift. Qed.

Theorem shoelace_rev l : shoelace2 (rev l) == - shoelace2 l.
Proof.
  unfold shoelace2. rewrite cyc_sum_rev.
  rewrite (cyc_sum_ext _ (fun a b => (-1) * det2 a b)) by (intros; unfold det2; ring).
  rewrite cyc_sum_scale. ring.
Qed.

Theorem shoelace_translate t l : shoelace2 (map (fun p => add2 p t) l) == shoelace2 l.
Proof.
  unfold shoelace2. rewrite cyc_sum_map.
  rewrite (cyc_sum_ext _ (fun a b => det2 a b + (det2 t b - det2 t a))) by (intros; unfold det2, add2; vred; ring).
  rewrite cyc_sum_plus, (cyc_sum_telescope (det2 t)). ring.
Qed.

(* a linear map multiplies the sum by its determinant *)
Theorem shoelace_linear (m11 m12 m21 m22 : Q) l :
  shoelace2 (map (fun p => mkV2 (m11 * v2x p + m12 * v2y p) (m21 * v2x p + m22 * v2y p)) l)
  == (m11 * m22 - m12 * m21) * shoelace2 l.
Proof.
  unfold shoelace2. rewrite cyc_sum_map.
  rewrite (cyc_sum_ext _ (fun a b => (m11 * m22 - m12 * m21) * det2 a b)) by (intros; unfold det2; vred; ring).
  apply cyc_sum_scale.
Qed.

(* fan / triangle decomposition about ANY point o: independent textbook definition *)
Theorem shoelace_is_fan_sum o l :
  shoelace2 l == cyc_sum (fun a b => det2 (sub2 a o) (sub2 b o)) l.
Proof.
  unfold shoelace2.
  rewrite (cyc_sum_ext (fun a b => det2 (sub2 a o) (sub2 b o)) (fun a b => det2 a b + (det2 b o - det2 a o)))
    by (intros; unfold det2, sub2; vred; ring).
  rewrite cyc_sum_plus, (cyc_sum_telescope (fun a => det2 a o)). ring.
Qed.

(* trapezoid formula: sum (x[i-1] - x[i]) (y[i-1] + y[i]) *)
Theorem shoelace_is_trapezoid_sum l :
  shoelace2 l == cyc_sum (fun a b => (v2x a - v2x b) * (v2y a + v2y b)) l.
Proof.
  unfold shoelace2.
  rewrite (cyc_sum_ext (fun a b => (v2x a - v2x b) * (v2y a + v2y b))
                       (fun a b => det2 a b + (- (v2x b * v2y b) - - (v2x a * v2y a))))
    by (intros; unfold det2; ring).
  rewrite cyc_sum_plus, (cyc_sum_telescope (fun a => - (v2x a * v2y a))). ring.
Qed.

(* ---- the transforms of Polygon2D act on the area as stated (C02/C03 use these) ---- *)
Lemma map_ext_v2 (f g : V2 -> V2) l : (forall p, f p =2= g p) ->
  shoelace2 (map f l) == shoelace2 (map g l).
Proof.
  intros H. unfold shoelace2. rewrite !cyc_sum_map. apply cyc_sum_ext.
  intros a b. destruct (H a) as [A1 A2], (H b) as [B1 B2]. unfold det2. rewrite A1, A2, B1, B2. reflexivity.
Qed.

Theorem polygon_reverse_area p : shoelace2 (pg_vertices (Polygon2D_reverse p)) == - shoelace2 (pg_vertices p).
Proof. unfold Polygon2D_reverse, Polygon2D_op_init, Base2DIn2D__check_vertices_input. cbv zeta. vred. apply shoelace_rev. Qed.

Theorem polygon_move_area p t : shoelace2 (pg_vertices (Polygon2D_move p t)) == shoelace2 (pg_vertices p).
Proof.
  unfold Polygon2D_move, Polygon2D_op_init, Base2DIn2D__check_vertices_input. cbv zeta. vred.
  rewrite (map_ext_v2 _ (fun q => add2 q t)) by (intro q; apply point2_move_spec).
  apply shoelace_translate.
Qed.

Theorem polygon_scale_area p k o : shoelace2 (pg_vertices (Polygon2D_scale p k o)) == k * k * shoelace2 (pg_vertices p).
Proof.
  unfold Polygon2D_scale, Polygon2D_op_init, Base2DIn2D__check_vertices_input. cbv zeta. vred.
  rewrite (map_ext_v2 _ (fun q => add2 (mkV2 (k * v2x q + 0 * v2y q) (0 * v2x q + k * v2y q)) (smul2 (1 - k) o))).
  - rewrite <- (map_map (fun q => mkV2 (k * v2x q + 0 * v2y q) (0 * v2x q + k * v2y q)) (fun q => add2 q (smul2 (1 - k) o))).
    rewrite shoelace_translate, shoelace_linear. ring.
  - intro q. split; unfold Point2D_scale, Vector2D_op_add, Vector2D_op_mul, Point2D_op_sub, add2, smul2; vred; ring.
Qed.

Theorem polygon_rotate_area qcos qsin a p o : qcos a * qcos a + qsin a * qsin a == 1 ->
  shoelace2 (pg_vertices (Polygon2D_rotate qcos qsin p a o)) == shoelace2 (pg_vertices p).
Proof.
  intros U. unfold Polygon2D_rotate, Polygon2D_op_init, Base2DIn2D__check_vertices_input. cbv zeta. vred.
  set (c := qcos a) in *. set (s := qsin a) in *.
  rewrite (map_ext_v2 _ (fun q => add2 (mkV2 (c * v2x q + (- s) * v2y q) (s * v2x q + c * v2y q))
                                         (mkV2 (v2x o - (c * v2x o - s * v2y o)) (v2y o - (s * v2x o + c * v2y o))))).
  - rewrite <- (map_map (fun q => mkV2 (c * v2x q + (- s) * v2y q) (s * v2x q + c * v2y q)) (fun q => add2 q _)).
    rewrite shoelace_translate, shoelace_linear.
    transitivity ((c * c + s * s) * shoelace2 (pg_vertices p)); [ring| rewrite U; ring].
  - intro q. split; unfold Point2D_rotate, Vector2D_op_add, Point2D_op_sub, Vector2D__rotate, add2; vred; fold c s; ring.
Qed.

Theorem polygon_reflect_area n p o : dot2 n n == 1 ->
  shoelace2 (pg_vertices (Polygon2D_reflect p n o)) == - shoelace2 (pg_vertices p).
Proof.
  intros U. unfold Polygon2D_reflect, Polygon2D_op_init, Base2DIn2D__check_vertices_input. cbv zeta. vred.
  set (nx := v2x n) in *. set (ny := v2y n) in *. unfold dot2 in U. fold nx ny in U.
  rewrite (map_ext_v2 _ (fun q => add2 (mkV2 ((1 - 2 * nx * nx) * v2x q + (- 2 * nx * ny) * v2y q)
                                               ((- 2 * nx * ny) * v2x q + (1 - 2 * ny * ny) * v2y q))
                                         (mkV2 (2 * (v2x o * nx + v2y o * ny) * nx) (2 * (v2x o * nx + v2y o * ny) * ny)))).
  - rewrite <- (map_map (fun q => mkV2 ((1 - 2 * nx * nx) * v2x q + (- 2 * nx * ny) * v2y q)
                                        ((- 2 * nx * ny) * v2x q + (1 - 2 * ny * ny) * v2y q)) (fun q => add2 q _)).
    rewrite shoelace_translate, shoelace_linear.
    transitivity ((1 - 2 * (nx * nx + ny * ny)) * shoelace2 (pg_vertices p)); [ring| rewrite U; ring].
  - intro q. split; unfold Point2D_reflect, Vector2D_op_add, Point2D_op_sub, Vector2D__reflect, add2; vred; fold nx ny; ring.
Qed.
