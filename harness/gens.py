"""Seeded generators shared by all properties.  Every generator takes a
random.Random and returns plain tuples of python floats (dyadic, so that
Fraction(float) is small) -- the harness builds ladybug objects from them.
Validity of polygons is certified with exact rational predicates."""
import math
from fractions import Fraction
from . import exact as X


def dy(x, bits=10):
    """round to a dyadic rational with `bits` fractional bits (exactly representable)"""
    return round(x * (1 << bits)) / (1 << bits)


def rpt2(rng, s=100.0, bits=10):
    return (dy(rng.uniform(-s, s), bits), dy(rng.uniform(-s, s), bits))


def rpt3(rng, s=100.0, bits=10):
    return (dy(rng.uniform(-s, s), bits), dy(rng.uniform(-s, s), bits), dy(rng.uniform(-s, s), bits))


def rvec3(rng, s=10.0, bits=10):
    while True:
        v = rpt3(rng, s, bits)
        if abs(v[0]) + abs(v[1]) + abs(v[2]) > 0.1:
            return v


def rvec2(rng, s=10.0, bits=10):
    while True:
        v = rpt2(rng, s, bits)
        if abs(v[0]) + abs(v[1]) > 0.1:
            return v


def certify_polygon(pts, min_edge=1e-3):
    f = [X.fpt(p) for p in pts]
    if len(f) < 3 or not X.is_simple(f):
        return False
    for i in range(len(f)):
        if X.sqd(f[i - 1], f[i]) < Fraction(min_edge) ** 2:
            return False
    return X.shoelace2(f) != 0


def star_polygon(rng, n=None, R=None, center=None, bits=10, min_turn=0.0):
    """simple polygon, star-shaped about its centre, counter-clockwise"""
    for _ in range(200):
        k = n or rng.randint(3, 14)
        r = R or rng.choice([1.0, 10.0, 100.0, 1000.0])
        c = center or (dy(rng.uniform(-r, r)), dy(rng.uniform(-r, r)))
        angs = sorted(rng.uniform(0, 2 * math.pi) for _ in range(k))
        # avoid gaps >= pi (centre must see every edge) and tiny gaps
        gaps = [(angs[(i + 1) % k] - angs[i]) % (2 * math.pi) for i in range(k)]
        if max(gaps) > 2.8 or min(gaps) < 0.05:
            continue
        pts = []
        for a in angs:
            rad = r * rng.uniform(0.35, 1.0)
            pts.append((dy(c[0] + rad * math.cos(a), bits), dy(c[1] + rad * math.sin(a), bits)))
        if certify_polygon(pts, 1e-3 * max(1.0, r / 100)) and X.shoelace2([X.fpt(p) for p in pts]) > 0:
            if min_turn and min_corner_turn(pts) < min_turn:
                continue
            return pts
    return [(0.0, 0.0), (4.0, 0.0), (4.0, 3.0), (0.0, 3.0)]


def convex_polygon(rng, n=None, R=None, center=None, bits=10):
    for _ in range(200):
        k = n or rng.randint(3, 12)
        r = R or rng.choice([1.0, 10.0, 100.0])
        c = center or (dy(rng.uniform(-r, r)), dy(rng.uniform(-r, r)))
        angs = sorted(rng.uniform(0, 2 * math.pi) for _ in range(k))
        gaps = [(angs[(i + 1) % k] - angs[i]) % (2 * math.pi) for i in range(k)]
        if max(gaps) > 2.6 or min(gaps) < 0.15:
            continue
        ex, ey = rng.uniform(0.5, 1.0), rng.uniform(0.5, 1.0)
        pts = [(dy(c[0] + r * ex * math.cos(a), bits), dy(c[1] + r * ey * math.sin(a), bits)) for a in angs]
        f = [X.fpt(p) for p in pts]
        if certify_polygon(pts) and all(X.orient(f[i - 2], f[i - 1], f[i]) > 0 for i in range(k)):
            return pts
    return [(0.0, 0.0), (4.0, 0.0), (4.0, 3.0), (0.0, 3.0)]


def min_corner_turn(pts):
    """smallest absolute turning angle (radians) over the corners"""
    m = math.pi
    n = len(pts)
    for i in range(n):
        a, b, c = pts[i - 2], pts[i - 1], pts[i]
        u = (b[0] - a[0], b[1] - a[1]); v = (c[0] - b[0], c[1] - b[1])
        t = abs(math.atan2(u[0] * v[1] - u[1] * v[0], u[0] * v[0] + u[1] * v[1]))
        m = min(m, t)
    return m


# ------------------------------------------------------------ lattice shapes
def polyomino(rng, ncells=None, w=6, h=6):
    """random simply connected polyomino without corner-only contacts: set of (i,j) cells"""
    for _ in range(100):
        n = ncells or rng.randint(2, 14)
        cells = {(rng.randrange(w), rng.randrange(h))}
        tries = 0
        while len(cells) < n and tries < 400:
            tries += 1
            c = rng.choice(sorted(cells))
            d = rng.choice([(1, 0), (-1, 0), (0, 1), (0, -1)])
            nc = (c[0] + d[0], c[1] + d[1])
            if nc in cells or not (0 <= nc[0] < w and 0 <= nc[1] < h):
                continue
            if cells_ok(cells | {nc}):
                cells.add(nc)
        if len(cells) >= 2 and cells_ok(cells):
            return cells
    return {(0, 0), (1, 0)}


def cells_ok(cells):
    """no diagonal-only contact, no enclosed hole"""
    xs = [c[0] for c in cells]; ys = [c[1] for c in cells]
    x0, x1, y0, y1 = min(xs) - 1, max(xs) + 1, min(ys) - 1, max(ys) + 1
    for i in range(x0, x1):
        for j in range(y0, y1):
            a, b, c, d = (i, j) in cells, (i + 1, j) in cells, (i, j + 1) in cells, (i + 1, j + 1) in cells
            if (a and d and not b and not c) or (b and c and not a and not d):
                return False
    # complement connected (within the padded box)
    comp = {(i, j) for i in range(x0, x1 + 1) for j in range(y0, y1 + 1)} - set(cells)
    start = (x0, y0)
    seen, todo = {start}, [start]
    while todo:
        i, j = todo.pop()
        for d in ((1, 0), (-1, 0), (0, 1), (0, -1)):
            q = (i + d[0], j + d[1])
            if q in comp and q not in seen:
                seen.add(q); todo.append(q)
    return len(seen) == len(comp)


def cells_boundary(cells, keep_collinear=False):
    """counter-clockwise boundary loops of a cell set (list of loops of integer points);
    outer loops ccw, hole loops cw"""
    edges = {}
    for (i, j) in cells:
        for a, b, nb in (((i, j), (i + 1, j), (i, j - 1)), ((i + 1, j), (i + 1, j + 1), (i + 1, j)),
                         ((i + 1, j + 1), (i, j + 1), (i, j + 1)), ((i, j + 1), (i, j), (i - 1, j))):
            if nb not in cells:
                edges.setdefault(a, []).append(b)
    loops = []
    while edges:
        start = min(edges)
        loop = [start]
        cur = start
        prev_dir = None
        while True:
            outs = edges[cur]
            if len(outs) == 1:
                nxt = outs.pop()
            else:
                # corner contact (should not happen for cells_ok sets): take the left-most turn
                nxt = outs.pop(0)
            if not outs:
                del edges[cur]
            if nxt == start:
                break
            loop.append(nxt)
            cur = nxt
        if not keep_collinear:
            loop = drop_collinear_int(loop)
        loops.append([(float(x), float(y)) for x, y in loop])
    return loops


def drop_collinear_int(loop):
    out = []
    n = len(loop)
    for i in range(n):
        a, b, c = loop[i - 1], loop[i], loop[(i + 1) % n]
        if (b[0] - a[0]) * (c[1] - b[1]) - (b[1] - a[1]) * (c[0] - b[0]) != 0:
            out.append(b)
    return out


def lattice_polygon(rng, ncells=None, w=6, h=6):
    """simple rectilinear lattice polygon (ccw) and its cell set"""
    cells = polyomino(rng, ncells, w, h)
    loops = cells_boundary(cells)
    return loops[0], cells


def rect_cells(x0, y0, x1, y1):
    return {(i, j) for i in range(x0, x1) for j in range(y0, y1)}


# ------------------------------------------------------------------- holes
def holes_in(rng, boundary, nholes, bits=10):
    """up to nholes disjoint convex holes strictly inside a simple polygon (exactly certified)"""
    fb = [X.fpt(p) for p in boundary]
    xs = [p[0] for p in boundary]; ys = [p[1] for p in boundary]
    size = max(max(xs) - min(xs), max(ys) - min(ys))
    holes = []
    tries = 0
    while len(holes) < nholes and tries < 60:
        tries += 1
        c = (rng.uniform(min(xs), max(xs)), rng.uniform(min(ys), max(ys)))
        r = size * rng.uniform(0.03, 0.12)
        k = rng.randint(3, 6)
        a0 = rng.uniform(0, 2 * math.pi)
        h = [(dy(c[0] + r * math.cos(a0 + 2 * math.pi * i / k), bits), dy(c[1] + r * math.sin(a0 + 2 * math.pi * i / k), bits))
             for i in range(k)]
        if not certify_polygon(h):
            continue
        fh = [X.fpt(p) for p in h]
        margin = Fraction(size * 0.01) ** 2
        ok = all(X.winding_inside(fb, p) is True and X.sqdist_to_boundary(fb, p) > margin for p in fh)
        ok = ok and not any(X.segs_intersect(fh[i - 1], fh[i], fb[j - 1], fb[j])
                            for i in range(k) for j in range(len(fb)))
        for o in holes:
            fo = [X.fpt(p) for p in o]
            if any(X.winding_inside(fo, p) is not False for p in fh) or any(X.winding_inside(fh, p) is not False for p in fo) \
                    or any(X.segs_intersect(fh[i - 1], fh[i], fo[j - 1], fo[j]) for i in range(k) for j in range(len(fo))) \
                    or min(X.sqdist_to_boundary(fo, p) for p in fh) <= margin:
                ok = False
        if ok:
            if rng.random() < 0.5:
                h = h[::-1]
            holes.append(h)
    return holes


# ------------------------------------------------------------------ frames
def rational_frame(rng, special=True):
    """orthonormal frame (x, y, n) with rational entries (from an integer quaternion), as floats"""
    if special and rng.random() < 0.25:
        return rng.choice([((1.0, 0.0, 0.0), (0.0, 1.0, 0.0), (0.0, 0.0, 1.0)),
                           ((0.0, 1.0, 0.0), (0.0, 0.0, 1.0), (1.0, 0.0, 0.0)),
                           ((1.0, 0.0, 0.0), (0.0, 0.0, 1.0), (0.0, -1.0, 0.0)),
                           ((1.0, 0.0, 0.0), (0.0, -1.0, 0.0), (0.0, 0.0, -1.0))])
    while True:
        a, b, c, d = (rng.randint(-4, 4) for _ in range(4))
        n = a * a + b * b + c * c + d * d
        if n == 0:
            continue
        m = [[Fraction(a * a + b * b - c * c - d * d, n), Fraction(2 * (b * c - a * d), n), Fraction(2 * (b * d + a * c), n)],
             [Fraction(2 * (b * c + a * d), n), Fraction(a * a - b * b + c * c - d * d, n), Fraction(2 * (c * d - a * b), n)],
             [Fraction(2 * (b * d - a * c), n), Fraction(2 * (c * d + a * b), n), Fraction(a * a - b * b - c * c + d * d, n)]]
        cols = [tuple(float(m[r][k]) for r in range(3)) for k in range(3)]
        return cols[0], cols[1], cols[2]


def embed(frame, origin, p2):
    x, y, n = frame
    return tuple(origin[i] + p2[0] * x[i] + p2[1] * y[i] for i in range(3))


def pythagorean_angle(rng):
    """(cos, sin) rational, and the float angle"""
    m, n = rng.randint(1, 9), rng.randint(1, 9)
    c, s = Fraction(m * m - n * n, m * m + n * n), Fraction(2 * m * n, m * m + n * n)
    if rng.random() < 0.5:
        s = -s
    return c, s, math.atan2(float(s), float(c))


# ----------------------------------------------------------- concave families
def comb_polygon(rng, teeth=None, bits=10):
    """comb: a base bar with `teeth` teeth (strongly concave, many reflex vertices), ccw"""
    t = teeth or rng.randint(2, 14)
    w = dy(rng.uniform(0.5, 2.0)); g = dy(rng.uniform(0.5, 2.0)); h = dy(rng.uniform(2.0, 8.0)); b = dy(rng.uniform(0.5, 2.0))
    pts = [(0.0, 0.0)]
    total = t * w + (t - 1) * g
    pts.append((total, 0.0))
    x = total
    for i in range(t):
        pts.append((x, b + h + (0.0 if i % 2 == 0 else dy(rng.uniform(0, 1)))))
        pts.append((x - w, b + h))
        x -= w
        if i < t - 1:
            pts.append((x, b))
            pts.append((x - g, b))
            x -= g
    ox, oy = dy(rng.uniform(-50, 50)), dy(rng.uniform(-50, 50))
    pts = [(p[0] + ox, p[1] + oy) for p in pts]
    return pts if certify_polygon(pts) else star_polygon(rng)


def spiral_polygon(rng, turns=None):
    """rectilinear spiral corridor, ccw"""
    n = turns or rng.randint(2, 7)
    w = 1.0
    # outer path going inwards, then inner path back
    outer, inner = [], []
    x0, y0, x1, y1 = 0.0, 0.0, 4.0 * n + 2, 4.0 * n + 2
    pts_out = [(x0, y0)]
    dirs = 0
    a, b, c, d = x0, y0, x1, y1
    path = [(a, b), (c, b), (c, d), (a, d)]
    k = 0
    while c - a > 4 * w and d - b > 4 * w and k < n:
        a2, b2, c2, d2 = a + 2 * w, b + 2 * w, c - 2 * w, d - 2 * w
        path += [(a, b + 2 * w), (c2, b + 2 * w), (c2, d2), (a2, d2)] if False else []
        a, b, c, d = a2, b2, c2, d2
        k += 1
    # simpler: build a spiral as the boundary of a corridor cell set
    cells = set()
    size = 4 * n + 1
    x, y, dx, dy_ = 0, 0, 1, 0
    lo_x, lo_y, hi_x, hi_y = 0, 0, size - 1, size - 1
    steps = 0
    while lo_x <= hi_x and lo_y <= hi_y and steps < 4 * n:
        if steps % 4 == 0:
            for i in range(lo_x, hi_x + 1): cells.add((i, lo_y))
            lo_y += 2
        elif steps % 4 == 1:
            for j in range(lo_y - 2, hi_y + 1): cells.add((hi_x, j))
            hi_x -= 2
        elif steps % 4 == 2:
            for i in range(lo_x, hi_x + 3): cells.add((i, hi_y))
            hi_y -= 2
        else:
            for j in range(lo_y, hi_y + 3): cells.add((lo_x, j))
            lo_x += 2
        steps += 1
    if not cells_ok(cells):
        return star_polygon(rng)
    loop = cells_boundary(cells)[0]
    s = dy(rng.uniform(0.5, 3.0)); ox, oy = dy(rng.uniform(-50, 50)), dy(rng.uniform(-50, 50))
    pts = [(p[0] * s + ox, p[1] * s + oy) for p in loop]
    return pts if certify_polygon(pts) else star_polygon(rng)


def _int_simple(pts):
    """exact simplicity test for integer points (no two non-adjacent edges touch, no zero-length edge)"""
    n = len(pts)
    def orient(a, b, c):
        v = (b[0] - a[0]) * (c[1] - a[1]) - (b[1] - a[1]) * (c[0] - a[0])
        return (v > 0) - (v < 0)
    def on(a, b, c):
        return min(a[0], b[0]) <= c[0] <= max(a[0], b[0]) and min(a[1], b[1]) <= c[1] <= max(a[1], b[1])
    for i in range(n):
        a, b = pts[i], pts[(i + 1) % n]
        if a == b:
            return False
        for j in range(i + 1, n):
            c, d = pts[j], pts[(j + 1) % n]
            adjacent = j == i + 1 or (i == 0 and j == n - 1)
            o1, o2, o3, o4 = orient(a, b, c), orient(a, b, d), orient(c, d, a), orient(c, d, b)
            if adjacent:
                # only the shared vertex may be common: reject folds back onto the previous edge
                if j == i + 1 and o2 == 0 and on(a, b, d) and d != b: return False
                if i == 0 and j == n - 1 and o1 == 0 and on(a, b, c) and c != a: return False
                continue
            if o1 != o2 and o3 != o4:
                return False
            if (o1 == 0 and on(a, b, c)) or (o2 == 0 and on(a, b, d)) or (o3 == 0 and on(c, d, a)) or (o4 == 0 and on(c, d, b)):
                return False
    return True


def lobed_polygon(rng, n=None, R=1000):
    """star-shaped loop with smooth lobes (radius R(1 + a sin(k t + phi)) + noise) on integer coordinates, counter-clockwise,
    certified simple (exact integer tests); many vertices lie close to one another across the concave parts, so candidate
    ears often contain other vertices"""
    for _ in range(50):
        m = n or rng.randint(81, 140)
        k = rng.randint(3, 17); a = rng.uniform(0.2, 0.5); phi = rng.uniform(0, 2 * math.pi)
        noise = rng.choice([0.0, 0.0, 0.02, 0.05])
        c = (rng.randint(-3 * R, 3 * R), rng.randint(-3 * R, 3 * R))
        pts = []
        for i in range(m):
            t = 2 * math.pi * i / m
            r = R * (1 + a * math.sin(k * t + phi)) * (1 + rng.uniform(-noise, noise))
            pts.append((c[0] + int(round(r * math.cos(t))), c[1] + int(round(r * math.sin(t)))))
        area2 = sum(pts[i - 1][0] * pts[i][1] - pts[i - 1][1] * pts[i][0] for i in range(m))
        if area2 > 0 and _int_simple(pts):
            return [(float(x), float(y)) for x, y in pts]
    return star_polygon(rng, n=90, R=float(R))
