(* C12_lineplane.v -- closest points between a segment and a plane (generated closest_point3d_between_line3d_plane): the signed height
   of the segment point at parameter t above the plane, h(t) = n.(p + t v) - k, is linear in t; the routine returns the segment point of
   least |height| together with its projection on the plane, or nothing when the segment crosses the plane. *)
From LBG Require Import Base QGeom G0_vec G1_shapes G2_inter C11_inter2d C12_closest.
Open Scope Q_scope.

Definition height (l : LR3) (pl : PlaneR) (t : Q) : Q := dot3 (pl_n pl) (on3 l t) - pl_k pl.

Lemma height_linear l pl t : height l pl t == height l pl 0 + t * dot3 (pl_n pl) (lr3v l).
Proof. unfold height, on3, dot3. cbn [v3x v3y v3z lr3p lr3v]. ring. Qed.

Lemma abs_scale d x y : Qabs x <= Qabs y -> Qabs (d * x) <= Qabs (d * y).
Proof. intros H. rewrite !Qabs_Qmult. pose proof (Qabs_nonneg d). nra. Qed.

Theorem closest_segment_plane_correct l pl a b :
  closest_point3d_between_line3d_plane_seg l pl = Some (a, b) ->
  b = closest_point3d_on_plane a pl /\
  exists u, in_seg u /\ a =3= on3 l u /\ forall t, in_seg t -> Qabs (height l pl u) <= Qabs (height l pl t).
Proof.
  unfold closest_point3d_between_line3d_plane_seg. cbv zeta. unfold Qneq_bool. rewrite negb_involutive.
  set (d := Vector3D_dot (pl_n pl) (lr3v l)).
  assert (Dd : d = dot3 (pl_n pl) (lr3v l)) by reflexivity.
  destruct (Qeq_bool d 0) eqn:E0.
  - apply Qeq_bool_iff in E0. intros H. inversion H. subst a b. split; [reflexivity|].
    exists 0. split; [split; lra|]. split.
    + unfold on3, v3eq. cbn [v3x v3y v3z]. repeat split; ring.
    + intros t _. rewrite (height_linear l pl t). rewrite <- Dd, E0.
      assert (X : height l pl 0 + t * 0 == height l pl 0) by ring. rewrite X. lra.
  - apply Qeq_bool_neq in E0.
    set (u0 := (pl_k pl - Vector3D_dot (pl_n pl) (lr3p l)) / d).
    destruct (LineSegment3D__u_in l u0) eqn:I; cbn [negb]; [discriminate|].
    intros H. inversion H. subst b. clear H. split; [reflexivity|].
    set (u := Qmax (Qmin u0 1) 0).
    assert (Hu : in_seg u).
    { unfold in_seg, u. split; [apply Q.le_max_r|]. apply Q.max_lub; [apply Q.le_min_r| lra]. }
    exists u. split; [exact Hu|]. split.
    + subst a. unfold on3, v3eq. cbn [v3x v3y v3z]. repeat split; reflexivity.
    + assert (Hh : forall t, height l pl t == d * (t - u0)).
      { intros t. rewrite height_linear, <- Dd. unfold height, on3, dot3, u0, Vector3D_dot. cbn [v3x v3y v3z]. field. exact E0. }
      assert (Out : u0 < 0 \/ 1 < u0).
      { unfold LineSegment3D__u_in in I. apply andb_false_iff in I. destruct I as [I|I]; apply Qle_bool_false_iff in I; [left| right]; lra. }
      intros t [T0 T1]. rewrite !Hh. apply abs_scale.
      destruct Out as [O|O].
      * assert (Eu : u == 0).
        { unfold u. assert (M : Qmin u0 1 == u0) by (apply Q.min_l; lra). rewrite M. apply Q.max_r. lra. }
        rewrite Eu. rewrite !Qabs_pos by lra. lra.
      * assert (Eu : u == 1).
        { unfold u. assert (M : Qmin u0 1 == 1) by (apply Q.min_r; lra). rewrite M. apply Q.max_l. lra. }
        rewrite Eu. rewrite !Qabs_neg by lra. lra.
Qed.
