(* C14 -- purity / determinism.  PARTIAL: lives partly in the runtime.  A Gallina model is pure by construction,
   so "no public call mutates its arguments" cannot be a theorem about a functional model; it is enforced dynamically
   by the introspected API sweep.  What is logic is proved here. *)
From Coq Require Import String List ZArith Bool Permutation.
From LBG Require Import A_audit Cache C14_pure.
Import ListNotations.

Theorem C14_no_clock_or_random_calls : clock_calls = [].
Proof. exact no_clock_or_random_calls. Qed.
Print Assumptions C14_no_clock_or_random_calls.

Theorem C14_set_iterations_audited : length set_iterations = 4%nat.
Proof. rewrite set_iterations_audited. reflexivity. Qed.
Print Assumptions C14_set_iterations_audited.

(* no state survives a call except memo slots filled by parameter-free members (generated audit of every assignment / in-place mutation
   whose target is the receiver of a parameterised member, a class attribute, a module-level name, or an argument of a public function) *)
Theorem C14_no_parameterised_member_stores_on_its_receiver : receiver_writes_in_parameterised_members = [].
Proof. exact no_parameterised_member_stores_on_its_receiver. Qed.
Print Assumptions C14_no_parameterised_member_stores_on_its_receiver.

Theorem C14_no_class_or_module_state_is_written : class_state_writes = [] /\ module_state_writes = [].
Proof. exact no_class_or_module_state_is_written. Qed.
Print Assumptions C14_no_class_or_module_state_is_written.

Theorem C14_public_functions_write_only_the_documented_argument :
  public_argument_writes = [("geometry2d/polygon.py", "Polygon2D", "intersect_polygon_segments", "polygon_list")]%string.
Proof. exact public_functions_write_only_the_documented_argument. Qed.
Print Assumptions C14_public_functions_write_only_the_documented_argument.

Theorem C14_sort_after_set_is_order_free : forall l l', Permutation l l' -> isort l = isort l'.
Proof. exact sort_after_set_is_order_free. Qed.
Print Assumptions C14_sort_after_set_is_order_free.

Theorem C14_counter_tie_break_is_clock_free : forall (A : Type) (l : list (Z * A)),
  map (fun e => snd (fst e)) (stamped l) = seq 0 (length l).
Proof. exact @counter_stamps_are_positions. Qed.
Print Assumptions C14_counter_tie_break_is_clock_free.

Theorem C14_reading_a_memo_is_benign : forall (D V : Type) (fresh : D -> V) (d : D) (slot : option V),
  fst (run D V [read_step D V] (d, slot)) = d /\
  (forall v, slot = Some v -> observe D V fresh (run D V [read_step D V] (d, slot)) = v) /\
  (slot = None -> observe D V fresh (run D V [read_step D V] (d, slot)) = fresh d).
Proof. exact read_does_not_change_observation. Qed.
Print Assumptions C14_reading_a_memo_is_benign.

From LBG Require Import Base QGeom G0_vec G1_shapes.
From Coq Require Import QArith Morphisms.

(* a face answers the same before and after it was read, also once moved: the moved plane (generated Plane.move) keeps its axes, so a 2D point cached in the plane frame maps through the MOVED plane onto the
   moved 3D point, and a moved point keeps its 2D coordinates *)
From LBG Require Import C06_plane C02_planes C03_planemove.
Theorem C14_cached_plane_coordinates_survive_a_move : forall qsqrt (sqrt_proper : Proper (Qeq ==> Qeq) qsqrt) (sqrt_one : (qsqrt 1 == 1)%Q) p m,
  frame_ok p ->
  (forall q, Plane_xy_to_xyz (Plane_move qsqrt p m) q =3= Point3D_move (Plane_xy_to_xyz p q) m) /\
  (forall r, Plane_xyz_to_xy (Plane_move qsqrt p m) (Point3D_move r m) =2= Plane_xyz_to_xy p r).
Proof.
  intros qsqrt sp so p m F. split; [intros q; apply cached_2d_point_maps_to_the_moved_point; assumption | intros r; apply moved_point_keeps_its_2d_coordinates; assumption].
Qed.
Print Assumptions C14_cached_plane_coordinates_survive_a_move.
