"""What the translator is asked to emit: layers (= generated files) of root
definitions.  Everything a root reaches is translated on demand into the first
layer that needs it."""
from py2coq import Q, Z, B, NONE, TObj as O, TLst, TOpt, TTup

V2, P2, V3, P3 = O('Vector2D'), O('Point2D'), O('Vector3D'), O('Point3D')
SEG2, RAY2, SEG3, RAY3 = O('LineSegment2D'), O('Ray2D'), O('LineSegment3D'), O('Ray3D')
PLANE = O('Plane')


def r(target, args, name=None):
    d = dict(target=target, args=args)
    if name:
        d['name'] = name
    return d


G0_vec = [
    r('Vector2D._rotate', [V2, Q]),
    r('Vector2D._reflect', [V2, V2]),
    r('Vector2D.dot', [V2, V2]),
    r('Vector2D.determinant', [V2, V2]),
    r('Vector2D.cross', [V2]),
    r('Vector2D.normalize', [V2]),
    r('Vector2D.magnitude', [V2]),
    r('Vector2D.magnitude_squared', [V2]),
    r('Point2D.move', [P2, V2]),
    r('Point2D.rotate', [P2, Q, P2]),
    r('Point2D.reflect', [P2, V2, P2]),
    r('Point2D.scale', [P2, Q, P2]),
    r('Point2D.scale', [P2, Q], name='Point2D_scale_world'),
    r('Point2D.distance_to_point', [P2, P2]),
    r('Vector3D._rotate', [V3, V3, Q]),
    r('Vector3D._reflect', [V3, V3]),
    r('Vector3D.dot', [V3, V3]),
    r('Vector3D.cross', [V3, V3]),
    r('Vector3D.normalize', [V3]),
    r('Vector3D.rotate_xy', [V3, Q]),
    r('Vector3D.project', [V3, V3]),
    r('Point3D.move', [P3, V3]),
    r('Point3D.rotate', [P3, V3, Q, P3]),
    r('Point3D.rotate_xy', [P3, Q, P3]),
    r('Point3D.reflect', [P3, V3, P3]),
    r('Point3D.scale', [P3, Q, P3]),
    r('Point3D.scale', [P3, Q], name='Point3D_scale_world'),
    r('Point3D.project', [P3, V3, P3]),
    r('Point3D.distance_to_point', [P3, P3]),
]

LAYERS = [('G0_vec', G0_vec)]

ARC2, ARC3 = O('Arc2D'), O('Arc3D')
SPH, CONE, CYL = O('Sphere'), O('Cone'), O('Cylinder')


def transforms2d(cls, t):
    return [r(cls + '.move', [t, V2]), r(cls + '.rotate', [t, Q, P2]), r(cls + '.reflect', [t, V2, P2]),
            r(cls + '.scale', [t, Q, P2])]


def transforms3d(cls, t):
    return [r(cls + '.move', [t, V3]), r(cls + '.rotate', [t, V3, Q, P3]), r(cls + '.rotate_xy', [t, Q, P3]),
            r(cls + '.reflect', [t, V3, P3]), r(cls + '.scale', [t, Q, P3])]


G1_shapes = (transforms2d('LineSegment2D', SEG2) + transforms2d('Ray2D', RAY2)
             + transforms3d('LineSegment3D', SEG3) + transforms3d('Ray3D', RAY3)
             + [r('Plane.__init__', [V3, P3], name='Plane_init'), r('Plane.__init__', [V3, P3, V3], name='Plane_init_x')]
             + transforms3d('Plane', PLANE) + [r('Plane.flip', [PLANE]), r('Plane.xyz_to_xy', [PLANE, P3]),
                                               r('Plane.xy_to_xyz', [PLANE, P2])]
             + transforms3d('Sphere', SPH) + transforms3d('Cone', CONE) + transforms3d('Cylinder', CYL)
             + transforms2d('Arc2D', ARC2) + transforms3d('Arc3D', ARC3))

LAYERS = [('G0_vec', G0_vec), ('G1_shapes', G1_shapes)]


def both2(name, extra_first=None):
    """instantiate a 2D intersection function for segment and ray operands"""
    out = []
    for (na, ta) in (('seg', SEG2), ('ray', RAY2)):
        out.append((na, ta))
    return out


G2_inter = []
for na, ta in (('seg', SEG2), ('ray', RAY2)):
    for nb, tb in (('seg', SEG2), ('ray', RAY2)):
        G2_inter.append(r('intersection2d:intersect_line2d', [ta, tb], name='intersect_line2d_%s_%s' % (na, nb)))
        G2_inter.append(r('intersection2d:does_intersection_exist_line2d', [ta, tb], name='does_intersection_exist_line2d_%s_%s' % (na, nb)))
    G2_inter.append(r('intersection2d:intersect_line2d_infinite', [ta, RAY2], name='intersect_line2d_infinite_%s' % na))
    G2_inter.append(r('intersection2d:closest_point2d_on_line2d', [P2, ta], name='closest_point2d_on_line2d_%s' % na))
    G2_inter.append(r('intersection2d:closest_point2d_on_line2d_infinite', [P2, ta], name='closest_point2d_on_line2d_infinite_%s' % na))
G2_inter.append(r('intersection2d:intersect_line_segment2d', [SEG2, SEG2], name='intersect_line_segment2d'))
G2_inter.append(r('intersection2d:_isclose', [Q, Q], name='isclose'))
for na, ta in (('seg', SEG3), ('ray', RAY3)):
    G2_inter.append(r('intersection3d:intersect_line3d_plane', [ta, PLANE], name='intersect_line3d_plane_%s' % na))
    G2_inter.append(r('intersection3d:intersect_line3d_plane_infinite', [ta, PLANE], name='intersect_line3d_plane_infinite_%s' % na))
    G2_inter.append(r('intersection3d:closest_point3d_on_line3d', [P3, ta], name='closest_point3d_on_line3d_%s' % na))
    G2_inter.append(r('intersection3d:closest_point3d_on_line3d_infinite', [P3, ta], name='closest_point3d_on_line3d_infinite_%s' % na))
    G2_inter.append(r('intersection3d:closest_point3d_between_line3d_plane', [ta, PLANE], name='closest_point3d_between_line3d_plane_%s' % na))
    G2_inter.append(r('intersection3d:intersect_line3d_sphere', [ta, SPH], name='intersect_line3d_sphere_%s' % na))
G2_inter += [
    r('intersection3d:intersect_plane_plane', [PLANE, PLANE], name='intersect_plane_plane'),
    r('intersection3d:closest_point3d_on_plane', [P3, PLANE], name='closest_point3d_on_plane'),
    r('intersection3d:intersect_plane_sphere', [PLANE, SPH], name='intersect_plane_sphere'),
    r('Plane.is_point_above', [PLANE, P3]),
    r('Plane.project_point', [PLANE, P3], name='Plane_project_point'),
]
LAYERS.append(('G2_inter', G2_inter))

POLY2 = O('Polygon2D')
G3_poly = [
    r('Polygon2D.area', [POLY2]),
    r('Polygon2D.is_clockwise', [POLY2]),
    r('Polygon2D._are_clockwise', [TLst(P2)], name='Polygon2D_are_clockwise'),
    r('Polygon2D.perimeter', [POLY2]),
    r('Polygon2D.min', [POLY2]),
    r('Polygon2D.max', [POLY2]),
    r('Polygon2D.center', [POLY2]),
    r('Polygon2D.reverse', [POLY2]),
    r('Polygon2D.move', [POLY2, V2]),
    r('Polygon2D.rotate', [POLY2, Q, P2]),
    r('Polygon2D.reflect', [POLY2, V2, P2]),
    r('Polygon2D.scale', [POLY2, Q, P2]),
    r('Polygon2D.is_convex', [POLY2]),
]
LAYERS.append(('G3_poly', G3_poly))

FACE = O('Face3D')
G4_face = [
    r('Face3D._normal_from_3pts', [P3, P3, P3], name='Face3D_normal_from_3pts'),
    r('Face3D._plane_from_vertices', [TLst(P3)], name='Face3D_plane_from_vertices'),
    r('Face3D.__init__', [TLst(P3)], name='Face3D_init'),
    r('Face3D.__init__', [TLst(P3), PLANE], name='Face3D_init_plane'),
    r('Face3D.polygon2d', [FACE]),
    r('Face3D.area', [FACE]),
    r('Face3D.normal', [FACE]),
    r('Face3D.is_clockwise', [FACE]),
    r('Face3D.flip', [FACE]),
]
LAYERS.append(('G4_face', G4_face))

G5_bound = [
    r('Base1DIn2D.min', [SEG2], name='Base1DIn2D_min'), r('Base1DIn2D.max', [SEG2], name='Base1DIn2D_max'),
    r('Base1DIn2D.center', [SEG2], name='Base1DIn2D_center'),
    r('Base1DIn3D.min', [SEG3], name='Base1DIn3D_min'), r('Base1DIn3D.max', [SEG3], name='Base1DIn3D_max'),
    r('Base1DIn3D.center', [SEG3], name='Base1DIn3D_center'),
    r('bounding:bounding_domain_x', [TLst(POLY2)], name='bounding_domain_x'),
    r('bounding:bounding_domain_y', [TLst(POLY2)], name='bounding_domain_y'),
    r('bounding:overlapping_bounding_rect', [POLY2, POLY2, Q], name='overlapping_bounding_rect'),
    r('Polygon2D.overlapping_bounding_rect', [POLY2, POLY2, Q], name='Polygon2D_overlapping_bounding_rect'),
    r('Arc2D._angle_quadrant', [Q], name='Arc2D_angle_quadrant'),
    r('Arc2D.min', [ARC2], name='Arc2D_min'), r('Arc2D.max', [ARC2], name='Arc2D_max'),
    r('Sphere.min', [SPH]), r('Sphere.max', [SPH]),
]
LAYERS.append(('G5_bound', G5_bound))

NODE = O('_Node')
G6_tri = [
    r('triangulation:_area', [NODE, NODE, NODE], name='earcut_area'),
    r('triangulation:_equals', [NODE, NODE], name='earcut_equals'),
    r('triangulation:_intersects', [NODE, NODE, NODE, NODE], name='earcut_intersects'),
    r('triangulation:_point_in_triangle', [Q, Q, Q, Q, Q, Q, Q, Q], name='earcut_point_in_triangle'),
]
LAYERS.append(('G6_tri', G6_tri))

G7_contain = [
    r('Polygon2D.is_point_inside', [POLY2, P2, V2], name='Polygon2D_is_point_inside'),
    r('Polygon2D.is_point_inside_bound_rect', [POLY2, P2, V2], name='Polygon2D_is_point_inside_bound_rect'),
    r('Polygon2D.is_point_on_edge', [POLY2, P2, Q], name='Polygon2D_is_point_on_edge'),
    r('Polygon2D.point_relationship', [POLY2, P2, Q], name='Polygon2D_point_relationship'),
    r('Polygon2D.distance_to_point', [POLY2, P2], name='Polygon2D_distance_to_point'),
    r('Polygon2D.distance_from_edge_to_point', [POLY2, P2], name='Polygon2D_distance_from_edge_to_point'),
    r('LineSegment2D.distance_to_point', [SEG2, P2], name='LineSegment2D_distance_to_point'),
]
LAYERS.append(('G7_contain', G7_contain))

G8_curve = [
    r('LineSegment2D.point_at', [SEG2, Q], name='LineSegment2D_point_at'),
    r('LineSegment3D.point_at', [SEG3, Q], name='LineSegment3D_point_at'),
    r('LineSegment2D.p2', [SEG2], name='LineSegment2D_p2'),
    r('LineSegment3D.p2', [SEG3], name='LineSegment3D_p2'),
    r('LineSegment2D.midpoint', [SEG2], name='LineSegment2D_midpoint'),
    r('LineSegment3D.split_with_plane', [SEG3, PLANE], name='LineSegment3D_split_with_plane'),
    r('Arc2D.point_at', [ARC2, Q], name='Arc2D_point_at'),
    r('Arc2D.angle', [ARC2], name='Arc2D_angle'),
    r('Arc2D.length', [ARC2], name='Arc2D_length'),
    r('Arc2D.point_at_angle', [ARC2, Q], name='Arc2D_point_at_angle'),
    r('Arc2D.point_at_length', [ARC2, Q], name='Arc2D_point_at_length'),
    r('Arc3D.angle', [ARC3], name='Arc3D_angle'),
    r('Arc3D.length', [ARC3], name='Arc3D_length'),
    r('Arc3D.point_at', [ARC3, Q], name='Arc3D_point_at'),
    r('Arc3D.point_at_angle', [ARC3, Q], name='Arc3D_point_at_angle'),
    r('Arc3D.point_at_length', [ARC3, Q], name='Arc3D_point_at_length'),
    r('LineSegment2D.point_at_length', [SEG2, Q], name='LineSegment2D_point_at_length'),
    r('LineSegment3D.point_at_length', [SEG3, Q], name='LineSegment3D_point_at_length'),
]
LAYERS.append(('G8_curve', G8_curve))

G9_clean = [
    r('Polygon2D.remove_colinear_vertices', [POLY2, Q], name='Polygon2D_remove_colinear_vertices'),
    r('Polygon2D.remove_duplicate_vertices', [POLY2, Q], name='Polygon2D_remove_duplicate_vertices'),
    r('Polyline2D.remove_colinear_vertices', [O('Polyline2D'), Q], name='Polyline2D_remove_colinear_vertices'),
    r('Polyline3D.remove_colinear_vertices', [O('Polyline3D'), Q], name='Polyline3D_remove_colinear_vertices'),
    r('Face3D._remove_colinear', [FACE, TLst(P3), POLY2, Q], name='Face3D__remove_colinear'),
]
LAYERS.append(('G9_clean', G9_clean))

G10_grid = [
    r('Mesh2D._grid_faces', [Z, Z], name='Mesh2D__grid_faces'),
    r('Mesh2D._grid_vertices', [P2, Z, Z, Q, Q], name='Mesh2D__grid_vertices'),
    r('Mesh2D._grid_centroids', [P2, Z, Z, Q, Q], name='Mesh2D__grid_centroids'),
]
LAYERS.append(('G10_grid', G10_grid))

G11_sub = [
    r('Polygon2D.offset', [POLY2, Q], name='Polygon2D_offset'),
    r('LineSegment2D.subdivide_evenly', [SEG2, Z], name='LineSegment2D_subdivide_evenly'),
    r('LineSegment3D.subdivide_evenly', [SEG3, Z], name='LineSegment3D_subdivide_evenly'),
    r('Face3D.sub_rects_from_rect_ratio', [PLANE, Q, Q, Q, Q, Q, Q, Q], name='Face3D_sub_rects_from_rect_ratio'),
    r('Face3D.sub_rects_from_rect_dimensions', [PLANE, Q, Q, Q, Q, Q, Q], name='Face3D_sub_rects_from_rect_dimensions'),
]
LAYERS.append(('G11_sub', G11_sub))

TRI3 = TLst(P3)
G12_mesh = [
    r('Mesh2D._get_area', [TLst(P2)], name='Mesh2D__get_area'),
    r('Mesh2D._tri_centroid', [TLst(P2)], name='Mesh2D__tri_centroid'),
    r('Mesh3D._get_tri_area', [TLst(P3)], name='Mesh3D__get_tri_area'),
    r('Mesh3D._tri_centroid', [TLst(P3)], name='Mesh3D__tri_centroid'),
    r('Mesh3D._quad_centroid', [TLst(P3)], name='Mesh3D__quad_centroid'),
    r('Mesh2D._quad_to_triangles', [TLst(P2)], name='Mesh2D__quad_to_triangles'),
    r('Sphere.area', [SPH], name='Sphere_area'), r('Sphere.volume', [SPH], name='Sphere_volume'),
    r('Cylinder.height', [CYL], name='Cylinder_height'), r('Cylinder.area', [CYL], name='Cylinder_area'),
    r('Cylinder.volume', [CYL], name='Cylinder_volume'),
    r('Cone.height', [CONE], name='Cone_height'), r('Cone.radius', [CONE], name='Cone_radius'),
    r('Cone.slant_height', [CONE], name='Cone_slant_height'), r('Cone.area', [CONE], name='Cone_area'),
    r('Cone.volume', [CONE], name='Cone_volume'),
    r('Mesh2D.join_meshes', [TLst(O('Mesh2D'))], name='Mesh2D_join_meshes'),
    r('Mesh3D.join_meshes', [TLst(O('Mesh3D'))], name='Mesh3D_join_meshes'),
    r('Mesh3D.remove_faces_only', [O('Mesh3D'), TLst(B)], name='Mesh3D_remove_faces_only'),
    r('Mesh2D.remove_faces_only', [O('Mesh2D'), TLst(B)], name='Mesh2D_remove_faces_only'),
    r('Polyface3D._verts_faces_edges_from_boundary', [TLst(P3), V3, Z], name='Polyface3D__verts_faces_edges_from_boundary'),
]
LAYERS.append(('G12_mesh', G12_mesh))
