(* C12_polygon.v -- Polygon2D.distance_to_point / distance_from_edge_to_point (generated): the reported value is the least of the
   distances to ALL edges (it is attained on one edge and exceeds none), and - the root being monotone - no point of any edge is
   closer to the query than the reported value. *)
From Coq Require Import QArith Qminmax List Lqa.
From LBG Require Import Base QGeom G0_vec G1_shapes G2_inter G3_poly G7_contain C11_inter2d C12_closest.
Import ListNotations.
Open Scope Q_scope.

Lemma fold_min_le (l : list Q) : forall a, fold_left Qmin l a <= a /\ forall x, In x l -> fold_left Qmin l a <= x.
Proof.
  induction l as [|y r IH]; intros a; cbn [fold_left].
  - split; [apply Qle_refl | intros x []].
  - destruct (IH (Qmin a y)) as [H1 H2]. split.
    + eapply Qle_trans; [exact H1 | apply Q.le_min_l].
    + intros x [E|I]; [subst x; eapply Qle_trans; [exact H1 | apply Q.le_min_r] | apply H2; exact I].
Qed.

Lemma fold_min_attained (l : list Q) : forall a, fold_left Qmin l a == a \/ exists x, In x l /\ fold_left Qmin l a == x.
Proof.
  induction l as [|y r IH]; intros a; cbn [fold_left]; [left; reflexivity|].
  destruct (IH (Qmin a y)) as [E|[x [I E]]].
  - destruct (Q.min_dec a y) as [M|M]; [left; eapply Qeq_trans; [exact E | exact M] | right; exists y; split; [left; reflexivity | eapply Qeq_trans; [exact E | exact M]]].
  - right. exists x. split; [right; exact I | exact E].
Qed.

Lemma min_list_spec (l : list Q) : l <> [] ->
  (forall x, In x l -> py_min_list l <= x) /\ exists x, In x l /\ py_min_list l == x.
Proof.
  destruct l as [|a r]; [intros H; contradiction H; reflexivity|]. intros _. unfold py_min_list.
  destruct (fold_min_le r a) as [H1 H2]. split.
  - intros x [E|I]; [subst x; exact H1 | apply H2; exact I].
  - destruct (fold_min_attained r a) as [E|[x [I E]]]; [exists a; split; [left; reflexivity | exact E] | exists x; split; [right; exact I | exact E]].
Qed.

Section Dist.
Variable qsqrt : Q -> Q.
Hypothesis sqrt_mono : forall a b, 0 <= a -> a <= b -> qsqrt a <= qsqrt b.

Definition edge_dist (p : V2) (s : LR2) : Q := Base1DIn2D_distance_to_point qsqrt s p.

Lemma edge_dist_is p s : edge_dist p s = qsqrt (sqd2 p (closest_point2d_on_line2d_seg p s)).
Proof. reflexivity. Qed.

(* no point of the edge is closer than the edge distance *)
Lemma edge_dist_least p s t : ~ dot2 (lr2v s) (lr2v s) == 0 -> in_seg t -> edge_dist p s <= qsqrt (sqd2 p (on2 s t)).
Proof.
  intros Hd Ht. rewrite edge_dist_is. apply sqrt_mono; [apply dot2_self_nonneg|].
  destruct (closest_point2d_segment_correct p s Hd) as [_ M]. apply M. exact Ht.
Qed.

Theorem distance_from_edge_spec (pg : Polygon2R) (p : V2) : Polygon2D_segments pg <> [] ->
  (forall s, In s (Polygon2D_segments pg) -> Polygon2D_distance_from_edge_to_point qsqrt pg p <= edge_dist p s) /\
  (exists s, In s (Polygon2D_segments pg) /\ Polygon2D_distance_from_edge_to_point qsqrt pg p == edge_dist p s).
Proof.
  intros NE. unfold Polygon2D_distance_from_edge_to_point.
  assert (NE' : map (fun seg => Base1DIn2D_distance_to_point qsqrt seg p) (Polygon2D_segments pg) <> [])
    by (destruct (Polygon2D_segments pg); [contradiction NE; reflexivity | discriminate]).
  destruct (min_list_spec _ NE') as [L [x [I E]]]. split.
  - intros s Hs. apply L. apply (in_map (fun seg => Base1DIn2D_distance_to_point qsqrt seg p)). exact Hs.
  - apply in_map_iff in I. destruct I as [s [Es Hs]]. exists s. split; [exact Hs | rewrite E, <- Es; reflexivity].
Qed.

(* the query outside the polygon (the inside test answers false): distance_to_point is that least edge distance, so no point of ANY
   edge is closer than the reported value *)
Theorem distance_to_point_outside_spec (pg : Polygon2R) (p : V2) :
  Polygon2D_is_point_inside_bound_rect_2 pg p = false -> Polygon2D_segments pg <> [] ->
  (forall s, In s (Polygon2D_segments pg) -> ~ dot2 (lr2v s) (lr2v s) == 0) ->
  (forall s t, In s (Polygon2D_segments pg) -> in_seg t -> Polygon2D_distance_to_point qsqrt pg p <= qsqrt (sqd2 p (on2 s t))) /\
  (exists s u, In s (Polygon2D_segments pg) /\ in_seg u /\ Polygon2D_distance_to_point qsqrt pg p == qsqrt (sqd2 p (on2 s u))).
Proof.
  intros Out NE ND. unfold Polygon2D_distance_to_point. rewrite Out.
  change (py_min_list (map (fun seg => Base1DIn2D_distance_to_point qsqrt seg p) (Polygon2D_segments pg)))
    with (Polygon2D_distance_from_edge_to_point qsqrt pg p).
  destruct (distance_from_edge_spec pg p NE) as [L [s [Hs E]]]. split.
  - intros s' t Hs' Ht. eapply Qle_trans; [apply L; exact Hs' | apply edge_dist_least; [apply ND; exact Hs' | exact Ht]].
  - destruct (closest_point2d_segment_correct p s (ND s Hs)) as [[u [Hu Eu]] _].
    exists s, u. split; [exact Hs|]. split; [exact Hu|]. rewrite E, edge_dist_is, Eu. reflexivity.
Qed.

Theorem distance_to_point_inside (pg : Polygon2R) (p : V2) :
  Polygon2D_is_point_inside_bound_rect_2 pg p = true -> Polygon2D_distance_to_point qsqrt pg p = 0.
Proof. intros H. unfold Polygon2D_distance_to_point. rewrite H. reflexivity. Qed.
End Dist.
