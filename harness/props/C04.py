"""C04  polygon Boolean operations compute the exact set operation.

The sweep (_Intersecter) and chainer are NOT modelled: the implementation's result, read
even-odd at unit-cell centres, is compared with the Coq specification CellSpec (evaluated by
vm_compute) on the lattice family, and by exact point membership + area identities on the
general-position family."""
import math
from fractions import Fraction
from .. import core, gens as G, exact as X, build as Bd
from ..core import q, F
from ..build import P2
from ladybug_geometry.geometry2d import Polygon2D

RULE = ('(i) rectilinear lattice polygons (rectangles, L/T/U/polyomino shapes, nested, sharing edges/corners, both windings, 2..6 '
        'operands for *_all) checked exactly against unit-cell sets; (ii) general-position star/convex polygons checked by exact '
        'membership at points >=10*tol from every edge plus area identities. non-trivial = operands overlap or touch; distinct by '
        '(operation, relation of the operands, sizes)')
ASSUMPTIONS = ['the Martinez sweep and the segment chainer are validated, not modelled; result lists are read with even-odd nesting']
TRUSTED = ['CellSpec.v is the specification; its set/area laws are proved, the implementation is compared with it on generated inputs']
TOL = 0.01
OPS = ['union', 'intersect', 'difference', 'xor']


def poly(loop):
    return Polygon2D([P2(p) for p in loop])


def cells_of_result(polys, x0, y0, x1, y1):
    """unit cells whose centre is inside an odd number of the returned polygons; None if a centre is on an edge"""
    loops = [[X.fpt(v) for v in p.vertices] for p in polys]
    out = set()
    for i in range(x0, x1):
        for j in range(y0, y1):
            c = (Fraction(2 * i + 1, 2), Fraction(2 * j + 1, 2))
            n = 0
            for lp in loops:
                r = X.winding_inside(lp, c)
                if r is None:
                    return None
                n += 1 if r else 0
            if n % 2 == 1:
                out.add((i, j))
    return out


def apply_op(op, a, b):
    if op == 'union': return a.boolean_union(b, TOL)
    if op == 'intersect': return a.boolean_intersect(b, TOL)
    if op == 'difference': return a.boolean_difference(b, TOL)
    if op == 'xor': return a.boolean_xor(b, TOL)
    raise KeyError(op)


def set_op(op, A, B):
    return {'union': A | B, 'intersect': A & B, 'difference': A - B, 'xor': A ^ B}[op]


def lattice_pair(rng):
    mode = rng.choice(['random', 'random', 'big', 'big', 'nested', 'share_edge', 'share_corner', 'equal', 'disjoint', 'cross'])
    if mode == 'big':
        # larger, strongly concave shapes (several local extreme corners: the chainer has to join open chains)
        ca = G.polyomino(rng, ncells=rng.randint(10, 22), w=7, h=7); cb = G.polyomino(rng, ncells=rng.randint(10, 22), w=7, h=7)
        dx, dy = rng.randint(-3, 3), rng.randint(-3, 3)
        cb = {(i + dx, j + dy) for i, j in cb}
    elif mode == 'random':
        ca = G.polyomino(rng, w=5, h=5); cb = G.polyomino(rng, w=5, h=5)
        dx, dy = rng.randint(-2, 2), rng.randint(-2, 2)
        cb = {(i + dx, j + dy) for i, j in cb}
    elif mode == 'nested':
        ca = G.rect_cells(0, 0, 6, 6); x, y = rng.randint(1, 3), rng.randint(1, 3)
        cb = G.rect_cells(x, y, x + rng.randint(1, 2), y + rng.randint(1, 2))
        if rng.random() < 0.5:
            ca, cb = cb, ca          # the receiver is the inner one
    elif mode == 'share_edge':
        w = rng.randint(1, 4); ca = G.rect_cells(0, 0, w, 3); cb = G.rect_cells(w, rng.randint(-1, 1), w + rng.randint(1, 3), 3 + rng.randint(-1, 2))
    elif mode == 'share_corner':
        ca = G.rect_cells(0, 0, 3, 3); cb = G.rect_cells(3, 3, 5, 6)
    elif mode == 'equal':
        ca = G.polyomino(rng, w=4, h=4); cb = set(ca)
    elif mode == 'disjoint':
        ca = G.rect_cells(0, 0, 2, 2); cb = G.rect_cells(4, rng.randint(-1, 3), 6, 5)
    else:
        ca = G.rect_cells(0, 2, 7, 4); cb = G.rect_cells(2, 0, 4, 7)
    if not (G.cells_ok(ca) and G.cells_ok(cb)):
        return None
    la = G.cells_boundary(ca)[0]; lb = G.cells_boundary(cb)[0]
    if rng.random() < 0.5: la = la[::-1]
    if rng.random() < 0.5: lb = lb[::-1]
    if rng.random() < 0.3:
        k = rng.randrange(len(la)); la = la[k:] + la[:k]
    return mode, ca, cb, la, lb


def bbox_cells(*cellsets):
    xs = [c[0] for s in cellsets for c in s]; ys = [c[1] for s in cellsets for c in s]
    return min(xs) - 1, min(ys) - 1, max(xs) + 2, max(ys) + 2


def fam_lattice(ctx, rng, collect=None):
    lp = lattice_pair(rng)
    if lp is None:
        return
    mode, ca, cb, la, lb = lp
    judge_lattice(ctx, mode, ca, cb, la, lb, rng.choice(OPS + ['split']), collect)


def cells_of_loop(loop):
    """cell set of a rectilinear lattice loop (exact, even-odd at centres)"""
    xs = [int(p[0]) for p in loop]; ys = [int(p[1]) for p in loop]
    return cells_of_result([poly(loop)], min(xs) - 1, min(ys) - 1, max(xs) + 1, max(ys) + 1)


# fixed corpus, run first on every run: strongly concave pairs whose results are assembled from several open chains
def _comb(x0, y0, teeth, up=True, tw=1, gap=1, th=3):
    pts = [(x0, y0), (x0 + teeth * (tw + gap) - gap, y0)] if up else []
    w = teeth * (tw + gap) - gap
    if up:
        loop = [(x0, y0), (x0 + w, y0)]
        x = x0 + w
        for t in range(teeth):
            loop += [(x, y0 + th), (x - tw, y0 + th)]
            x -= tw
            if t < teeth - 1:
                loop += [(x, y0 + 1), (x - gap, y0 + 1)]
                x -= gap
        return [(float(a), float(b)) for a, b in loop]
    loop = [(x0, y0), (x0 + w, y0)][::-1]
    x = x0
    out = [(x0 + w, y0), (x0, y0)]
    for t in range(teeth):
        out += [(x, y0 - th), (x + tw, y0 - th)]
        x += tw
        if t < teeth - 1:
            out += [(x, y0 - 1), (x + gap, y0 - 1)]
            x += gap
    return [(float(a), float(b)) for a, b in out]


CORPUS = [
    ([(5, 0), (5, 2), (6, 2), (6, 1), (9, 1), (9, 0)], [(8, 7), (3, 7), (3, 2), (8, 2), (8, 3), (4, 3), (4, 6), (8, 6)]),
    (_comb(0, 0, 4), [(-1.0, 2.0), (8.0, 2.0), (8.0, 5.0), (-1.0, 5.0)]),
    (_comb(0, 0, 3), _comb(0, 4, 3, up=False)),
    (_comb(0, 0, 4), _comb(1, 5, 3, up=False)),
    ([(0, 0), (7, 0), (7, 7), (0, 7), (0, 6), (6, 6), (6, 1), (1, 1), (1, 5), (0, 5)], [(2, 2), (9, 2), (9, 4), (3, 4), (3, 8), (2, 8)]),
]


def fam_corpus(ctx):
    for la, lb in CORPUS:
        la = [(float(x), float(y)) for x, y in la]; lb = [(float(x), float(y)) for x, y in lb]
        fa, fb = [X.fpt(p) for p in la], [X.fpt(p) for p in lb]
        if not (X.is_simple(fa) and X.is_simple(fb)):
            continue
        ca, cb = cells_of_loop(la), cells_of_loop(lb)
        for op in OPS + ['split']:
            for ra, rb in ((la, lb), (la[::-1], lb), (lb, la)):
                judge_lattice(ctx, 'corpus', ca if ra is not lb else cb, cb if ra is not lb else ca, ra, rb, op, None)


def judge_lattice(ctx, mode, ca, cb, la, lb, op, collect=None):
    a, b = poly(la), poly(lb)
    desc = {'a': la, 'b': lb, 'op': op, 'relation': mode}
    box = bbox_cells(ca, cb)
    ctx.count('lattice.' + op, key=(mode, len(ca), len(cb)), sample=desc, nontrivial=mode != 'disjoint')
    try:
        if op == 'split':
            inter, da, db = Polygon2D.boolean_split(a, b, TOL)
            results = [('intersect', inter, ca & cb), ('difference', da, ca - cb), ('difference_rev', db, cb - ca)]
        else:
            results = [(op, apply_op(op, a, b), set_op(op, ca, cb))]
    except Exception as e:
        ctx.violation('lattice.%s:raises' % op, '%r' % (e,), desc)
        return
    for name, res, exp in results:
        got = cells_of_result(res, *box)
        if got is None:
            ctx.violation('lattice.%s:%s:edge_through_cell' % (op, mode), 'a result edge passes through a unit-cell centre', dict(desc, result=[p.to_array() for p in res]))
            continue
        if got != exp:
            ctx.violation('lattice.%s:%s:wrong_region' % (op if op != 'split' else 'split_' + name, mode),
                          'region differs from the exact set operation: extra %s missing %s' % (sorted(got - exp), sorted(exp - got)),
                          dict(desc, result=[p.to_array() for p in res]))
        if collect is not None:
            collect.append((name, ca, cb, got))


def fam_lattice_all(ctx, rng):
    n = rng.randint(2, 6)
    sets, loops = [], []
    for _ in range(n):
        c = G.polyomino(rng, ncells=rng.randint(2, 8), w=4, h=4)
        dx, dy = rng.randint(0, 3), rng.randint(0, 3)
        c = {(i + dx, j + dy) for i, j in c}
        sets.append(c)
        lp = G.cells_boundary(c)[0]
        loops.append(lp[::-1] if rng.random() < 0.5 else lp)
    op = rng.choice(['union_all', 'intersect_all'])
    desc = {'polygons': loops, 'op': op}
    box = bbox_cells(*sets)
    ctx.count('lattice.' + op, key=(n, sum(len(s) for s in sets)), sample=desc)
    try:
        if op == 'union_all':
            res = Polygon2D.boolean_union_all([poly(l) for l in loops], TOL); exp = set().union(*sets)
        else:
            res = Polygon2D.boolean_intersect_all([poly(l) for l in loops], TOL); exp = set(sets[0]).intersection(*sets[1:])
    except Exception as e:
        ctx.violation('lattice.%s:raises' % op, '%r' % (e,), desc)
        return
    got = cells_of_result(res, *box)
    if got is None or got != exp:
        ctx.violation('lattice.%s:wrong_region' % op, 'region differs from the exact set operation (got %s expected %s)' % (
            None if got is None else sorted(got), sorted(exp)), dict(desc, result=[p.to_array() for p in res]))


def evenodd_area(polys):
    loops = [[X.fpt(v) for v in p.vertices] for p in polys]
    tot = Fraction(0)
    for i, lp in enumerate(loops):
        depth = 0
        for j, other in enumerate(loops):
            if i == j:
                continue
            r = X.winding_inside(other, lp[0])
            if r is None:
                # touching loops: use an interior-ish point (edge midpoint) instead
                m = tuple((lp[0][k] + lp[1][k]) / 2 for k in range(2))
                r = X.winding_inside(other, m)
                if r is None:
                    return None
            depth += 1 if r else 0
        tot += X.area(lp) * (-1) ** depth
    return tot


def fam_general(ctx, rng):
    R = rng.choice([5.0, 50.0])
    la = G.star_polygon(rng, n=rng.randint(3, 16), R=R, center=(0.0, 0.0), bits=20)
    lb = G.star_polygon(rng, n=rng.randint(3, 16), R=R, center=(G.dy(rng.uniform(-R, R)), G.dy(rng.uniform(-R, R))), bits=20)
    if rng.random() < 0.5: la = la[::-1]
    if rng.random() < 0.5: lb = lb[::-1]
    fa, fb = [X.fpt(p) for p in la], [X.fpt(p) for p in lb]
    # general position: no vertex of one within 10 tol of an edge of the other
    m = Fraction(10 * TOL) ** 2
    if any(X.sqdist_to_boundary(fb, p) < m for p in fa) or any(X.sqdist_to_boundary(fa, p) < m for p in fb):
        return
    a, b = poly(la), poly(lb)
    op = rng.choice(OPS)
    desc = {'a': la, 'b': lb, 'op': op}
    try:
        res = apply_op(op, a, b)
    except Exception as e:
        ctx.violation('general.%s:raises' % op, '%r' % (e,), desc)
        return
    inter = X.winding_inside(fb, fa[0]) or X.winding_inside(fa, fb[0]) or any(
        X.segs_intersect(fa[i - 1], fa[i], fb[j - 1], fb[j]) for i in range(len(fa)) for j in range(len(fb)))
    ctx.count('general.' + op, key=(len(la), len(lb), bool(inter)), sample=desc, nontrivial=bool(inter))
    loops = [[X.fpt(v) for v in p.vertices] for p in res]
    xs = [float(p[0]) for p in fa + fb]; ys = [float(p[1]) for p in fa + fb]
    bad = 0
    for _ in range(40):
        pt = (Fraction(G.dy(rng.uniform(min(xs) - 1, max(xs) + 1), 16)), Fraction(G.dy(rng.uniform(min(ys) - 1, max(ys) + 1), 16)))
        if X.sqdist_to_boundary(fa, pt) < m or X.sqdist_to_boundary(fb, pt) < m:
            continue
        ina, inb = X.winding_inside(fa, pt), X.winding_inside(fb, pt)
        exp = {'union': ina or inb, 'intersect': ina and inb, 'difference': ina and not inb, 'xor': ina != inb}[op]
        n = 0; on_edge = False
        for lp in loops:
            r = X.winding_inside(lp, pt)
            if r is None:
                on_edge = True
            n += 1 if r else 0
        if on_edge:
            continue
        if (n % 2 == 1) != bool(exp):
            ctx.violation('general.%s:membership' % op, 'point %s: in A=%s in B=%s but result parity says %s' % (
                (float(pt[0]), float(pt[1])), ina, inb, n % 2 == 1), dict(desc, result=[p.to_array() for p in res]))
            return
    # area identities (tolerance: snapping to tol moves edges by < tol)
    if op == 'union':
        try:
            ri = a.boolean_intersect(b, TOL)
        except Exception:
            return
        au, ai = evenodd_area(res), evenodd_area(ri)
        if au is not None and ai is not None:
            per = X.perimeter(fa) + X.perimeter(fb)
            if abs(float(au + ai - X.area(fa) - X.area(fb))) > 4 * TOL * per + 1e-6:
                ctx.violation('general.union:inclusion_exclusion', 'area(A u B) %r + area(A n B) %r != %r + %r' % (
                    float(au), float(ai), float(X.area(fa)), float(X.area(fb))), desc)


def small_poly(rng):
    for _ in range(40):
        n = rng.choice([3, 3, 4, 4, 5])
        pts = [(float(rng.randint(-9, 9)), float(rng.randint(-9, 9))) for _ in range(n)]
        f = [X.fpt(p) for p in pts]
        if len(set(pts)) == n and X.is_simple(f) and X.shoelace2(f) != 0 and all(X.orient(f[i - 2], f[i - 1], f[i]) != 0 for i in range(n)):
            return pts
    return None


def fam_small_general(ctx, rng):
    """pairs of small polygons (3..5 vertices, integer coordinates in [-9, 9]) in general position: long thin triangles and quads whose
    edges become neighbours in the sweep only after a short edge between them has ended; every operation, judged at sample points"""
    la, lb = small_poly(rng), small_poly(rng)
    if la is None or lb is None:
        return
    fa, fb = [X.fpt(p) for p in la], [X.fpt(p) for p in lb]
    m = Fraction(10 * TOL) ** 2
    if any(X.sqdist_to_boundary(fb, p) < m for p in fa) or any(X.sqdist_to_boundary(fa, p) < m for p in fb):
        return
    if not any(X.segs_intersect(fa[i - 1], fa[i], fb[j - 1], fb[j]) for i in range(len(fa)) for j in range(len(fb))):
        return
    a, b = poly(la), poly(lb)
    pts = []
    for _ in range(60):
        pt = (Fraction(G.dy(rng.uniform(-9.5, 9.5), 12)), Fraction(G.dy(rng.uniform(-9.5, 9.5), 12)))
        if X.sqdist_to_boundary(fa, pt) >= m and X.sqdist_to_boundary(fb, pt) >= m:
            pts.append((pt, X.winding_inside(fa, pt), X.winding_inside(fb, pt)))
    ctx.count('small_general', key=(len(la), len(lb)), sample={'a': la, 'b': lb}, nontrivial=True)
    for op in OPS:
        desc = {'a': la, 'b': lb, 'op': op}
        try:
            res = apply_op(op, a, b)
        except Exception as e:
            ctx.violation('small_general.%s:raises' % op, '%r' % (e,), desc); return
        loops = [[X.fpt(v) for v in p_.vertices] for p_ in res]
        for pt, ina, inb in pts:
            exp = {'union': ina or inb, 'intersect': ina and inb, 'difference': ina and not inb, 'xor': ina != inb}[op]
            rs = [X.winding_inside(lp, pt) for lp in loops]
            if any(r is None for r in rs):
                continue
            if (sum(1 for r in rs if r) % 2 == 1) != bool(exp):
                ctx.violation('small_general.%s:membership' % op, 'point %s: in A=%s in B=%s but the result says %s' % (
                    (float(pt[0]), float(pt[1])), ina, inb, not exp), dict(desc, result=[p_.to_array() for p_ in res])); return


def fam_long_edges(ctx, rng):
    """site-scale operands: a long thin rectangle (edges of 2000..8000) and a second polygon with a feature a few tolerances away from
    one of the long edges - a vertex 3..50 tolerances off the edge (not touching, not snapped), or a collinear overlap that starts
    5..50 tolerances from the end of the long edge; mirrored, transposed, either operand order; judged at sample points"""
    L = float(rng.choice([2000, 4000, 8000])); H = float(rng.choice([10, 20])); y0 = float(rng.choice([0, 10]))
    R = [(0.0, y0), (L, y0), (L, y0 + H), (0.0, y0 + H)]
    variant = rng.choice(['vertex_near_edge', 'vertex_near_edge', 'collinear_overlap'])
    g = rng.choice([0.03, 0.05, 0.05, 0.2, 0.5])
    if variant == 'vertex_near_edge':
        xa = G.dy(L * rng.uniform(0.2, 0.8)); w = float(rng.choice([500, 1000])); hgt = float(rng.choice([5, 9]))
        if rng.random() < 0.5:      # below the bottom edge, pointing up at it
            T = [(xa, y0 - g), (xa - w, y0 - g - hgt), (xa + w, y0 - g - hgt)]
        else:                       # above the top edge, pointing down at it
            T = [(xa, y0 + H + g), (xa + w, y0 + H + g + hgt), (xa - w, y0 + H + g + hgt)]
    else:
        x1 = G.dy(L * rng.uniform(0.3, 0.7))
        if rng.random() < 0.5:      # inside, sharing part of the top edge
            T = [(g, y0 + H / 2), (x1, y0 + H / 2), (x1, y0 + H), (g, y0 + H)]
        else:                       # outside, attached along part of the top edge
            T = [(g, y0 + H), (x1, y0 + H), (x1, y0 + H + 5.0), (g, y0 + H + 5.0)]
    la, lb = R, T
    if rng.random() < 0.5: la, lb = [(y, x) for x, y in la][::-1], [(y, x) for x, y in lb][::-1]
    if rng.random() < 0.5: la, lb = [(-x, y) for x, y in la][::-1], [(-x, y) for x, y in lb][::-1]
    if rng.random() < 0.5: la = la[::-1]
    if rng.random() < 0.5: lb = lb[::-1]
    if rng.random() < 0.5: la, lb = lb, la
    fa, fb = [X.fpt(p) for p in la], [X.fpt(p) for p in lb]
    m = Fraction(10 * TOL) ** 2
    xs = [p[0] for p in la + lb]; ys = [p[1] for p in la + lb]
    pts = []
    cands = [(rng.uniform(min(xs), max(xs)), rng.uniform(min(ys), max(ys))) for _ in range(60)]
    for lp in (la, lb):
        cx = sum(p[0] for p in lp) / len(lp); cy = sum(p[1] for p in lp) / len(lp)
        cands += [(cx + rng.uniform(-1, 1), cy + rng.uniform(-1, 1)) for _ in range(6)]
    for c in cands:
        pt = (Fraction(G.dy(c[0], 8)), Fraction(G.dy(c[1], 8)))
        if X.sqdist_to_boundary(fa, pt) >= m and X.sqdist_to_boundary(fb, pt) >= m:
            pts.append((pt, X.winding_inside(fa, pt), X.winding_inside(fb, pt)))
    a, b = poly(la), poly(lb)
    ctx.count('long_edges', key=(variant, L, g), sample={'a': la, 'b': lb, 'variant': variant}, nontrivial=True)
    for op in OPS:
        desc = {'a': la, 'b': lb, 'op': op, 'variant': variant, 'gap': g}
        try:
            res = apply_op(op, a, b)
        except Exception as e:
            ctx.violation('long_edges.%s:raises' % op, '%r' % (e,), desc); return
        loops = [[X.fpt(v) for v in p_.vertices] for p_ in res]
        for pt, ina, inb in pts:
            exp = {'union': ina or inb, 'intersect': ina and inb, 'difference': ina and not inb, 'xor': ina != inb}[op]
            rs = [X.winding_inside(lp, pt) for lp in loops]
            if any(r is None for r in rs):
                continue
            if (sum(1 for r in rs if r) % 2 == 1) != bool(exp):
                ctx.violation('long_edges.%s:membership' % op, '%s: point %s: in A=%s in B=%s but the result says %s' % (
                    variant, (float(pt[0]), float(pt[1])), ina, inb, not exp), dict(desc, result=[p_.to_array() for p_ in res])); return


FAMILIES = [(fam_long_edges, 160), (fam_lattice, 220), (fam_lattice_all, 50), (fam_general, 140), (fam_small_general, 700)]


def explore(ctx):
    fam_corpus(ctx)
    for f, n in FAMILIES:
        for _ in range(ctx.n(n, n * 10)):
            f(ctx, ctx.rng)


def replay(ctx, data):
    kind = data.get('kind', '')
    d = data.get('data') or {}
    c2 = core.Ctx(ctx.pid, 'quick', 5)
    for f, _ in FAMILIES:
        for _ in range(1500):
            f(c2, c2.rng)
            if any(v.kind == kind for v in c2.violations):
                return True
    return False


def cells_coq(s):
    return core.coq_list(['(%d, %d)%%Z' % c for c in sorted(s)])


def correspond(ctx):
    """S-tie: the implementation's region (read at cell centres) against the Coq specification CellSpec"""
    rng = ctx.rng
    collected = []
    scratch = core.Ctx(ctx.pid, ctx.tier, 0)
    for _ in range(ctx.n(60, 500)):
        fam_lattice(scratch, rng, collect=collected)
    pre = ('Definition same (a b : list cell) : bool := forallb (fun c => mem c b) a && forallb (fun c => mem c a) b.\n')
    cases, meta = [], []
    spec = {'union': 'cunion', 'intersect': 'cinter', 'difference': 'cdiff', 'xor': 'cxor'}
    for name, ca, cb, got in collected:
        if name == 'difference_rev':
            term = 'cdiff %s %s' % (cells_coq(cb), cells_coq(ca))
        else:
            term = '%s %s %s' % (spec[name], cells_coq(ca), cells_coq(cb))
        cases.append('same (%s) %s' % (term, cells_coq(got)))
        meta.append((name, sorted(ca), sorted(cb)))
    res = core.run_cases('C04_corr', ['CellSpec'], pre, cases,
                         header='From Coq Require Import ZArith List Bool.\nImport ListNotations.\nFrom LBG Require Import CellSpec.\n')
    ctx.corr_cases += len(cases)
    for ok, m in zip(res, meta):
        if ok is not True:
            ctx.corr_fail.append({'function': 'boolean ' + m[0], 'input': repr(m[1:]),
                                  'result': 'implementation region differs from the CellSpec set operation' if ok is False else 'spec evaluation failed'})
