(* C06: Face3D constructor / flip contract (faces without holes, see model restriction
   in tools/py2coq.py).  About gen/G4_face.v. *)
From LBG Require Import Base QGeom ListCyc G0_vec G1_shapes G2_inter G3_poly G4_face C02_kernels C01_area C06_plane.
Open Scope Q_scope.

(* the 2D loop of a face: its boundary through the plane's 2D coordinates *)
Definition loop2d (pl : PlaneR) (b : list V3) : list V2 := map (fun v => Plane_xyz_to_xy pl v) b.

Lemma face_polygon2d_vertices f : pg_vertices (Face3D_polygon2d f) = loop2d (f3_plane f) (f3_boundary f).
Proof. reflexivity. Qed.

Lemma face_is_clockwise_iff f : Face3D_is_clockwise f = true <-> shoelace2 (loop2d (f3_plane f) (f3_boundary f)) < 0.
Proof. unfold Face3D_is_clockwise. rewrite polygon_is_clockwise_iff, face_polygon2d_vertices. tauto. Qed.

Lemma loop2d_rev pl b : loop2d pl (rev b) = rev (loop2d pl b).
Proof. unfold loop2d. apply map_rev. Qed.

(* the constructor (with or without a user plane whose normal may oppose the vertex order)
   never stores a clockwise boundary: for EVERY vertex list and EVERY plane *)
Theorem ctor_never_clockwise b pl : Face3D_is_clockwise (Face3D_init_plane b pl) = false.
Proof.
  destruct (Face3D_is_clockwise (Face3D_init_plane b pl)) eqn:E; [|reflexivity]. exfalso.
  apply face_is_clockwise_iff in E. revert E.
  unfold Face3D_init_plane, Face3D__check_vertices_input, Polygon2D_op_init, Base2DIn2D__check_vertices_input. cbv zeta. vred.
  fold (loop2d pl b).
  destruct (Polygon2D_is_clockwise {| pg_vertices := loop2d pl b |}) eqn:C; vred; intro E.
  - apply polygon_is_clockwise_iff in C. vred. rewrite loop2d_rev, shoelace_rev in E. lra.
  - assert (~ shoelace2 (loop2d pl b) < 0).
    { intro K. assert (Polygon2D_is_clockwise {| pg_vertices := loop2d pl b |} = true) by (apply polygon_is_clockwise_iff; exact K). congruence. }
    tauto.
Qed.

(* and the stored boundary is the given one or its reversal, the plane is the given plane *)
Theorem ctor_boundary b pl :
  f3_plane (Face3D_init_plane b pl) = pl /\
  (f3_boundary (Face3D_init_plane b pl) = b \/ f3_boundary (Face3D_init_plane b pl) = rev b).
Proof.
  unfold Face3D_init_plane, Face3D__check_vertices_input. cbv zeta. vred. split; [reflexivity|].
  destruct (Polygon2D_is_clockwise _); vred; auto.
Qed.

(* signed area in the face plane = (sum of cross products about o) . (x cross y) *)
Lemma proj_det pl a b : 
  det2 (Plane_xyz_to_xy pl a) (Plane_xyz_to_xy pl b)
  == dot3 (cross3 (sub3 a (pl_o pl)) (sub3 b (pl_o pl))) (cross3 (pl_x pl) (pl_y pl)).
Proof. unfold Plane_xyz_to_xy, Vector3D_dot, det2, dot3, cross3, sub3. cbv zeta. vred. ring. Qed.

(* Newell / area vector of a closed 3D loop, component-wise cyclic sums *)
Definition newell (l : list V3) : V3 :=
  mkV3 (cyc_sum (fun a b => v3x (cross3 a b)) l) (cyc_sum (fun a b => v3y (cross3 a b)) l)
       (cyc_sum (fun a b => v3z (cross3 a b)) l).

Lemma cyc_cross_translate (sel : V3 -> Q) (selx : forall u v, sel (add3 u v) == sel u + sel v)
  (P : Proper (v3eq ==> Qeq) sel) o l :
  cyc_sum (fun a b => sel (cross3 (sub3 a o) (sub3 b o))) l == cyc_sum (fun a b => sel (cross3 a b)) l.
Proof.
  rewrite (cyc_sum_ext _ (fun a b => sel (cross3 a b) + (sel (cross3 o a) - sel (cross3 o b)))).
  - rewrite cyc_sum_plus.
    rewrite (cyc_sum_ext (fun a b => sel (cross3 o a) - sel (cross3 o b)) (fun a b => (fun v => - sel (cross3 o v)) b - (fun v => - sel (cross3 o v)) a))
      by (intros; ring).
    rewrite cyc_sum_telescope. ring.
  - intros a b.
    assert (E : cross3 (sub3 a o) (sub3 b o) =3= add3 (cross3 a b) (add3 (cross3 o a) (smul3 (-1) (cross3 o b)))).
    { unfold cross3, sub3, add3, smul3. repeat split; vred; ring. }
    rewrite E. rewrite !selx.
    assert (E2 : sel (smul3 (-1) (cross3 o b)) == - sel (cross3 o b)).
    { assert (Z : sel (add3 (smul3 (-1) (cross3 o b)) (cross3 o b)) == sel (smul3 0 (cross3 o b))).
      { apply P. unfold add3, smul3. repeat split; vred; ring. }
      rewrite selx in Z.
      assert (Z0 : sel (smul3 0 (cross3 o b)) == 0).
      { assert (Z1 : sel (add3 (smul3 0 (cross3 o b)) (smul3 0 (cross3 o b))) == sel (smul3 0 (cross3 o b))).
        { apply P. unfold add3, smul3. repeat split; vred; ring. }
        rewrite selx in Z1. lra. }
      lra. }
    rewrite E2. ring.
Qed.

Global Instance v3x_proper : Proper (v3eq ==> Qeq) v3x. Proof. intros a b (E & _ & _); exact E. Qed.
Global Instance v3y_proper : Proper (v3eq ==> Qeq) v3y. Proof. intros a b (_ & E & _); exact E. Qed.
Global Instance v3z_proper : Proper (v3eq ==> Qeq) v3z. Proof. intros a b (_ & _ & E); exact E. Qed.

(* projected signed area = area vector . plane normal, for ANY closed loop (planar or not) *)
Theorem projected_area_is_newell_dot_normal pl l : frame_ok pl ->
  shoelace2 (loop2d pl l) == dot3 (newell l) (pl_n pl).
Proof.
  intros F. destruct (frame_orthonormal pl F) as (_ & _ & _ & XY).
  unfold shoelace2, loop2d. rewrite cyc_sum_map.
  rewrite (cyc_sum_ext _ (fun a b => dot3 (cross3 (sub3 a (pl_o pl)) (sub3 b (pl_o pl))) (pl_n pl))).
  2:{ intros a b. rewrite proj_det. rewrite XY. reflexivity. }
  unfold dot3 at 1.
  set (o := pl_o pl). set (n := pl_n pl).
  rewrite (cyc_sum_ext _ (fun a b => (v3x n * v3x (cross3 (sub3 a o) (sub3 b o)) + v3y n * v3y (cross3 (sub3 a o) (sub3 b o)))
                                      + v3z n * v3z (cross3 (sub3 a o) (sub3 b o)))) by (intros; ring).
  rewrite !cyc_sum_plus, !cyc_sum_scale.
  rewrite (cyc_cross_translate v3x), (cyc_cross_translate v3y), (cyc_cross_translate v3z);
    try (intros; unfold add3; vred; reflexivity); try typeclasses eauto.
  unfold newell, dot3. vred. ring.
Qed.

Theorem face_area_is_newell f : frame_ok (f3_plane f) ->
  Face3D_area f == Qabs (dot3 (newell (f3_boundary f)) (pl_n (f3_plane f)) / 2).
Proof.
  intros F. unfold Face3D_area. cbv zeta. rewrite polygon_area_is_shoelace, face_polygon2d_vertices.
  rewrite (projected_area_is_newell_dot_normal _ _ F). reflexivity.
Qed.

(* flip: normal negated, boundary reversed (faces without holes) *)
Theorem flip_contract qsqrt f : f3_holes f = None ->
  Proper (Qeq ==> Qeq) qsqrt ->
  f3_boundary (Face3D_flip qsqrt f) = rev (f3_boundary f) /\
  f3_plane (Face3D_flip qsqrt f) = Plane_flip qsqrt (f3_plane f).
Proof.
  intros H _. unfold Face3D_flip, Face3D_op_init, Face3D__check_vertices_input. cbv zeta. rewrite H. vred.
  split; reflexivity.
Qed.
