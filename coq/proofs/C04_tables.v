(* C04: the five fill-selection tables of boolean.py are exactly the truth tables of the set
   operations, for all 16 fill states (exhaustive, complete on this finite domain); the
   result's inversion flag is the operation applied to the operands' flags. *)
From LBG Require Import T_tables.
From Coq Require Import ZArith List Bool.
Import ListNotations.
Open Scope Z_scope.

Definition entry (tab : list Z) (a1 b1 a2 b2 : bool) : Z := nth (Z.to_nat (select_index a1 b1 a2 b2)) tab (-1).

(* what a correct selection must do for operation op on the "inside" indicators:
   above/below of the segment, result inside-ness = op (operand1 inside) (operand2 inside) *)
Definition correct_entry (op : bool -> bool -> bool) (a1 b1 a2 b2 : bool) (v : Z) : bool :=
  let ra := op a1 a2 in let rb := op b1 b2 in
  (* kept iff the result's indicator differs across the segment; fill = the result's side *)
  Bool.eqb (select_keep v) (xorb ra rb) &&
  (if xorb ra rb then Bool.eqb (select_fill_above v) ra && Bool.eqb (select_fill_below v) rb else true).

Definition all16 (f : bool -> bool -> bool -> bool -> bool) : bool :=
  forallb (fun a1 => forallb (fun b1 => forallb (fun a2 => forallb (fun b2 => f a1 b1 a2 b2) [false; true])
    [false; true]) [false; true]) [false; true].

Lemma all16_spec f : all16 f = true -> forall a1 b1 a2 b2, f a1 b1 a2 b2 = true.
Proof.
  unfold all16. intros H a1 b1 a2 b2.
  rewrite forallb_forall in H. specialize (H a1 ltac:(destruct a1; cbn; auto)).
  rewrite forallb_forall in H. specialize (H b1 ltac:(destruct b1; cbn; auto)).
  rewrite forallb_forall in H. specialize (H a2 ltac:(destruct a2; cbn; auto)).
  rewrite forallb_forall in H. specialize (H b2 ltac:(destruct b2; cbn; auto)). exact H.
Qed.

Definition table_ok (tab : list Z) (op : bool -> bool -> bool) : bool :=
  Nat.eqb (length tab) 16 && all16 (fun a1 b1 a2 b2 => correct_entry op a1 b1 a2 b2 (entry tab a1 b1 a2 b2)).

Theorem union_table_correct : forall a1 b1 a2 b2,
  correct_entry orb a1 b1 a2 b2 (entry select_union_table a1 b1 a2 b2) = true.
Proof. apply all16_spec. vm_compute. reflexivity. Qed.
Theorem intersect_table_correct : forall a1 b1 a2 b2,
  correct_entry andb a1 b1 a2 b2 (entry select_intersect_table a1 b1 a2 b2) = true.
Proof. apply all16_spec. vm_compute. reflexivity. Qed.
Theorem difference_table_correct : forall a1 b1 a2 b2,
  correct_entry (fun x y => x && negb y) a1 b1 a2 b2 (entry select_difference_table a1 b1 a2 b2) = true.
Proof. apply all16_spec. vm_compute. reflexivity. Qed.
Theorem difference_rev_table_correct : forall a1 b1 a2 b2,
  correct_entry (fun x y => negb x && y) a1 b1 a2 b2 (entry select_difference_rev_table a1 b1 a2 b2) = true.
Proof. apply all16_spec. vm_compute. reflexivity. Qed.
Theorem xor_table_correct : forall a1 b1 a2 b2,
  correct_entry xorb a1 b1 a2 b2 (entry select_xor_table a1 b1 a2 b2) = true.
Proof. apply all16_spec. vm_compute. reflexivity. Qed.

Theorem tables_have_16_entries :
  length select_union_table = 16%nat /\ length select_intersect_table = 16%nat /\ length select_difference_table = 16%nat /\
  length select_difference_rev_table = 16%nat /\ length select_xor_table = 16%nat.
Proof. repeat split; reflexivity. Qed.

(* "outside everything" of the result (inversion flag) is the operation on the operands' flags *)
Theorem inverted_flags_correct : forall a b,
  select_union_inverted a b = orb a b /\ select_intersect_inverted a b = andb a b /\
  select_difference_inverted a b = (a && negb b) /\ select_difference_rev_inverted a b = (negb a && b) /\
  select_xor_inverted a b = xorb a b.
Proof. intros [] []; repeat split; reflexivity. Qed.

(* meaning of the criterion: a segment is kept iff the result's indicator changes across it *)
Theorem selection_keeps_exactly_the_boundary op tab :
  (forall a1 b1 a2 b2, correct_entry op a1 b1 a2 b2 (entry tab a1 b1 a2 b2) = true) ->
  forall a1 b1 a2 b2, select_keep (entry tab a1 b1 a2 b2) = true <-> op a1 a2 <> op b1 b2.
Proof.
  intros H a1 b1 a2 b2. specialize (H a1 b1 a2 b2). unfold correct_entry in H. cbv zeta in H.
  apply andb_true_iff in H. destruct H as [H _]. apply eqb_prop in H. rewrite H.
  destruct (op a1 a2), (op b1 b2); cbn; split; congruence.
Qed.
