(* C08: ray-crossing containment test = parity of the crossing count; each crossing test is the exact
   closed-segment / closed-ray intersection criterion; on-edge = some segment within tolerance. *)
From LBG Require Import Base QGeom ListCyc G0_vec G1_shapes G2_inter G3_poly G7_contain C11_inter2d.
Open Scope Q_scope.

Definition crosses (ray : LR2) (s : LR2) : bool := does_intersection_exist_line2d_seg_ray s ray.
Definition crossing_count (p : Polygon2R) (pt v : V2) : nat :=
  length (filter (crosses (mkLR2 pt v)) (Polygon2D_segments p)).

Lemma count_fold (f : LR2 -> bool) l : forall n : nat,
  fold_left (fun n_int u_s => let n_int := (if f u_s then let n_int := (n_int + 1) in n_int else n_int) in n_int) l (inject_Z (Z.of_nat n))
  == inject_Z (Z.of_nat (n + length (filter f l))).
Proof.
  induction l as [|x r IH]; intros n; cbn [fold_left filter].
  - rewrite Nat.add_0_r. reflexivity.
  - destruct (f x); cbn [length].
    + assert (E : inject_Z (Z.of_nat n) + 1 == inject_Z (Z.of_nat (S n))).
      { rewrite Nat2Z.inj_succ. unfold Z.succ. rewrite inject_Z_plus. reflexivity. }
      transitivity (fold_left (fun n_int u_s => let n_int := (if f u_s then let n_int := (n_int + 1) in n_int else n_int) in n_int) r (inject_Z (Z.of_nat (S n)))).
      * clear IH. generalize (inject_Z (Z.of_nat n) + 1) (inject_Z (Z.of_nat (S n))) E. clear E.
        induction r as [|y r IHr]; intros a b E; cbn [fold_left]; [exact E|].
        apply IHr. destruct (f y); [rewrite E; reflexivity| exact E].
      * rewrite IH. replace (S n + length (filter f r))%nat with (n + S (length (filter f r)))%nat by lia. reflexivity.
    + apply IH.
Qed.

Global Instance py_mod_proper : Proper (Qeq ==> Qeq ==> Qeq) py_mod.
Proof.
  intros a b E c d F. unfold py_mod.
  assert (H : Qfloor (a / c) = Qfloor (b / d)) by (apply Qfloor_comp; rewrite E, F; reflexivity).
  rewrite H, E, F. reflexivity.
Qed.

Lemma py_mod2_zero_iff (n : nat) : py_mod (inject_Z (Z.of_nat n)) 2 == 0 <-> Nat.even n = true.
Proof.
  unfold py_mod. set (z := Z.of_nat n).
  assert (F : Qfloor (inject_Z z / 2) = (z / 2)%Z).
  { unfold Qdiv, Qmult, Qinv, inject_Z, Qfloor. cbn. rewrite Z.mul_1_r. reflexivity. }
  rewrite F.
  assert (E : inject_Z z - 2 * inject_Z (z / 2) == inject_Z (z mod 2)).
  { change 2 with (inject_Z 2). rewrite <- inject_Z_mult. unfold Qminus. rewrite <- inject_Z_opp, <- inject_Z_plus.
    apply inject_Z_injective. rewrite Z.mod_eq by lia. lia. }
  rewrite E. change 0 with (inject_Z 0). rewrite inject_Z_injective.
  rewrite Nat.even_spec. unfold z. split.
  - intros H. exists (Z.to_nat (Z.of_nat n / 2)).
    assert (Z.of_nat n = 2 * (Z.of_nat n / 2))%Z by (rewrite (Z.div_mod (Z.of_nat n) 2) at 1 by lia; lia). lia.
  - intros [k ->]. rewrite Nat2Z.inj_mul. change (Z.of_nat 2) with 2%Z. rewrite Z.mul_comm. apply Z.mod_mul. lia.
Qed.

Theorem is_point_inside_is_crossing_parity p pt v :
  Polygon2D_is_point_inside p pt v = Nat.odd (crossing_count p pt v).
Proof.
  unfold Polygon2D_is_point_inside, crossing_count, LineSegment2D_op_init. cbv zeta.
  set (ray := {| lr2p := pt; lr2v := v |}).
  pose proof (count_fold (fun s => does_intersection_exist_line2d_seg_ray s ray) (Polygon2D_segments p) 0) as C.
  change (inject_Z (Z.of_nat 0)) with 0 in C. cbn [Nat.add] in C.
  unfold crosses. set (cnt := length (filter _ _)) in *.
  destruct (Qeq_bool _ 0) eqn:E.
  - apply Qeq_bool_iff in E. rewrite C in E. apply py_mod2_zero_iff in E.
    unfold Nat.odd. rewrite E. reflexivity.
  - apply Qeq_bool_false_iff in E. rewrite C in E. unfold Nat.odd.
    destruct (Nat.even cnt) eqn:Ev; [exfalso; apply E; apply py_mod2_zero_iff; exact Ev| reflexivity].
Qed.

(* each crossing test: d <> 0 and the unique solution has 0 <= ua <= 1 on the segment, 0 <= ub on the ray *)
Theorem crossing_test_iff s ray :
  crosses ray s = true <-> exists pt, intersect_line2d_seg_ray s ray = Some pt.
Proof. unfold crosses. apply exists_iff_some_seg_ray. Qed.

Theorem crossing_test_geometric s ray : crosses ray s = true ->
  exists ua ub, in_seg ua /\ in_ray ub /\ on2 s ua =2= on2 ray ub.
Proof.
  intros H. apply crossing_test_iff in H. destruct H as [pt H].
  destruct (seg_ray_sound _ _ _ H) as (ua & ub & A & B & E1 & E2). exists ua, ub.
  split; [exact A|]. split; [exact B|]. transitivity pt; [symmetry; exact E1| exact E2].
Qed.

Theorem crossing_test_complete s ray ua ub : ~ det_lr s ray == 0 -> in_seg ua -> in_ray ub -> on2 s ua =2= on2 ray ub ->
  crosses ray s = true.
Proof.
  intros Hd A B E. apply crossing_test_iff.
  destruct (seg_ray_complete s ray ua ub Hd E A B) as (pt & H & _). exists pt. exact H.
Qed.

(* the bounding-rectangle variant: outside the box it answers false, inside it is the plain test *)
Theorem bound_rect_variant p pt v :
  Polygon2D_is_point_inside_bound_rect p pt v =
  if (Qlt_bool (v2x pt) (v2x (Base2DIn2D_min p)) || Qlt_bool (v2y pt) (v2y (Base2DIn2D_min p))
      || Qlt_bool (v2x (Base2DIn2D_max p)) (v2x pt) || Qlt_bool (v2y (Base2DIn2D_max p)) (v2y pt))
  then false else Polygon2D_is_point_inside p pt v.
Proof. reflexivity. Qed.

(* point_relationship: 0 on an edge, else +1 / -1 by the ray test *)
Theorem point_relationship_cases qsqrt p pt tol :
  Polygon2D_point_relationship qsqrt p pt tol =
  if Polygon2D_is_point_on_edge qsqrt p pt tol then 0%Z
  else if Polygon2D_is_point_inside_bound_rect_2 p pt then 1%Z else (-1)%Z.
Proof. reflexivity. Qed.

Lemma search_fold_existsb {A} (f : A -> bool) l :
  match fold_left (fun (acc_ : option bool) x => match acc_ with Some r_ => Some r_ | None => if f x then Some true else None end) l None
  with Some r_ => r_ | None => false end = existsb f l.
Proof.
  assert (G : forall l acc, fold_left (fun (acc_ : option bool) x => match acc_ with Some r_ => Some r_ | None => if f x then Some true else None end) l (Some acc) = Some acc).
  { induction l0 as [|x r IH]; intros acc; [reflexivity| apply IH]. }
  induction l as [|x r IH]; [reflexivity|]. cbn [fold_left existsb].
  destruct (f x); [rewrite G; reflexivity| exact IH].
Qed.

Theorem on_edge_iff_some_segment_within_tol qsqrt p pt tol :
  Polygon2D_is_point_on_edge qsqrt p pt tol =
  existsb (fun s => Qle_bool (Point2D_distance_to_point qsqrt pt (closest_point2d_on_line2d_seg pt s)) tol) (Polygon2D_segments p).
Proof. unfold Polygon2D_is_point_on_edge. apply (search_fold_existsb (fun s => Qle_bool _ tol)). Qed.
