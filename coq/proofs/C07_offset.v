(* C07_offset.v -- index bookkeeping of Polyface3D.from_offset_face (generated Polyface3D._verts_faces_edges_from_boundary): for a loop
   of n vertices placed at index st in the vertex list, the n wall quads and the 3n edges (bottom ring, uprights, top ring) are the
   cyclic ones - the closing quad / edges join the last vertex back to the first - and every index lies in [st, st + 2n). *)
From Coq Require Import ZArith List Lia.
From LBG Require Import Base QGeom G0_vec G1_shapes G3_poly G4_face G12_mesh.
Import ListNotations.
Local Open Scope Z_scope.

Lemma zrange_aux_snoc k : forall a, zrange_aux (S k) a = zrange_aux k a ++ [a + Z.of_nat k].
Proof.
  induction k as [|k IH]; intros a; [cbn; rewrite Z.add_0_r; reflexivity|].
  change (zrange_aux (S (S k)) a) with (a :: zrange_aux (S k) (a + 1)). rewrite IH. cbn [zrange_aux app].
  f_equal. f_equal. f_equal. lia.
Qed.

Lemma range_snoc n : 0 < n -> py_range 0 n = py_range 0 (n - 1) ++ [n - 1].
Proof.
  intros H. unfold py_range. rewrite !Z.sub_0_r. replace (Z.to_nat n) with (S (Z.to_nat (n - 1))) by lia.
  rewrite zrange_aux_snoc. f_equal. f_equal. lia.
Qed.

Lemma zrange_aux_shift k : forall a s, zrange_aux k (s + a) = map (fun i => s + i) (zrange_aux k a).
Proof. induction k as [|k IH]; intros a s; cbn [zrange_aux map]; [reflexivity|]. f_equal. rewrite <- IH. f_equal. lia. Qed.

Lemma range_shift s m : py_range s (s + m) = map (fun i => s + i) (py_range 0 m).
Proof. unfold py_range. replace (s + m - s) with m by lia. rewrite Z.sub_0_r. rewrite <- zrange_aux_shift. f_equal. lia. Qed.

Lemma zrange_aux_bounds k : forall a i, In i (zrange_aux k a) -> a <= i < a + Z.of_nat k.
Proof.
  induction k as [|k IH]; intros a i H; [destruct H|]. cbn [zrange_aux] in H. destruct H as [E|H]; [lia|]. apply IH in H. lia.
Qed.

Lemma range_bounds n i : In i (py_range 0 n) -> 0 <= i < n.
Proof. unfold py_range. rewrite Z.sub_0_r. intros H. apply zrange_aux_bounds in H. lia. Qed.

Lemma append_each {A B} (f : A -> B) l acc : fold_left (fun a x => a ++ [f x]) l acc = acc ++ map f l.
Proof. revert acc; induction l as [|x l IH]; intros acc; cbn [fold_left map]; [rewrite app_nil_r; reflexivity|]. rewrite IH, <- app_assoc. reflexivity. Qed.

(* a map over 0..n-1 of a cyclic successor, written as the code writes it: 0..n-2 with i+1, then the closing element with 0 *)
Lemma cyclic_map {B} n (f : Z -> Z -> B) : 0 < n ->
  map (fun i => f i (i + 1)) (py_range 0 (n - 1)) ++ [f (n - 1) 0] = map (fun i => f i ((i + 1) mod n)) (py_range 0 n).
Proof.
  intros H. rewrite (range_snoc n H), map_app. cbn [map]. replace ((n - 1 + 1) mod n) with 0 by (replace (n - 1 + 1) with n by lia; rewrite Z.mod_same; lia).
  f_equal. apply map_ext_in. intros i Hi. apply range_bounds in Hi. rewrite Z.mod_small by lia. reflexivity.
Qed.

Lemma eq2 (a b a' b' : Z) : a = a' -> b = b' -> (a, b) = (a', b').
Proof. intros; subst; reflexivity. Qed.
Lemma eq4 (a b c d a' b' c' d' : Z) : a = a' -> b = b' -> c = c' -> d = d' -> (a, b, c, d) = (a', b', c', d').
Proof. intros; subst; reflexivity. Qed.

Lemma app2 {A} (a a' b b' : list A) : a = a' -> b = b' -> a ++ b = a' ++ b'.
Proof. intros; subst; reflexivity. Qed.
Lemma cons2 {A} (x x' : A) (l l' : list A) : x = x' -> l = l' -> x :: l = x' :: l'.
Proof. intros; subst; reflexivity. Qed.

Definition quad (st n k : Z) : Z * Z * Z * Z := (st + k, st + (k + 1) mod n, st + n + (k + 1) mod n, st + n + k).
Definition ring (st n off k : Z) : Z * Z := (st + off + k, st + off + (k + 1) mod n).
Definition upright (st n k : Z) : Z * Z := (st + k, st + k + n).

Theorem offset_loop_spec (vs : list V3) (e : V3) (st : Z) : vs <> [] ->
  let n := py_len vs in
  let '(verts, faces, edges) := Polyface3D__verts_faces_edges_from_boundary vs e st in
  verts = vs ++ map (fun p => Point3D_move p e) vs /\
  faces = map (quad st n) (py_range 0 n) /\
  edges = map (ring st n 0) (py_range 0 n) ++ map (upright st n) (py_range 0 n) ++ map (ring st n n) (py_range 0 n).
Proof.
  intros NE n. assert (Hn : 0 < n) by (unfold n, py_len; destruct vs; [contradiction NE; reflexivity | cbn [length]; lia]).
  unfold Polyface3D__verts_faces_edges_from_boundary. cbv zeta. fold n.
  unfold quad, ring, upright. split; [reflexivity|]. split.
  - rewrite (append_each (fun i => (i, i + 1, i + n + 1, i + n))). cbn [app].
    replace (st + n - 1) with (st + (n - 1)) by lia. rewrite range_shift, map_map.
    rewrite <- (cyclic_map n (fun i j => (st + i, st + j, st + n + j, st + n + i)) Hn). f_equal.
    + apply map_ext. intros i. apply eq4; lia.
    + f_equal. apply eq4; lia.
  - rewrite <- (cyclic_map n (fun i j => (st + 0 + i, st + 0 + j)) Hn), <- (cyclic_map n (fun i j => (st + n + i, st + n + j)) Hn).
    rewrite <- !app_assoc. cbn [app].
    apply app2; [apply map_ext; intros i; apply eq2; lia|].
    apply cons2; [apply eq2; lia|].
    apply app2; [apply map_ext; intros i; apply eq2; lia|].
    apply app2; [apply map_ext; intros i; apply eq2; lia|].
    apply cons2; [apply eq2; lia | reflexivity].
Qed.

(* every index the loop contributes points into its own block of 2n vertices *)
Theorem offset_loop_indices_in_block (vs : list V3) (e : V3) (st : Z) : vs <> [] ->
  let n := py_len vs in
  let '(_, faces, edges) := Polyface3D__verts_faces_edges_from_boundary vs e st in
  (forall a b c d, In (a, b, c, d) faces -> st <= a < st + 2 * n /\ st <= b < st + 2 * n /\ st <= c < st + 2 * n /\ st <= d < st + 2 * n) /\
  (forall a b, In (a, b) edges -> st <= a < st + 2 * n /\ st <= b < st + 2 * n /\ a <> b \/ n = 1).
Proof.
  intros NE n. pose proof (offset_loop_spec vs e st NE) as S. fold n in S.
  destruct (Polyface3D__verts_faces_edges_from_boundary vs e st) as [[verts faces] edges]. destruct S as (_ & Ef & Ee).
  assert (Hn : 0 < n) by (unfold n, py_len; destruct vs; [contradiction NE; reflexivity | cbn [length]; lia]).
  split.
  - intros a b c d H. rewrite Ef in H. apply in_map_iff in H. destruct H as [k [E Hk]]. apply range_bounds in Hk.
    unfold quad in E. injection E as <- <- <- <-. pose proof (Z.mod_pos_bound (k + 1) n Hn). lia.
  - intros a b H. rewrite Ee in H. destruct (Z.eq_dec n 1) as [N1|N1]; [right; exact N1 | left].
    apply in_app_or in H. destruct H as [H|H]; [|apply in_app_or in H; destruct H as [H|H]];
      apply in_map_iff in H; destruct H as [k [E Hk]]; apply range_bounds in Hk; unfold ring, upright in E; injection E as <- <-;
      pose proof (Z.mod_pos_bound (k + 1) n Hn) as B; try lia.
    + assert ((k + 1) mod n <> k) by (destruct (Z.eq_dec k (n - 1)) as [->|]; [replace (n - 1 + 1) with n by lia; rewrite Z.mod_same; lia | rewrite Z.mod_small; lia]). lia.
    + assert ((k + 1) mod n <> k) by (destruct (Z.eq_dec k (n - 1)) as [->|]; [replace (n - 1 + 1) with n by lia; rewrite Z.mod_same; lia | rewrite Z.mod_small; lia]). lia.
Qed.
