(* C20_quads.v -- Mesh2D._quad_to_triangles (generated from the source; its `break` loop is a flag-guarded fold): the diagonal 0-2 is chosen
   without further test exactly when ALL FOUR corners of the quad turn the same way; then both triangles are wound like the quad and
   their signed areas add up to the quad's. *)
From LBG Require Import Base QGeom ListCyc G0_vec G1_shapes G2_inter G3_poly G7_contain G8_curve G12_mesh C01_area.
Open Scope Q_scope.

Definition turn2 (a b c : V2) : Q := (v2x b - v2x a) * (v2y c - v2y b) - (v2y b - v2y a) * (v2x c - v2x b).
Definition left (a b c : V2) : bool := Qlt_bool 0 (turn2 a b c).

Theorem quad_to_triangles_spec v0 v1 v2 v3 :
  let s := left v1 v2 v3 in
  Mesh2D__quad_to_triangles [v0; v1; v2; v3]
  = if Bool.eqb (left v2 v3 v0) s && Bool.eqb (left v3 v0 v1) s && Bool.eqb (left v0 v1 v2) s
    then [(0, 1, 2); (2, 3, 0)] else Mesh2D__concave_quad_to_triangles [v0; v1; v2; v3].
Proof.
  cbv zeta. unfold Mesh2D__quad_to_triangles.
  change (py_enumerate (py_slice [v0; v1; v2; v3] None (Some 3%Z))) with [(0%Z, v0); (1%Z, v1); (2%Z, v2)].
  cbv beta iota zeta delta [fold_left].
  change (py_nth [v0; v1; v2; v3] 1 (mkV2 0 0)) with v1. change (py_nth [v0; v1; v2; v3] 2 (mkV2 0 0)) with v2.
  change (py_nth [v0; v1; v2; v3] 3 (mkV2 0 0)) with v3.
  change (py_nth [v0; v1; v2; v3] (0 - 2) (mkV2 0 0)) with v2. change (py_nth [v0; v1; v2; v3] (0 - 1) (mkV2 0 0)) with v3.
  fold (turn2 v1 v2 v3) (turn2 v2 v3 v0). fold (left v1 v2 v3) (left v2 v3 v0).
  destruct (left v1 v2 v3) eqn:S, (left v2 v3 v0) eqn:A; cbv beta iota zeta delta [negb Bool.eqb andb];
  change (py_nth [v0; v1; v2; v3] (1 - 2) (mkV2 0 0)) with v3; change (py_nth [v0; v1; v2; v3] (1 - 1) (mkV2 0 0)) with v0;
  fold (turn2 v3 v0 v1); fold (left v3 v0 v1);
  destruct (left v3 v0 v1) eqn:B; cbv beta iota zeta delta [negb Bool.eqb andb];
  change (py_nth [v0; v1; v2; v3] (2 - 2) (mkV2 0 0)) with v0; change (py_nth [v0; v1; v2; v3] (2 - 1) (mkV2 0 0)) with v1;
  fold (turn2 v0 v1 v2); fold (left v0 v1 v2);
  destruct (left v0 v1 v2) eqn:C; cbv beta iota zeta delta [negb Bool.eqb andb]; reflexivity.
Qed.

(* when the diagonal 0-2 is taken without further test, both triangles (0,1,2) and (2,3,0) are wound like every corner of the quad, and their
   doubled signed areas add up to the quad's shoelace sum *)
Theorem fan_triangles_cover_a_convex_quad v0 v1 v2 v3 :
  let s := left v1 v2 v3 in
  Bool.eqb (left v2 v3 v0) s && Bool.eqb (left v3 v0 v1) s && Bool.eqb (left v0 v1 v2) s = true ->
  left v0 v1 v2 = s /\ left v2 v3 v0 = s /\
  turn2 v0 v1 v2 + turn2 v2 v3 v0 == shoelace2 [v0; v1; v2; v3].
Proof.
  cbv zeta. intros H. apply andb_true_iff in H. destruct H as [H C]. apply andb_true_iff in H. destruct H as [A B].
  apply eqb_prop in A, B, C. split; [exact C|]. split; [exact A|].
  unfold turn2, shoelace2, cyc_sum, det2. cbn [last path_sum v2x v2y]. ring.
Qed.
