(* C01 / C16: mesh face kernels generated from the source (gen/G12_mesh.v).
   Mesh2D._get_area is the absolute shoelace sum; the 3D triangle area of a plane-embedded triangle is the 2D area;
   Mesh3D._quad_centroid of a plane-embedded convex quad is the embedded area centroid of the quad (so it agrees with its 2D sibling). *)
From LBG Require Import Base QGeom ListCyc G0_vec G1_shapes G2_inter G3_poly G4_face G5_bound G6_tri G7_contain G8_curve G9_clean G10_grid
  G11_sub G12_mesh C02_kernels C01_area C06_plane.
Open Scope Q_scope.

Theorem mesh2d_get_area_is_shoelace verts : Mesh2D__get_area verts == Qabs (shoelace2 verts / 2).
Proof.
  unfold Mesh2D__get_area. cbv zeta. rewrite area_loop_is_shoelace.
  assert (E : (0 + shoelace2 verts) / 2 == shoelace2 verts / 2) by field. rewrite E. reflexivity.
Qed.

Section Embedded.
Variable qsqrt : Q -> Q.
Hypothesis Psqrt : Proper (Qeq ==> Qeq) qsqrt.
Variable p : PlaneR.
Hypothesis F : frame_ok p.
Let E := Plane_xy_to_xyz p.

Lemma frame_facts :
  let X := pl_x p in let Y := pl_y p in
  dot3 X X == 1 /\ dot3 Y Y == 1 /\ dot3 X Y == 0.
Proof.
  destruct (frame_orthonormal p F) as (Uy & _ & Yx & _). destruct F as (_ & Hx & _).
  cbv zeta. repeat split; [exact Hx| exact Uy|]. unfold dot3 in *. rewrite <- Yx. ring.
Qed.

(* twice the signed 2D area of the triangle a b c *)
Definition tri2 (a b c : V2) : Q := det2 (sub2 b a) (sub2 c a).

Lemma embedded_tri_area a b c : qsqrt (tri2 a b c * tri2 a b c) == Qabs (tri2 a b c) ->
  Mesh3D__get_tri_area_2 qsqrt (E a, E b, E c) == Qabs (tri2 a b c) / 2.
Proof.
  intros Hs. unfold Mesh3D__get_tri_area_2, Vector3D_magnitude, Vector3D_op_abs. cbv zeta.
  assert (A : forall A B, A == B -> qsqrt A / 2 == qsqrt B / 2) by (intros A B H; rewrite (Psqrt A B H); reflexivity).
  rewrite <- Hs. apply A.
  destruct frame_facts as (Ux & Uy & XY). cbv zeta in *.
  unfold E, Plane_xy_to_xyz, Vector3D_cross, Vector3D_op_sub, tri2, det2, sub2, dot3 in *. cbv zeta. vred.
  set (xa := v3x (pl_x p)) in *. set (xb := v3y (pl_x p)) in *. set (xc := v3z (pl_x p)) in *.
  set (ya := v3x (pl_y p)) in *. set (yb := v3y (pl_y p)) in *. set (yc := v3z (pl_y p)) in *.
  set (s := (v2x b - v2x a) * (v2y c - v2y a) - (v2y b - v2y a) * (v2x c - v2x a)).
  transitivity (s * s * ((xa * xa + xb * xb + xc * xc) * (ya * ya + yb * yb + yc * yc) - (xa * ya + xb * yb + xc * yc) * (xa * ya + xb * yb + xc * yc))).
  - unfold s. ring.
  - rewrite Ux, Uy, XY. ring.
Qed.

(* the area centroid of the quad p0 p1 p2 p3 cut along the diagonal p0-p2 (equals the polygon centroid formula, below) *)
Definition quad_centroid2 (p0 p1 p2 p3 : V2) : V2 :=
  let s0 := tri2 p0 p1 p2 in let s1 := tri2 p2 p3 p0 in
  mkV2 (((v2x p0 + v2x p1 + v2x p2) / 3 * s0 + (v2x p2 + v2x p3 + v2x p0) / 3 * s1) / (s0 + s1))
       (((v2y p0 + v2y p1 + v2y p2) / 3 * s0 + (v2y p2 + v2y p3 + v2y p0) / 3 * s1) / (s0 + s1)).

Lemma nth4 {A} (a b c d dd : A) :
  py_nth [a; b; c; d] 0%Z dd = a /\ py_nth [a; b; c; d] 1%Z dd = b /\ py_nth [a; b; c; d] 2%Z dd = c /\ py_nth [a; b; c; d] 3%Z dd = d.
Proof. repeat split; reflexivity. Qed.
Lemma nth2 {A} (a b dd : A) : py_nth [a; b] 0%Z dd = a /\ py_nth [a; b] 1%Z dd = b.
Proof. split; reflexivity. Qed.

Theorem mesh3d_quad_centroid_embedded p0 p1 p2 p3 :
  let s0 := tri2 p0 p1 p2 in let s1 := tri2 p2 p3 p0 in
  0 < s0 -> 0 < s1 -> qsqrt (s0 * s0) == Qabs s0 -> qsqrt (s1 * s1) == Qabs s1 ->
  Mesh3D__quad_centroid qsqrt [E p0; E p1; E p2; E p3] =3= E (quad_centroid2 p0 p1 p2 p3).
Proof.
  intros s0 s1 P0 P1 H0 H1. unfold Mesh3D__quad_centroid. cbv zeta.
  destruct (nth4 (E p0) (E p1) (E p2) (E p3) (mkV3 0 0 0)) as (N0 & N1 & N2 & N3). rewrite N0, N1, N2, N3.
  cbn [map]. 
  set (A0 := Mesh3D__get_tri_area_2 qsqrt (E p0, E p1, E p2)).
  set (A1 := Mesh3D__get_tri_area_2 qsqrt (E p2, E p3, E p0)).
  set (C0 := Mesh3D__tri_centroid_2 (E p0, E p1, E p2)).
  set (C1 := Mesh3D__tri_centroid_2 (E p2, E p3, E p0)).
  destruct (nth2 C0 C1 (mkV3 0 0 0)) as (M0 & M1). rewrite M0, M1.
  destruct (nth2 A0 A1 0) as (K0 & K1). rewrite K0, K1.
  assert (EA0 : A0 == s0 / 2).
  { unfold A0. rewrite (embedded_tri_area p0 p1 p2 H0). fold s0. rewrite (Qabs_pos s0) by lra. reflexivity. }
  assert (EA1 : A1 == s1 / 2).
  { unfold A1. rewrite (embedded_tri_area p2 p3 p0 H1). fold s1. rewrite (Qabs_pos s1) by lra. reflexivity. }
  assert (T : Qsum [A0; A1] == (s0 + s1) / 2) by (unfold Qsum; cbn [fold_left]; rewrite EA0, EA1; field).
  assert (TZ : Qeq_bool (Qsum [A0; A1]) 0 = false).
  { apply Qeq_bool_false_iff. rewrite T. intros Z. assert ((s0 + s1) / 2 == (s0 + s1) * (1 # 2)) by field. lra. }
  rewrite TZ.
  unfold C0, C1, Mesh3D__tri_centroid_2, quad_centroid2, E, Plane_xy_to_xyz. cbv zeta. fold s0 s1. unfold Qsum in *. cbn [map fold_left] in *.
  split; [|split]; vred; rewrite T, EA0, EA1; field; lra.
Qed.
End Embedded.

(* the diagonal-cut centroid is the polygon (area) centroid: sum (x_i + x_{i+1}) cross_i / (3 * sum cross_i) *)
Theorem quad_centroid2_is_polygon_centroid p0 p1 p2 p3 :
  let cr (a b : V2) := v2x a * v2y b - v2x b * v2y a in
  let A2 := cr p0 p1 + cr p1 p2 + cr p2 p3 + cr p3 p0 in
  ~ A2 == 0 ->
  v2x (quad_centroid2 p0 p1 p2 p3) == ((v2x p0 + v2x p1) * cr p0 p1 + (v2x p1 + v2x p2) * cr p1 p2 + (v2x p2 + v2x p3) * cr p2 p3 + (v2x p3 + v2x p0) * cr p3 p0) / (3 * A2) /\
  v2y (quad_centroid2 p0 p1 p2 p3) == ((v2y p0 + v2y p1) * cr p0 p1 + (v2y p1 + v2y p2) * cr p1 p2 + (v2y p2 + v2y p3) * cr p2 p3 + (v2y p3 + v2y p0) * cr p3 p0) / (3 * A2).
Proof.
  cbv zeta. intros NZ. unfold quad_centroid2, tri2, det2, sub2. cbv zeta. vred.
  assert (D : (v2x p1 - v2x p0) * (v2y p2 - v2y p0) - (v2y p1 - v2y p0) * (v2x p2 - v2x p0) + ((v2x p3 - v2x p2) * (v2y p0 - v2y p2) - (v2y p3 - v2y p2) * (v2x p0 - v2x p2))
          == v2x p0 * v2y p1 - v2x p1 * v2y p0 + (v2x p1 * v2y p2 - v2x p2 * v2y p1) + (v2x p2 * v2y p3 - v2x p3 * v2y p2) + (v2x p3 * v2y p0 - v2x p0 * v2y p3)) by ring.
  split; field; rewrite ?D; repeat split; try exact NZ; try (intros Z; apply NZ; rewrite <- D; exact Z).
Qed.
