(* C09 -- coplanar face booleans and splits partition the face region.  PARTIAL.  Proved: (i) for the generated plane maps
   (Plane.xy_to_xyz / xyz_to_xy, translated from /repo on every run) every result vertex built from 2D coordinates lies in
   the operand plane, maps back to the same 2D coordinates, and signed areas / orientation in the plane equal those of the
   2D loops - so a coplanar operation is exactly its 2D operation and the result normal is the operand normal;
   (ii) the cell-set specification the implementation is compared with obeys the laws the property states: pairwise disjoint
   pieces whose union is the face have areas totalling the face area, difference = A minus the intersection, union plus
   intersection = sum, a split of A and B re-assembles both.  The sweep, loop classification (_from_bool_poly), the graph
   splitter and the hole merger are validated against that specification by the harness, not proved. *)
From LBG Require Import Base QGeom G0_vec G1_shapes C06_plane CellSpec C09_parts LoopGroup.
From Coq Require Import ZArith List.
Import ListNotations.

Theorem C09_result_vertices_in_plane : forall p q, frame_ok p -> (dot3 (pl_n p) (sub3 (Plane_xy_to_xyz p q) (pl_o p)) == 0)%Q.
Proof. exact to3d_on_plane. Qed.
Print Assumptions C09_result_vertices_in_plane.

Theorem C09_plane_map_is_injective_roundtrip : forall p q, frame_ok p -> Plane_xyz_to_xy p (Plane_xy_to_xyz p q) =2= q.
Proof. exact to2d_to3d. Qed.
Print Assumptions C09_plane_map_is_injective_roundtrip.

Theorem C09_plane_map_preserves_signed_area : forall p a b c, frame_ok p ->
  (dot3 (pl_n p) (cross3 (sub3 (Plane_xy_to_xyz p b) (Plane_xy_to_xyz p a)) (sub3 (Plane_xy_to_xyz p c) (Plane_xy_to_xyz p a)))
   == det2 (sub2 b a) (sub2 c a))%Q.
Proof. exact to3d_preserves_det. Qed.
Print Assumptions C09_plane_map_preserves_signed_area.

Open Scope Z_scope.

Theorem C09_split_parts_sum_to_original : forall pieces face, pairwise_disjoint pieces ->
  (forall c, In c face <-> exists p, In p pieces /\ In c p) -> sum_area pieces = area face.
Proof. exact partition_area. Qed.
Print Assumptions C09_split_parts_sum_to_original.

Theorem C09_difference_is_A_minus_intersection : forall a b, area (cdiff a b) = area a - area (cinter a b).
Proof. exact difference_area. Qed.
Print Assumptions C09_difference_is_A_minus_intersection.

Theorem C09_union_plus_intersection_is_sum : forall a b, area (cunion a b) + area (cinter a b) = area a + area b.
Proof. exact inclusion_exclusion. Qed.
Print Assumptions C09_union_plus_intersection_is_sum.

Theorem C09_coplanar_split_reassembles_both : forall a b,
  area (cinter a b) + area (cdiff a b) = area a /\ area (cinter a b) + area (cdiff b a) = area b.
Proof. exact split_pieces_area. Qed.
Print Assumptions C09_coplanar_split_reassembles_both.

(* loop classification (hand model LoopGroup.v of Face3D._from_bool_poly, run against it on nested loop families): for every
   laminar family of loops sorted outermost-first, after all n loops are placed (i) every group is a face whose outer loop has even
   nesting depth and whose holes are exactly the loops whose innermost enclosing loop is that outer loop, (ii) every loop of even
   depth is the outer loop of a face, (iii) no two faces share an outer loop - i.e. the faces realise the even-odd reading. *)
Theorem C09_loop_classification_is_even_odd : forall (inside : nat -> nat -> bool),
  (forall a b, inside a b = true -> (a < b)%nat) ->
  (forall a b c, inside a b = true -> inside b c = true -> inside a c = true) ->
  (forall a b x, inside a x = true -> inside b x = true -> (a < b)%nat -> inside a b = true) ->
  forall n, (1 <= n)%nat -> Inv inside n (classify inside n).
Proof. exact classify_is_even_odd. Qed.
Print Assumptions C09_loop_classification_is_even_odd.

(* an L-shape (cells of a 2x2 block minus one) cut into two pieces; and the L minus the cell touching its reflex corner *)
Example C09_nonvacuous :
  let L := [(0,0); (1,0); (0,1)] in
  pairwise_disjoint [[(0,0); (1,0)]; [(0,1)]] /\ sum_area [[(0,0); (1,0)]; [(0,1)]] = area L /\
  area (cdiff [(0,0); (1,0); (0,1); (1,1)] [(1,1)]) = 3.
Proof.
  cbn. repeat split; try reflexivity; intros b Hb c Hc; cbn in *; intuition (subst; cbn in *; intuition congruence).
Qed.
