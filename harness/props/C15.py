"""C15  vertex clean-up keeps the shape, removes redundancy, is idempotent."""
import math
from fractions import Fraction
from .. import core, gens as G, exact as X, build as Bd
from ..core import q, v2, F
from ..build import P2, V2, P3, V3
from ladybug_geometry.geometry2d import Polygon2D, Polyline2D
from ladybug_geometry.geometry3d import Face3D, Polyline3D, Plane

RULE = ('base shapes whose corners turn by >= 5 degrees, decorated with 0..3 exactly-collinear (dyadic) points per edge and 0..2 '
        'duplicates per vertex, every cyclic rotation of the vertex list and both orientations; Polygon2D, Face3D (boundary and '
        'holes), Polyline2D/3D; distinct by (class, base size, decoration counts, rotation, orientation)')
ASSUMPTIONS = ['a closed loop is compared as a cyclic sequence: a second pass may start the list at another vertex of the same loop', 'redundant points are exactly collinear / exactly duplicated (the jitter family of the quantifier is sampled separately '
               'with jitter < tol/10)']
TRUSTED = []
TOL = 0.01


def base_shape(rng):
    for _ in range(50):
        b = G.star_polygon(rng, n=rng.randint(3, 9), R=rng.choice([8.0, 64.0]), bits=4, min_turn=math.radians(8))
        f = [X.fpt(p) for p in b]
        # every corner well away from the chord of its neighbours, every edge long
        ok = True
        n = len(b)
        for i in range(n):
            a, c, d = f[i - 1], f[i], f[(i + 1) % n]
            if X.sqd(a, c) < 4:
                ok = False
            if X.sqdist_point_segment(c, a, d) < Fraction(1):
                ok = False
        if ok:
            return b
    return [(0.0, 0.0), (16.0, 0.0), (16.0, 12.0), (0.0, 12.0)]


def decorate(rng, base, jitter=0.0):
    """insert exactly collinear dyadic points and exact duplicates; returns (loop, set of base vertices)"""
    out = []
    n = len(base)
    for i in range(n):
        a, b = base[i], base[(i + 1) % n]
        out.append(a)
        for _ in range(rng.choice([0, 0, 1, 2])):
            out.append(a)                     # exact duplicate
        k = rng.choice([0, 0, 1, 2, 3])
        ts = sorted(rng.sample([1, 2, 3, 4, 5, 6, 7], k))
        for t in ts:
            p = (a[0] + (b[0] - a[0]) * t / 8.0, a[1] + (b[1] - a[1]) * t / 8.0)
            if jitter:
                p = (p[0] + rng.uniform(-jitter, jitter), p[1] + rng.uniform(-jitter, jitter))
            out.append(p)
            if rng.random() < 0.2:
                out.append(p)
    return out


def cyclic_equal(a, b):
    if len(a) != len(b):
        return False
    if not a:
        return True
    for k in range(len(a)):
        if a[k:] + a[:k] == b:
            return True
    return False


def is_cyclic_subsequence(sub, full):
    """sub (as a cyclic sequence) is obtained from the cyclic sequence full by deleting elements"""
    if not sub:
        return True
    n = len(full)
    for start in range(n):
        rot = full[start:] + full[:start]
        j = 0
        for x in rot:
            if j < len(sub) and x == sub[j]:
                j += 1
        if j == len(sub):
            return True
    return False


def check_result(ctx, kind, res, loop, base, desc, exact=True):
    """res: list of tuples; loop: decorated input; base: genuine corners"""
    if not all(p in loop for p in res):
        ctx.violation(kind + ':new_vertex', 'result has a vertex that is not an input vertex', desc); return False
    if not is_cyclic_subsequence(res, loop):
        ctx.violation(kind + ':order', 'result vertices are not in the original cyclic order', desc); return False
    if exact:
        if not cyclic_equal(res, base):
            missing = [p for p in base if p not in res]
            extra = [p for p in res if p not in base]
            if missing:
                ctx.violation(kind + ':corner_removed', 'genuine corners removed: %s' % (missing[:3],), desc)
            elif extra or len(res) != len(base):
                ctx.violation(kind + ':redundant_kept', 'redundant vertices kept: %s (result has %d, base %d)' % (extra[:3], len(res), len(base)), desc)
            else:
                ctx.violation(kind + ':order', 'vertex order differs from the base shape', desc)
            return False
    return True


def fam_polygon(ctx, rng):
    base = base_shape(rng)
    loop = decorate(rng, base)
    if rng.random() < 0.5:
        loop = loop[::-1]; base = base[::-1]
    k = rng.randrange(len(loop))
    loop = loop[k:] + loop[:k]
    target = rng.choice(['Polygon2D', 'Face3D'])
    desc = {'class': target, 'loop': loop, 'base': base, 'rotation': k}
    ctx.count('clean.' + target, key=(len(base), len(loop), k), sample=desc, nontrivial=len(loop) > len(base))
    if target == 'Polygon2D':
        poly = Polygon2D([P2(p) for p in loop])
        r1 = poly.remove_colinear_vertices(TOL)
        res = [tuple(p) for p in r1.vertices]
        if not check_result(ctx, 'Polygon2D.remove_colinear_vertices', res, loop, base, desc):
            return
        r2 = r1.remove_colinear_vertices(TOL)
        if not cyclic_equal([tuple(p) for p in r2.vertices], res):
            ctx.violation('Polygon2D.remove_colinear_vertices:not_idempotent', 'second application changes the result', desc); return
        if abs(r1.area - poly.area) > TOL * poly.perimeter:
            ctx.violation('Polygon2D.remove_colinear_vertices:area', 'area changed by more than tol*perimeter', desc); return
        if r1.is_clockwise != poly.is_clockwise:
            ctx.violation('Polygon2D.remove_colinear_vertices:orientation', 'orientation changed', desc); return
        d1 = poly.remove_duplicate_vertices(TOL)
        resd = [tuple(p) for p in d1.vertices]
        # duplicates removed: no two cyclically consecutive equal vertices remain, all distinct points survive in order
        if any(resd[i] == resd[i - 1] for i in range(len(resd))) and len(resd) > 1:
            ctx.violation('Polygon2D.remove_duplicate_vertices:duplicate_kept', 'consecutive duplicate vertices remain', desc); return
        dedup = [p for i, p in enumerate(loop) if p != loop[i - 1]]
        if not cyclic_equal(resd, dedup):
            ctx.violation('Polygon2D.remove_duplicate_vertices:wrong_set', 'result is not the loop without consecutive duplicates', desc); return
        if [tuple(p) for p in d1.remove_duplicate_vertices(TOL).vertices] != resd:
            ctx.violation('Polygon2D.remove_duplicate_vertices:not_idempotent', 'second application changes the result', desc)
    else:
        frame = G.rational_frame(rng); o = G.rpt3(rng, 50)
        # dyadic embedding keeps collinearity exact only for axis frames; use the XY plane shifted in z for exactness
        z = G.dy(rng.uniform(-10, 10))
        emb = lambda p: (p[0], p[1], z)
        face = Face3D([P3(emb(p)) for p in loop])
        r1 = face.remove_colinear_vertices(TOL)
        res = [(p.x, p.y) for p in r1.boundary]
        stored = [(p.x, p.y) for p in face.boundary]
        b2 = base if cyclic_equal([p for p in stored if p in base][:0] or base, base) else base
        # Face3D may have reversed the loop to make it counter-clockwise
        if not is_cyclic_subsequence(res, stored):
            ctx.violation('Face3D.remove_colinear_vertices:order', 'result vertices are not in the stored cyclic order', desc); return
        if not (cyclic_equal(res, base) or cyclic_equal(res, base[::-1])):
            missing = [p for p in base if p not in res]
            ctx.violation('Face3D.remove_colinear_vertices:%s' % ('corner_removed' if missing else 'redundant_kept'),
                          'result %d vertices, base %d; missing %s' % (len(res), len(base), missing[:3]), desc); return
        r2 = r1.remove_colinear_vertices(TOL)
        if not cyclic_equal([tuple(p) for p in r2.boundary], [tuple(p) for p in r1.boundary]):
            ctx.violation('Face3D.remove_colinear_vertices:not_idempotent', 'second application changes the result', desc); return
        if abs(r1.area - face.area) > TOL * face.perimeter:
            ctx.violation('Face3D.remove_colinear_vertices:area', 'area changed by more than tol*perimeter', desc); return
        fam_face_holes(ctx, rng, base, loop, z)


def fam_face_holes(ctx, rng, base, loop, z):
    """Face3D with decorated holes (every rotation, both windings): both clean-ups act on boundary and holes alike"""
    hbases = G.holes_in(rng, base, rng.randint(1, 2), bits=4)
    if not hbases:
        return
    hloops = []
    for hb in hbases:
        hl = decorate(rng, hb)
        k = rng.randrange(len(hl))
        hloops.append(hl[k:] + hl[:k])
    emb = lambda p: (p[0], p[1], z)
    # with no plane, or with an explicit plane whose normal agrees with or opposes the order the boundary is listed in
    pmode = rng.choice(['none', 'up', 'down'])
    plane = None if pmode == 'none' else Plane(V3((0.0, 0.0, 1.0 if pmode == 'up' else -1.0)), P3((0.0, 0.0, z)))
    try:
        face = Face3D([P3(emb(p)) for p in loop], plane, holes=[[P3(emb(p)) for p in h] for h in hloops])
        if rng.random() < 0.3:
            face = Face3D.from_dict(face.to_dict())
    except Exception as e:
        ctx.violation('Face3D.ctor:holes:raises', '%r' % (e,), {'loop': loop, 'holes': hloops, 'plane': pmode}); return
    desc = {'class': 'Face3D', 'loop': loop, 'base': base, 'holes': hloops, 'hole_bases': hbases, 'plane': pmode}
    ctx.count('clean.Face3D.holes', key=(len(base), len(hbases), sum(len(h) for h in hloops)), sample=desc)
    for op in ('remove_colinear_vertices', 'remove_duplicate_vertices'):
        kind = 'Face3D.%s:holes' % op
        try:
            r = getattr(face, op)(TOL)
            r2 = getattr(r, op)(TOL)
        except Exception as e:
            ctx.violation(kind + ':raises', '%r' % (e,), desc); return
        if len(r.holes or ()) != len(hloops):
            ctx.violation(kind + ':hole_count', '%d holes became %d' % (len(hloops), len(r.holes or ())), desc); return
        # the outer boundary of the holed face: original vertices in cyclic order; for the colinear clean-up exactly the base corners
        bres = [(p.x, p.y) for p in r.boundary]
        bst = [(p.x, p.y) for p in face.boundary]
        if not is_cyclic_subsequence(bres, bst):
            ctx.violation(kind + ':boundary_order', 'boundary vertices are not original vertices in their cyclic order', desc); return
        if op == 'remove_colinear_vertices' and not (cyclic_equal(bres, base) or cyclic_equal(bres, base[::-1])):
            missing = [p for p in base if p not in bres]
            ctx.violation(kind + (':boundary_corner_removed' if missing else ':boundary_redundant_kept'),
                          'boundary of the holed face: result %d vertices, base %d (plane %s)' % (len(bres), len(base), pmode), desc); return
        if not cyclic_equal([tuple(p) for p in r.boundary], [tuple(p) for p in r2.boundary]):
            ctx.violation(kind + ':boundary_not_idempotent', 'second application changes the boundary', desc); return
        # orientation unchanged: same normal, never clockwise, and the stored boundary still winds about the normal
        if r.is_clockwise or r.normal.dot(face.normal) < 0.999999:
            ctx.violation(kind + ':orientation', 'the cleaned face is clockwise / has another normal (is_clockwise %r, normal %r vs %r; plane %s)' % (
                r.is_clockwise, r.normal, face.normal, pmode), desc); return
        nw = X.newell([X.fpt(p) for p in r.boundary])
        if X.dot(nw, X.fpt(r.normal)) <= 0:
            ctx.violation(kind + ':orientation:boundary', 'the boundary of the cleaned face winds against its normal (plane %s)' % pmode, desc); return
        for hb, hl, stored, got in zip(hbases, hloops, face.holes, r.holes):
            res = [(p.x, p.y) for p in got]
            st = [(p.x, p.y) for p in stored]
            if not is_cyclic_subsequence(res, st):
                ctx.violation(kind + ':order', 'hole vertices are not original vertices in their cyclic order', desc); return
            if op == 'remove_colinear_vertices':
                if not (cyclic_equal(res, hb) or cyclic_equal(res, hb[::-1])):
                    missing = [p for p in hb if p not in res]
                    ctx.violation(kind + (':corner_removed' if missing else ':redundant_kept'),
                                  'hole: result %d vertices, base %d' % (len(res), len(hb)), desc); return
            else:
                dedup = [p for i, p in enumerate(st) if p != st[i - 1]]
                if len(res) > 1 and any(res[i] == res[i - 1] for i in range(len(res))):
                    ctx.violation(kind + ':duplicate_kept', 'a hole keeps two consecutive equal vertices (first/last included)', desc); return
                if not cyclic_equal(res, dedup):
                    ctx.violation(kind + ':wrong_set', 'hole is not the loop without consecutive duplicates', desc); return
        for a, b in zip(r.holes, r2.holes):
            if not cyclic_equal([tuple(p) for p in a], [tuple(p) for p in b]):
                ctx.violation(kind + ':not_idempotent', 'second application changes a hole', desc); return
        if abs(r.area - face.area) > TOL * face.perimeter:
            ctx.violation(kind + ':area', 'area changed by more than tol*perimeter', desc); return


def fam_polyline(ctx, rng):
    base = base_shape(rng)
    base = base[:max(3, len(base) - 1)]          # open chain
    # decorate interior edges only (open polyline: end points always stay)
    loop = []
    for i in range(len(base) - 1):
        a, b = base[i], base[i + 1]
        loop.append(a)
        ts = sorted(rng.sample([1, 2, 3, 4, 5, 6, 7], rng.choice([0, 1, 2, 3])))
        for t in ts:
            loop.append((a[0] + (b[0] - a[0]) * t / 8.0, a[1] + (b[1] - a[1]) * t / 8.0))
    loop.append(base[-1])
    d3 = rng.random() < 0.5
    if rng.random() < 0.5:
        loop = loop[::-1]; base = base[::-1]
    desc = {'class': 'Polyline3D' if d3 else 'Polyline2D', 'loop': loop, 'base': base}
    ctx.count('clean.polyline%s' % ('3d' if d3 else '2d'), key=(len(base), len(loop)), sample=desc, nontrivial=len(loop) > len(base))
    if len(loop) < 3:
        return
    if d3:
        pl = Polyline3D([P3((p[0], p[1], 2.0)) for p in loop])
        r1 = pl.remove_colinear_vertices(TOL)
        res = [(p.x, p.y) for p in r1.vertices]
    else:
        pl = Polyline2D([P2(p) for p in loop])
        r1 = pl.remove_colinear_vertices(TOL)
        res = [tuple(p) for p in r1.vertices]
    kind = '%s.remove_colinear_vertices' % desc['class']
    if res != base:
        missing = [p for p in base if p not in res]
        ctx.violation(kind + (':corner_removed' if missing else ':redundant_kept'), 'result %s expected %s' % (res[:6], base[:6]), desc); return
    r2 = r1.remove_colinear_vertices(TOL)
    if [tuple(p) for p in r2.vertices] != [tuple(p) for p in r1.vertices]:
        ctx.violation(kind + ':not_idempotent', 'second application changes the result', desc)


def fam_jitter(ctx, rng):
    """redundant points jittered by < tol/10: still removed, genuine corners kept, idempotent"""
    base = base_shape(rng)
    jit = rng.choice([TOL / 20, TOL / 12])
    loop = decorate(rng, base, jitter=jit)
    if rng.random() < 0.6:
        # an inserted point very close to one end of its edge (1/32 of the way), so that its two neighbours are at very different distances
        out = []
        for i, p in enumerate(loop):
            out.append(p)
            if p in base and rng.random() < 0.5:
                nb = base[(base.index(p) + 1) % len(base)]
                nxt = loop[(i + 1) % len(loop)]
                if nxt != p:
                    t = rng.choice([1 / 32.0, 1 / 16.0])
                    # towards the next base corner, jittered
                    out.append((p[0] + (nb[0] - p[0]) * t + rng.uniform(-jit, jit) * 0.7, p[1] + (nb[1] - p[1]) * t + rng.uniform(-jit, jit) * 0.7))
        loop = out
    k = rng.randrange(len(loop))
    loop = loop[k:] + loop[:k]
    poly = Polygon2D([P2(p) for p in loop])
    r1 = poly.remove_colinear_vertices(TOL)
    res = [tuple(p) for p in r1.vertices]
    desc = {'class': 'Polygon2D', 'loop': loop, 'base': base, 'jitter': jit}
    ctx.count('clean.jitter', key=(len(base), len(loop)), sample=desc)
    kind = 'Polygon2D.remove_colinear_vertices:jitter'
    if not all(p in res for p in base):
        ctx.violation(kind + ':corner_removed', 'a genuine corner was removed', desc); return
    # the inserted points are within tol/10 of their edge, i.e. well within the tolerance of the chord of their neighbours: all removed,
    # for either orientation of the loop
    extra = [p for p in res if p not in base]
    if extra:
        ctx.violation(kind + ':redundant_kept', 'a point inserted within tol/20 of an edge survives: %r' % (extra[:2],), desc); return
    rr = [tuple(p) for p in Polygon2D([P2(p) for p in loop[::-1]]).remove_colinear_vertices(TOL).vertices]
    if [p for p in rr if p not in base]:
        ctx.violation(kind + ':redundant_kept:reversed', 'given in the opposite order, a point inserted within tol/20 of an edge survives', desc); return
    if not cyclic_equal([tuple(p) for p in r1.remove_colinear_vertices(TOL).vertices], res):
        ctx.violation(kind + ':not_idempotent', 'second application changes the result', desc); return
    if abs(r1.area - poly.area) > TOL * poly.perimeter:
        ctx.violation(kind + ':area', 'area changed by more than tol*perimeter', desc)


def fam_small_features(ctx, rng):
    """large outlines carrying small square bumps / notches whose side is only 1.5..8 tolerances: every corner of such a feature is
    farther than the tolerance from the chord of its neighbours and is kept; exactly collinear points on the long edges go"""
    W, H = float(rng.randint(6, 40)), float(rng.randint(6, 40))
    corners = [(0.0, 0.0), (W, 0.0), (W, H), (0.0, H)]
    base, loop = [], []
    for i in range(4):
        a, b = corners[i], corners[(i + 1) % 4]
        L = W if i % 2 == 0 else H
        ux, uy = (b[0] - a[0]) / L, (b[1] - a[1]) / L          # edge direction; outward normal of a ccw rectangle is (uy, -ux)
        base.append(a); loop.append(a)
        feats = sorted(rng.sample(range(1, int(L) - 1), rng.choice([0, 1, 1, 2]) if L > 4 else 0))
        for f0 in feats:
            sd = rng.choice([8, 9, 10, 12, 16, 24, 40]) / 512.0
            sg = rng.choice([1, -1])                             # bump (outward) or notch (inward)
            q0 = (a[0] + ux * f0, a[1] + uy * f0); q3 = (a[0] + ux * (f0 + sd), a[1] + uy * (f0 + sd))
            q1 = (q0[0] + sg * uy * sd, q0[1] - sg * ux * sd); q2 = (q3[0] + sg * uy * sd, q3[1] - sg * ux * sd)
            if rng.random() < 0.5:
                m = (a[0] + ux * (f0 - 0.5), a[1] + uy * (f0 - 0.5)); loop.append(m)    # exactly collinear point on the long edge
            for q_ in (q0, q1, q2, q3):
                base.append(q_); loop.append(q_)
    if rng.random() < 0.5:
        loop = loop[::-1]; base = base[::-1]
    k = rng.randrange(len(loop)); loop = loop[k:] + loop[:k]
    if len(base) == 4:
        return
    target = rng.choice(['Polygon2D', 'Face3D'])
    desc = {'class': target, 'loop': loop, 'base': base, 'rotation': k, 'tolerance': TOL}
    ctx.count('clean.small_features.' + target, key=(len(base), len(loop), k), sample=desc, nontrivial=True)
    kind = '%s.remove_colinear_vertices:small_features' % target
    try:
        if target == 'Polygon2D':
            r1 = Polygon2D([P2(p) for p in loop]).remove_colinear_vertices(TOL)
            res = [tuple(p) for p in r1.vertices]
        else:
            z = G.dy(rng.uniform(-10, 10))
            r1 = Face3D([P3((p[0], p[1], z)) for p in loop]).remove_colinear_vertices(TOL)
            res = [(p.x, p.y) for p in r1.boundary]
    except Exception as e:
        ctx.violation(kind + ':raises', '%r' % (e,), desc); return
    if not (cyclic_equal(res, base) or (target == 'Face3D' and cyclic_equal(res, base[::-1]))):
        missing = [p for p in base if p not in res]
        ctx.violation(kind + (':corner_removed' if missing else ':redundant_kept'), 'result has %d vertices, the shape has %d corners; removed corners %s' % (
            len(res), len(base), missing[:4]), desc)


FAMILIES = [(fam_polygon, 120), (fam_polyline, 50), (fam_jitter, 40), (fam_small_features, 40)]


def explore(ctx):
    for fn, n in FAMILIES:
        for _ in range(ctx.n(n, n * 10)):
            fn(ctx, ctx.rng)


def replay(ctx, data):
    kind = data.get('kind', '')
    c2 = core.Ctx(ctx.pid, 'quick', 37)
    for fn, _ in FAMILIES:
        for _ in range(3000):
            fn(c2, c2.rng)
            if any(v.kind == kind for v in c2.violations):
                return True
    return False


def correspond(ctx):
    """generated remove_colinear_vertices / remove_duplicate_vertices (Polygon2D) vs the implementation, exact vertex lists"""
    rng = ctx.rng
    cases, meta = [], []
    pre = ('Definition v2l_eqb (a b : list V2) : bool := Nat.eqb (length a) (length b) && '
           'forallb (fun p => Qeq_bool (v2x (fst p)) (v2x (snd p)) && Qeq_bool (v2y (fst p)) (v2y (snd p))) (combine a b).\n')
    for _ in range(ctx.n(150, 1200)):
        base = base_shape(rng)
        loop = decorate(rng, base)
        k = rng.randrange(len(loop)); loop = loop[k:] + loop[:k]
        if rng.random() < 0.5: loop = loop[::-1]
        poly = Polygon2D([P2(p) for p in loop])
        L = '(mkPolygon2 %s)' % core.coq_list([v2(p) for p in loop])
        r = poly.remove_colinear_vertices(TOL)
        cases.append('v2l_eqb (pg_vertices (Polygon2D_remove_colinear_vertices qsqrt_exec %s (1 # 100))) %s' % (
            L, core.coq_list([v2(tuple(p)) for p in r.vertices])))
        meta.append(('remove_colinear_vertices', loop))
        r = poly.remove_duplicate_vertices(TOL)
        cases.append('v2l_eqb (pg_vertices (Polygon2D_remove_duplicate_vertices %s (1 # 100))) %s' % (
            L, core.coq_list([v2(tuple(p)) for p in r.vertices])))
        meta.append(('remove_duplicate_vertices', loop))
    # the open-polyline clean-up (index loop with a skip counter) on decorated chains, also with runs of several removed vertices
    for _ in range(ctx.n(60, 500)):
        base = base_shape(rng)
        base = base[:max(3, len(base) - 1)]
        chain = []
        for i in range(len(base) - 1):
            a, b = base[i], base[i + 1]
            chain.append(a)
            for t in sorted(rng.sample([1, 2, 3, 4, 5, 6, 7], rng.choice([0, 1, 2, 3]))):
                chain.append((a[0] + (b[0] - a[0]) * t / 8.0, a[1] + (b[1] - a[1]) * t / 8.0))
        chain.append(base[-1])
        if rng.random() < 0.5: chain = chain[::-1]
        if len(chain) < 3:
            continue
        pl = Polyline2D([P2(p) for p in chain])
        r = pl.remove_colinear_vertices(TOL)
        cases.append('v2l_eqb (pl2_vertices (Polyline2D_remove_colinear_vertices (mkPolyline2 %s false) (1 # 100))) %s' % (
            core.coq_list([v2(p) for p in chain]), core.coq_list([v2(tuple(p)) for p in r.vertices])))
        meta.append(('Polyline2D.remove_colinear_vertices', chain))
    res = core.run_cases('C15_corr', ['Base', 'G0_vec', 'G1_shapes', 'G2_inter', 'G3_poly', 'G9_clean'], pre, cases)
    ctx.corr_cases += len(cases)
    for ok, m in zip(res, meta):
        if ok is not True:
            ctx.corr_fail.append({'function': m[0] if '.' in m[0] else 'Polygon2D.' + m[0], 'input': repr(m[1:]),
                                  'result': 'model and implementation differ' if ok is False else 'model evaluation failed'})
