"""C19  offsets and generated sub-faces have the stated size and stay inside."""
import math
from fractions import Fraction
from .. import core, gens as G, exact as X, build as Bd
from ..core import q, z
from ..build import P2, V2, P3, V3
from ladybug_geometry.geometry2d import Polygon2D, Polyline2D, LineSegment2D
from ladybug_geometry.geometry3d import Face3D, Plane

RULE = ('offset: convex polygons (d in +-[1e-3, 0.4 A/P], A/P <= inradius) and mildly concave star polygons (|d| <= 0.2 x the smallest '
        'distance between a vertex and a non-adjacent edge), both windings, plus LineSegment2D / Polyline2D offsets; '
        'perimeter_core_by_offset with 0..2 holes given clockwise and counter-clockwise; sub_faces_by_ratio(_rectangle) on convex, '
        'L-shaped, gabled and holed faces in vertical / tilted / horizontal rational planes, ratio in [0.01, 0.95]; '
        'sub_rects_from_rect_ratio / _dimensions over their documented parameter ranges; distinct by (routine, shape class, sign / '
        'winding / branch taken)')
ASSUMPTIONS = ['distances are computed in floating point and compared with 1e-9 relative tolerance; containment and overlap are decided '
               'exactly on the returned (float = rational) coordinates with a 1e-9 slack']
TRUSTED = ['the algebraic offset / quad-partition / scaling lemmas are proved for exact arithmetic; trigonometric oracles are not modelled here']
EPS = 1e-9


def fl(loop):
    return [X.fpt(p) for p in loop]


def signed_dist_to_line(p, a, b):
    """signed distance (float) of p from the directed line a->b: positive on the left"""
    vx, vy = b[0] - a[0], b[1] - a[1]
    n = math.hypot(vx, vy)
    return (vx * (p[1] - a[1]) - vy * (p[0] - a[0])) / n


def min_feature(loop):
    """smallest distance between a vertex and a non-adjacent edge (float)"""
    n = len(loop); f = fl(loop); best = None
    for i in range(n):
        for j in range(n):
            if j == i or (j + 1) % n == i:
                continue
            d = X.sqdist_point_segment(f[i], f[j], f[(j + 1) % n])
            best = d if best is None or d < best else best
    return math.sqrt(float(best))


def check_offset_polygon(ctx, kind, loop, d, res, desc):
    """res: list of float points of the offset polygon, same order as loop"""
    n = len(loop)
    if len(res) != n:
        ctx.violation(kind + ':vertex_count', '%d vertices offset to %d' % (n, len(res)), desc); return False
    ccw = X.shoelace2(fl(loop)) > 0
    if (X.shoelace2(fl(res)) > 0) != ccw:
        ctx.violation(kind + ':orientation', 'the offset polygon has the opposite orientation', desc); return False
    scale = max(1.0, max(abs(c) for p in loop for c in p))
    for i in range(n):
        a, b = loop[i], loop[(i + 1) % n]
        a2, b2 = res[i], res[(i + 1) % n]
        # parallel
        cr = (b[0] - a[0]) * (b2[1] - a2[1]) - (b[1] - a[1]) * (b2[0] - a2[0])
        if abs(cr) > 1e-9 * scale * scale:
            ctx.violation(kind + ':not_parallel', 'edge %d is not parallel to its original' % i, desc); return False
        # at distance |d| on the inner side for d > 0 (inner = left of a ccw edge)
        for pt in (a2, b2):
            sd = signed_dist_to_line(pt, a, b)
            want = d if ccw else -d
            if abs(sd - want) > 1e-9 * scale + 1e-7 * abs(d):
                ctx.violation(kind + ':distance', 'edge %d: offset vertex is at signed distance %r from the original edge, expected %r' % (
                    i, sd, want), desc); return False
    return True


def fam_offset(ctx, rng):
    convex = rng.random() < 0.5
    R = rng.choice([1.0, 10.0, 100.0])
    if convex:
        loop = G.convex_polygon(rng, n=rng.randint(3, 9), R=R)
        if loop is None:
            return
        f = fl(loop)
        dmax = 0.4 * float(X.area(f) / X.perimeter(f))
    else:
        loop = G.star_polygon(rng, n=rng.randint(4, 10), R=R, min_turn=0.15)
        if loop is None:
            return
        dmax = 0.2 * min_feature(loop)
    if dmax <= 1e-3 * R / 10:
        return
    d = rng.uniform(1e-3 * R / 10, dmax) * rng.choice([1, -1])
    if not convex and d < 0:
        d = d   # outward offsets of concave polygons are limited by the same feature size
    if rng.random() < 0.5: loop = loop[::-1]
    cw = X.shoelace2(fl(loop)) < 0
    desc = {'polygon': loop, 'distance': d}
    ctx.count('offset.polygon', key=('convex' if convex else 'concave', len(loop), d > 0, cw), sample=desc)
    kind = 'offset.polygon:%s' % ('convex' if convex else 'concave')
    try:
        r = Polygon2D([P2(p) for p in loop]).offset(d)
    except Exception as e:
        ctx.violation(kind + ':raises', '%r' % (e,), desc); return
    res = [(v.x, v.y) for v in r.vertices]
    if not check_offset_polygon(ctx, kind, loop, d, res, desc):
        return
    # inside for d > 0, outside for d < 0 (vertices, exact)
    fo = fl(loop)
    for p in res:
        ins = X.winding_inside(fo, X.fpt(p))
        if ins is None:
            continue
        if ins != (d > 0):
            ctx.violation(kind + ':side', 'offset vertex %r is %s the polygon for distance %r' % (p, 'inside' if ins else 'outside', d), desc); return
    # check_intersection=True must agree for these shallow distances (not None)
    try:
        r2 = Polygon2D([P2(p) for p in loop]).offset(d, check_intersection=True)
    except Exception as e:
        ctx.violation(kind + ':check_intersection:raises', '%r' % (e,), desc); return
    if r2 is None and d > 0:
        ctx.violation(kind + ':check_intersection:none', 'a shallow inward offset (%r, limit %r) was reported self-intersecting' % (d, dmax), desc)


def fam_offset_open(ctx, rng):
    if rng.random() < 0.4:
        a = G.rpt2(rng, 50); v = G.rvec2(rng, 10)
        if v[0] == 0 and v[1] == 0:
            return
        d = G.dy(rng.uniform(-5, 5))
        seg = LineSegment2D(P2(a), V2(v))
        desc = {'segment': (a, v), 'distance': d}
        ctx.count('offset.segment', key=(d > 0, v[0] == 0 or v[1] == 0), sample=desc)
        r = seg.offset(d)
        b = (a[0] + v[0], a[1] + v[1])
        for pt in ((r.p1.x, r.p1.y), (r.p2.x, r.p2.y)):
            sd = signed_dist_to_line(pt, a, b)
            if abs(sd - d) > 1e-9 * 100:
                ctx.violation('offset.segment:distance', 'offset end point at signed distance %r (left positive), expected %r' % (sd, d), desc); return
        if abs(r.length - seg.length) > 1e-9 * 100:
            ctx.violation('offset.segment:length', 'length changed from %r to %r' % (seg.length, r.length), desc)
        return
    # open polyline: a monotone chain with gentle turns
    n = rng.randint(3, 8)
    pts = [(0.0, 0.0)]
    ang = rng.uniform(0, 2 * math.pi)
    for _ in range(n - 1):
        ang += rng.uniform(-1.0, 1.0)
        L = rng.uniform(2.0, 6.0)
        pts.append((G.dy(pts[-1][0] + L * math.cos(ang)), G.dy(pts[-1][1] + L * math.sin(ang))))
    f = fl(pts)
    if not all(not X.segs_intersect(f[i], f[i + 1], f[j], f[j + 1]) for i in range(n - 1) for j in range(i + 2, n - 1)):
        return
    d = rng.uniform(0.01, 0.3) * rng.choice([1, -1])
    desc = {'polyline': pts, 'distance': d}
    ctx.count('offset.polyline', key=(n, d > 0), sample=desc)
    try:
        r = Polyline2D([P2(p) for p in pts]).offset(d)
    except Exception as e:
        ctx.violation('offset.polyline:raises', '%r' % (e,), desc); return
    res = [(v.x, v.y) for v in r.vertices]
    if len(res) != n:
        ctx.violation('offset.polyline:vertex_count', '%d vertices offset to %d' % (n, len(res)), desc); return
    for i in range(n - 1):
        for pt in (res[i], res[i + 1]):
            sd = signed_dist_to_line(pt, pts[i], pts[i + 1])
            if abs(sd - d) > 1e-9 * 100 + 1e-7 * abs(d):
                ctx.violation('offset.polyline:distance', 'segment %d: offset vertex at signed distance %r (left positive), expected %r' % (i, sd, d), desc)
                return


# ------------------------------------------------------------------ perimeter / core
def fam_perimeter_core(ctx, rng):
    R = rng.choice([10.0, 100.0])
    convex = rng.random() < 0.6
    loop = G.convex_polygon(rng, n=rng.randint(3, 8), R=R) if convex else G.star_polygon(rng, n=rng.randint(4, 9), R=R, min_turn=0.2)
    if loop is None:
        return
    f = fl(loop)
    nh = rng.choice([0, 0, 1, 2])
    holes = G.holes_in(rng, loop, nh) if nh else []
    # distance: shallow against the polygon and the gaps between holes and boundary
    lim = 0.4 * float(X.area(f) / X.perimeter(f)) if convex else 0.2 * min_feature(loop)
    for h in holes:
        fh = fl(h)
        lim = min(lim, 0.2 * math.sqrt(float(min(X.sqdist_to_boundary(f, p) for p in fh))))
        for o in holes:
            if o is not h:
                lim = min(lim, 0.2 * math.sqrt(float(min(X.sqdist_to_boundary(fl(o), p) for p in fh))))
    if lim < 1e-3:
        return
    d = rng.uniform(lim * 0.05, lim)
    if rng.random() < 0.5: loop = loop[::-1]
    hw = [X.shoelace2(fl(h)) < 0 for h in holes]
    desc = {'polygon': loop, 'holes': holes, 'distance': d, 'holes_clockwise': hw}
    ctx.count('perimeter_core', key=('convex' if convex else 'concave', len(loop), tuple(hw)), sample=desc)
    kind = 'perimeter_core:%s' % ('no_holes' if not holes else ('cw_hole' if any(hw) else 'ccw_holes'))
    try:
        per, core_ = Polygon2D.perimeter_core_by_offset(Polygon2D([P2(p) for p in loop]), d,
                                                        [Polygon2D([P2(p) for p in h]) for h in holes] if holes else None)
    except Exception as e:
        ctx.violation(kind + ':raises', '%r' % (e,), desc); return
    if per is None:
        ctx.violation(kind + ':none', 'a shallow distance (%r, limit %r) was rejected as too deep' % (d, lim), desc); return
    nseg = len(loop) + sum(len(h) for h in holes)
    if len(per) != nseg:
        ctx.violation(kind + ':count', '%d perimeter polygons for %d edges' % (len(per), nseg), desc); return
    area_region = float(X.area(f) - sum(X.area(fl(h)) for h in holes))
    a_per = sum(p.area for p in per)
    a_core = core_[0].area - sum(c.area for c in core_[1:])
    if abs(a_per + a_core - area_region) > 1e-9 * max(1.0, area_region):
        ctx.violation(kind + ':partition_area', 'perimeter %r + core %r != region %r' % (a_per, a_core, area_region), desc); return
    # every perimeter quad is a simple quad of width d along its outer edge, inside the region
    outs = [loop] + holes
    k = 0
    for li, lp in enumerate(outs):
        n = len(lp)
        for i in range(n):
            quad = [(v.x, v.y) for v in per[k].vertices]; k += 1
            a, b = lp[i], lp[(i + 1) % n]
            fq = fl(quad)
            if not X.is_simple(fq):
                ctx.violation(kind + ':quad_not_simple', 'perimeter polygon %d is self-intersecting' % (k - 1), desc); return
            on = [p for p in quad if abs(signed_dist_to_line(p, a, b)) < 1e-9 * R]
            off = [p for p in quad if abs(abs(signed_dist_to_line(p, a, b)) - d) < 1e-9 * R + 1e-7 * d]
            if len(on) != 2 or len(off) != 2:
                ctx.violation(kind + ':quad_shape', 'perimeter polygon %d does not span its outer edge and the offset edge at distance %r' % (k - 1, d), desc)
                return
            c = (sum(p[0] for p in quad) / 4.0, sum(p[1] for p in quad) / 4.0)
            if X.region_contains(f, [fl(h) for h in holes], X.fpt(c)) is False:
                ctx.violation(kind + ':quad_outside', 'perimeter polygon %d lies outside the region' % (k - 1), desc); return


def fam_perimeter_core_deep(ctx, rng):
    """two holes close to each other, distance between half their gap and the whole gap (deeper than the documented shallow range):
    the routine may refuse (None: too deep); whatever it returns instead must still be a partition - no two perimeter quads overlap"""
    R = 10.0
    loop = G.convex_polygon(rng, n=rng.randint(4, 8), R=R)
    if loop is None:
        return
    holes = G.holes_in(rng, loop, 2)
    if len(holes) != 2:
        return
    f = fl(loop); h0, h1 = fl(holes[0]), fl(holes[1])
    gap = math.sqrt(float(min([X.sqdist_to_boundary(h1, p) for p in h0] + [X.sqdist_to_boundary(h0, p) for p in h1])))
    wall = math.sqrt(float(min(X.sqdist_to_boundary(f, p) for p in h0 + h1)))
    if gap < 0.05 or gap > wall:
        return
    d = rng.uniform(0.55, 0.95) * gap
    if rng.random() < 0.5: holes = [h[::-1] for h in holes]
    if rng.random() < 0.5: holes = holes[::-1]
    desc = {'polygon': loop, 'holes': holes, 'distance': d, 'hole_gap': gap}
    kind = 'perimeter_core:deep'
    try:
        per, core_ = Polygon2D.perimeter_core_by_offset(Polygon2D([P2(p) for p in loop]), d, [Polygon2D([P2(p) for p in h]) for h in holes])
    except Exception as e:
        ctx.violation(kind + ':raises', '%r' % (e,), desc); return
    ctx.count('perimeter_core.deep', key=(len(loop), per is None), sample=dict(desc, refused=per is None), nontrivial=True)
    if per is None:
        return
    quads = [[(v.x, v.y) for v in p_.vertices] for p_ in per]
    if not tri_overlap_free(quads):
        ctx.violation(kind + ':quads_overlap', 'distance %r with holes %r apart was accepted, but perimeter polygons overlap one another' % (d, gap), desc)


# ------------------------------------------------------------------ sub faces
def tri_overlap_free(polys):
    """pairwise: no vertex of one strictly inside another, no proper edge crossing (exact)"""
    F = [fl(p) for p in polys]
    for i in range(len(F)):
        for j in range(i + 1, len(F)):
            a, b = F[i], F[j]
            if any(X.winding_inside(b, p) is True for p in a) or any(X.winding_inside(a, p) is True for p in b):
                return False
            for s in range(len(a)):
                for t in range(len(b)):
                    p1, p2, q1, q2 = a[s - 1], a[s], b[t - 1], b[t]
                    o1, o2 = X.orient(p1, p2, q1), X.orient(p1, p2, q2)
                    o3, o4 = X.orient(q1, q2, p1), X.orient(q1, q2, p2)
                    if o1 * o2 < 0 and o3 * o4 < 0:
                        return False
    return True


def shrink(p, c, k=1e-9):
    return (p[0] + (c[0] - p[0]) * k, p[1] + (c[1] - p[1]) * k)


def check_sub_faces(ctx, kind, frame, origin, boundary, holes, parent, subs, ratio, desc, total=True):
    from .C09 import to_lattice
    n = parent.normal
    loops2 = []
    for s in subs:
        if s.normal.dot(n) < 1 - 1e-9:
            ctx.violation(kind + ':normal', 'a sub-face normal differs from the parent normal', desc); return
        l2 = []
        for p in s.boundary:
            q2, h = to_lattice(frame, origin, p)
            if abs(h) > 1e-7:
                ctx.violation(kind + ':off_plane', 'a sub-face vertex is %r off the parent plane' % h, desc); return
            l2.append(q2)
        loops2.append(l2)
    if total:
        tot = sum(s.area for s in subs)
        if abs(tot - ratio * parent.area) > 1e-6 * parent.area:
            ctx.violation(kind + ':total_area', 'sub-face areas total %r, ratio x parent area = %r' % (tot, ratio * parent.area), desc); return
    fb = fl(boundary); fhs = [fl(h) for h in holes]
    for l2 in loops2:
        c = (sum(p[0] for p in l2) / len(l2), sum(p[1] for p in l2) / len(l2))
        for p in l2:
            ps = X.fpt(shrink(p, c))
            if X.region_contains(fb, fhs, ps) is False:
                where = 'inside a hole' if any(X.winding_inside(h, ps) for h in fhs) else 'outside the boundary'
                ctx.violation(kind + (':in_hole' if where == 'inside a hole' else ':outside'), 'sub-face vertex %r lies %s of the parent' % (p, where), desc); return
        fl2 = fl([shrink(p, c) for p in l2])
        for h in fhs:
            if any(X.winding_inside(fl2, p) is True for p in h) or any(
                    X.segs_intersect(fl2[i - 1], fl2[i], h[j - 1], h[j]) for i in range(len(fl2)) for j in range(len(h))):
                ctx.violation(kind + ':in_hole', 'a sub-face overlaps a hole of the parent', desc); return
        if any(X.segs_intersect(fl2[i - 1], fl2[i], fb[j - 1], fb[j]) for i in range(len(fl2)) for j in range(len(fb))):
            ctx.violation(kind + ':outside', 'a sub-face crosses the parent boundary', desc); return
    shr = []
    for l2 in loops2:
        c = (sum(p[0] for p in l2) / len(l2), sum(p[1] for p in l2) / len(l2))
        shr.append([shrink(p, c, 1e-7) for p in l2])
    if not tri_overlap_free(shr):
        ctx.violation(kind + ':overlap', 'sub-faces overlap one another', desc)


def wall_frame(rng):
    """(frame, class): vertical / tilted / horizontal rational frames with the 2D y axis pointing upward where possible"""
    cls = rng.choice(['vertical', 'vertical', 'tilted', 'horizontal'])
    if cls == 'horizontal':
        return ((1.0, 0.0, 0.0), (0.0, 1.0, 0.0), (0.0, 0.0, 1.0)), cls
    c, s, _ = G.pythagorean_angle(rng)
    c, s = float(c), float(s)
    if cls == 'vertical':
        # x horizontal (rotated about z), y = world z
        x = (c, s, 0.0); y = (0.0, 0.0, 1.0)
    else:
        c2, s2, _ = G.pythagorean_angle(rng)
        c2, s2 = abs(float(c2)), abs(float(s2))
        if s2 < 0.2 or c2 < 0.2:
            c2, s2 = 0.6, 0.8
        x = (c, s, 0.0); y = (-s * c2, c * c2, s2)
    n = (x[1] * y[2] - x[2] * y[1], x[2] * y[0] - x[0] * y[2], x[0] * y[1] - x[1] * y[0])
    return (x, y, n), cls


def wall_shape(rng):
    m = rng.choice(['rect', 'L', 'L', 'L', 'gable', 'gable', 'gable', 'convex', 'trapezoid', 'holed', 'holed_convex'])
    if m == 'rect':
        w, h = G.dy(rng.uniform(1, 12)), G.dy(rng.uniform(1, 6))
        return m, [(0.0, 0.0), (w, 0.0), (w, h), (0.0, h)], []
    if m == 'L':
        w, h = G.dy(rng.uniform(4, 12)), G.dy(rng.uniform(3, 8)); a, b = G.dy(w * rng.uniform(0.3, 0.7)), G.dy(h * rng.uniform(0.3, 0.7))
        lp = [(0.0, 0.0), (w, 0.0), (w, b), (a, b), (a, h), (0.0, h)]
        # every orientation of the L (leg up / down, left / right), keeping the loop counter-clockwise
        if rng.random() < 0.5: lp = [(w - x, y) for x, y in lp][::-1]
        if rng.random() < 0.5: lp = [(x, h - y) for x, y in lp][::-1]
        k = rng.randrange(len(lp)); lp = lp[k:] + lp[:k]
        return m, lp, []
    if m == 'gable':
        w, h = G.dy(rng.uniform(3, 12)), G.dy(rng.uniform(2, 5)); t = G.dy(rng.uniform(0.5, 3))
        if rng.random() < 0.35:
            # a hall-sized gable with a shallow ridge: the ridge rises by 0.1..0.6 % of the width (tens to hundreds of tolerances)
            w, h = G.dy(rng.uniform(300, 3000)), G.dy(rng.uniform(100, 900)); t = G.dy(w * rng.uniform(0.001, 0.006))
        lp = [(0.0, 0.0), (w, 0.0), (w, h), (G.dy(w * rng.choice([0.5, 0.3, 0.7])), h + t), (0.0, h)]
        which = rng.choice(['peak_up', 'peak_up', 'peak_down', 'pointed_left', 'pointed_right'])
        if which == 'peak_down': lp = [(x, h + t - y) for x, y in lp][::-1]
        elif which == 'pointed_left': lp = [(h + t - y, x) for x, y in lp]
        elif which == 'pointed_right': lp = [(y, x) for x, y in lp][::-1]
        k = rng.randrange(len(lp)); lp = lp[k:] + lp[:k]
        return m, lp, []
    if m == 'trapezoid':
        w, h = G.dy(rng.uniform(4, 12)), G.dy(rng.uniform(2, 5)); a = G.dy(rng.uniform(0.5, 1.5))
        return m, [(0.0, 0.0), (w, 0.0), (w - a, h), (a, h)], []
    if m == 'convex':
        lp = G.convex_polygon(rng, n=rng.randint(3, 8), R=10.0)
        return m, lp, []
    if m == 'holed':
        lp = G.star_polygon(rng, n=rng.randint(4, 9), R=10.0, min_turn=0.2)
        return m, lp, (G.holes_in(rng, lp, rng.randint(1, 2)) if lp else [])
    lp = G.convex_polygon(rng, n=rng.randint(4, 8), R=10.0)
    return m, lp, (G.holes_in(rng, lp, rng.randint(1, 2)) if lp else [])


def fam_sub_faces(ctx, rng):
    m, loop, holes = wall_shape(rng)
    if loop is None:
        return
    if m.startswith('holed') and not holes:
        return
    frame, fcls = wall_frame(rng)
    origin = G.rpt3(rng, 20)
    if rng.random() < 0.3: loop = loop[::-1]
    b3 = [P3(G.embed(frame, origin, p)) for p in loop]
    h3 = [[P3(G.embed(frame, origin, p)) for p in h] for h in holes]
    face = Face3D(b3, holes=h3) if h3 else Face3D(b3)
    ratio = G.dy(rng.uniform(0.01, 0.95), 8)
    which = rng.choice(['ratio', 'ratio', 'rectangle'] if max(abs(c) for p in loop for c in p) < 100 else ['ratio', 'rectangle', 'rectangle', 'rectangle'])
    desc = {'shape': m, 'boundary': loop, 'holes': holes, 'frame': frame, 'origin': origin, 'ratio': ratio, 'routine': which, 'plane': fcls}
    ctx.count('sub_faces.' + which, key=(m, fcls, round(ratio, 1)), sample=desc)
    kind = 'sub_faces.%s:%s' % (which, m)
    try:
        subs = face.sub_faces_by_ratio(ratio) if which == 'ratio' else face.sub_faces_by_ratio_rectangle(ratio, 0.01)
    except Exception as e:
        ctx.violation(kind + ':raises', '%r' % (e,), desc); return
    check_sub_faces(ctx, kind, frame, origin, loop, holes, face, subs, ratio, desc)


def fam_sub_rects(ctx, rng):
    frame, fcls = wall_frame(rng)
    origin = G.rpt3(rng, 20)
    x, y, n = frame
    pl = Plane(V3(n), P3(origin), V3(x))
    base, height = G.dy(rng.uniform(1, 20)), G.dy(rng.uniform(1, 8))
    parent = Face3D([P3(G.embed(frame, origin, p)) for p in [(0.0, 0.0), (base, 0.0), (base, height), (0.0, height)]], pl)
    boundary = [(0.0, 0.0), (base, 0.0), (base, height), (0.0, height)]
    which = rng.choice(['ratio', 'dimensions'])
    if which == 'ratio':
        ratio = G.dy(rng.uniform(0.01, 0.95), 8)
        srh = G.dy((rng.uniform(0.1, 1.5) if rng.random() < 0.7 else rng.uniform(0.97, 1.02)) * height, 16)
        sill = G.dy((rng.uniform(0.0, 0.9) if rng.random() < 0.7 else rng.choice([0.0, 0.005, 0.95, 0.999])) * height, 16)
        hsep = G.dy(rng.uniform(0.3, 8)); vsep = rng.choice([0, 0, G.dy(rng.uniform(0.0, 0.5) * height), G.dy(rng.uniform(0.5, 1.2) * height)])
        if rng.random() < 0.2:
            ratio = rng.choice([0.01, 0.95, 0.9375, 0.015625])
        desc = {'routine': 'sub_rects_from_rect_ratio', 'base': base, 'height': height, 'ratio': ratio, 'sub_rect_height': srh, 'sill_height': sill,
                'horizontal_separation': hsep, 'vertical_separation': vsep, 'frame': frame, 'origin': origin}
        target = base * height * ratio
        branch = ('subdivided' if target < base * 0.98 * min(srh, 0.98 * height) else 'single', vsep != 0)
        ctx.count('sub_rects.ratio', key=(branch, fcls), sample=desc)
        kind = 'sub_rects.ratio:%s' % branch[0]
        try:
            subs = Face3D.sub_rects_from_rect_ratio(pl, base, height, ratio, srh, sill, hsep, vsep)
        except Exception as e:
            ctx.violation(kind + ':raises', '%r' % (e,), desc); return
        check_sub_faces(ctx, kind, frame, origin, boundary, [], parent, subs, ratio, desc)
    else:
        # a third of the parameters sit at the edges of their ranges (just below / above the parent size, zero sill)
        srh = G.dy((rng.uniform(0.1, 1.3) if rng.random() < 0.7 else rng.uniform(0.97, 1.02)) * height, 16)
        srw = G.dy((rng.uniform(0.1, 1.3) if rng.random() < 0.7 else rng.uniform(0.97, 1.02)) * base, 16)
        sill = G.dy((rng.uniform(0.0, 0.9) if rng.random() < 0.7 else rng.choice([0.0, 0.005, 0.95, 0.999])) * height, 16)
        hsep = G.dy(rng.uniform(0.3, 8))
        desc = {'routine': 'sub_rects_from_rect_dimensions', 'base': base, 'height': height, 'sub_rect_height': srh, 'sub_rect_width': srw,
                'sill_height': sill, 'horizontal_separation': hsep, 'frame': frame, 'origin': origin}
        branch = 'subdivided' if srw < base / 2 else 'single'
        ctx.count('sub_rects.dimensions', key=(branch, fcls, srh >= height, srw >= base), sample=desc)
        kind = 'sub_rects.dimensions:%s' % branch
        try:
            subs = Face3D.sub_rects_from_rect_dimensions(pl, base, height, srh, srw, sill, hsep)
        except Exception as e:
            ctx.violation(kind + ':raises', '%r' % (e,), desc); return
        if not subs:
            ctx.violation(kind + ':empty', 'no sub-rectangle was returned', desc); return
        check_sub_faces(ctx, kind, frame, origin, boundary, [], parent, subs, None, desc, total=False)
        # stated size where the parameters fit
        if srh <= 0.98 * height and srw < base:
            for s in subs:
                from .C09 import to_lattice
                pts = [to_lattice(frame, origin, p)[0] for p in s.boundary]
                w = max(p[0] for p in pts) - min(p[0] for p in pts); h = max(p[1] for p in pts) - min(p[1] for p in pts)
                if abs(w - srw) > 1e-9 * 100 or abs(h - srh) > 1e-9 * 100:
                    ctx.violation(kind + ':size', 'sub-rectangle is %r x %r, requested %r x %r' % (w, h, srw, srh), desc); return


FAMILIES = [(fam_offset, 120), (fam_offset_open, 60), (fam_perimeter_core, 80), (fam_perimeter_core_deep, 120), (fam_sub_faces, 120), (fam_sub_rects, 120)]


def explore(ctx):
    for fn, n in FAMILIES:
        for _ in range(ctx.n(n, n * 10)):
            fn(ctx, ctx.rng)


def replay(ctx, data):
    kind = data.get('kind', '')
    c2 = core.Ctx(ctx.pid, 'quick', 47)
    for fn, _ in FAMILIES:
        for _ in range(2000):
            fn(c2, c2.rng)
            if any(v.kind == kind for v in c2.violations):
                return True
    return False


def correspond(ctx):
    """hand models of SubOffset.v (evaluated by vm_compute) against the implementation on the same inputs:
    (1) offset_move vs the vertex moved by Polygon2D.offset at a corner with rational unit directions and rational half angle,
    (2) quads vs the polygons returned by perimeter_core_by_offset (1e-8: segment end points are p + v in floats), (3) rects_ratio vs sub_rects_from_rect_ratio"""
    from .C09 import to_lattice
    rng = ctx.rng
    cases, meta = [], []
    gcases, gmeta = [], []
    # (1) one corner: u1 rational unit, (c, s) rational with s > 0 (convex c > 0 and reflex c < 0 corners)
    for _ in range(ctx.n(60, 400)):
        cu, su, _ = G.pythagorean_angle(rng)
        m_, n_ = rng.randint(1, 9), rng.randint(1, 9)
        c = Fraction(m_ * m_ - n_ * n_, m_ * m_ + n_ * n_); s_ = Fraction(2 * m_ * n_, m_ * m_ + n_ * n_)   # s > 0
        if abs(c) < Fraction(1, 10) or s_ < Fraction(1, 10):
            continue
        u1 = (cu, su)
        def rotm(v): return (c * v[0] + s_ * v[1], -s_ * v[0] + c * v[1])
        b = rotm(u1); u2 = rotm(b)
        p = (Fraction(G.dy(rng.uniform(-20, 20))), Fraction(G.dy(rng.uniform(-20, 20))))
        L1, L2 = Fraction(G.dy(rng.uniform(2, 8))), Fraction(G.dy(rng.uniform(2, 8)))
        R = 40
        prev = (p[0] + L1 * u1[0], p[1] + L1 * u1[1]); nxt = (p[0] + L2 * u2[0], p[1] + L2 * u2[1]); far = (p[0] + R * b[0], p[1] + R * b[1])
        loop = [tuple(float(x) for x in pt) for pt in (prev, p, nxt, far)]
        f = [X.fpt(pt) for pt in loop]
        if not (X.is_simple(f) and X.shoelace2(f) > 0):
            continue
        d = Fraction(G.dy(rng.uniform(0.01, 0.5))) * rng.choice([1, -1])
        try:
            r = Polygon2D([P2(pt) for pt in loop]).offset(float(d))
        except Exception:
            continue
        mv = (Fraction(r.vertices[1].x) - Fraction(loop[1][0]), Fraction(r.vertices[1].y) - Fraction(loop[1][1]))
        cases.append('close2 (offset_move %s %s %s %s) %s' % (core.v2(u1), q(c), q(s_), q(d), core.v2(mv)))
        meta.append(('Polygon2D.offset', loop, float(d)))
    # (2) perimeter quads
    for _ in range(ctx.n(40, 300)):
        loop = G.convex_polygon(rng, n=rng.randint(3, 8), R=10.0) if rng.random() < 0.6 else G.star_polygon(rng, n=rng.randint(4, 8), R=10.0, min_turn=0.2)
        f = fl(loop)
        d = 0.2 * (float(X.area(f) / X.perimeter(f)) if all(X.orient(f[i - 2], f[i - 1], f[i]) > 0 for i in range(len(f))) else min_feature(loop)) * rng.uniform(0.1, 1.0)
        if rng.random() < 0.5: loop = loop[::-1]
        pg = Polygon2D([P2(p) for p in loop])
        try:
            per, cr = Polygon2D.perimeter_core_by_offset(pg, d)
        except Exception:
            continue
        if per is None or len(cr[0].vertices) != len(loop):
            continue
        L = core.coq_list(['(%s, %s)' % (core.v2((a.x, a.y)), core.v2((b.x, b.y))) for a, b in zip(pg.vertices, cr[0].vertices)])
        P = core.coq_list([core.coq_list([core.v2((v.x, v.y)) for v in pp.vertices]) for pp in per])
        cases.append('loops_eqb (quads %s) %s' % (L, P))
        meta.append(('Polygon2D.perimeter_core_by_offset', loop, d))
    # (3) sub-rectangle layout
    for _ in range(ctx.n(80, 500)):
        frame, fcls = wall_frame(rng); origin = G.rpt3(rng, 20)
        x, y, n = frame
        pl = Plane(V3(n), P3(origin), V3(x))
        base, height = G.dy(rng.uniform(1, 20)), G.dy(rng.uniform(1, 8))
        ratio = G.dy(rng.uniform(0.01, 0.95), 8)
        srh = G.dy(rng.uniform(0.1, 1.5) * height); sill = G.dy(rng.uniform(0.0, 0.9) * height)
        hsep = G.dy(rng.uniform(0.3, 8)); vsep = rng.choice([0, 0, G.dy(rng.uniform(0.0, 0.5) * height)])
        if abs((base / hsep) % 1 - 0.5) < 1e-6:
            continue        # round() of a float quotient within 1e-6 of a tie: float and exact quotients may round differently
        try:
            subs = Face3D.sub_rects_from_rect_ratio(pl, base, height, ratio, srh, sill, hsep, vsep)
        except Exception:
            continue
        boxes = []
        for sf in subs:
            pts = [to_lattice(frame, origin, p)[0] for p in sf.boundary]
            boxes.append('(%s, %s, %s, %s)' % (q(min(p[0] for p in pts)), q(max(p[0] for p in pts)), q(min(p[1] for p in pts)), q(max(p[1] for p in pts))))
        cases.append('boxes_close (layout_boxes (rects_ratio %s %s %s %s %s %s %s)) %s' % (
            q(base), q(height), q(ratio), q(srh), q(sill), q(hsep), q(vsep), core.coq_list(boxes)))
        meta.append(('Face3D.sub_rects_from_rect_ratio', (base, height, ratio, srh, sill, hsep, vsep), fcls))
        # the GENERATED routine (translated from the source, run in the XY plane with the executable sqrt) against the hand model;
        # exact rationals grow quickly in the subdivision loop, so only layouts with at most 3 columns, six per run (24 in the thorough tier)
        gen_done = len(gmeta)
        if base / hsep > 3.4 or gen_done >= ctx.n(6, 24):
            continue
        gcases.append('boxes_close (layout_boxes (rects_ratio %s %s %s %s %s %s %s)) '
                     '(map face_box (Face3D_sub_rects_from_rect_ratio 400 qsqrt_exec xy_plane %s %s %s %s %s %s %s))' % (
                         q(base), q(height), q(ratio), q(srh), q(sill), q(hsep), q(vsep),
                         q(base), q(height), q(ratio), q(srh), q(sill), q(hsep), q(vsep)))
        gmeta.append(('generated Face3D_sub_rects_from_rect_ratio vs SubOffset.rects_ratio', (base, height, ratio, srh, sill, hsep, vsep), 'xy'))
    # (4) sub_rects_from_rect_dimensions against the layout model SubDims.rects_dims
    for _ in range(ctx.n(80, 500)):
        frame, fcls = wall_frame(rng); origin = G.rpt3(rng, 20)
        x, y, n = frame
        pl = Plane(V3(n), P3(origin), V3(x))
        base, height = G.dy(rng.uniform(1, 20)), G.dy(rng.uniform(1, 8))
        srh = G.dy((rng.uniform(0.1, 1.3) if rng.random() < 0.7 else rng.uniform(0.97, 1.02)) * height, 16)
        srw = G.dy((rng.uniform(0.1, 1.3) if rng.random() < 0.7 else rng.uniform(0.97, 1.02)) * base, 16)
        sill = G.dy((rng.uniform(0.0, 0.9) if rng.random() < 0.7 else rng.choice([0.0, 0.005, 0.95, 0.999])) * height, 16)
        hsep = G.dy(rng.uniform(0.3, 8))
        hs_eff = srw * 1.02 if srw >= hsep else hsep
        if abs((base / hs_eff) % 1 - 0.5) < 1e-6 or abs((base / hs_eff) % 1) < 1e-6 or abs((base / hs_eff) % 1 - 1) < 1e-6:
            continue        # float quotient within 1e-6 of a rounding / floor boundary
        try:
            subs = Face3D.sub_rects_from_rect_dimensions(pl, base, height, srh, srw, sill, hsep)
        except Exception:
            continue
        boxes = []
        for sf in subs:
            pts = [to_lattice(frame, origin, p)[0] for p in sf.boundary]
            boxes.append('(%s, %s, %s, %s)' % (q(min(p[0] for p in pts)), q(max(p[0] for p in pts)), q(min(p[1] for p in pts)), q(max(p[1] for p in pts))))
        cases.append('boxes_close (layout_boxes (rects_dims %s %s %s %s %s %s)) %s' % (
            q(base), q(height), q(srh), q(srw), q(sill), q(hsep), core.coq_list(boxes)))
        meta.append(('Face3D.sub_rects_from_rect_dimensions', (base, height, srh, srw, sill, hsep), fcls))
    pre = ('Definition eps : Q := 1 # 100000000.\n'
           'Definition closeq (a b : Q) : bool := Qle_bool (Qabs (a - b)) eps.\n'
           'Definition close2 (a b : V2) : bool := closeq (v2x a) (v2x b) && closeq (v2y a) (v2y b).\n'
           'Definition v2_eqb (a b : V2) : bool := close2 a b.   (* segment end points are recomputed as p + v in floating point *)\n'
           'Definition loop_eqb (a b : list V2) : bool := Nat.eqb (length a) (length b) && forallb (fun p => v2_eqb (fst p) (snd p)) (combine a b).\n'
           'Definition loops_eqb (a b : list (list V2)) : bool := Nat.eqb (length a) (length b) && forallb (fun p => loop_eqb (fst p) (snd p)) (combine a b).\n'
           'Definition layout_boxes (l : layout) : list (Q * Q * Q * Q) :=\n'
           '  flat_map (fun i => map (fun j => let cx := c0 l + inject_Z (Z.of_nat j) * pitch l in let yb := y0 l + inject_Z (Z.of_nat i) * rpitch l in\n'
           '     (cx - lw l / 2, cx + lw l / 2, yb, yb + lh l)) (seq 0 (Z.to_nat (cols l)))) (seq 0 (Z.to_nat (rows l))).\n'
           'Definition box_close (a b : Q * Q * Q * Q) : bool := let \'(a1, a2, a3, a4) := a in let \'(b1, b2, b3, b4) := b in '
           'closeq a1 b1 && closeq a2 b2 && closeq a3 b3 && closeq a4 b4.\n'
           'Definition xy_plane : PlaneR := mkPlane (mkV3 0 0 1) (mkV3 0 0 0) 0 (mkV3 1 0 0) (mkV3 0 1 0).\n'
           'Definition face_box (f : Face3R) : Q * Q * Q * Q := let xs := map v3x (f3_boundary f) in let ys := map v3y (f3_boundary f) in '
           '(py_min_list xs, py_max_list xs, py_min_list ys, py_max_list ys).\n'
           'Definition boxes_close (a b : list (Q * Q * Q * Q)) : bool := Nat.eqb (length a) (length b) && forallb (fun p => box_close (fst p) (snd p)) (combine a b).\n')
    res = core.run_cases('C19_corr', ['Base', 'QGeom', 'G0_vec', 'G1_shapes', 'G11_sub', 'SubOffset', 'SubDims'], pre, cases)
    res += core.run_cases('C19_corr_gen', ['Base', 'QGeom', 'G0_vec', 'G1_shapes', 'G11_sub', 'SubOffset', 'SubDims'], pre, gcases, chunk=1)
    meta += gmeta
    ctx.corr_cases += len(cases) + len(gcases)
    for ok, m in zip(res, meta):
        if ok is not True:
            ctx.corr_fail.append({'function': m[0], 'input': repr(m[1:]),
                                  'result': 'model and implementation differ' if ok is False else 'model evaluation failed'})
