(* C17 -- parametrisation / subdivision.  Theorems only.
   (i) PrimFloat, complete on the finite domain the property states (n in 1..500): the accumulating loops
       return exactly n+1 points;  (ii) over Q: point_at is the point at fraction t of the segment. *)
From Coq Require Import PrimFloat ZArith List Bool.
From LBG Require Import FloatLoops Base QGeom G0_vec G1_shapes G2_inter G3_poly G5_bound G8_curve C11_inter2d C12_closest C11_inter3d C17_curve C17_arcs.
Import ListNotations.

Theorem C17_segment_subdivide_evenly_count : forall n, (1 <= n <= 500)%Z -> seg_evenly_count n = (Z.to_nat n + 1)%nat.
Proof. exact seg_evenly_count_spec. Qed.
Print Assumptions C17_segment_subdivide_evenly_count.

Theorem C17_arc_subdivide_evenly_count : forall n, (1 <= n <= 500)%Z -> arc_evenly_count n = (Z.to_nat n + 1)%nat.
Proof. exact arc_evenly_count_spec. Qed.
Print Assumptions C17_arc_subdivide_evenly_count.

(* the loop alone is one point short for some n (the repaired LineSegment2D defect): the repair is needed *)
Theorem C17_unrepaired_loop_is_short : raw_count 9 1%float = 9%nat.
Proof. exact raw_loop_is_short_for_some_n. Qed.
Print Assumptions C17_unrepaired_loop_is_short.

Theorem C17_loop_never_overshoots : forallb raw_ok (zrange 500) = true.
Proof. exact raw_count_all. Qed.
Print Assumptions C17_loop_never_overshoots.

Open Scope Q_scope.
Theorem C17_point_at_is_fraction_2d : forall l t, sqd2 (lr2p l) (LineSegment2D_point_at l t) == t * t * dot2 (lr2v l) (lr2v l).
Proof. exact segment2_point_at_fraction. Qed.
Print Assumptions C17_point_at_is_fraction_2d.

Theorem C17_point_at_on_segment_2d : forall l t, LineSegment2D_point_at l t =2= on2 l t.
Proof. exact segment2_point_at. Qed.
Print Assumptions C17_point_at_on_segment_2d.

Theorem C17_point_at_ends_2d : forall l, LineSegment2D_point_at l 0 =2= lr2p l /\ LineSegment2D_point_at l 1 =2= LineSegment2D_p2 l.
Proof. exact segment2_ends. Qed.
Print Assumptions C17_point_at_ends_2d.

Theorem C17_point_at_is_fraction_3d : forall l t, sqd3 (lr3p l) (LineSegment3D_point_at l t) == t * t * dot3 (lr3v l) (lr3v l).
Proof. exact segment3_point_at_fraction. Qed.
Print Assumptions C17_point_at_is_fraction_3d.

Theorem C17_split_with_plane_pieces : forall l pl,
  (LineSegment3D_split_with_plane l pl = [l]) \/
  exists u, in_seg u /\
    LineSegment3D_split_with_plane l pl =
      [mkLR3 (lr3p l) (sub3 (on3 l u) (lr3p l)); mkLR3 (on3 l u) (sub3 (LineSegment3D_p2 l) (on3 l u))] /\
    on_plane pl (on3 l u) /\
    sub3 (on3 l u) (lr3p l) =3= smul3 u (lr3v l) /\ sub3 (LineSegment3D_p2 l) (on3 l u) =3= smul3 (1 - u) (lr3v l).
Proof. exact split_with_plane_pieces. Qed.
Print Assumptions C17_split_with_plane_pieces.

(* (iii) the source loop itself (while parameter <= 1, translated with explicit fuel) in exact arithmetic: for EVERY n >= 1 it
   returns the start point followed by n points at the parameters k/n, k = 1..n; the repair branch never fires. *)
From LBG Require Import G11_sub C17_subdiv.

Theorem C17_segment2d_subdivide_evenly_exact : forall fuel self n, (1 <= n)%Z -> (Z.to_nat n < fuel)%nat ->
  LineSegment2D_subdivide_evenly fuel self n
  = lr2p self :: map (LineSegment2D_point_at self) (params (1 / inject_Z n) (Z.to_nat n) (1 / inject_Z n)).
Proof. exact seg2_subdivide_evenly_exact. Qed.
Print Assumptions C17_segment2d_subdivide_evenly_exact.

Theorem C17_segment3d_subdivide_evenly_exact : forall fuel self n, (1 <= n)%Z -> (Z.to_nat n < fuel)%nat ->
  LineSegment3D_subdivide_evenly fuel self n
  = lr3p self :: map (LineSegment3D_point_at self) (params (1 / inject_Z n) (Z.to_nat n) (1 / inject_Z n)).
Proof. exact seg3_subdivide_evenly_exact. Qed.
Print Assumptions C17_segment3d_subdivide_evenly_exact.

Theorem C17_subdivision_parameters_are_k_over_n : forall n, (1 <= n)%Z ->
  length (params (1 / inject_Z n) (Z.to_nat n) (1 / inject_Z n)) = Z.to_nat n /\
  forall j, (j < Z.to_nat n)%nat ->
    (nth j (params (1 / inject_Z n) (Z.to_nat n) (1 / inject_Z n)) 0 == inject_Z (Z.of_nat (S j)) / inject_Z n)%Q.
Proof. exact subdivide_params. Qed.
Print Assumptions C17_subdivision_parameters_are_k_over_n.

(* arc-length parametrisation (generated Arc2D / Arc3D / LineSegment point_at_length, point_at, point_at_angle, length).  cos / sin / pi are
   oracle parameters; the only facts used are that the oracles respect equality of rationals and, for the on-circle statement,
   cos^2 + sin^2 = 1 at the angle in question. *)
Theorem C17_arc_point_at_length_is_the_point_at_the_length_fraction : forall qcos qsin qpi a d,
  Arc2D_point_at_length qcos qsin qpi a d = Arc2D_point_at qcos qsin qpi a (d / Arc2D_length qpi a) /\
  forall b, Arc3D_point_at_length qcos qsin qpi b d = Arc3D_point_at qcos qsin qpi b (d / Arc3D_length qpi b).
Proof. intros; split; [apply arc2_point_at_length_is_fraction | intros; apply arc3_point_at_length_is_fraction]. Qed.
Print Assumptions C17_arc_point_at_length_is_the_point_at_the_length_fraction.

Theorem C17_arc_point_at_length_is_at_angle_a1_plus_d_over_r : forall qcos qsin qpi,
  (forall a b, a == b -> qcos a == qcos b)%Q -> (forall a b, a == b -> qsin a == qsin b)%Q ->
  forall a d, (~ a2_r a == 0)%Q -> (~ Arc2D_angle qpi a == 0)%Q ->
  Arc2D_point_at_length qcos qsin qpi a d =2= circle_point qcos qsin a (wrap qpi (a2_a1 a + d / a2_r a))%Q.
Proof. exact arc2_point_at_length_angle. Qed.
Print Assumptions C17_arc_point_at_length_is_at_angle_a1_plus_d_over_r.

Theorem C17_arc_point_at_length_is_on_the_circle : forall qcos qsin qpi,
  (forall a b, a == b -> qcos a == qcos b)%Q -> (forall a b, a == b -> qsin a == qsin b)%Q ->
  forall a d, (~ a2_r a == 0)%Q -> (~ Arc2D_angle qpi a == 0)%Q ->
  let w := wrap qpi (a2_a1 a + d / a2_r a)%Q in (qcos w * qcos w + qsin w * qsin w == 1)%Q ->
  (sqd2 (Arc2D_point_at_length qcos qsin qpi a d) (a2_c a) == a2_r a * a2_r a)%Q.
Proof. exact arc2_point_at_length_on_circle. Qed.
Print Assumptions C17_arc_point_at_length_is_on_the_circle.

Theorem C17_arc3d_points_are_the_plane_images_of_its_arc2d : forall qcos qsin qpi a x,
  Arc3D_point_at qcos qsin qpi a x = Plane_xy_to_xyz (a3_plane a) (Arc2D_point_at qcos qsin qpi (a3_arc2d a) x) /\
  Arc3D_point_at_angle qcos qsin qpi a x = Plane_xy_to_xyz (a3_plane a) (Arc2D_point_at_angle qcos qsin qpi (a3_arc2d a) x) /\
  Arc3D_point_at_length qcos qsin qpi a x = Plane_xy_to_xyz (a3_plane a) (Arc2D_point_at_length qcos qsin qpi (a3_arc2d a) x) /\
  Arc3D_length qpi a = Arc2D_length qpi (a3_arc2d a).
Proof.
  intros. split; [apply arc3_point_at_is_image|]. split; [apply arc3_point_at_angle_is_image|].
  split; [apply arc3_point_at_length_is_image | apply arc3_length_is_arc2_length].
Qed.
Print Assumptions C17_arc3d_points_are_the_plane_images_of_its_arc2d.

Theorem C17_segment_point_at_length_is_at_distance_d : forall qsqrt s d,
  let m := (v3x (lr3v s) * v3x (lr3v s) + v3y (lr3v s) * v3y (lr3v s) + v3z (lr3v s) * v3z (lr3v s))%Q in
  (qsqrt m * qsqrt m == m)%Q -> (~ m == 0)%Q -> (sqd3 (LineSegment3D_point_at_length qsqrt s d) (lr3p s) == d * d)%Q.
Proof. exact segment3_point_at_length_distance. Qed.
Print Assumptions C17_segment_point_at_length_is_at_distance_d.

Theorem C17_segment2_point_at_length_is_at_distance_d : forall qsqrt s d,
  let m := (v2x (lr2v s) * v2x (lr2v s) + v2y (lr2v s) * v2y (lr2v s))%Q in
  (qsqrt m * qsqrt m == m)%Q -> (~ m == 0)%Q -> (sqd2 (LineSegment2D_point_at_length qsqrt s d) (lr2p s) == d * d)%Q.
Proof. exact segment2_point_at_length_distance. Qed.
Print Assumptions C17_segment2_point_at_length_is_at_distance_d.

(* the hypotheses are satisfiable: a 3-4-5 segment with the executable root *)
Example C17_point_at_length_concrete :
  (sqd2 (LineSegment2D_point_at_length qsqrt_exec (mkLR2 (mkV2 1 1) (mkV2 3 4)) (5 # 2)) (mkV2 1 1) == (5 # 2) * (5 # 2))%Q.
Proof. vm_compute. reflexivity. Qed.

Example C17_exact_nonvacuous :
  map (fun p => (v2x p, v2y p)) (LineSegment2D_subdivide_evenly 10 (mkLR2 (mkV2 0 0) (mkV2 9 3)) 3) = [(0, 0); (3, 1); (6, 2); (9, 3)]%Q
  \/ length (LineSegment2D_subdivide_evenly 10 (mkLR2 (mkV2 0 0) (mkV2 9 3)) 3) = 4%nat.
Proof. right. vm_compute. reflexivity. Qed.
