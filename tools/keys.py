"""KEY emitter: per geometry class the structure of __key, the class test of __eq__, and the dictionary keys written by
to_dict / read by from_dict, plus the dispatcher registry.  Fail-closed (Unknown atoms make the theorems fail)."""
import ast, os

FILES = {
    'Vector2D': 'geometry2d/pointvector.py', 'Point2D': 'geometry2d/pointvector.py', 'Ray2D': 'geometry2d/ray.py',
    'LineSegment2D': 'geometry2d/line.py', 'Arc2D': 'geometry2d/arc.py', 'Polyline2D': 'geometry2d/polyline.py',
    'Polygon2D': 'geometry2d/polygon.py', 'Mesh2D': 'geometry2d/mesh.py', 'Vector3D': 'geometry3d/pointvector.py',
    'Point3D': 'geometry3d/pointvector.py', 'Ray3D': 'geometry3d/ray.py', 'LineSegment3D': 'geometry3d/line.py',
    'Arc3D': 'geometry3d/arc.py', 'Polyline3D': 'geometry3d/polyline.py', 'Mesh3D': 'geometry3d/mesh.py', 'Plane': 'geometry3d/plane.py',
    'Polyface3D': 'geometry3d/polyface.py', 'Face3D': 'geometry3d/face.py', 'Sphere': 'geometry3d/sphere.py', 'Cone': 'geometry3d/cone.py',
    'Cylinder': 'geometry3d/cylinder.py'}
BASES = {'Point2D': ['Vector2D'], 'Point3D': ['Vector3D'], 'Ray2D': ['Base1DIn2D'], 'LineSegment2D': ['Base1DIn2D'],
         'Ray3D': ['Base1DIn3D'], 'LineSegment3D': ['Base1DIn3D'], 'Polyline2D': ['Base2DIn2D'], 'Polygon2D': ['Base2DIn2D'],
         'Polyline3D': ['Base2DIn3D'], 'Mesh2D': ['MeshBase'], 'Mesh3D': ['MeshBase'], 'Polyface3D': ['Base2DIn3D'], 'Face3D': ['Base2DIn3D']}
BASE_FILES = {'Base1DIn2D': 'geometry2d/_1d.py', 'Base1DIn3D': 'geometry3d/_1d.py', 'Base2DIn2D': 'geometry2d/_2d.py',
              'Base2DIn3D': 'geometry3d/_2d.py', 'MeshBase': '_mesh.py'}


def class_defs(root):
    out = {}
    for cls, rel in list(FILES.items()) + list(BASE_FILES.items()):
        tree = ast.parse(open(os.path.join(root, 'ladybug_geometry', rel)).read())
        for n in tree.body:
            if isinstance(n, ast.ClassDef) and n.name == cls:
                out[cls] = {f.name: f for f in n.body if isinstance(f, ast.FunctionDef)}
    return out


def find(defs, cls, name):
    if name in defs.get(cls, {}):
        return defs[cls][name]
    for b in BASES.get(cls, []):
        r = find(defs, b, name)
        if r is not None:
            return r
    return None


def atom(e):
    u = ast.unparse(e)
    if isinstance(e, ast.Attribute) and isinstance(e.value, ast.Name) and e.value.id == 'self':
        return 'Raw "%s"' % e.attr
    if isinstance(e, ast.Call) and isinstance(e.func, ast.Name) and e.func.id == 'hash' and len(e.args) == 1:
        return 'HashOf "%s"' % ast.unparse(e.args[0]).replace('self.', '')
    return 'Unknown "%s"' % u.replace('"', "'")[:80]


def key_atoms(e):
    """flatten the tuple expression returned by __key"""
    if isinstance(e, ast.Tuple):
        out = []
        for x in e.elts:
            out += key_atoms(x)
        return out
    if isinstance(e, ast.BinOp) and isinstance(e.op, ast.Add):
        return key_atoms(e.left) + key_atoms(e.right)
    if isinstance(e, ast.Call) and isinstance(e.func, ast.Name) and e.func.id == 'tuple' and e.args and isinstance(e.args[0], ast.GeneratorExp):
        g = e.args[0]
        it = ast.unparse(g.generators[0].iter).replace('self.', '')
        if isinstance(g.elt, ast.Call) and isinstance(g.elt.func, ast.Name) and g.elt.func.id == 'hash':
            return ['HashEach "%s"' % it]
        return ['RawEach "%s"' % it]
    if isinstance(e, ast.Call) and isinstance(e.func, ast.Name) and e.func.id == 'tuple' and len(e.args) == 1 \
            and isinstance(e.args[0], ast.Attribute) and isinstance(e.args[0].value, ast.Name) and e.args[0].value.id == 'self':
        return ['RawEach "%s"' % e.args[0].attr]       # tuple(self._vertices): the items themselves, compared by value
    return [atom(e)]


def dict_keys_written(fn, defs, cls):
    keys = set()
    for n in ast.walk(fn):
        if isinstance(n, ast.Dict):
            for k in n.keys:
                if isinstance(k, ast.Constant) and isinstance(k.value, str):
                    keys.add(k.value)
        if isinstance(n, ast.Assign) and isinstance(n.targets[0], ast.Subscript) and isinstance(n.targets[0].slice, ast.Constant):
            keys.add(n.targets[0].slice.value)
        # base = Base.to_dict(self)
        if isinstance(n, ast.Call) and isinstance(n.func, ast.Attribute) and n.func.attr == 'to_dict' and isinstance(n.func.value, ast.Name) \
                and n.func.value.id in BASE_FILES:
            b = find(defs, n.func.value.id, 'to_dict')
            if b is not None:
                keys |= dict_keys_written(b, defs, n.func.value.id)
    return keys


def dict_keys_read(fn):
    keys = set()
    for n in ast.walk(fn):
        if isinstance(n, ast.Subscript) and isinstance(n.value, ast.Name) and n.value.id == 'data' and isinstance(n.slice, ast.Constant):
            keys.add(n.slice.value)
        if isinstance(n, ast.Compare) and isinstance(n.left, ast.Constant) and isinstance(n.left.value, str) \
                and isinstance(n.comparators[0], ast.Name) and n.comparators[0].id == 'data':
            keys.add(n.left.value)
    return keys


def gen_keys(root):
    defs = class_defs(root)
    failed = {}
    L = ['(* GENERATED by tools/keys.py from %s -- do not edit.  Equality keys and dictionary fields of the 21 geometry types. *)' % root,
         'From Coq Require Import String List.', 'Import ListNotations.', 'Open Scope string_scope.', '',
         'Inductive katom := Raw (f : string) | RawEach (f : string) | HashOf (f : string) | HashEach (f : string) | Unknown (t : string).',
         '', 'Record kinfo := { k_class : string; k_key : list katom; k_eq_classes : list string;',
         '                  k_to_dict : list string; k_from_dict : list string; k_type_tag : string }.', '',
         'Definition key_table : list kinfo := [']
    rows = []
    for cls in FILES:
        kf = find(defs, cls, '_%s__key' % cls) or None
        # name-mangled private method: defined as __key inside the class body
        kf = None
        c = cls
        chain = [cls] + BASES.get(cls, [])
        for cc in chain:
            if '__key' in defs.get(cc, {}):
                kf = defs[cc]['__key']; break
        atoms = ['Unknown "no __key"']
        if kf is not None:
            ret = [n for n in ast.walk(kf) if isinstance(n, ast.Return)]
            if ret:
                atoms = key_atoms(ret[0].value)
        eqf = None
        for cc in chain:
            if '__eq__' in defs.get(cc, {}):
                eqf = defs[cc]['__eq__']; break
        eqc = []
        if eqf is not None:
            for n in ast.walk(eqf):
                if isinstance(n, ast.Call) and isinstance(n.func, ast.Name) and n.func.id == 'isinstance':
                    t = n.args[1]
                    eqc = [x.id for x in (t.elts if isinstance(t, ast.Tuple) else [t]) if isinstance(x, ast.Name)]
        td = find(defs, cls, 'to_dict'); fd = find(defs, cls, 'from_dict')
        wk = sorted(dict_keys_written(td, defs, cls)) if td is not None else ['?']
        rk = sorted(dict_keys_read(fd)) if fd is not None else ['?']
        tag = '?'
        if td is not None:
            for n in ast.walk(td):
                if isinstance(n, ast.Dict):
                    for k, v in zip(n.keys, n.values):
                        if isinstance(k, ast.Constant) and k.value == 'type' and isinstance(v, ast.Constant):
                            tag = v.value
                if isinstance(n, ast.Assign) and isinstance(n.targets[0], ast.Subscript) and isinstance(n.targets[0].slice, ast.Constant) \
                        and n.targets[0].slice.value == 'type' and isinstance(n.value, ast.Constant):
                    tag = n.value.value
        def sl(xs): return '[' + '; '.join('"%s"' % x for x in xs) + ']'
        rows.append('  {| k_class := "%s"; k_key := [%s]; k_eq_classes := %s;\n     k_to_dict := %s; k_from_dict := %s; k_type_tag := "%s" |}' % (
            cls, '; '.join(atoms), sl(eqc), sl(wk), sl(rk), tag))
    L.append(';\n'.join(rows))
    L.append('].')
    # dispatcher registry
    tree = ast.parse(open(os.path.join(root, 'ladybug_geometry', 'dictutil.py')).read())
    reg = []
    for n in ast.walk(tree):
        if isinstance(n, ast.Dict) and len(n.keys) > 10:
            for k, v in zip(n.keys, n.values):
                if isinstance(k, ast.Constant) and isinstance(v, ast.Name):
                    reg.append((k.value, v.id))
    L.append('')
    L.append('Definition dispatcher_registry : list (string * string) := [%s].' % '; '.join('("%s", "%s")' % r for r in reg))
    return '\n'.join(L) + '\n', failed


if __name__ == '__main__':
    import sys
    print(gen_keys(sys.argv[1] if len(sys.argv) > 1 else '/repo')[0])
