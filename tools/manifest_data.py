NOTES = ('All checks: ./check <id>; regenerates coq/gen/*.v from /repo, rebuilds the theorems, runs model/implementation '
         'correspondence inside Coq (vm_compute) and an exact-rational search of the implementation. See DESIGN.md.')
NOT_APPLICABLE = {}
T_Q = ('machine-checked Coq theorems over Q about definitions generated from the source by a fail-closed translator; '
       'vm_compute correspondence; exact-rational search for replays')
CLAIMED = {
    'C02': dict(
        text='The point/vector kernels every transform is built from are proved (for every angle, axis, normal, factor and '
             'point, no bound) to be the stated isometry / similarity (inner products, orientation, Rodrigues/Householder form, '
             'inverses, k^2 / k^3 laws); the theorems are about Gallina regenerated from pointvector.py on each run. '
             'Per-class behaviour of all 21 classes x 5 transforms is searched against an independent exact reference.',
        note='Trusted: Coq kernel, py2coq translator, harness. cos/sin/sqrt enter as function parameters with pointwise hypotheses '
             '(cos^2+sin^2==1, sqrt(x)^2==x). Class-level composition (which kernel is applied to which field) is proved only for the '
             'classes listed in props/C02.v, the rest is validated by the exploration.',
        technique=T_Q),
}
