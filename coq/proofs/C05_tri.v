(* C05: earcut's predicates mean what they should, ear removal / fans conserve area.  About gen/G6_tri.v. *)
From LBG Require Import Base QGeom ListCyc G0_vec G1_shapes G2_inter G3_poly G6_tri C01_area.
Open Scope Q_scope.

(* _area(p,q,r) is minus twice the signed area of (p,q,r): its sign is the orientation *)
Theorem earcut_area_is_orientation p q r : earcut_area p q r == - det2 (sub2 q p) (sub2 r p).
Proof. unfold earcut_area, det2, sub2. vred. ring. Qed.

(* _point_in_triangle, for a counter-clockwise triangle: inside or on the boundary iff the three barycentric
   signs are non-negative *)
Theorem point_in_triangle_iff a b c p :
  earcut_point_in_triangle (v2x a) (v2y a) (v2x b) (v2y b) (v2x c) (v2y c) (v2x p) (v2y p) = true <->
  0 <= det2 (sub2 a p) (sub2 b p) /\ 0 <= det2 (sub2 b p) (sub2 c p) /\ 0 <= det2 (sub2 c p) (sub2 a p).
Proof.
  unfold earcut_point_in_triangle. rewrite !andb_true_iff, !Qle_bool_iff.
  assert (E1 : (v2x c - v2x p) * (v2y a - v2y p) - (v2x a - v2x p) * (v2y c - v2y p) == det2 (sub2 c p) (sub2 a p))
    by (unfold det2, sub2; vred; ring).
  assert (E2 : (v2x a - v2x p) * (v2y b - v2y p) - (v2x b - v2x p) * (v2y a - v2y p) == det2 (sub2 a p) (sub2 b p))
    by (unfold det2, sub2; vred; ring).
  assert (E3 : (v2x b - v2x p) * (v2y c - v2y p) - (v2x c - v2x p) * (v2y b - v2y p) == det2 (sub2 b p) (sub2 c p))
    by (unfold det2, sub2; vred; ring).
  rewrite E1, E2, E3. tauto.
Qed.

(* those three signs are barycentric coordinates: they sum to the triangle's (twice) area, so for a positively
   oriented triangle the test says p = convex combination of a, b, c *)
Theorem barycentric_sum a b c p :
  det2 (sub2 a p) (sub2 b p) + det2 (sub2 b p) (sub2 c p) + det2 (sub2 c p) (sub2 a p) == det2 (sub2 b a) (sub2 c a).
Proof. unfold det2, sub2. vred. ring. Qed.

(* _intersects: in general position (no three of the four points collinear, segments not equal)
   true iff the two segments cross properly *)
Definition side (p q r : V2) : Q := det2 (sub2 q p) (sub2 r p).
Theorem intersects_iff_proper_crossing p1 q1 p2 q2 :
  ~ side p1 q1 p2 == 0 -> ~ side p1 q1 q2 == 0 -> ~ side p2 q2 p1 == 0 -> ~ side p2 q2 q1 == 0 ->
  (earcut_intersects p1 q1 p2 q2 = true <->
   side p1 q1 p2 * side p1 q1 q2 < 0 /\ side p2 q2 p1 * side p2 q2 q1 < 0).
Proof.
  intros H1 H2 H3 H4. unfold earcut_intersects.
  assert (NE : forall a b c, ~ side a b c == 0 -> earcut_equals a b = false).
  { intros a b c H. unfold earcut_equals. destruct (Qeq_bool (v2x a) (v2x b)) eqn:E1; [|reflexivity].
    destruct (Qeq_bool (v2y a) (v2y b)) eqn:E2; [|reflexivity]. exfalso. apply H.
    apply Qeq_bool_iff in E1, E2. unfold side, det2, sub2. vred. rewrite E1, E2. ring. }
  rewrite (NE p1 q1 p2 H1). cbn [andb orb].
  assert (NE2 : earcut_equals p1 q2 && earcut_equals p2 q1 = false).
  { destruct (earcut_equals p1 q2) eqn:E; [|reflexivity]. cbn [andb].
    unfold earcut_equals in E. apply andb_true_iff in E. destruct E as [E1 E2]. apply Qeq_bool_iff in E1, E2.
    exfalso. apply H2. unfold side, det2, sub2. vred. rewrite E1, E2. ring. }
  rewrite NE2.
  rewrite !(earcut_area_is_orientation). fold (side p1 q1 p2) (side p1 q1 q2) (side p2 q2 p1) (side p2 q2 q1).
  set (a := side p1 q1 p2) in *; set (b := side p1 q1 q2) in *; set (c := side p2 q2 p1) in *; set (d := side p2 q2 q1) in *.
  rewrite andb_true_iff, !negb_true_iff.
  assert (S : forall x y, ~ x == 0 -> ~ y == 0 -> (Bool.eqb (Qlt_bool 0 (- x)) (Qlt_bool 0 (- y)) = false <-> x * y < 0)).
  { intros x y Hx Hy.
    assert (Px : 0 < x \/ x < 0) by (destruct (Qlt_le_dec 0 x); [left; assumption| right; destruct (Qlt_le_dec x 0); [assumption| exfalso; apply Hx; lra]]).
    assert (Py : 0 < y \/ y < 0) by (destruct (Qlt_le_dec 0 y); [left; assumption| right; destruct (Qlt_le_dec y 0); [assumption| exfalso; apply Hy; lra]]).
    destruct (Qlt_bool 0 (- x)) eqn:Ex, (Qlt_bool 0 (- y)) eqn:Ey; cbn [Bool.eqb];
    repeat match goal with
    | H : Qlt_bool _ _ = true |- _ => apply Qlt_bool_iff in H
    | H : Qlt_bool _ _ = false |- _ => apply Qlt_bool_false_iff in H
    end; destruct Px as [Px|Px], Py as [Py|Py]; try lra; split; intro K; try discriminate; try reflexivity; try nra. }
  rewrite (S a b H1 H2), (S c d H3 H4). tauto.
Qed.

(* ---- area conservation of the elementary steps ---- *)
(* cutting the ear (a, b, c): the ring loses vertex b and its signed area drops by the ear's *)
Theorem ear_step_area a b c r :
  shoelace2 (a :: b :: c :: r) == shoelace2 (a :: c :: r) + det2 (sub2 b a) (sub2 c a).
Proof.
  unfold shoelace2, cyc_sum.
  assert (L1 : last (a :: b :: c :: r) a = last (c :: r) a) by reflexivity.
  assert (L2 : last (a :: c :: r) a = last (c :: r) a) by reflexivity.
  rewrite L1, L2. rewrite !path_sum_cons. unfold det2, sub2. vred. ring.
Qed.

(* the convex shortcut of Mesh2D.from_polygon_triangulated: the fan (v0, vi, vi+1) sums to the polygon *)
Theorem fan_area_sum v0 l :
  shoelace2 (v0 :: l) == path_sum (fun p q => det2 (sub2 p v0) (sub2 q v0)) l.
Proof.
  rewrite (shoelace_is_fan_sum v0). unfold cyc_sum.
  assert (Z : forall p, det2 (sub2 p v0) (sub2 v0 v0) == 0) by (intro p; unfold det2, sub2; vred; ring).
  assert (Z' : forall p, det2 (sub2 v0 v0) (sub2 p v0) == 0) by (intro p; unfold det2, sub2; vred; ring).
  rewrite Z. destruct l as [|x r]; [cbn; ring|].
  rewrite path_sum_cons, Z'. ring.
Qed.

(* splitting a ring along a diagonal (a, b): the two parts' areas add up (this is what _split_earcut relies on) *)
Lemma path_sum_app_mid {A} (f : A -> A -> Q) l x r : path_sum f (l ++ x :: r) == path_sum f (l ++ [x]) + path_sum f (x :: r).
Proof.
  induction l as [|y l IH].
  - cbn. ring.
  - destruct l as [|z l].
    + cbn [app]. rewrite (path_sum_cons f y x r), (path_sum_cons f y x []). cbn [path_sum]. ring.
    + change ((y :: z :: l) ++ x :: r) with (y :: z :: (l ++ x :: r)).
      change ((y :: z :: l) ++ [x]) with (y :: z :: (l ++ [x])).
      rewrite (path_sum_cons f y z (l ++ x :: r)), (path_sum_cons f y z (l ++ [x])).
      change (z :: l ++ x :: r) with ((z :: l) ++ x :: r). change (z :: l ++ [x]) with ((z :: l) ++ [x]).
      rewrite IH. ring.
Qed.

Theorem split_ring_area a l1 b l2 :
  shoelace2 (a :: l1 ++ b :: l2) == shoelace2 (a :: l1 ++ [b]) + shoelace2 (b :: l2 ++ [a]).
Proof.
  unfold shoelace2, cyc_sum.
  assert (L1 : last (a :: l1 ++ b :: l2) a = last (b :: l2) a).
  { change (a :: l1 ++ b :: l2) with ((a :: l1) ++ b :: l2). rewrite last_app_ne; [reflexivity| discriminate]. }
  assert (L2 : last (a :: l1 ++ [b]) a = b).
  { change (a :: l1 ++ [b]) with ((a :: l1) ++ [b]). apply last_last. }
  assert (L3 : last (b :: l2 ++ [a]) b = a).
  { change (b :: l2 ++ [a]) with ((b :: l2) ++ [a]). apply last_last. }
  rewrite L1, L2, L3.
  change (a :: l1 ++ b :: l2) with ((a :: l1) ++ b :: l2). rewrite path_sum_app_mid.
  change (b :: l2 ++ [a]) with ((b :: l2) ++ [a]).
  rewrite (path_sum_snoc det2 (b :: l2) a a) by discriminate.
  cbn [app]. unfold det2. ring.
Qed.
