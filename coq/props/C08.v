(* C08 -- point containment.  PARTIAL: that crossing parity equals containment (Jordan curve theorem) is
   not proved; it is validated against the exact half-open winding rule by the harness. *)
From LBG Require Import Base QGeom ListCyc G0_vec G1_shapes G2_inter G3_poly G7_contain C11_inter2d C08_contain.
Open Scope Q_scope.

Theorem C08_is_point_inside_is_crossing_parity : forall p pt v,
  Polygon2D_is_point_inside p pt v = Nat.odd (crossing_count p pt v).
Proof. exact is_point_inside_is_crossing_parity. Qed.
Print Assumptions C08_is_point_inside_is_crossing_parity.

Theorem C08_crossing_test_sound : forall s ray, crosses ray s = true ->
  exists ua ub, in_seg ua /\ in_ray ub /\ on2 s ua =2= on2 ray ub.
Proof. exact crossing_test_geometric. Qed.
Print Assumptions C08_crossing_test_sound.

Theorem C08_crossing_test_complete : forall s ray ua ub,
  ~ det_lr s ray == 0 -> in_seg ua -> in_ray ub -> on2 s ua =2= on2 ray ub -> crosses ray s = true.
Proof. exact crossing_test_complete. Qed.
Print Assumptions C08_crossing_test_complete.

Theorem C08_bound_rect_variant : forall p pt v,
  Polygon2D_is_point_inside_bound_rect p pt v =
  if (Qlt_bool (v2x pt) (v2x (Base2DIn2D_min p)) || Qlt_bool (v2y pt) (v2y (Base2DIn2D_min p))
      || Qlt_bool (v2x (Base2DIn2D_max p)) (v2x pt) || Qlt_bool (v2y (Base2DIn2D_max p)) (v2y pt))
  then false else Polygon2D_is_point_inside p pt v.
Proof. exact bound_rect_variant. Qed.
Print Assumptions C08_bound_rect_variant.

Theorem C08_point_relationship_cases : forall qsqrt p pt tol,
  Polygon2D_point_relationship qsqrt p pt tol =
  if Polygon2D_is_point_on_edge qsqrt p pt tol then 0%Z
  else if Polygon2D_is_point_inside_bound_rect_2 p pt then 1%Z else (-1)%Z.
Proof. exact point_relationship_cases. Qed.
Print Assumptions C08_point_relationship_cases.

Theorem C08_on_edge_iff_some_segment_within_tolerance : forall qsqrt p pt tol,
  Polygon2D_is_point_on_edge qsqrt p pt tol =
  existsb (fun s => Qle_bool (Point2D_distance_to_point qsqrt pt (closest_point2d_on_line2d_seg pt s)) tol) (Polygon2D_segments p).
Proof. exact on_edge_iff_some_segment_within_tol. Qed.
Print Assumptions C08_on_edge_iff_some_segment_within_tolerance.

Example C08_nonvacuous :
  let sq := mkPolygon2 [mkV2 0 0; mkV2 4 0; mkV2 4 4; mkV2 0 4] in
  Polygon2D_is_point_inside sq (mkV2 1 1) (mkV2 1 (1 # 100000)) = true /\
  Polygon2D_is_point_inside sq (mkV2 5 1) (mkV2 1 (1 # 100000)) = false /\
  crossing_count sq (mkV2 (-1) 1) (mkV2 1 (1 # 100000)) = 2%nat.
Proof. vm_compute. repeat split; reflexivity. Qed.
